From BV Require Import Model.EventTree.

Fixpoint all_built (r : bool) (l : list enode) : Prop := match l with [] => True | k :: t => built_with r k /\ all_built r t end.

Lemma built_sub r r' kids : built_with r (ESub r' kids) <-> r' = r /\ all_built r kids.
Proof. cbn [built_with]. split; intros [A B]; split; auto; induction kids; cbn in *; tauto. Qed.

(* induction over the tree with its lists of children *)
Lemma reached_all_gen : forall n, built_with true n -> reached n = catches n.
Proof.
  fix IH 1. intros [id|r kids] B.
  - reflexivity.
  - apply built_sub in B. destruct B as [-> B]. cbn [reached catches].
    induction kids as [|k kids IHk]; cbn [flat_map]; auto.
    destruct B as [Bk Bt]. rewrite (IH k Bk), (IHk Bt). reflexivity.
Qed.

(** every catch event, at whatever depth of embedded sub-processes, is reached by an event handed to the instance *)
Theorem every_catch_event_reached top : all_built true top -> deliver top = flat_map catches top.
Proof.
  unfold deliver. induction top as [|n top IH]; cbn [all_built flat_map]; auto.
  intros [B Bt]. rewrite (reached_all_gen n B), (IH Bt). reflexivity.
Qed.

(* the code as found: a catch event inside a sub-process is never reached *)
Theorem refuted_unregistered_subprocess :
  deliver [ECatch 1; ESub false [ECatch 2; ESub false [ECatch 3]]] = [1] /\
  deliver [ECatch 1; ESub true [ECatch 2; ESub true [ECatch 3]]] = [1; 2; 3].
Proof. split; reflexivity. Qed.
