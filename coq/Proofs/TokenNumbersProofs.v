From BV Require Import Model.TokenNumbers.

Lemma in_remove_nth {A} (l : list A) k x : In x (remove_nth l k) -> In x l.
Proof.
  revert k; induction l as [|a l IH]; intros [|k]; cbn; auto. intros [->|H]; eauto.
Qed.
Lemma nodup_remove_nth {A} (l : list A) k : NoDup l -> NoDup (remove_nth l k).
Proof.
  revert k; induction l as [|a l IH]; intros [|k] H; cbn; auto; inversion H; subst; auto.
  constructor; auto. intros I. apply H2. eapply in_remove_nth; eauto.
Qed.
Lemma nodup_snoc {A} (l : list A) x : NoDup l -> ~ In x l -> NoDup (l ++ [x]).
Proof.
  induction l as [|a l IH]; cbn; intros ND N.
  - repeat constructor; auto.
  - inversion ND; subst. constructor.
    + intros I. apply in_app_or in I. destruct I as [I|[->|[]]]; auto.
    + apply IH; auto.
Qed.

Definition HInv (s : hst) : Prop := NoDup (inside_ s) /\ forall n, In n (inside_ s) -> n <= counter s.

Lemma hinv_step s l : HInv s -> HInv (hstep true s l).
Proof.
  intros [ND B]. destruct l as [|k]; unfold HInv; cbn.
  - split.
    + apply nodup_snoc; auto. intros I. specialize (B _ I). lia.
    + intros n I. apply in_app_or in I. destruct I as [I|[E|[]]]; [specialize (B _ I); lia|subst; lia].
  - split; [apply nodup_remove_nth; auto|]. intros n I. apply B. eapply in_remove_nth; eauto.
Qed.

(** the tokens inside an activity always carry pairwise different numbers, whatever the order in which tokens
    enter and leave: an answer can only find its own token *)
Theorem numbers_distinct p : NoDup (inside_ (hrun true p)).
Proof.
  unfold hrun. assert (G : forall p s, HInv s -> HInv (fold_left (hstep true) p s)).
  { induction p0 as [|l p0 IH]; intros s I; cbn [fold_left]; auto. apply IH, hinv_step, I. }
  apply (G p hinit). split; cbn; [constructor|tauto].
Qed.

(* numbered by the count of tokens inside: two inside, the older leaves, a third enters — two tokens share a number *)
Theorem refuted_numbered_by_count :
  inside_ (hrun false [HEnter; HEnter; HLeave 0; HEnter]) = [2; 2] /\ inside_ (hrun true [HEnter; HEnter; HLeave 0; HEnter]) = [2; 3].
Proof. split; reflexivity. Qed.

(* ---------------- over the whole life of the activity ---------------- *)
Definition HInv2 (s : hst2) : Prop := NoDup (issued2 s) /\ forall n, In n (issued2 s) -> n <= counter2 s.

Lemma hinv2_step s l : HInv2 s -> HInv2 (hstep2 false s l).
Proof.
  intros [ND B]. destruct l as [|k]; unfold HInv2; cbn.
  - split.
    + apply nodup_snoc; auto. intros I. specialize (B _ I). lia.
    + intros n I. apply in_app_or in I. destruct I as [I|[E|[]]]; [specialize (B _ I); lia|subst; lia].
  - split; assumption.
Qed.

(** no number is ever issued twice, whatever the order in which tokens enter and leave (or are withdrawn): a late answer
    can only find its own token, or nobody *)
Theorem numbers_never_reused p : NoDup (issued2 (hrun2 false p)).
Proof.
  unfold hrun2. assert (G : forall p s, HInv2 s -> HInv2 (fold_left (hstep2 false) p s)).
  { induction p0 as [|l p0 IH]; intros s I; cbn [fold_left]; auto. apply IH, hinv2_step, I. }
  apply (G p hinit2). split; cbn; [constructor|tauto].
Qed.

(* a counter that starts again when the activity is empty: a token enters, is withdrawn, another one enters -- it gets
   the withdrawn token's number, whose late answer is then taken for its own *)
Theorem refuted_counter_set_back :
  issued2 (hrun2 true [HEnter; HLeave 0; HEnter]) = [1; 1] /\ issued2 (hrun2 false [HEnter; HLeave 0; HEnter]) = [1; 2].
Proof. split; reflexivity. Qed.
