From BV Require Import Model.Tracer Model.TracerEnd Proofs.TracerProofs.

Lemma ended_stays m cs : forall st, ended st = true -> fold_left (estep m) cs st = st.
Proof.
  induction cs as [|c cs IH]; intros st H; [reflexivity|].
  cbn [fold_left]. assert (E : estep m st c = st) by (unfold estep; rewrite H; reflexivity).
  rewrite E. apply IH. exact H.
Qed.

Lemma waits_is_the_plain_loop cs : forall st, ended st = false ->
  core (fold_left (estep Waits) cs st) = fold_left step (live (senders st) (cancelled st) cs) (core st).
Proof.
  induction cs as [|c cs IH]; intros st H; [reflexivity|].
  cbn [fold_left]. destruct c as [s|s|t u| |]; cbn [live].
  - cbn [fold_left]. unfold estep at 2. rewrite H. rewrite IH by reflexivity. reflexivity.
  - cbn [fold_left]. unfold estep at 2. rewrite H. rewrite IH by reflexivity. reflexivity.
  - cbn [fold_left]. unfold estep at 2. rewrite H. rewrite IH by reflexivity. reflexivity.
  - unfold estep at 2. rewrite H. destruct (senders st =? 0) eqn:E.
    + rewrite ended_stays by reflexivity. reflexivity.
    + rewrite IH by reflexivity. reflexivity.
  - unfold estep at 2. rewrite H. destruct (cancelled st && (pred (senders st) =? 0)) eqn:E.
    + rewrite ended_stays by reflexivity. reflexivity.
    + rewrite IH by reflexivity. reflexivity.
Qed.

Theorem delivery_until_the_last_sender n cs s : wf_from [] (live n false cs) = true ->
  log_of s (logs (core (erun Waits n cs))) = spec_log s false (live n false cs).
Proof.
  intro W. unfold erun. rewrite waits_is_the_plain_loop by reflexivity.
  cbn [einit senders cancelled core]. apply run_spec. exact W.
Qed.

Theorem refuted_giving_up_on_cancel :
  let cs := [ESub 0; ESub 1; ETr 7 [1]; ECancel; ETr 8 [1]; EDone] in
  wf_from [] (live 1 false cs) = true /\
  log_of 0 (logs (core (erun GivesUpOnCancel 1 cs))) = [7; 8] /\
  log_of 1 (logs (core (erun GivesUpOnCancel 1 cs))) = [7] /\
  spec_log 1 false (live 1 false cs) = [7; 8].
Proof. vm_compute. repeat split. Qed.

Theorem refuted_dropping_when_full :
  let cs := [ESub 0; ESub 1; ETr 7 [1]; ETr 8 []] in
  wf_from [] (live 1 false cs) = true /\
  log_of 0 (logs (core (erun DropsWhenFull 1 cs))) = [7; 8] /\
  log_of 1 (logs (core (erun DropsWhenFull 1 cs))) = [8] /\
  spec_log 1 false (live 1 false cs) = [7; 8].
Proof. vm_compute. repeat split. Qed.
