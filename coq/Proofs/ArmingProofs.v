From BV Require Import Model.Arming.

(* with the flag set first: a listener has announced itself only if the harness already forwards *)
Definition AInv (s : ast) : Prop := (0 < announced s -> active s = true) /\ dropped s = 0.

Lemma ainv_step n s l s' : AInv s -> astep true n s l = Some s' -> AInv s'.
Proof.
  intros [A D] H. destruct l as [| |i]; cbn [astep] in H.
  - destruct (negb (active s) && (announced s =? 0)); [|discriminate]. injection H as <-. split; auto.
  - destruct ((announced s <? n) && implb true (active s)) eqn:E; [|discriminate]. injection H as <-.
    apply andb_prop in E. destruct E as [_ E]. cbn in E. split; auto.
  - destruct (i <? announced s) eqn:E; [|discriminate]. apply Nat.ltb_lt in E.
    rewrite (A ltac:(lia)) in H. injection H as <-. split; auto.
Qed.

Lemma ainv_exec n : forall p s s', AInv s -> aexec true n s p = Some s' -> AInv s'.
Proof.
  induction p as [|l p IH]; intros s s' I H; cbn [aexec] in H.
  - injection H as <-. exact I.
  - destruct (astep true n s l) eqn:E; [|discriminate]. eapply IH; [eapply ainv_step; eauto|exact H].
Qed.

(** every event delivered to a listener that has announced itself is forwarded to it — at whatever moment of the
    arming it comes, for any number of boundary events *)
Theorem announced_listener_gets_its_event n s : areach true n s -> dropped s = 0.
Proof. intros [p H]. apply (ainv_exec n p (ainit n) s); auto. split; cbn; auto. lia. Qed.

Theorem delivery_to_announced_is_forwarded n s i s' : areach true n s -> astep true n s (ADeliver i) = Some s' ->
  got s' = aupd (got s) i.
Proof.
  intros [p H] S. assert (I : AInv s) by (apply (ainv_exec n p (ainit n) s); auto; split; cbn; auto; lia).
  destruct I as [A _]. cbn [astep] in S. destruct (i <? announced s) eqn:E; [|discriminate]. apply Nat.ltb_lt in E.
  rewrite (A ltac:(lia)) in S. injection S as <-. reflexivity.
Qed.

(* the flag set after the arming: the event of the first listener, delivered on its announcement, is dropped *)
Theorem refuted_active_after_arming :
  exists s, aexec false 3 (ainit 3) [AArm; ADeliver 0; AArm; AArm; ASetActive] = Some s /\ dropped s = 1 /\ got s = [0; 0; 0].
Proof. eexists. split; [reflexivity|]. split; reflexivity. Qed.

Example arming_nonvacuous :
  exists s, aexec true 3 (ainit 3) [ASetActive; AArm; ADeliver 0; AArm; AArm; ADeliver 2] = Some s /\ got s = [1; 0; 1] /\ dropped s = 0.
Proof. eexists. split; [reflexivity|]. split; reflexivity. Qed.
