From BV Require Import Model.Inbox Proofs.InboxProofs Model.EventTreeFlow.

Lemma tdeliver_sub e q en c f kids :
  tdeliver e (TSub q en c f kids) =
  if q && negb en then (if f <? c then Some (TSub q en c (S f) kids) else None)
  else option_map (TSub q en c f) (tdeliver_all e kids).
Proof.
  cbn [tdeliver]. destruct (q && negb en); [reflexivity|]. f_equal.
  induction kids as [|k r IH]; [reflexivity|]. cbn [tdeliver_all]. rewrite <- IH. reflexivity.
Qed.

Lemma forwards_sub q q' en c f kids : forwards_as q (TSub q' en c f kids) <-> q' = q /\ all_forward_as q kids.
Proof. cbn [forwards_as]. split; intros [A B]; split; auto; induction kids; cbn in *; tauto. Qed.
Lemma roomy_sub q en c f kids : roomy (TSub q en c f kids) <-> all_roomy kids.
Proof. cbn [roomy]. induction kids; cbn in *; tauto. Qed.

Lemma deliver_to_room e n : (running n = true -> has_room n = true) -> deliver_to true e n <> None.
Proof.
  intro H. unfold deliver_to. destruct (running n) eqn:R; [|discriminate].
  rewrite (H eq_refl). discriminate.
Qed.

Lemma deliver_all_app d e a : forall b,
  deliver_all d e (a ++ b) =
  match deliver_all d e a with
  | Some a' => match deliver_all d e b with Some b' => Some (a' ++ b') | None => None end
  | None => None
  end.
Proof.
  induction a as [|n a IH]; intro b.
  - cbn [app deliver_all]. destruct (deliver_all d e b); reflexivity.
  - cbn [app deliver_all]. rewrite IH. destruct (deliver_to d e n); [|reflexivity].
    destruct (deliver_all d e a); [|reflexivity]. destruct (deliver_all d e b); reflexivity.
Qed.

(* with sub-processes that forward directly, a delivery is to the tree what it is to the flat list of its listeners *)
Lemma direct_is_flat e : forall t, forwards_as false t ->
  option_map leaves (tdeliver e t) = deliver_all true e (leaves t).
Proof.
  fix IH 1. intros [n|q en c f kids] F.
  - cbn [tdeliver leaves deliver_all]. destruct (deliver_to true e n); reflexivity.
  - apply forwards_sub in F. destruct F as [-> F]. rewrite tdeliver_sub. cbn [andb leaves].
    induction kids as [|k r IHr].
    + reflexivity.
    + destruct F as [Fk Fr]. cbn [tdeliver_all flat_map].
      specialize (IH k Fk). specialize (IHr Fr).
      rewrite deliver_all_app. rewrite <- IH. rewrite <- IHr.
      destruct (tdeliver e k) as [k'|]; cbn [option_map]; [|reflexivity].
      destruct (tdeliver_all e r) as [r'|]; reflexivity.
Qed.

Lemma direct_enabled e : forall t, forwards_as false t -> roomy t -> tdeliver e t <> None.
Proof.
  fix IH 1. intros [n|q en c f kids] F R.
  - cbn [tdeliver]. cbn [roomy] in R. pose proof (deliver_to_room e n R) as H.
    destruct (deliver_to true e n); [discriminate|contradiction].
  - apply forwards_sub in F. destruct F as [-> F]. apply roomy_sub in R. rewrite tdeliver_sub. cbn [andb].
    assert (A : tdeliver_all e kids <> None).
    { induction kids as [|k r IHr]; [discriminate|].
      destruct F as [Fk Fr]. destruct R as [Rk Rr]. cbn [tdeliver_all].
      pose proof (IH k Fk Rk) as Hk. pose proof (IHr Fr Rr) as Hr.
      destruct (tdeliver e k); [|contradiction]. destruct (tdeliver_all e r); [discriminate|contradiction]. }
    destruct (tdeliver_all e kids); [discriminate|contradiction].
Qed.

(** an event handed to an instance: every delivery returns, whatever sub-processes have or have not been entered *)
Theorem delivery_returns_through_subprocesses e top :
  all_forward_as false top -> all_roomy top -> tdeliver_all e top <> None.
Proof.
  induction top as [|k r IH]; [discriminate|]. intros [Fk Fr] [Rk Rr]. cbn [tdeliver_all].
  pose proof (direct_enabled e k Fk Rk) as Hk. pose proof (IH Fr Rr) as Hr.
  destruct (tdeliver e k); [|contradiction]. destruct (tdeliver_all e r); [discriminate|contradiction].
Qed.

Theorem delivery_through_subprocesses_is_flat e t : forwards_as false t ->
  option_map leaves (tdeliver e t) = deliver_all true e (leaves t).
Proof. apply direct_is_flat. Qed.

(* a sub-process that queues events in its own inbox (capacity 3) and has not been entered: the fourth delivery blocks,
   although nobody inside listens; the same tree with direct forwarding takes any number *)
Definition idle_catch : lnode := {| running := false; cap := 1; inbox := []; pat_ := 1; st_ := l0 |}.
Theorem refuted_with_a_queueing_subprocess :
  (exists t, tdeliver_all 5 [TSub true false 3 0 [TCatch idle_catch]] = Some t /\
     exists t', tdeliver_all 5 t = Some t' /\ exists t'', tdeliver_all 5 t' = Some t'' /\ tdeliver_all 5 t'' = None) /\
  tdeliver_all 5 [TSub false false 3 0 [TCatch idle_catch]] = Some [TSub false false 3 0 [TCatch idle_catch]].
Proof.
  split; [|vm_compute; reflexivity].
  eexists; split; [vm_compute; reflexivity|]. eexists; split; [vm_compute; reflexivity|].
  eexists; split; [vm_compute; reflexivity|]. vm_compute. reflexivity.
Qed.
