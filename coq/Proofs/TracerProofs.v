From BV Require Import Model.Tracer.
From Coq Require Import Permutation.

(* ---- logs ---- *)
Lemma log_append_same s t l : log_of s (append_log s t l) = log_of s l ++ [t].
Proof.
  induction l as [|[k v] r IH]; simpl; [rewrite Nat.eqb_refl; reflexivity|].
  destruct (k =? s) eqn:E; simpl; rewrite E; auto.
Qed.
Lemma log_append_other s s' t l : s <> s' -> log_of s (append_log s' t l) = log_of s l.
Proof.
  intros H. induction l as [|[k v] r IH]; simpl.
  - destruct (Nat.eqb_spec s' s); [congruence|reflexivity].
  - destruct (k =? s') eqn:E; simpl.
    + apply Nat.eqb_eq in E. subst k. destruct (Nat.eqb_spec s' s); [congruence|reflexivity].
    + destruct (k =? s); auto.
Qed.

(* pushing a trace to a duplicate-free subscriber list appends it exactly to the subscribed logs *)
Lemma fanout s t : forall ss l, NoDup ss ->
  log_of s (fold_left (fun l x => append_log x t l) ss l) =
  if existsb (Nat.eqb s) ss then log_of s l ++ [t] else log_of s l.
Proof.
  induction ss as [|x r IH]; intros l ND; simpl; auto.
  inversion ND as [|? ? Hnin ND']; subst. rewrite IH by auto.
  destruct (Nat.eqb_spec s x) as [->|Hne]; simpl.
  - assert (existsb (Nat.eqb x) r = false).
    { destruct (existsb (Nat.eqb x) r) eqn:E; auto. apply existsb_exists in E.
      destruct E as [y [Hy Ey]]. apply Nat.eqb_eq in Ey. subst y. tauto. }
    rewrite H. apply log_append_same.
  - rewrite log_append_other by auto. reflexivity.
Qed.

(* ---- swap_remove removes exactly the element at the index ---- *)
Lemma swap_remove_perm j (l : list nat) d : j < length l -> Permutation l (nth j l d :: swap_remove j l).
Proof.
  revert j; induction l as [|c t IH]; intros j Hj; simpl in Hj; [lia|].
  destruct j as [|j].
  - simpl. destruct t as [|c1 t1]; [reflexivity|]. constructor.
    assert (Hne : c1 :: t1 <> []) by discriminate.
    rewrite (app_removelast_last c Hne) at 1. rewrite Permutation_app_comm. reflexivity.
  - simpl. rewrite perm_swap. constructor. apply IH. lia.
Qed.

Lemma index_of_spec s l j : index_of s l = Some j -> j < length l /\ nth j l 0 = s.
Proof.
  revert j; induction l as [|x r IH]; intros j H; simpl in H; [discriminate|].
  destruct (Nat.eqb_spec x s).
  - inversion H; subst. simpl; split; [lia|auto].
  - destruct (index_of s r) as [k|]; simpl in H; [|discriminate]. inversion H; subst.
    destruct (IH k eq_refl). simpl; split; [lia|auto].
Qed.

Lemma index_of_none s l : index_of s l = None -> ~ In s l.
Proof.
  induction l as [|x r IH]; simpl; intros H; [tauto|].
  destruct (Nat.eqb_spec x s); [discriminate|].
  destruct (index_of s r); [discriminate|]. intros [E|E]; [congruence|apply IH; auto].
Qed.

Lemma existsb_in s l : existsb (Nat.eqb s) l = true <-> In s l.
Proof.
  rewrite existsb_exists. split.
  - intros [y [Hy E]]. apply Nat.eqb_eq in E. subst; auto.
  - intros H. exists s; split; auto. apply Nat.eqb_refl.
Qed.

Lemma existsb_ext s l l' : (forall x, In x l <-> In x l') -> existsb (Nat.eqb s) l = existsb (Nat.eqb s) l'.
Proof.
  intros H. destruct (existsb (Nat.eqb s) l) eqn:E1; destruct (existsb (Nat.eqb s) l') eqn:E2; auto.
  - apply existsb_in in E1. apply H in E1. apply existsb_in in E1. congruence.
  - apply existsb_in in E2. apply H in E2. apply existsb_in in E2. congruence.
Qed.

Lemma existsb_filter_ne s x act :
  existsb (Nat.eqb s) (filter (fun y => negb (y =? x)) act) = if x =? s then false else existsb (Nat.eqb s) act.
Proof.
  destruct (Nat.eqb_spec x s) as [->|Hne].
  - destruct (existsb (Nat.eqb s) (filter _ act)) eqn:E; auto.
    apply existsb_in in E. apply filter_In in E. destruct E as [_ E]. rewrite Nat.eqb_refl in E. discriminate.
  - destruct (existsb (Nat.eqb s) act) eqn:E.
    + apply existsb_in. apply existsb_in in E. apply filter_In. split; auto.
      apply negb_true_iff. apply Nat.eqb_neq. congruence.
    + destruct (existsb (Nat.eqb s) (filter _ act)) eqn:E2; auto.
      apply existsb_in in E2. apply filter_In in E2. destruct E2 as [E2 _]. apply existsb_in in E2. congruence.
Qed.

(* ---- the invariant: the subscriber list is duplicate free and equals the active set ---- *)
Definition Inv (st : tstate) (act : list nat) : Prop :=
  NoDup (subs st) /\ forall x, In x (subs st) <-> In x act.

Lemma run_spec_gen : forall cs st act s, Inv st act -> wf_from act cs = true ->
  log_of s (logs (fold_left step cs st)) =
  log_of s (logs st) ++ spec_log s (existsb (Nat.eqb s) act) cs.
Proof.
  induction cs as [|c r IH]; intros st act s [ND Hact] W; cbn [fold_left spec_log]; [rewrite app_nil_r; auto|].
  destruct c as [x|x|t]; cbn [wf_from] in W; cbn [step].
  - (* subscribe *)
    apply andb_prop in W. destruct W as [Wn Wr].
    assert (Hnx : ~ In x act).
    { intros H. apply existsb_in in H. rewrite H in Wn. discriminate. }
    rewrite (IH _ (x :: act)); auto.
    + cbn [logs existsb]. f_equal. f_equal. destruct (Nat.eqb_spec x s) as [->|Hne].
      * rewrite Nat.eqb_refl. reflexivity.
      * destruct (Nat.eqb_spec s x); [congruence|]. reflexivity.
    + split; cbn [subs].
      * apply (Permutation_NoDup (l := x :: subs st)); [apply Permutation_cons_append|].
        constructor; auto. rewrite Hact. auto.
      * intros y. rewrite in_app_iff. simpl. rewrite Hact. tauto.
  - (* unsubscribe *)
    destruct (index_of x (subs st)) as [j|] eqn:Ei.
    + destruct (index_of_spec _ _ _ Ei) as [Hj Hn].
      pose proof (swap_remove_perm j (subs st) 0 Hj) as Hp. rewrite Hn in Hp.
      assert (ND' : NoDup (x :: swap_remove j (subs st))) by (eapply Permutation_NoDup; eauto).
      apply NoDup_cons_iff in ND'. destruct ND' as [Hnin ND''].
      rewrite (IH _ (filter (fun y => negb (y =? x)) act)); auto.
      * cbn [logs]. rewrite existsb_filter_ne. reflexivity.
      * split; cbn [subs]; auto. intros y. rewrite filter_In, <- Hact.
        split.
        -- intros Hy. split; [eapply Permutation_in; [symmetry; exact Hp|right; auto]|].
           apply negb_true_iff, Nat.eqb_neq. intros ->. tauto.
        -- intros [Hy Hne]. apply negb_true_iff, Nat.eqb_neq in Hne.
           apply (Permutation_in _ Hp) in Hy. destruct Hy; [congruence|auto].
    + apply index_of_none in Ei.
      rewrite (IH _ (filter (fun y => negb (y =? x)) act)); auto.
      * rewrite existsb_filter_ne. reflexivity.
      * split; auto. intros y. rewrite filter_In, <- Hact. split.
        -- intros Hy. split; auto. apply negb_true_iff, Nat.eqb_neq. intros ->. tauto.
        -- tauto.
  - (* trace *)
    rewrite (IH _ act); auto.
    + cbn [logs]. rewrite fanout by auto.
      rewrite (existsb_ext s (subs st) act Hact).
      destruct (existsb (Nat.eqb s) act); [rewrite <- app_assoc; reflexivity|reflexivity].
    + split; auto.
Qed.

Theorem run_spec cs s : wf_from [] cs = true -> log_of s (logs (run cs)) = spec_log s false cs.
Proof.
  intros W. unfold run. rewrite (run_spec_gen cs _ [] s); auto.
  split; [constructor|]. simpl. tauto.
Qed.

(* a subscriber's log does not depend on the other subscribers' joining and leaving *)
Fixpoint only (s : nat) (cs : list cmd) : list cmd :=
  match cs with
  | [] => []
  | Sub x :: r => if x =? s then Sub x :: only s r else only s r
  | Unsub x :: r => if x =? s then Unsub x :: only s r else only s r
  | Tr t :: r => Tr t :: only s r
  end.

Lemma spec_only s : forall cs a, spec_log s a (only s cs) = spec_log s a cs.
Proof.
  induction cs as [|c r IH]; intros a; simpl; auto.
  destruct c as [x|x|t]; simpl.
  - destruct (x =? s) eqn:E; simpl; rewrite ?E; auto.
  - destruct (x =? s) eqn:E; simpl; rewrite ?E; auto.
  - destruct a; rewrite IH; auto.
Qed.

(* the log is a contiguous slice of the global trace sequence when subscribed once *)
Definition traces (cs : list cmd) : list nat :=
  flat_map (fun c => match c with Tr t => [t] | _ => [] end) cs.

Lemma skip_inactive s pre rest : (forall c, In c pre -> c <> Sub s) ->
  spec_log s false (pre ++ rest) = spec_log s false rest.
Proof.
  induction pre as [|c r IH]; intros H; simpl; auto.
  destruct c as [x|x|t]; simpl.
  - destruct (Nat.eqb_spec x s) as [->|]; [exfalso; apply (H (Sub s)); simpl; auto|].
    apply IH. intros c Hc; apply H; right; auto.
  - destruct (x =? s); apply IH; intros c Hc; apply H; right; auto.
  - apply IH. intros c Hc; apply H; right; auto.
Qed.

Lemma active_mid s mid rest : (forall c, In c mid -> c <> Sub s /\ c <> Unsub s) ->
  spec_log s true (mid ++ rest) = traces mid ++ spec_log s true rest.
Proof.
  induction mid as [|c r IH]; intros H; simpl; auto.
  destruct c as [x|x|t]; simpl.
  - destruct (Nat.eqb_spec x s) as [->|]; [destruct (H (Sub s) (or_introl eq_refl)) as [A _]; congruence|].
    apply IH. intros c Hc; apply H; right; auto.
  - destruct (Nat.eqb_spec x s) as [->|]; [destruct (H (Unsub s) (or_introl eq_refl)) as [_ A]; congruence|].
    apply IH. intros c Hc; apply H; right; auto.
  - f_equal. apply IH. intros c Hc; apply H; right; auto.
Qed.

(* subscribed once: the log is exactly the contiguous slice of the global trace sequence
   between the subscription and the unsubscription *)
Lemma spec_once s pre mid post :
  (forall c, In c mid -> c <> Sub s /\ c <> Unsub s) ->
  (forall c, In c pre -> c <> Sub s) -> (forall c, In c post -> c <> Sub s) ->
  spec_log s false (pre ++ Sub s :: mid ++ Unsub s :: post) = traces mid.
Proof.
  intros Hmid Hpre Hpost.
  rewrite skip_inactive by auto. cbn [spec_log]. rewrite Nat.eqb_refl.
  rewrite active_mid by auto. cbn [spec_log]. rewrite Nat.eqb_refl.
  replace post with (post ++ []) by apply app_nil_r. rewrite skip_inactive by auto.
  simpl. apply app_nil_r.
Qed.

Lemma traces_app a b : traces (a ++ b) = traces a ++ traces b.
Proof. unfold traces. apply flat_map_app. Qed.

Lemma is_prefix_app a b : is_prefix a (a ++ b) = true.
Proof. induction a as [|x r IH]; simpl; auto. rewrite Nat.eqb_refl. auto. Qed.

Lemma is_infix_of_prefix a b : is_prefix a b = true -> is_infix a b = true.
Proof. intros H. destruct b; simpl; rewrite H; reflexivity. Qed.

Lemma is_infix_app a b c : is_infix b (a ++ b ++ c) = true.
Proof.
  induction a as [|x r IH].
  - cbn [app]. apply is_infix_of_prefix. apply is_prefix_app.
  - cbn [app is_infix]. rewrite IH. apply orb_true_r.
Qed.

(* what the correspondence checks on observed logs is implied by the model *)
Theorem slice_is_infix s pre mid post :
  (forall c, In c mid -> c <> Sub s /\ c <> Unsub s) ->
  (forall c, In c pre -> c <> Sub s) -> (forall c, In c post -> c <> Sub s) ->
  is_infix (spec_log s false (pre ++ Sub s :: mid ++ Unsub s :: post))
           (traces (pre ++ Sub s :: mid ++ Unsub s :: post)) = true.
Proof.
  intros. rewrite spec_once by auto.
  rewrite traces_app. cbn [traces flat_map]. fold (traces (mid ++ Unsub s :: post)).
  rewrite traces_app. cbn [traces flat_map app]. fold (traces post).
  apply is_infix_app.
Qed.
