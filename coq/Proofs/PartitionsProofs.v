From BV Require Import Model.Partitions.

Lemma NoDup_snoc {A} (l : list A) x : NoDup l -> ~ In x l -> NoDup (l ++ [x]).
Proof.
  induction l as [|a l IH]; intros N H; cbn.
  - constructor; [intros []|constructor].
  - inversion N as [|? ? Ha Nl]; subst. constructor.
    + rewrite in_app_iff. intros [I|[E|[]]]; [exact (Ha I)|]. subst. apply H. left. reflexivity.
    + apply IH; [exact Nl|]. intro I. apply H. right. exact I.
Qed.

Definition pinv (s : pst) : Prop := NoDup (parts s) /\ forall p, In p (parts s) -> p < next s.

Lemma pstep_inv limit s e : pinv s -> pinv (pstep Library limit s e).
Proof.
  intros [N B]. destruct e as [|k]; cbn [pstep].
  - destruct (next s <? limit); [|split; assumption]. split; cbn.
    + apply NoDup_snoc; [exact N|]. intro I. apply B in I. lia.
    + intros p I. rewrite in_app_iff in I. destruct I as [I|[E|[]]]; [apply B in I; lia|subst; lia].
  - split; assumption.
Qed.

Lemma prun_inv limit evs : forall s, pinv s -> pinv (fold_left (pstep Library limit) evs s).
Proof. induction evs as [|e evs IH]; intros s I; [exact I|]. cbn [fold_left]. apply IH. apply pstep_inv. exact I. Qed.

(** whatever a program does -- any number of generators made, contexts ending at any time, the library's partitions
    running out -- no two generators that were made have the same partition *)
Theorem partitions_distinct limit evs : NoDup (parts (prun Library limit evs)).
Proof. apply (prun_inv limit evs p0). split; [constructor|intros p []]. Qed.

Corollary two_generators_differ limit evs i j p q :
  nth_error (parts (prun Library limit evs)) i = Some p ->
  nth_error (parts (prun Library limit evs)) j = Some q -> i <> j -> p <> q.
Proof.
  intros Hi Hj D E. subst q. apply D.
  pose proof (partitions_distinct limit evs) as N.
  rewrite NoDup_nth_error in N. apply N; [|congruence].
  apply nth_error_Some. rewrite Hi. discriminate.
Qed.

Theorem refuted_with_recycled_partitions :
  parts (prun Recycling 8 [Make; Make; EndOf 0; Make]) = [0; 1; 0] /\
  parts (prun Library 8 [Make; Make; EndOf 0; Make]) = [0; 1; 2].
Proof. vm_compute. split; reflexivity. Qed.
