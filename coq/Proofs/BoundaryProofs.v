From BV Require Import Model.Boundary.

(* per boundary event: exception tokens + listeners still deciding = matching events seen while
   listening (at most, for an interrupting one: a late interruption is refused) *)
Fixpoint rel (specs : list bspec) (xs fs ms : list nat) : Prop :=
  match specs, xs, fs, ms with
  | (intr, _) :: ss, x :: xr, f :: fr, m :: mr => (if intr then x + f <= m else x + f = m) /\ rel ss xr fr mr
  | [], [], [], [] => True
  | _, _, _, _ => False
  end.

Lemma rel_init specs : rel specs (repeat 0 (length specs)) (repeat 0 (length specs)) (repeat 0 (length specs)).
Proof. induction specs as [|[intr p] ss IH]; cbn; auto. split; auto. destruct intr; lia. Qed.

Lemma rel_deliver c specs e : forall arm xs fs ms ar' fs' ms',
  rel specs xs fs ms -> deliver c specs e arm fs ms = (ar', fs', ms') -> rel specs xs fs' ms'.
Proof.
  induction specs as [|[intr p] ss IH]; intros arm xs fs ms ar' fs' ms' R D.
  - cbn in D. injection D as <- <- <-. exact R.
  - destruct xs as [|x xr], fs as [|f fr], ms as [|m mr]; cbn in R; try contradiction.
    destruct R as [R1 R2]. destruct arm as [|a ar].
    + cbn in D. injection D as <- <- <-. cbn. auto.
    + cbn [deliver] in D. destruct (deliver c ss e ar fr mr) as [[a2 f2] m2] eqn:E.
      specialize (IH _ _ _ _ _ _ _ R2 E).
      destruct (a && (p =? e)); injection D as <- <- <-; cbn; split; auto.
      destruct intr; lia.
Qed.

Lemma rel_fire_exc specs : forall i xs fs ms sp,
  rel specs xs fs ms -> nth_error specs i = Some sp -> 1 <= nth i fs 0 ->
  rel specs (incr xs i) (decr fs i) ms.
Proof.
  induction specs as [|[intr p] ss IH]; intros i xs fs ms sp R E L; destruct i; try discriminate;
    destruct xs as [|x xr], fs as [|f fr], ms as [|m mr]; cbn in R; try contradiction; destruct R as [R1 R2].
  - cbn in L. unfold incr, decr. cbn. split; auto. destruct intr; lia.
  - cbn in E, L. unfold incr, decr in *. cbn. split; auto. eapply IH; eauto.
Qed.

Lemma rel_fire_refused specs : forall i xs fs ms p,
  rel specs xs fs ms -> nth_error specs i = Some (true, p) ->
  rel specs xs (decr fs i) ms.
Proof.
  induction specs as [|[intr q] ss IH]; intros i xs fs ms p R E; destruct i; try discriminate;
    destruct xs as [|x xr], fs as [|f fr], ms as [|m mr]; cbn in R; try contradiction; destruct R as [R1 R2].
  - cbn in E. injection E as -> ->. unfold decr. cbn. split; auto. lia.
  - cbn in E. unfold decr in *. cbn. split; auto. eapply IH; eauto.
Qed.

Lemma intr_sum_incr specs : forall i xs fs ms intr p,
  rel specs xs fs ms -> nth_error specs i = Some (intr, p) ->
  intr_sum specs (incr xs i) = intr_sum specs xs + (if intr then 1 else 0).
Proof.
  induction specs as [|[b q] ss IH]; intros i xs fs ms intr p R E; destruct i; try discriminate;
    destruct xs as [|x xr], fs as [|f fr], ms as [|m mr]; cbn in R; try contradiction; destruct R as [R1 R2].
  - cbn in E. injection E as -> ->. unfold incr. cbn. destruct intr; lia.
  - cbn in E. unfold incr in *. cbn. destruct b; erewrite IH; eauto; lia.
Qed.

Record BInv (specs : list bspec) (s : bst) : Prop := {
  b_cons : entered s = normal s + withdrawn s + inside s;
  b_intr : intr_sum specs (exc s) <= withdrawn s;
  b_rel : rel specs (exc s) (inflight s) (matched s);
  b_idle : inside s = 0 -> armed s = all_false (length specs)
}.

Definition bgood (c : bcfg) : Prop :=
  withdraw_done c = true /\ cancel_pending c = true /\ rearm c = true /\ arbiter c = true.

Lemma binv_init specs : BInv specs (binit (length specs)).
Proof.
  constructor; cbn [binit entered normal withdrawn inside exc inflight matched armed]; [lia | | apply rel_init | auto].
  induction specs as [|[[] p] ss IH]; cbn; auto.
Qed.

Lemma binv_step c specs s l s' : bgood c -> BInv specs s -> bstep c specs s l = Some s' -> BInv specs s'.
Proof.
  intros [G1 [G2 [G3 G4]]] [C I R D] H. destruct l as [|e|i|]; cbn [bstep] in H.
  - injection H as <-. constructor; cbn [entered normal withdrawn inside exc inflight matched armed]; auto; try lia.
  - destruct (inside s =? 0) eqn:Z.
    + injection H as <-. constructor; auto.
    + destruct (deliver c specs e (armed s) (inflight s) (matched s)) as [[ar fr] mr] eqn:E. injection H as <-.
      apply Nat.eqb_neq in Z.
      constructor; cbn [entered normal withdrawn inside exc inflight matched armed]; auto; try lia.
      eapply rel_deliver; eauto.
  - destruct (1 <=? nth i (inflight s) 0) eqn:L; [|discriminate]. apply Nat.leb_le in L.
    destruct (nth_error specs i) as [[intr p]|] eqn:E; [|discriminate]. destruct intr.
    + destruct (1 <=? inside s) eqn:P.
      * apply Nat.leb_le in P. rewrite G2 in H. injection H as <-.
        constructor; cbn [entered normal withdrawn inside exc inflight matched armed]; auto; try lia.
        -- rewrite (intr_sum_incr _ _ _ _ _ _ _ R E). lia.
        -- eapply rel_fire_exc; eauto.
      * apply Nat.leb_gt in P. rewrite G4 in H. injection H as <-.
        constructor; cbn [entered normal withdrawn inside exc inflight matched armed]; auto.
        eapply rel_fire_refused; eauto.
    + injection H as <-.
      constructor; cbn [entered normal withdrawn inside exc inflight matched armed]; auto.
      * rewrite (intr_sum_incr _ _ _ _ _ _ _ R E). lia.
      * eapply rel_fire_exc; eauto.
  - destruct (1 <=? inside s) eqn:P; [|discriminate]. apply Nat.leb_le in P. injection H as <-. rewrite G1.
    constructor; cbn [entered normal withdrawn inside exc inflight matched armed]; auto; try lia.
    intros Z. assert (Q : inside s = 1) by lia. rewrite Q. reflexivity.
Qed.

Lemma binv_reach c specs s : bgood c -> breach c specs s -> BInv specs s.
Proof.
  intros G [p E]. revert E. generalize (binv_init specs). generalize (binit (length specs)).
  induction p as [|l p IH]; cbn [bexec]; intros s0 I0 E.
  - injection E as <-. exact I0.
  - destruct (bstep c specs s0 l) as [s1|] eqn:E1; [|discriminate]. eapply IH; [|exact E]. eapply binv_step; eauto.
Qed.

(** every token that entered the activity left by the normal flow, was withdrawn, or is still
    inside; an interrupting boundary event continues its exception flow only by withdrawing tokens:
    never more exception tokens than withdrawn ones, so a token never takes both ways *)
Lemma replace_not_add c specs s : bgood c -> breach c specs s ->
  entered s = normal s + withdrawn s + inside s /\ intr_sum specs (exc s) <= withdrawn s.
Proof. intros G R. destruct (binv_reach _ _ _ G R). auto. Qed.

Lemma single_activation c specs s : bgood c -> breach c specs s -> entered s <= 1 ->
  normal s + intr_sum specs (exc s) <= 1.
Proof. intros G R L. destruct (binv_reach _ _ _ G R) as [C I _ _]. lia. Qed.

(** a non-interrupting boundary event continues its exception flow once per matching event delivered
    while the activity waits (those still deciding included); an interrupting one at most once per such event *)
Lemma once_per_event c specs s : bgood c -> breach c specs s -> rel specs (exc s) (inflight s) (matched s).
Proof. intros G R. destruct (binv_reach _ _ _ G R). auto. Qed.

(** no token inside: no listener is left waiting (nothing keeps the instance from completing), and
    events do not react *)
Lemma idle_disarmed c specs s : bgood c -> breach c specs s -> inside s = 0 ->
  armed s = all_false (length specs) /\ forall e, bstep c specs s (BEvent e) = Some s.
Proof.
  intros G R Z. destruct (binv_reach _ _ _ G R) as [_ _ _ D]. split; auto.
  intros e. cbn [bstep]. rewrite Z. reflexivity.
Qed.

(** a listener that got its event can always take its decision *)
Lemma fire_enabled c specs s i : bgood c -> breach c specs s -> 1 <= nth i (inflight s) 0 ->
  exists s', bstep c specs s (BFire i) = Some s'.
Proof.
  intros G R L. destruct (binv_reach _ _ _ G R) as [_ _ Rl _].
  assert (E : exists sp, nth_error specs i = Some sp).
  { clear - Rl L. revert i L. generalize dependent (matched s). generalize dependent (inflight s). generalize dependent (exc s).
    induction specs as [|[b q] ss IH]; intros xs fs ms Rl i L;
      destruct xs as [|x xr], fs as [|f fr], ms as [|m mr]; cbn in Rl; try contradiction.
    - destruct i; cbn in L; lia.
    - destruct Rl as [_ R2]. destruct i; cbn; eauto. }
  destruct E as [[intr p] E]. cbn [bstep]. apply Nat.leb_le in L. rewrite L, E.
  destruct intr; [destruct (1 <=? inside s); [destruct (cancel_pending c)|]|]; eauto.
Qed.

(** the defects of the pinned snapshot and of the intermediate repairs *)
Definition b_pinned_listeners : bcfg := {| withdraw_done := false; cancel_pending := true; rearm := true; arbiter := true |}.
Definition b_pinned_cancel : bcfg := {| withdraw_done := true; cancel_pending := false; rearm := true; arbiter := true |}.
Definition b_pinned_rearm : bcfg := {| withdraw_done := true; cancel_pending := true; rearm := false; arbiter := true |}.
Definition b_no_arbiter : bcfg := {| withdraw_done := true; cancel_pending := true; rearm := true; arbiter := false |}.

(* the activity is over, its listener waits for ever: the instance never completes *)
Lemma refuted_listeners_left :
  exists s, bexec b_pinned_listeners [(false, 0)] (binit 1) [BEnter; BAnswer] = Some s /\ inside s = 0 /\ armed s = [true].
Proof. eexists. split; [vm_compute; reflexivity|]. vm_compute. auto. Qed.
(* the cancellation is refused while the request is pending: exception and normal flow both continue *)
Lemma refuted_both_flows :
  exists s, bexec b_pinned_cancel [(true, 0)] (binit 1) [BEnter; BEvent 0; BFire 0; BAnswer] = Some s /\
    normal s = 1 /\ exc s = [1] /\ entered s = 1.
Proof. eexists. split; [vm_compute; reflexivity|]. vm_compute. auto. Qed.
(* the second event finds nobody listening *)
Lemma refuted_once_only :
  exists s, bexec b_pinned_rearm [(false, 0)] (binit 1) [BEnter; BEvent 0; BFire 0; BEvent 0] = Some s /\
    exc s = [1] /\ inflight s = [0] /\ matched s = [1] /\ inside s = 1.
Proof. eexists. split; [vm_compute; reflexivity|]. vm_compute. auto. Qed.
(* the event races with the answer and both are honoured *)
Lemma refuted_race_both :
  exists s, bexec b_no_arbiter [(true, 0)] (binit 1) [BEnter; BEvent 0; BAnswer; BFire 0] = Some s /\
    normal s = 1 /\ exc s = [1] /\ entered s = 1.
Proof. eexists. split; [vm_compute; reflexivity|]. vm_compute. auto. Qed.

Example boundary_nonvacuous :
  exists s, bexec b_fixed [(false, 0); (true, 1)] (binit 2)
    [BEvent 0; BEnter; BEvent 0; BFire 0; BEvent 0; BEvent 1; BFire 0; BFire 1; BEvent 0; BEnter; BAnswer] = Some s /\
    normal s = 1 /\ exc s = [2; 1] /\ withdrawn s = 1 /\ entered s = 2 /\ armed s = [false; false].
Proof. eexists. split; [vm_compute; reflexivity|]. vm_compute. auto. Qed.
