From BV Require Import Model.Completion.

Lemma nth_upd {A} (l : list A) i j x d :
  nth j (upd l i x) d = if (j =? i) && (i <? length l) then x else nth j l d.
Proof.
  revert i j; induction l as [|a l IH]; intros i j; simpl.
  - destruct i, j; simpl; rewrite ?andb_false_r; reflexivity.
  - destruct i as [|i], j as [|j]; simpl; auto.
    rewrite IH. reflexivity.
Qed.

Lemma upd_length {A} (l : list A) i x : length (upd l i x) = length l.
Proof. revert i; induction l; intros [|i]; simpl; auto. Qed.

Lemma wget_set s w p lk w' :
  wget (set_ws s w p lk) w' = if (w' =? w) && (w <? length (ws s)) then p else wget s w'.
Proof. unfold wget, set_ws. simpl. apply nth_upd. Qed.

Lemma wget_nonidle_lt s w : wget s w <> WIdle -> w < length (ws s).
Proof.
  unfold wget. intros H. destruct (Nat.lt_ge_cases w (length (ws s))); auto.
  rewrite nth_overflow in H by lia. congruence.
Qed.

Definition held (p : wphase) : Prop := p = WHeld \/ p = WGoneHeld.
Definition after_done (p : wphase) : Prop := p = WHeld \/ p = WGoneHeld \/ p = WTrue \/ p = WGoneDone.

Record Inv (c : cfg) (s : st) : Prop := {
  i_lockmon : (mon s = MCount \/ mon s = MWait) -> lock s = Some HMon;
  i_done : mon s = MDone -> trig s = k c /\ seen s = k c /\ emitted s = k c /\ tokens s = 0 /\ ceases s = 1;
  i_notdone : mon s <> MDone -> ceases s = 0;
  i_order : seen s + missed s <= emitted s /\ emitted s <= trig s /\ trig s <= k c;
  i_alive : trig s - emitted s <= tokens s;
  i_held1 : forall w, held (wget s w) -> lock s = Some (HHelper w);
  i_held2 : forall w, lock s = Some (HHelper w) -> held (wget s w);
  i_after : forall w, after_done (wget s w) -> mon s = MDone;
  i_wait : mon s = MWait -> seen s = k c;
  i_none : mon s = MNone -> lock s = None /\ (forall w, wget s w = WIdle) /\ seen s = 0;
  i_hmon : lock s = Some HMon -> mon s = MCount \/ mon s = MWait;
  i_count : mon s = MCount -> seen s < k c;
  i_missed : sub_first c = true -> missed s = 0;
  i_nonetrig : sub_first c = true -> mon s = MNone -> trig s = 0
}.

Lemma inv_init c nw : Inv c (init nw).
Proof.
  constructor; simpl; try (intros; try discriminate; try lia; auto; fail).
  - intros [H|H]; discriminate.
  - intros w [H|H]; unfold wget in H; simpl in H;
      destruct (Nat.lt_ge_cases w nw); rewrite ?nth_overflow in H by (rewrite repeat_length; lia);
      try (rewrite nth_repeat in H); discriminate.
  - intros w [H|[H|[H|H]]]; unfold wget in H; simpl in H;
      destruct (Nat.lt_ge_cases w nw); rewrite ?nth_overflow in H by (rewrite repeat_length; lia);
      try (rewrite nth_repeat in H); discriminate.
  - intros _. split; auto. split; auto. intros w. unfold wget. simpl.
    destruct (Nat.lt_ge_cases w nw); [apply nth_repeat|apply nth_overflow; rewrite repeat_length; lia].
Qed.

Lemma inv_set_ws c s w p lk :
  Inv c s -> w < length (ws s) ->
  (forall w', w' <> w -> held (wget s w') -> lk = Some (HHelper w')) ->
  (forall w', w' <> w -> lk = Some (HHelper w') -> held (wget s w')) ->
  (held p -> lk = Some (HHelper w)) -> (lk = Some (HHelper w) -> held p) ->
  (after_done p -> mon s = MDone) ->
  ((mon s = MCount \/ mon s = MWait) -> lk = Some HMon) ->
  (lk = Some HMon -> mon s = MCount \/ mon s = MWait) ->
  mon s <> MNone ->
  Inv c (set_ws s w p lk).
Proof.
  intros [Hlm Hdone Hnd Hord Halive Hh1 Hh2 Haft Hwait Hnone Hhmon Hcnt Hmiss Hntrig] Hlt A1 A2 A3 A4 A5 A6 A7 A8.
  apply Nat.ltb_lt in Hlt.
  constructor; cbn [set_ws ws mon lock trig emitted missed seen tokens ceases]; auto.
  - intros w' H. rewrite wget_set, Hlt in H. destruct (Nat.eqb_spec w' w); cbn [andb] in H; subst; auto.
  - intros w' H. rewrite wget_set, Hlt. destruct (Nat.eqb_spec w' w); cbn [andb]; subst; auto.
  - intros w' H. rewrite wget_set, Hlt in H. destruct (Nat.eqb_spec w' w); cbn [andb] in H; subst; eauto.
  - intros H. congruence.
Qed.

Ltac inv_fields H := destruct H as [Hlm Hdone Hnd Hord Halive Hh1 Hh2 Haft Hwait Hnone Hhmon Hcnt Hmiss Hntrig].

(* labels that do not touch the waiters *)
Ltac same_ws := unfold wget in *; cbn [ws mon lock trig emitted missed seen tokens ceases] in *.

Lemma inv_step c s l s' : Inv c s -> step c s l = Some s' -> Inv c s'.
Proof.
  intros HI Hs. inv_fields HI.
  destruct l as [ | | | | | | |w|w|w|w]; cbn [step] in Hs.
  - (* LCreate *)
    destruct (mon s) eqn:Em; try discriminate. destruct (lock s) eqn:El; try discriminate.
    inversion Hs; subst s'; clear Hs.
    destruct (Hnone eq_refl) as [_ [Hidle Hseen0]].
    constructor; same_ws; intros; eauto; try lia; try discriminate.
    all: try (destruct (Nat.eqb_spec (k c) 0); try discriminate; try lia; auto; fail).
    all: try (destruct H as [H|H]; rewrite (Hidle w) in H; discriminate).
    all: try (destruct H as [H|[H|[H|H]]]; rewrite (Hidle w) in H; discriminate).
    all: try (destruct (k c =? 0); auto; fail).
    all: try (apply Hnd; discriminate).
    all: try (destruct (Nat.eqb_spec (k c) 0); [discriminate|lia]).
  - (* LTrig *)
    destruct ((trig s <? k c) && _) eqn:E; [|discriminate]. inversion Hs; subst s'; clear Hs.
    apply andb_prop in E. destruct E as [E1 E2]. apply Nat.ltb_lt in E1.
    constructor; same_ws; intros; eauto; try lia.
    all: try (destruct (Hdone H) as [A _]; lia).
    all: try (destruct (Hnone H) as [A [B C]]; auto).
    all: try (exfalso; rewrite H, H0 in E2; discriminate).
  - (* LEmit *)
    destruct (emitted s <? trig s) eqn:E; [|discriminate]. inversion Hs; subst s'; clear Hs.
    apply Nat.ltb_lt in E.
    constructor; same_ws; intros; eauto; try lia.
    all: try (destruct (Hdone H) as [A [B [C _]]]; lia).
    all: try (destruct (mon s); lia).
    all: try (destruct (mon s) eqn:Em'; auto; exfalso; rewrite (Hntrig H eq_refl) in E; lia).
  - (* LSee *)
    destruct (mon s) eqn:Em; try discriminate.
    destruct (seen s <? emitted s - missed s) eqn:E; [|discriminate].
    apply Nat.ltb_lt in E. specialize (Hcnt eq_refl).
    destruct (Nat.eqb_spec (S (seen s)) (k c)) as [Eb|Eb]; inversion Hs; subst s'; clear Hs;
      (constructor; same_ws; intros; eauto; try lia; try discriminate).
    all: try (apply Hlm; auto; fail).
    all: try (apply Haft in H; discriminate).
    all: try (apply Hnd; discriminate).
    all: try (destruct H as [H|H]; discriminate).
  - (* LFork *)
    destruct (1 <=? tokens s) eqn:E; [|discriminate]. inversion Hs; subst s'; clear Hs. apply Nat.leb_le in E.
    constructor; same_ws; intros; eauto; try lia.
    all: try (destruct (Hdone H) as [_ [_ [_ [A _]]]]; lia).
  - (* LDie *)
    destruct (trig s - emitted s <? tokens s) eqn:E; [|discriminate]. inversion Hs; subst s'; clear Hs. apply Nat.ltb_lt in E.
    constructor; same_ws; intros; eauto; try lia.
    all: try (destruct (Hdone H) as [A [B [C [D F]]]]; lia).
  - (* LWaitDone *)
    destruct (mon s) eqn:Em; try discriminate.
    destruct (tokens s =? 0) eqn:E; [|discriminate]. inversion Hs; subst s'; clear Hs. apply Nat.eqb_eq in E.
    pose proof (Hwait eq_refl) as Hk. pose proof (Hnd ltac:(discriminate)) as Hc0.
    constructor; same_ws; intros; eauto; try lia; try discriminate; try congruence.
    all: try (repeat split; lia).
    all: try (apply Hh1 in H; rewrite (Hlm (or_intror eq_refl)) in H; discriminate).
    all: try (destruct H as [H|H]; discriminate).
  - (* LCall *)
    assert (HI : Inv c s) by (constructor; auto).
    destruct (mon s) eqn:Em; try discriminate;
    destruct (wget s w) eqn:Ew; try discriminate;
    destruct (w <? length (ws s)) eqn:Elt; try discriminate; inversion Hs; subst s'; clear Hs;
    apply Nat.ltb_lt in Elt; (apply inv_set_ws; auto).
    all: try (rewrite Em; discriminate).
    all: try (intros w' _ H; apply Hh1; auto; fail).
    all: try (intros w' _ H; apply Hh2; auto; fail).
    all: try (intros [H|H]; discriminate).
    all: try (intros [H|[H|[H|H]]]; discriminate).
    all: try (intros H; apply Hh2 in H; rewrite Ew in H; destruct H; discriminate).
    all: try (rewrite Em; auto; fail).
  - (* LHelperLock *)
    assert (HI : Inv c s) by (constructor; auto).
    destruct (lock s) eqn:El; [simpl in Hs; discriminate|cbn [is_free] in Hs].
    assert (Hfree_mon : mon s = MDone \/ mon s = MNone).
    { destruct (mon s) eqn:Em; auto; exfalso; assert (X : @None holder = Some HMon) by (apply Hlm; auto); discriminate. }
    assert (Hnoheld : forall w', ~ held (wget s w')).
    { intros w' H. apply Hh1 in H. discriminate. }
    destruct (wget s w) eqn:Ew; try discriminate; inversion Hs; subst s'; clear Hs;
    assert (Hlt : w < length (ws s)) by (apply wget_nonidle_lt; rewrite Ew; discriminate);
    assert (Hm : mon s = MDone) by (destruct Hfree_mon as [A|A]; auto; destruct (Hnone A) as [_ [B _]]; rewrite B in Ew; discriminate);
    (apply inv_set_ws; auto).
    all: try (rewrite Hm; discriminate).
    all: try (intros w' _ H; exfalso; apply (Hnoheld w'); auto; fail).
    all: try (intros w' Hne H; inversion H; congruence).
    all: try (unfold held; auto; fail).
    all: try (intros [H|H]; rewrite Hm in H; discriminate).
    all: try (intros H; discriminate).
  - (* LHelperSend *)
    assert (HI : Inv c s) by (constructor; auto).
    assert (Hcommon : forall q, wget s w = q -> held q ->
              Inv c (set_ws s w (match q with WHeld => WTrue | _ => WGoneDone end) None)).
    { intros q Ew Hq.
      assert (Hlt : w < length (ws s)) by (apply wget_nonidle_lt; rewrite Ew; destruct Hq as [Hq|Hq]; rewrite Hq; discriminate).
      assert (Hlk : lock s = Some (HHelper w)) by (apply Hh1; rewrite Ew; auto).
      assert (Hm : mon s = MDone) by (apply (Haft w); rewrite Ew; destruct Hq as [Hq|Hq]; rewrite Hq; unfold after_done; auto).
      apply inv_set_ws; auto.
      all: try (rewrite Hm; discriminate).
      all: try (intros w' Hne H; apply Hh1 in H; rewrite Hlk in H; inversion H; congruence).
      all: try (intros w' _ H; discriminate).
      all: try (intros [H|H]; destruct Hq as [Hq|Hq]; rewrite Hq in H; discriminate).
      all: try (intros H; discriminate).
      all: try (intros [H|H]; rewrite Hm in H; discriminate). }
    destruct (wget s w) eqn:Ew; try discriminate.
    + inversion Hs; subst s'. apply (Hcommon WHeld); auto. left; auto.
    + destruct (sigbuf c); [|discriminate]. inversion Hs; subst s'. apply (Hcommon WGoneHeld); auto. right; auto.
  - (* LTimeout *)
    assert (HI : Inv c s) by (constructor; auto).
    destruct (wget s w) eqn:Ew; try discriminate; inversion Hs; subst s'; clear Hs;
    assert (Hlt : w < length (ws s)) by (apply wget_nonidle_lt; rewrite Ew; discriminate);
    assert (Hmn : mon s <> MNone) by (intros A; destruct (Hnone A) as [_ [B _]]; rewrite B in Ew; discriminate);
    (apply inv_set_ws; auto).
    all: try (intros w' _ H; apply Hh1; auto; fail).
    all: try (intros w' _ H; apply Hh2; auto; fail).
    all: try (intros [H|H]; discriminate).
    all: try (intros [H|[H|[H|H]]]; discriminate).
    all: try (intros H; apply Hh2 in H; rewrite Ew in H; destruct H; discriminate).
    all: try (intros H; apply Hh1; rewrite Ew; left; auto; fail).
    all: try (intros H; right; auto; fail).
    all: try (intros H; apply (Haft w); rewrite Ew; left; auto; fail).
Qed.

Lemma inv_exec c : forall p s s', Inv c s -> exec c s p = Some s' -> Inv c s'.
Proof.
  induction p as [|l r IH]; intros s s' HI H; simpl in H; [inversion H; subst; auto|].
  destruct (step c s l) as [s1|] eqn:E; [|discriminate]. eapply IH; [eapply inv_step; eauto|auto].
Qed.

Theorem inv_reach c nw s : reach c nw s -> Inv c s.
Proof. intros [p H]. eapply inv_exec; [apply inv_init|eauto]. Qed.

(* SAFETY: a wait returns true only when every start event has fired, no token is left, and
   the cease-flow trace has been emitted (exactly once) *)
Theorem safe c nw s w : reach c nw s -> wget s w = WTrue ->
  trig s = k c /\ emitted s = k c /\ tokens s = 0 /\ ceases s = 1.
Proof.
  intros R Hw. destruct (inv_reach _ _ _ R) as [_ Hdone _ _ _ _ _ Haft _ _ _ _ _ _].
  assert (Hm : mon s = MDone) by (apply (Haft w); rewrite Hw; unfold after_done; auto).
  destruct (Hdone Hm) as [A [B [C [D E]]]]. auto.
Qed.

Theorem cease_at_most_once c nw s : reach c nw s -> ceases s <= 1.
Proof.
  intros R. destruct (inv_reach _ _ _ R) as [_ Hdone Hnd _ _ _ _ _ _ _ _ _ _ _].
  destruct (mon s) eqn:Em; try (rewrite Hnd by discriminate; lia).
  destruct (Hdone eq_refl) as [_ [_ [_ [_ E]]]]. lia.
Qed.

(* after the cease-flow trace no token activity is possible any more *)
Theorem nothing_after_cease c nw s l s' : reach c nw s -> ceases s = 1 -> env_label l = true ->
  step c s l = Some s' -> False.
Proof.
  intros R Hc Hl Hs. destruct (inv_reach _ _ _ R) as [_ Hdone Hnd _ _ _ _ _ _ _ _ _ _ _].
  assert (Hm : mon s = MDone).
  { destruct (mon s) eqn:Em; auto; rewrite Hnd in Hc by discriminate; discriminate. }
  destruct (Hdone Hm) as [A [B [C [D E]]]].
  destruct l; try discriminate; cbn [step] in Hs.
  - rewrite A in Hs. rewrite Nat.ltb_irrefl in Hs. discriminate.
  - rewrite A, C in Hs. rewrite Nat.ltb_irrefl in Hs. discriminate.
  - rewrite D in Hs. discriminate.
  - rewrite A, C, D in Hs. rewrite Nat.sub_diag in Hs. discriminate.
Qed.

(* LIVENESS (repaired configuration): once every start event has fired and no token is left, the
   environment can do nothing more, and as long as the monitor has not finished one of ITS steps
   is enabled and strictly decreases a measure bounded by k+1 *)
Theorem env_quiet c nw s l s' : reach c nw s -> quiescent c s -> env_label l = true -> step c s l = Some s' -> False.
Proof.
  intros R [A [B C]] Hl Hs. destruct l; try discriminate; cbn [step] in Hs.
  - rewrite A, Nat.ltb_irrefl in Hs. discriminate.
  - rewrite A, B, Nat.ltb_irrefl in Hs. discriminate.
  - rewrite C in Hs. discriminate.
  - rewrite A, B, C, Nat.sub_diag in Hs. discriminate.
Qed.

Theorem monitor_progress c nw s : sub_first c = true -> reach c nw s -> quiescent c s ->
  mon s <> MDone -> mon s <> MNone ->
  exists l s', monitor_label l = true /\ step c s l = Some s' /\ measure c s' < measure c s /\ quiescent c s'.
Proof.
  intros Hsf R [A [B C]] Hnd Hnn.
  destruct (inv_reach _ _ _ R) as [Hlm Hdone Hnd' Hord Halive Hh1 Hh2 Haft Hwait Hnone Hhmon Hcnt Hmiss Hntrig].
  destruct (mon s) eqn:Em; try congruence.
  - (* counting: a start trace is still to be seen, because none was missed *)
    assert (Hmiss0 : missed s = 0) by auto.
    specialize (Hcnt eq_refl).
    exists LSee. cbn [step]. rewrite Em.
    assert (E : seen s <? emitted s - missed s = true) by (apply Nat.ltb_lt; lia). rewrite E.
    eexists. split; [reflexivity|]. split; [reflexivity|].
    split; [|unfold quiescent; cbn; auto].
    unfold measure; cbn [mon seen]. rewrite Em. destruct (S (seen s) =? k c); lia.
  - exists LWaitDone. cbn [step]. rewrite Em, C. cbn. eexists. split; [reflexivity|]. split; [reflexivity|].
    split; [unfold measure; cbn; rewrite Em; lia|unfold quiescent; cbn; auto].
Qed.

(* once complete, a waiting caller's helper can always take the lock when it is free, and a helper
   holding the lock can always finish (with the buffered signal), returning true to a live caller *)
Theorem waiter_progress c nw s w : sigbuf c = true -> reach c nw s -> mon s = MDone ->
  (wget s w = WWait \/ wget s w = WGone) ->
  (lock s = None /\ exists s', step c s (LHelperLock w) = Some s') \/
  (exists w' s', lock s = Some (HHelper w') /\ step c s (LHelperSend w') = Some s' /\ lock s' = None).
Proof.
  intros Hb R Hm Hw.
  destruct (inv_reach _ _ _ R) as [Hlm Hdone Hnd' Hord Halive Hh1 Hh2 Haft Hwait Hnone Hhmon Hcnt Hmiss Hntrig].
  destruct (lock s) as [[|w']|] eqn:El.
  - destruct (Hhmon eq_refl) as [X|X]; congruence.
  - right. exists w'. destruct (Hh2 w' eq_refl) as [H|H]; cbn [step]; rewrite H, ?Hb; eexists; split; auto.
  - left. split; auto. cbn [step]. rewrite El. cbn. destruct Hw as [H|H]; rewrite H; eexists; reflexivity.
Qed.

Theorem helper_send_returns_true c s w s' : wget s w = WHeld -> step c s (LHelperSend w) = Some s' ->
  w < length (ws s) -> wget s' w = WTrue.
Proof.
  intros H Hs Hlt. cbn [step] in Hs. rewrite H in Hs. inversion Hs; subst.
  rewrite wget_set. apply Nat.ltb_lt in Hlt. rewrite Hlt, Nat.eqb_refl. reflexivity.
Qed.

(* ---- the pinned snapshot, variant (a): the monitor subscribes AFTER the start event is
   triggered.  A run on which the start trace is broadcast before the subscription ends in a
   state where every token is gone and the monitor can never move again. ---- *)
Definition cfg_a : cfg := {| k := 1; sub_first := false; sigbuf := true |}.
Definition path_a : list label := [LTrig; LEmit; LCreate; LDie].

Lemma refuted_a : exists s, exec cfg_a (init 1) path_a = Some s /\ quiescent cfg_a s /\ mon s = MCount /\
  (forall l, monitor_label l = true -> step cfg_a s l = None).
Proof.
  eexists. split; [vm_compute; reflexivity|]. split; [vm_compute; auto|]. split; [reflexivity|].
  intros l Hl. destruct l; try discriminate; vm_compute; reflexivity.
Qed.

(* and it stays like that: no label at all changes the monitor's state from there *)
Lemma refuted_a_forever : forall p s0 s1,
  exec cfg_a s0 p = Some s1 -> mon s0 = MCount -> seen s0 = 0 -> emitted s0 = 1 -> missed s0 = 1 -> trig s0 = 1 ->
  mon s1 = MCount.
Proof.
  induction p as [|l r IH]; intros s0 s1 H M S E Mi T; simpl in H; [inversion H; subst; auto|].
  destruct (step cfg_a s0 l) as [s2|] eqn:St; [|discriminate].
  assert (G : mon s2 = MCount /\ seen s2 = 0 /\ emitted s2 = 1 /\ missed s2 = 1 /\ trig s2 = 1).
  { destruct l; cbn [step] in St; rewrite ?M, ?S, ?E, ?Mi, ?T in St; cbn in St;
      repeat match type of St with
             | (match ?x with _ => _ end) = _ => destruct x eqn:?; try discriminate
             | (if ?x then _ else _) = _ => destruct x eqn:?; try discriminate
             end; inversion St; subst; cbn; auto. }
  destruct G as [A [B [C [D F]]]]. eapply IH; eauto.
Qed.

(* ---- variant (c): unbuffered signal.  A caller whose wait timed out leaves a helper that
   takes the lock after completion and can never release it: the lock is held for ever, so no
   later caller can ever return true. ---- *)
Definition cfg_c : cfg := {| k := 1; sub_first := true; sigbuf := false |}.
Definition path_c : list label :=
  [LCreate; LTrig; LEmit; LSee; LCall 0; LTimeout 0; LDie; LWaitDone; LHelperLock 0; LCall 1].

Lemma refuted_c : exists s, exec cfg_c (init 2) path_c = Some s /\ quiescent cfg_c s /\ mon s = MDone /\
  lock s = Some (HHelper 0) /\ wget s 0 = WGoneHeld /\ wget s 1 = WWait.
Proof. eexists. split; [vm_compute; reflexivity|]. vm_compute. auto. Qed.

Lemma refuted_c_forever : forall p s0 s1, exec cfg_c s0 p = Some s1 -> Inv cfg_c s0 -> mon s0 = MDone ->
  lock s0 = Some (HHelper 0) -> wget s0 0 = WGoneHeld -> wget s0 1 <> WTrue ->
  lock s1 = Some (HHelper 0) /\ wget s1 1 <> WTrue.
Proof.
  induction p as [|l r IH]; intros s0 s1 H HI M L W0 W1; simpl in H; [inversion H; subst; auto|].
  destruct (step cfg_c s0 l) as [s2|] eqn:St; [|discriminate].
  pose proof (inv_step _ _ _ _ HI St) as HI2.
  assert (Hheld : forall w, wget s0 w = WHeld -> False).
  { intros w Hw. assert (X : lock s0 = Some (HHelper w)) by (apply (i_held1 _ _ HI); left; auto).
    rewrite L in X. inversion X; subst. congruence. }
  assert (G : mon s2 = MDone /\ lock s2 = Some (HHelper 0) /\ wget s2 0 = WGoneHeld /\ wget s2 1 <> WTrue).
  { destruct l; cbn [step] in St; rewrite ?L, ?M in St; cbn [is_free] in St;
      repeat match type of St with
             | (match ?x with _ => _ end) = _ => destruct x eqn:?; try discriminate
             | (if ?x then _ else _) = _ => destruct x eqn:?; try discriminate
             end; inversion St; subst; cbn [lock set_ws mon]; auto.
    all: try (exfalso; eapply Hheld; eauto; fail).
    all: try (rewrite !wget_set; cbn [ws]).
    all: repeat split; auto.
    all: try (destruct ((0 =? w) && (w <? length (ws s0))) eqn:X; [apply andb_prop in X; destruct X as [X _]; apply Nat.eqb_eq in X; subst; congruence|auto]).
    all: try (destruct ((1 =? w) && (w <? length (ws s0))) eqn:X'; [discriminate|auto]). }
  destruct G as [A [B [C D]]]. eapply IH; eauto.
Qed.
