From BV Require Import Model.Store.

Lemma set_var_replace h t n v : set_var false h t n v = (h ++ [v], (n, length h) :: t).
Proof. reflexivity. Qed.

Lemma write_replace_grows s w : exists ext, fst (write false s w) = fst s ++ ext.
Proof.
  destruct s as [h ts], w as [[i n] v]. unfold write. cbn [fst snd].
  destruct (nth_error ts i) as [t|].
  - rewrite set_var_replace. exists [v]. reflexivity.
  - exists []. cbn. rewrite app_nil_r. reflexivity.
Qed.

Lemma writes_replace_grows : forall ws s, exists ext, fst (writes false s ws) = fst s ++ ext.
Proof.
  induction ws as [|w ws IH]; intros s; cbn.
  - exists []. rewrite app_nil_r. reflexivity.
  - destruct (IH (write false s w)) as [e1 H1]. destruct (write_replace_grows s w) as [e2 H2].
    exists (e2 ++ e1). unfold writes in H1. rewrite H1, H2, app_assoc. reflexivity.
Qed.

Lemma read_grows h ext o n : wf h o -> read (h ++ ext) o n = read h o n.
Proof.
  intros Hw. unfold read. destruct (lookup o n) as [l|] eqn:E; [|reflexivity].
  apply nth_error_app1. exact (Hw n l E).
Qed.

(* whoever holds a table over the heap -- a snapshot, a merged copy, the caller's own pointer, another instance --
   reads what it read before, whatever is written afterwards, by whom and how often *)
Theorem observers_keep_their_values h ts ws o n : wf h o ->
  read (fst (writes false (h, ts) ws)) o n = read h o n.
Proof.
  intros Hw. destruct (writes_replace_grows ws (h, ts)) as [ext H]. cbn [fst] in H. rewrite H.
  apply read_grows. exact Hw.
Qed.

(* ... and a write does what it says to the locator it goes to *)
Lemma nth_error_set_nth_same : forall (ts : list table) i t t0, nth_error ts i = Some t0 ->
  nth_error (set_nth ts i t) i = Some t.
Proof.
  induction ts as [|x ts IH]; intros [|i] t t0 H; cbn in *; try discriminate; auto.
  all: try (eapply IH; eauto).
Qed.

Lemma nth_error_set_nth_other : forall (ts : list table) i j t, i <> j ->
  nth_error (set_nth ts i t) j = nth_error ts j.
Proof.
  induction ts as [|x ts IH]; intros [|i] [|j] t H; cbn; auto; try lia.
  all: try (apply IH; lia).
Qed.

Theorem a_write_reads_back h ts i n v t : nth_error ts i = Some t -> wf h t ->
  exists t', nth_error (snd (write false (h, ts) (i, n, v))) i = Some t' /\
    read (fst (write false (h, ts) (i, n, v))) t' n = Some v /\
    (forall m, m <> n -> read (fst (write false (h, ts) (i, n, v))) t' m = read h t m) /\
    (forall j, j <> i -> nth_error (snd (write false (h, ts) (i, n, v))) j = nth_error ts j).
Proof.
  intros Ht Hw. unfold write. cbn [fst snd]. rewrite Ht, set_var_replace. cbn [fst snd].
  exists ((n, length h) :: t). split; [eapply nth_error_set_nth_same; eauto|]. split; [|split].
  - unfold read. cbn [lookup]. rewrite Nat.eqb_refl. rewrite nth_error_app2 by lia.
    rewrite Nat.sub_diag. reflexivity.
  - intros m Hm. unfold read. cbn [lookup].
    replace (n =? m) with false by (symmetry; apply Nat.eqb_neq; lia).
    destruct (lookup t m) as [l|] eqn:E; [|reflexivity].
    apply nth_error_app1. exact (Hw m l E).
  - intros j Hj. apply nth_error_set_nth_other. lia.
Qed.

(* in-place writes: a snapshot taken before a second write of the same name changes with it *)
Lemma refuted_in_place :
  let '(h1, t1) := set_var true [] [] 0 7 in      (* x := 7 *)
  let snapshot := t1 in
  let '(h2, _) := set_var true h1 t1 0 41 in      (* x := 41 *)
  read h1 snapshot 0 = Some 7 /\ read h2 snapshot 0 = Some 41.
Proof. vm_compute. auto. Qed.
