From BV Require Import Model.SmallStep Proofs.TokenGameProofs.

Lemma sfin_emb r : sfin (emb r) = fin r /\ sended (emb r) = ended r.
Proof.
  induction r; cbn [emb sfin sended fin ended]; auto.
  - destruct IHr1 as [-> _], IHr2 as [-> _]. auto.
  - destruct IHr as [-> ->]. auto.
  - destruct IHr1 as [-> ->], IHr2 as [-> ->]. auto.
Qed.

(* a finished part does not move any more *)
Lemma complete_rests e r : sfin r = true \/ sended r = true -> forall r', ~ sstep e r r'.
Proof.
  induction r; cbn [sfin sended]; intros H r' S; try (destruct H; discriminate); inversion S; subst.
  - destruct H as [H|H]; [|discriminate]. apply andb_prop in H. destruct H as [H1 H2]. apply (IHr1 (or_introl H1) _ H3).
  - destruct H as [H|H]; [|discriminate]. apply andb_prop in H. destruct H as [H1 H2]. apply (IHr2 (or_introl H2) _ H3).
  - assert (G : sfin r1 = true \/ sended r1 = true).
    { destruct H as [H|H].
      - apply andb_prop in H. destruct H as [H _]. apply andb_prop in H. destruct H as [H _]. apply orb_prop in H. exact H.
      - apply andb_prop in H. destruct H as [H _]. auto. }
    apply (IHr1 G _ H3).
  - assert (G : sfin r2 = true \/ sended r2 = true).
    { destruct H as [H|H].
      - apply andb_prop in H. destruct H as [H _]. apply andb_prop in H. destruct H as [_ H]. apply orb_prop in H. exact H.
      - apply andb_prop in H. destruct H as [_ H]. auto. }
    apply (IHr2 G _ H3).
  - destruct H as [H|H]; [|discriminate]. apply orb_prop in H. apply (IHr H _ H1).
Qed.

Lemma sfin_not_sended r : sfin r = true -> sended r = false.
Proof.
  induction r; cbn [sfin sended]; try discriminate; auto.
  intros H. apply andb_prop in H. destruct H as [H H3]. apply andb_prop in H. destruct H as [H1 H2].
  apply orb_prop in H3. destruct H3 as [H3|H3]; [rewrite (IHr1 H3)|rewrite (IHr2 H3), andb_false_r]; reflexivity.
Qed.

(** DIAMOND: two different moves from one state can be completed, by one move each, to a common state — tokens in
    different branches do not disturb each other, and a single token's move is determined *)
Ltac use_ih :=
  match goal with
  | IH : forall s2, sstep ?e ?r s2 -> _, H : sstep ?e ?r ?x |- _ =>
      let s3 := fresh "s3" in let A := fresh "A" in let B := fresh "B" in
      destruct (IH _ H) as [->|[s3 [A B]]]
  end.

Lemma diamond e s s1 : sstep e s s1 -> forall s2, sstep e s s2 -> s1 = s2 \/ exists s3, sstep e s1 s3 /\ sstep e s2 s3.
Proof.
  induction 1; intros s2 S2; inversion S2; subst;
    try solve [left; reflexivity];
    try solve [exfalso; eapply complete_rests; eauto];
    try solve [match goal with H : sfin ?r = true, H' : sended ?r = true |- _ => rewrite (sfin_not_sended _ H) in H'; discriminate end];
    try solve [congruence];
    try solve [use_ih; [left; reflexivity | right; eexists; split; constructor; eassumption]];
    try solve [right; eexists; split; constructor; eassumption].
Qed.

Lemma strip e s s1 : sstep e s s1 -> forall q, ssteps e s q -> quiescent e q -> ssteps e s1 q.
Proof.
  intros S q R. revert s1 S. induction R as [r|r r1 r2 S1 R IH]; intros s1 S Q.
  - exfalso. exact (Q _ S).
  - destruct (diamond e r s1 S r1 S1) as [->|[s3 [A B]]]; auto.
    apply ss_step with s3; auto.
Qed.

(** ONE RESTING PLACE: whatever the order in which the tokens move, if they come to rest, they rest in the same state *)
Lemma unique_rest e s q1 : ssteps e s q1 -> quiescent e q1 -> forall q2, ssteps e s q2 -> quiescent e q2 -> q1 = q2.
Proof.
  induction 1 as [r|r r1 r2 S R IH]; intros Q1 q2 R2 Q2.
  - destruct R2 as [|? ? ? S2 _]; auto. exfalso. exact (Q1 _ S2).
  - apply IH; auto. eapply strip; eauto.
Qed.

Lemma ssteps_trans e a b c : ssteps e a b -> ssteps e b c -> ssteps e a c.
Proof. induction 1; auto. intros. eapply ss_step; eauto. Qed.
Lemma ssteps_one e a b : sstep e a b -> ssteps e a b.
Proof. intros. eapply ss_step; eauto. constructor. Qed.

Lemma ssteps_seq e r r' rest : ssteps e r r' -> ssteps e (SSeq r rest) (SSeq r' rest).
Proof. induction 1; [constructor|]. eapply ss_step; [apply s_seq_in; eauto|auto]. Qed.
Lemma ssteps_par e a a' b b' : ssteps e a a' -> ssteps e b b' -> ssteps e (SPar a b) (SPar a' b').
Proof.
  intros A B. apply ssteps_trans with (SPar a' b).
  - induction A; [constructor|]. eapply ss_step; [apply s_par_l; eauto|auto].
  - induction B; [constructor|]. eapply ss_step; [apply s_par_r; eauto|auto].
Qed.
Lemma ssteps_incl e a a' b b' : ssteps e a a' -> ssteps e b b' -> ssteps e (SIncl a b) (SIncl a' b').
Proof.
  intros A B. apply ssteps_trans with (SIncl a' b).
  - induction A; [constructor|]. eapply ss_step; [apply s_incl_l; eauto|auto].
  - induction B; [constructor|]. eapply ss_step; [apply s_incl_r; eauto|auto].
Qed.
Lemma ssteps_loop e r r' v body : ssteps e r r' -> ssteps e (SLoop r v body) (SLoop r' v body).
Proof. induction 1; [constructor|]. eapply ss_step; [apply s_loop_in; eauto|auto]. Qed.
Lemma ssteps_sub e r r' : ssteps e r r' -> ssteps e (SSub r) (SSub r').
Proof. induction 1; [constructor|]. eapply ss_step; [apply s_sub_in; eauto|auto]. Qed.

Lemma complete_nospin r : fin r = true \/ ended r = true -> nospin r.
Proof.
  induction r; cbn [fin ended nospin]; auto; intros H; try (destruct H; discriminate).
  - destruct H as [H|H]; [|discriminate]. apply andb_prop in H. destruct H. auto.
  - destruct H as [H|H]; [|discriminate]. apply orb_prop in H. auto.
  - assert (G : (fin r1 = true \/ ended r1 = true) /\ (fin r2 = true \/ ended r2 = true)).
    { destruct H as [H|H].
      - apply andb_prop in H. destruct H as [H _]. apply andb_prop in H. destruct H as [H1 H2].
        apply orb_prop in H1. apply orb_prop in H2. auto.
      - apply andb_prop in H. destruct H. auto. }
    destruct G. auto.
Qed.

(** the tokens can get where Model/Blocks.v puts them ... *)
Lemma start_reachable e b : nospin (start e b) -> ssteps e (SAt b) (emb (start e b)).
Proof.
  induction b; cbn [start]; intros N.
  - apply ssteps_one. constructor.
  - apply ssteps_one. constructor.
  - eapply ss_step; [apply s_seq|].
    destruct (fin (start e b1)) eqn:F.
    + eapply ssteps_trans; [apply ssteps_seq, IHb1, complete_nospin; auto|].
      eapply ss_step; [apply s_seq_next; rewrite (proj1 (sfin_emb _)); exact F|]. apply IHb2, N.
    + destruct (ended (start e b1)) eqn:G.
      * eapply ssteps_trans; [apply ssteps_seq, IHb1, complete_nospin; auto|].
        apply ssteps_one. apply s_seq_ended. rewrite (proj2 (sfin_emb _)). exact G.
      * cbn [nospin] in N. cbn [emb]. apply ssteps_seq, IHb1, N.
  - eapply ss_step; [apply s_par|]. cbn [nospin] in N. destruct N. cbn [emb]. apply ssteps_par; auto.
  - eapply ss_step; [apply s_if|]. destruct (getv e v); auto.
  - eapply ss_step; [apply s_loop|].
    destruct (fin (start e b)) eqn:F.
    + destruct (getv e v) eqn:V; [contradiction|].
      eapply ssteps_trans; [apply ssteps_loop, IHb, complete_nospin; auto|].
      apply ssteps_one. apply s_loop_exit; auto. rewrite (proj1 (sfin_emb _)). exact F.
    + destruct (ended (start e b)) eqn:G.
      * eapply ssteps_trans; [apply ssteps_loop, IHb, complete_nospin; auto|].
        apply ssteps_one. apply s_loop_ended. rewrite (proj2 (sfin_emb _)). exact G.
      * cbn [nospin] in N. cbn [emb]. apply ssteps_loop, IHb, N.
  - eapply ss_step; [apply s_sub|]. cbn [nospin] in N. cbn [emb]. apply ssteps_sub, IHb, N.
  - eapply ss_step; [apply s_incl|].
    destruct (getv e v1 || getv e v2) eqn:O; auto. cbn [nospin] in N. destruct N as [N1 N2]. cbn [emb].
    apply ssteps_incl; [destruct (getv e v1); [auto|constructor]|destruct (getv e v2); [auto|constructor]].
  - apply ssteps_one. constructor.
  - apply ssteps_one. constructor.
Qed.

(** ... and there they rest *)
Lemma emb_rests e r : wfr r -> nospin r -> quiescent e (emb r).
Proof.
  induction r; cbn [wfr nospin emb]; intros W N r' S; try contradiction; inversion S; subst.
  - destruct W as [F [E W]]. rewrite (proj1 (sfin_emb _)) in *. congruence.
  - destruct W as [F [E W]]. rewrite (proj2 (sfin_emb _)) in *. congruence.
  - destruct W as [F [E W]]. eapply IHr; eauto.
  - destruct W, N. eapply IHr1; eauto.
  - destruct W, N. eapply IHr2; eauto.
  - destruct W as [F [E W]]. rewrite (proj1 (sfin_emb _)) in *. congruence.
  - destruct W as [F [E W]]. rewrite (proj1 (sfin_emb _)) in *. congruence.
  - destruct W as [F [E W]]. rewrite (proj2 (sfin_emb _)) in *. congruence.
  - destruct W as [F [E W]]. eapply IHr; eauto.
  - eapply IHr; eauto.
  - destruct W, N. eapply IHr1; eauto.
  - destruct W, N. eapply IHr2; eauto.
Qed.

(** EVERY SCHEDULE, SAME STATE: however the tokens of a started program move, once they rest they are where
    [start] puts them *)
Theorem start_schedule_independent e b q : nospin (start e b) ->
  ssteps e (SAt b) q -> quiescent e q -> q = emb (start e b).
Proof.
  intros N R Q. eapply unique_rest; eauto.
  - apply start_reachable, N.
  - apply emb_rests; auto. apply wfr_start.
Qed.

Lemma answer_reachable e r t : nospin (answer e r t) -> ssteps e (sanswer (emb r) t) (emb (answer e r t)).
Proof.
  induction r; cbn [emb sanswer answer]; intros N; try constructor.
  - destruct (t =? t0); constructor.
  - destruct (fin (answer e r t)) eqn:F.
    + eapply ssteps_trans; [apply ssteps_seq, IHr, complete_nospin; auto|].
      eapply ss_step; [apply s_seq_next; rewrite (proj1 (sfin_emb _)); exact F|]. apply start_reachable, N.
    + destruct (ended (answer e r t)) eqn:G.
      * eapply ssteps_trans; [apply ssteps_seq, IHr, complete_nospin; auto|].
        apply ssteps_one. apply s_seq_ended. rewrite (proj2 (sfin_emb _)). exact G.
      * cbn [nospin] in N. cbn [emb]. apply ssteps_seq, IHr, N.
  - cbn [nospin] in N. destruct N. cbn [emb]. apply ssteps_par; auto.
  - destruct (fin (answer e r t)) eqn:F.
    + eapply ssteps_trans; [apply ssteps_loop, IHr, complete_nospin; auto|].
      destruct (getv e v) eqn:V.
      * eapply ss_step; [apply s_loop_again; auto; rewrite (proj1 (sfin_emb _)); exact F|].
        destruct (fin (start e body)) eqn:F2; [contradiction|].
        destruct (ended (start e body)) eqn:G2.
        -- eapply ssteps_trans; [apply ssteps_loop, start_reachable, complete_nospin; auto|].
           apply ssteps_one. apply s_loop_ended. rewrite (proj2 (sfin_emb _)). exact G2.
        -- cbn [nospin] in N. cbn [emb]. apply ssteps_loop, start_reachable, N.
      * apply ssteps_one. apply s_loop_exit; auto. rewrite (proj1 (sfin_emb _)). exact F.
    + destruct (ended (answer e r t)) eqn:G.
      * eapply ssteps_trans; [apply ssteps_loop, IHr, complete_nospin; auto|].
        apply ssteps_one. apply s_loop_ended. rewrite (proj2 (sfin_emb _)). exact G.
      * cbn [nospin] in N. cbn [emb]. apply ssteps_loop, IHr, N.
  - cbn [nospin] in N. cbn [emb]. apply ssteps_sub, IHr, N.
  - cbn [nospin] in N. destruct N. cbn [emb]. apply ssteps_incl; auto.
Qed.

(** ... and the same after every answer *)
Theorem answer_schedule_independent e r t q : wfr r -> nospin (answer e r t) ->
  ssteps e (sanswer (emb r) t) q -> quiescent e q -> q = emb (answer e r t).
Proof.
  intros W N R Q. eapply unique_rest; eauto.
  - apply answer_reachable, N.
  - apply emb_rests; auto. apply wfr_answer, W.
Qed.

(* two different schedules of the same program *)
Example schedules_nonvacuous :
  let b := BSeq (BPar (BTask 1) (BIf 0 (BTask 2) BSkip)) (BTask 3) in
  let e := [false] in
  ssteps e (SAt b) (SSeq (SPar (STask 1) SDone) (BTask 3)) /\
  emb (start e b) = SSeq (SPar (STask 1) SDone) (BTask 3).
Proof.
  cbn. split; [|reflexivity].
  eapply ss_step; [apply s_seq|]. eapply ss_step; [apply s_seq_in, s_par|].
  (* right branch first *)
  eapply ss_step; [apply s_seq_in, s_par_r, s_if|]. cbn.
  eapply ss_step; [apply s_seq_in, s_par_r, s_skip|].
  eapply ss_step; [apply s_seq_in, s_par_l, s_task|]. constructor.
Qed.
