From BV Require Import Model.FlowLeave.

Lemma flowing_spec_gen (conds : list bool) : forall k i,
  In i (map fst (filter snd (combine (seq k (length conds)) conds))) <-> (k <= i /\ nth_error conds (i - k) = Some true).
Proof.
  induction conds as [|c cs IH]; intros k i; cbn [length seq combine filter map].
  - split; [intros []|]. intros [_ H]. destruct (i - k); discriminate.
  - destruct c; cbn [snd map fst In].
    + rewrite IH. split.
      * intros [E|[L H]].
        -- subst. rewrite Nat.sub_diag. split; auto.
        -- split; [lia|]. replace (i - k) with (S (i - S k)) by lia. exact H.
      * intros [L H]. destruct (Nat.eq_dec k i) as [E|N]; [left; exact E|right].
        split; [lia|]. replace (i - k) with (S (i - S k)) in H by lia. exact H.
    + rewrite IH. split.
      * intros [L H]. split; [lia|]. replace (i - k) with (S (i - S k)) by lia. exact H.
      * intros [L H]. destruct (Nat.eq_dec k i) as [E|N].
        -- subst. rewrite Nat.sub_diag in H. discriminate.
        -- split; [lia|]. replace (i - k) with (S (i - S k)) in H by lia. exact H.
Qed.
Lemma flowing_spec conds i : In i (flowing conds) <-> nth_error conds i = Some true.
Proof. unfold flowing. rewrite flowing_spec_gen, Nat.sub_0_r. split; [tauto|]. intros H; split; [lia|exact H]. Qed.

Lemma flowing_nodup_gen (conds : list bool) : forall k, NoDup (map fst (filter snd (combine (seq k (length conds)) conds))).
Proof.
  induction conds as [|c cs IH]; intros k; cbn [length seq combine filter map]; [constructor|].
  destruct c; cbn [snd map fst]; [|apply IH]. constructor; [|apply IH].
  intros H. apply flowing_spec_gen in H. lia.
Qed.
Lemma flowing_nodup conds : NoDup (flowing conds).
Proof. apply flowing_nodup_gen. Qed.

(** repaired code: every flow whose condition holds receives exactly one token, no other flow any;
    the node is never asked again for the same token; the token ends iff no condition holds *)
Lemma leave_places_exactly conds :
  placed (leave false conds) = flowing conds /\ asks_again (leave false conds) = false /\
  NoDup (placed (leave false conds)) /\
  (forall i, In i (placed (leave false conds)) <-> nth_error conds i = Some true) /\
  (leave false conds = Ends <-> forall i, nth_error conds i <> Some true).
Proof.
  unfold leave. pose proof (flowing_nodup conds) as ND. pose proof (flowing_spec conds) as SP.
  destruct (flowing conds) as [|i rest] eqn:E; cbn [placed asks_again].
  - split; [reflexivity|]. split; [reflexivity|]. split; [constructor|]. split.
    + intros j. split; [intros []|]. intros H. apply SP in H. destruct H.
    + split; [|reflexivity]. intros _ j H. apply SP in H. destruct H.
  - split; [reflexivity|]. split; [reflexivity|]. split; [exact ND|]. split; [exact SP|].
    split; [intros H; discriminate|]. intros H. exfalso. apply (H i). apply SP. left; reflexivity.
Qed.

(** the pinned snapshot: first flow false, second true — the token stays at the node (which is asked
    for its next action again: a task is requested a second time) while a new token takes the true flow *)
Lemma leave_refuted_first_only :
  leave true [false; true] = Stays [1] /\ asks_again (leave true [false; true]) = true /\
  leave false [false; true] = Continues 1 [].
Proof. repeat split; reflexivity. Qed.
