From BV Require Import Model.InclGw Proofs.ParGwProofs.

(* ---------- fork ---------- *)
Lemma positions_spec_gen (conds : list bool) : forall k i,
  In i (map fst (filter snd (combine (seq k (length conds)) conds))) <-> (k <= i /\ nth_error conds (i - k) = Some true).
Proof.
  induction conds as [|c cs IH]; intros k i; cbn [length seq combine filter map].
  - split; [intros []|]. intros [_ H]. destruct (i - k); discriminate.
  - destruct c; cbn [snd map fst In].
    + rewrite IH. split.
      * intros [E|[L H]].
        -- subst. rewrite Nat.sub_diag. split; auto.
        -- split; [lia|]. replace (i - k) with (S (i - S k)) by lia. exact H.
      * intros [L H]. destruct (Nat.eq_dec k i) as [E|N]; [left; exact E|right].
        split; [lia|]. replace (i - k) with (S (i - S k)) in H by lia. exact H.
    + rewrite IH. split.
      * intros [L H]. split; [lia|]. replace (i - k) with (S (i - S k)) by lia. exact H.
      * intros [L H]. destruct (Nat.eq_dec k i) as [E|N].
        -- subst. rewrite Nat.sub_diag in H. discriminate.
        -- split; [lia|]. replace (i - k) with (S (i - S k)) in H by lia. exact H.
Qed.

Lemma positions_spec conds i : In i (positions conds) <-> nth_error conds i = Some true.
Proof. unfold positions. rewrite positions_spec_gen. rewrite Nat.sub_0_r. split; [tauto|]. intros H; split; [lia|exact H]. Qed.

(** the fork takes exactly the flows whose condition holds; the default flow alone when none does;
    neither: an error and no token *)
Lemma choose_true conds dflt l : choose conds dflt = Some (l, false) ->
  l <> [] /\ forall i, In i l <-> nth_error conds i = Some true.
Proof.
  unfold choose. destruct (positions conds) as [|a r] eqn:E.
  - destruct dflt; discriminate.
  - intros H. injection H as <-. split; [discriminate|]. intros i. rewrite <- E. apply positions_spec.
Qed.

Lemma choose_default conds : (forall i, nth_error conds i <> Some true) -> choose conds true = Some ([], true) /\ choose conds false = None.
Proof.
  intros H. unfold choose. destruct (positions conds) as [|a r] eqn:E; auto.
  exfalso. apply (H a). apply positions_spec. rewrite E. left; reflexivity.
Qed.

Lemma choose_default_only conds dflt l : choose conds dflt = Some (l, true) -> l = [] /\ dflt = true /\ forall i, nth_error conds i <> Some true.
Proof.
  unfold choose. destruct (positions conds) as [|a r] eqn:E.
  - destruct dflt; [|discriminate]. intros H. injection H as <-. repeat split; auto.
    intros i Hi. apply positions_spec in Hi. rewrite E in Hi. destruct Hi.
  - intros H. discriminate.
Qed.

(* the chosen flows are spread over the n parked tokens: each flow exactly once (C03's partition) *)
Lemma fork_tokens n ch : 1 <= n -> concat (map flows_of (distribute n (ntokens ch))) = seq 0 (ntokens ch).
Proof. intros H. apply partition; auto. Qed.

(* ---------- join ---------- *)
Lemma upd_length {A} (l : list A) i x : length (upd l i x) = length l.
Proof. revert i; induction l; intros [|i]; simpl; auto. Qed.

Lemma nth_upd {A} (l : list A) i j x d : nth j (upd l i x) d = if (j =? i) && (i <? length l) then x else nth j l d.
Proof.
  revert i j; induction l as [|a l IH]; intros i j; simpl.
  - destruct i, j; simpl; rewrite ?andb_false_r; reflexivity.
  - destruct i as [|i], j as [|j]; simpl; auto. rewrite IH. reflexivity.
Qed.

Lemma nth_error_nth {A} (l : list A) i x d : nth_error l i = Some x -> nth i l d = x.
Proof. revert i; induction l; intros [|i] H; simpl in *; try discriminate; [congruence|auto]. Qed.

Lemma nth_error_lt {A} (l : list A) i x : nth_error l i = Some x -> i < length l.
Proof. intros H. apply nth_error_Some. congruence. Qed.

Lemma picture_spec_gen (seen : list bool) : forall k j,
  In j (map fst (filter (fun p => negb (snd p)) (combine (seq k (length seen)) seen))) <-> (k <= j /\ nth_error seen (j - k) = Some false).
Proof.
  induction seen as [|c cs IH]; intros k i; cbn [length seq combine filter map].
  - split; [intros []|]. intros [_ H]. destruct (i - k); discriminate.
  - destruct c; cbn [snd negb map fst In].
    + rewrite IH. split.
      * intros [L H]. split; [lia|]. replace (i - k) with (S (i - S k)) by lia. exact H.
      * intros [L H]. destruct (Nat.eq_dec k i) as [E|N].
        -- subst. rewrite Nat.sub_diag in H. discriminate.
        -- split; [lia|]. replace (i - k) with (S (i - S k)) in H by lia. exact H.
    + rewrite IH. split.
      * intros [E|[L H]].
        -- subst. rewrite Nat.sub_diag. split; auto.
        -- split; [lia|]. replace (i - k) with (S (i - S k)) by lia. exact H.
      * intros [L H]. destruct (Nat.eq_dec k i) as [E|N]; [left; exact E|right].
        split; [lia|]. replace (i - k) with (S (i - S k)) in H by lia. exact H.
Qed.
Lemma picture_spec seen j : In j (picture seen) <-> nth_error seen j = Some false.
Proof. unfold picture. rewrite picture_spec_gen, Nat.sub_0_r. split; [tauto|]. intros H; split; [lia|exact H]. Qed.

Definition tok (s : jst) (j : nat) : tstate := nth j (toks s) TRun.

Record JInv (refresh : bool) (n : nat) (s : jst) : Prop := {
  j_len : length (toks s) = n /\ length (seen_end s) = n;
  j_seen : forall j, nth_error (seen_end s) j = Some true -> tok s j = TEnd;
  j_inact : activated s = false -> released s = 0 /\ synced s = false /\ forall j, tok s j <> TArr;
  j_rel : released s = if synced s then 1 else 0;
  j_cover : activated s = true -> forall j, j < n -> ~ In j (awaiting s) -> tok s j = TEnd;
  j_sync : synced s = true -> forall j, j < n -> tok s j <> TRun;
  j_fresh : refresh = true -> activated s = true -> synced s = false ->
            awaiting s = picture (seen_end s) /\ arrived_all (toks s) (awaiting s) = false
}.

Lemma nth_error_repeat_false n j : nth_error (repeat false n) j <> Some true.
Proof. revert j. induction n; intros [|j]; cbn; try discriminate. apply IHn. Qed.

Lemma nth_repeat_run n j : nth j (repeat TRun n) TRun = TRun.
Proof. revert j. induction n; intros [|j]; cbn; auto. Qed.

Lemma jinv_init r n : JInv r n (jinit n).
Proof.
  constructor; cbn [jinit toks seen_end activated awaiting released synced].
  - rewrite !repeat_length. auto.
  - intros j H. exfalso. exact (nth_error_repeat_false _ _ H).
  - intros _. repeat split; auto. intros j. unfold tok. cbn [jinit toks].
    rewrite nth_repeat_run. intros H; discriminate.
  - reflexivity.
  - intros H; discriminate.
  - intros H; discriminate.
  - intros _ H; discriminate.
Qed.

Lemma arrived_all_spec tk aw : arrived_all tk aw = true <-> forall j, In j aw -> nth j tk TRun = TArr.
Proof.
  unfold arrived_all. rewrite forallb_forall. split; intros H j Hj; specialize (H j Hj).
  - destruct (nth j tk TRun); auto; discriminate.
  - rewrite H. reflexivity.
Qed.

(* the synchronisation attempt preserves the invariant, given it for the state it starts from except
   for the freshness clause, which it establishes *)
Lemma try_sync_inv r n s :
  length (toks s) = n /\ length (seen_end s) = n ->
  (forall j, nth_error (seen_end s) j = Some true -> tok s j = TEnd) ->
  (activated s = false -> released s = 0 /\ synced s = false /\ forall j, tok s j <> TArr) ->
  released s = (if synced s then 1 else 0) ->
  (activated s = true -> forall j, j < n -> ~ In j (awaiting s) -> tok s j = TEnd) ->
  (synced s = true -> forall j, j < n -> tok s j <> TRun) ->
  (r = true -> activated s = true -> synced s = false -> awaiting s = picture (seen_end s)) ->
  JInv r n (try_sync s).
Proof.
  intros L Sn In Rl Cv Sy Fr. unfold try_sync.
  destruct (negb (synced s) && activated s && arrived_all (toks s) (awaiting s)) eqn:G.
  - apply andb_prop in G. destruct G as [G G3]. apply andb_prop in G. destruct G as [G1 G2]. apply negb_true_iff in G1.
    constructor; cbn [toks seen_end activated awaiting released synced];
      [exact L | exact Sn | intros H; discriminate | rewrite Rl, G1; reflexivity | intros _; exact (Cv G2) | | intros _ _ H; discriminate].
    intros _ j Hj. unfold tok. cbn [toks]. destruct (in_dec Nat.eq_dec j (awaiting s)) as [I|I].
    + rewrite arrived_all_spec in G3. rewrite (G3 j I). discriminate.
    + specialize (Cv G2 j Hj I). unfold tok in Cv. rewrite Cv. discriminate.
  - constructor; auto. intros R A S. split; auto. rewrite S, A in G. cbn in G. exact G.
Qed.

Lemma jinv_step r n s l s' : JInv r n s -> jstep r s l = Some s' -> JInv r n s'.
Proof.
  intros [[L1 L2] Sn In Rl Cv Sy Fr] H. destruct l as [i|i|i]; cbn [jstep] in H.
  - destruct (nth_error (toks s) i) as [[| |]|] eqn:E; try discriminate. injection H as <-.
    pose proof (nth_error_lt _ _ _ E) as Li. apply Nat.ltb_lt in Li.
    apply try_sync_inv; cbn [toks seen_end activated awaiting released synced]; unfold tok in *; cbn [toks].
    + rewrite upd_length. auto.
    + intros j Hj. rewrite nth_upd, Li. destruct (Nat.eqb_spec j i) as [->|N]; cbn [andb]; auto.
      specialize (Sn i Hj). rewrite (nth_error_nth _ _ _ TRun E) in Sn. discriminate.
    + intros; discriminate.
    + exact Rl.
    + intros _ j Hj Nj. rewrite nth_upd, Li. destruct (Nat.eqb_spec j i) as [->|N]; cbn [andb].
      * exfalso. destruct (activated s) eqn:A.
        -- specialize (Cv eq_refl i Hj Nj). rewrite (nth_error_nth _ _ _ TRun E) in Cv. discriminate.
        -- apply Nj. apply picture_spec. destruct (nth_error (seen_end s) i) as [[|]|] eqn:Q; auto.
           ++ specialize (Sn i Q). rewrite (nth_error_nth _ _ _ TRun E) in Sn. discriminate.
           ++ apply nth_error_None in Q. apply Nat.ltb_lt in Li. lia.
      * destruct (activated s) eqn:A; [apply Cv; auto|].
        assert (Q : nth_error (seen_end s) j = Some true).
        { destruct (nth_error (seen_end s) j) as [[|]|] eqn:Q; auto.
          - exfalso. apply Nj. apply picture_spec. exact Q.
          - apply nth_error_None in Q. lia. }
        apply Sn. exact Q.
    + intros S j Hj. specialize (Sy S j Hj). rewrite nth_upd, Li. destruct (Nat.eqb_spec j i) as [->|N]; cbn [andb]; auto. discriminate.
    + intros R _ S. destruct (activated s) eqn:A; auto. destruct (Fr R eq_refl S) as [F _]. exact F.
  - destruct (nth_error (toks s) i) as [[| |]|] eqn:E; try discriminate. injection H as <-.
    pose proof (nth_error_lt _ _ _ E) as Li. apply Nat.ltb_lt in Li.
    constructor; cbn [toks seen_end activated awaiting released synced]; unfold tok in *; cbn [toks]; auto.
    + rewrite upd_length. auto.
    + intros j Hj. rewrite nth_upd, Li. destruct (Nat.eqb_spec j i); cbn [andb]; auto.
    + intros A. destruct (In A) as [R0 [S0 N0]]. repeat split; auto. intros j.
      rewrite nth_upd, Li. destruct (Nat.eqb_spec j i); cbn [andb]; auto. discriminate.
    + intros A j Hj Nj. rewrite nth_upd, Li. destruct (Nat.eqb_spec j i); cbn [andb]; auto.
    + intros S j Hj. rewrite nth_upd, Li. destruct (Nat.eqb_spec j i); cbn [andb]; auto. discriminate.
    + intros R A S. destruct (Fr R A S) as [F1 F2]. split; auto.
      apply not_true_is_false. intros C. apply not_true_iff_false in F2. apply F2.
      rewrite arrived_all_spec in *. intros j Hj. specialize (C j Hj). rewrite nth_upd, Li in C.
      destruct (Nat.eqb_spec j i); cbn [andb] in C; auto. discriminate.
  - destruct (nth_error (toks s) i) as [[| |]|] eqn:E; try discriminate.
    destruct (nth_error (seen_end s) i) as [[|]|] eqn:E2; try discriminate. injection H as <-.
    pose proof (nth_error_lt _ _ _ E2) as Li. apply Nat.ltb_lt in Li.
    assert (SnU : forall j, nth_error (upd (seen_end s) i true) j = Some true -> nth j (toks s) TRun = TEnd).
    { intros j Hj. destruct (Nat.eq_dec j i) as [->|N].
      - apply (nth_error_nth _ _ _ TRun E).
      - apply Sn. rewrite <- Hj. clear - N. revert i j N. induction (seen_end s) as [|a l IH]; intros [|i] [|j] N; cbn; auto; try lia. }
    apply try_sync_inv; cbn [toks seen_end activated awaiting released synced]; unfold tok in *; cbn [toks]; auto.
    + rewrite upd_length. auto.
    + intros A j Hj Nj. destruct (r && activated s && negb (synced s)) eqn:G; [|apply Cv; auto].
      assert (Q : nth_error (upd (seen_end s) i true) j = Some true).
      { destruct (nth_error (upd (seen_end s) i true) j) as [[|]|] eqn:Q; auto.
        - exfalso. apply Nj. apply picture_spec. exact Q.
        - apply nth_error_None in Q. rewrite upd_length in Q. lia. }
      apply SnU. exact Q.
    + intros R A S. rewrite R, A, S. reflexivity.
Qed.

Lemma jinv_reach r n s : jreach r n s -> JInv r n s.
Proof.
  intros [p E]. revert E. generalize (jinv_init r n). generalize (jinit n).
  induction p as [|l p IH]; cbn [jexec]; intros s0 I0 E.
  - injection E as <-. exact I0.
  - destruct (jstep r s0 l) as [s1|] eqn:E1; [|discriminate]. eapply IH; [|exact E]. eapply jinv_step; eauto.
Qed.

(** ONE token per fork activation, NOT EARLY: released only when no token of the cohort is still
    on its way (each has arrived or ended elsewhere) — for the real code and for the variant alike *)
Lemma join_once_not_early r n s : jreach r n s ->
  released s <= 1 /\ (released s = 1 -> forall j, j < n -> tok s j <> TRun).
Proof.
  intros R. destruct (jinv_reach _ _ _ R) as [_ _ _ Rl _ Sy _]. rewrite Rl. destruct (synced s); split; try lia; auto.
Qed.

Lemma no_running_spec tk : no_running tk = true <-> forall j, j < length tk -> nth j tk TRun <> TRun.
Proof.
  unfold no_running. rewrite forallb_forall. split.
  - intros H j Hj. specialize (H (nth j tk TRun) (nth_In _ _ Hj)). destruct (nth j tk TRun); auto; discriminate.
  - intros H x Hx. apply In_nth with (d := TRun) in Hx. destruct Hx as [j [Hj <-]]. specialize (H j Hj).
    destruct (nth j tk TRun); auto; contradiction.
Qed.

Lemma caught_up_spec tk : forall se j, caught_up tk se = true -> nth_error tk j = Some TEnd -> nth_error se j = Some false -> False.
Proof.
  induction tk as [|t tk IH]; intros se j C T S; destruct j; cbn in *; try discriminate.
  - injection T as ->. destruct se as [|b r]; [discriminate|]. cbn in S. injection S as ->. cbn in C. discriminate C.
  - destruct se as [|b r]; [discriminate|]. cbn in S. destruct t; cbn in C; try (apply andb_prop in C; destruct C as [_ C]); eapply IH; eauto.
Qed.

(** NOT LATE: once every token of the cohort has arrived or ended, at least one arrived, and the
    tracker has processed the terminations, the gateway has released *)
Lemma join_not_late n s : jreach true n s ->
  no_running (toks s) = true -> some_arrived (toks s) = true -> caught_up (toks s) (seen_end s) = true -> released s = 1.
Proof.
  intros R NR SA CU. destruct (jinv_reach _ _ _ R) as [[L1 L2] Sn In Rl Cv Sy Fr].
  destruct (synced s) eqn:S; [exact Rl|exfalso].
  assert (A : activated s = true).
  { destruct (activated s) eqn:A; auto. destruct (In eq_refl) as [_ [_ N]].
    unfold some_arrived in SA. apply existsb_exists in SA. destruct SA as [x [Hx Tx]].
    apply In_nth with (d := TRun) in Hx. destruct Hx as [j [Hj E]]. specialize (N j). unfold tok in N. rewrite E in N.
    destruct x; try discriminate. contradiction. }
  destruct (Fr eq_refl A eq_refl) as [F1 F2]. apply not_true_iff_false in F2. apply F2.
  apply arrived_all_spec. intros j Hj. rewrite F1 in Hj. apply picture_spec in Hj.
  pose proof (nth_error_lt _ _ _ Hj) as Lj. rewrite no_running_spec in NR. rewrite L2, <- L1 in Lj. specialize (NR j Lj).
  destruct (nth j (toks s) TRun) eqn:T; auto; [contradiction|].
  exfalso. eapply caught_up_spec; eauto. rewrite <- T. apply nth_error_nth' . exact Lj.
Qed.

(** the tracker can always catch up *)
Lemma track_enabled r s i : nth_error (toks s) i = Some TEnd -> nth_error (seen_end s) i = Some false ->
  exists s', jstep r s (JTrack i) = Some s'.
Proof. intros A B. cbn [jstep]. rewrite A, B. eauto. Qed.

(** a gateway that looked at the picture only when the first token arrived would wait for ever for a
    token that ended elsewhere afterwards *)
Lemma refuted_no_refresh :
  exists s, jexec false (jinit 2) [JArrive 0; JEnd 1; JTrack 1] = Some s /\
    no_running (toks s) = true /\ some_arrived (toks s) = true /\ caught_up (toks s) (seen_end s) = true /\ released s = 0 /\
    forallb (fun l => match jstep false s l with Some _ => false | None => true end)
            [JArrive 0; JArrive 1; JEnd 0; JEnd 1; JTrack 0; JTrack 1] = true.
Proof. eexists. split; [vm_compute; reflexivity|]. vm_compute. auto 6. Qed.

Example incl_nonvacuous :
  exists s, jexec true (jinit 3) [JEnd 2; JArrive 0; JTrack 2; JArrive 1] = Some s /\ released s = 1 /\
    choose [true; false; true] true = Some ([0; 2], false) /\ choose [false; false] true = Some ([], true) /\ choose [false] false = None.
Proof. eexists. split; [vm_compute; reflexivity|]. vm_compute. auto. Qed.
