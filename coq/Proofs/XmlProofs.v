From BV Require Import Model.Xml.
From BV Require Gen.Facts.

(* ---- obligations on the generated facts (re-checked whenever schema/schema.go changes) ---- *)
(* every prefix PreMarshal writes is declared on the root with the namespace it stands for *)
Definition f_prefixes : bool :=
  forallb (fun e => match lookup (snd e) Facts.root_xmlns with
                    | Some u => String.eqb u (fst e) | None => false end) Facts.ns_prefix_table.
(* the prefix of the expression-type attribute is declared, with the namespace the parser tests *)
Definition f_xsi_declared : bool :=
  match lookup (fst Facts.expr_type_attr) Facts.root_xmlns with
  | Some u => String.eqb u Facts.expr_type_ns | None => false end.
Definition f_xsi_local : bool := String.eqb (snd Facts.expr_type_attr) Facts.expr_type_local.
Definition f_xsi_not_xmlns : bool := negb (String.eqb (fst Facts.expr_type_attr) "xmlns"%string).
(* the two values written are told apart by the parser's test *)
Definition f_formal : bool := is_formal Facts.expr_type_formal.
Definition f_informal : bool := negb (is_formal Facts.expr_type_informal).

Definition facts_ok : bool := f_prefixes && f_xsi_declared && f_xsi_local && f_xsi_not_xmlns && f_formal && f_informal.

Lemma F_prefixes : f_prefixes = true. Proof. vm_compute. reflexivity. Qed.
Lemma F_xsi_declared : f_xsi_declared = true. Proof. vm_compute. reflexivity. Qed.
Lemma F_xsi_local : f_xsi_local = true. Proof. vm_compute. reflexivity. Qed.
Lemma F_xsi_not_xmlns : f_xsi_not_xmlns = true. Proof. vm_compute. reflexivity. Qed.
Lemma F_formal : f_formal = true. Proof. vm_compute. reflexivity. Qed.
Lemma F_informal : f_informal = true. Proof. vm_compute. reflexivity. Qed.
Lemma facts_hold : facts_ok = true. Proof. vm_compute. reflexivity. Qed.

Lemma lookup_app k l1 l2 : lookup k (l1 ++ l2) = match lookup k l1 with Some v => Some v | None => lookup k l2 end.
Proof. induction l1 as [|[a b] r IH]; simpl; auto. destruct (String.eqb a k); auto. Qed.

Lemma prefix_resolves ns p extra : prefix_of ns = Some p -> resolve (Facts.root_xmlns ++ extra) p = ns.
Proof.
  intros H. pose proof F_prefixes as F. unfold f_prefixes in F.
  rewrite forallb_forall in F.
  unfold prefix_of in H.
  assert (G : In (ns, p) Facts.ns_prefix_table).
  { clear -H. induction Facts.ns_prefix_table as [|[a b] r IH]; simpl in *; [discriminate|].
    destruct (String.eqb_spec a ns); [inversion H; subst; left; reflexivity|right; auto]. }
  specialize (F _ G). cbn [fst snd] in F.
  unfold resolve. rewrite lookup_app.
  destruct (lookup p Facts.root_xmlns) as [u|]; [|discriminate].
  apply String.eqb_eq in F. exact F.
Qed.

(* induction principle for trees *)
Section TreeInd.
Variable P : tree -> Prop.
Hypothesis H : forall px ns local attrs xt text kids, Forall P kids -> P (T px ns local attrs xt text kids).
Fixpoint tree_ind' (t : tree) : P t :=
  match t with
  | T px ns local attrs xt text kids =>
      H px ns local attrs xt text kids
        ((fix go (l : list tree) : Forall P l :=
            match l with [] => Forall_nil _ | x :: r => Forall_cons _ (tree_ind' x) (go r) end) kids)
  end.
End TreeInd.

Section RT.
Variable trim : string -> string.

Lemma decls_of_plain (attrs : list (string * string)) :
  decls_of (map (fun a => ((None, fst a), snd a)) attrs) = [].
Proof. induction attrs as [|a r IH]; simpl; auto. Qed.

Lemma decls_of_type xt : decls_of (type_attr xt) = [].
Proof.
  destruct xt as [f|]; [|reflexivity].
  (* the attribute's prefix is a concrete generated string different from "xmlns" *)
  vm_compute. reflexivity.
Qed.

Lemma decls_of_app a b : decls_of (a ++ b) = decls_of a ++ decls_of b.
Proof. unfold decls_of. apply flat_map_app. Qed.

Lemma plain_of_plain (attrs : list (string * string)) :
  forallb (fun a => negb (String.eqb (fst a) "xmlns"%string)) attrs = true ->
  plain_attrs (map (fun a => ((None, fst a), snd a)) attrs) = attrs.
Proof.
  induction attrs as [|[k v] r IH]; intros H; simpl in *; auto.
  apply andb_prop in H. destruct H as [Hk Hr]. apply negb_true_iff in Hk. rewrite Hk. simpl. f_equal; auto.
Qed.

Lemma default_plain dflt (attrs : list (string * string)) rest :
  forallb (fun a => negb (String.eqb (fst a) "xmlns"%string)) attrs = true ->
  default_ns dflt (map (fun a => ((None, fst a), snd a)) attrs ++ rest) = default_ns dflt rest.
Proof.
  intros H. unfold default_ns. rewrite filter_app.
  replace (filter _ (map (fun a : string * string => (None, fst a, snd a)) attrs)) with (@nil (rname * string)); [reflexivity|].
  induction attrs as [|[k v] r IH]; simpl in *; auto.
  apply andb_prop in H. destruct H as [Hk Hr]. apply negb_true_iff in Hk. rewrite Hk. auto.
Qed.

Lemma default_type dflt xt : default_ns dflt (type_attr xt) = dflt.
Proof. destruct xt; reflexivity. Qed.

Lemma default_root_decls dflt : default_ns dflt root_decl_attrs = dflt.
Proof.
  unfold default_ns, root_decl_attrs, decl_attrs.
  induction Facts.root_xmlns as [|d r IH]; simpl; auto.
Qed.

Lemma plain_of_type xt : plain_attrs (type_attr xt) = [].
Proof. destruct xt; reflexivity. Qed.

Lemma plain_app a b : plain_attrs (a ++ b) = plain_attrs a ++ plain_attrs b.
Proof. unfold plain_attrs. apply flat_map_app. Qed.

Lemma plain_root_decls : plain_attrs root_decl_attrs = [].
Proof. unfold root_decl_attrs, decl_attrs. induction Facts.root_xmlns as [|d r IH]; simpl; auto. Qed.

Lemma decls_root_decls : decls_of root_decl_attrs = Facts.root_xmlns.
Proof.
  unfold root_decl_attrs, decl_attrs. induction Facts.root_xmlns as [|[p u] r IH]; simpl; auto. f_equal; auto.
Qed.

(* the xsi:type attribute is recognised under the root declarations, and nothing else is *)
Lemma xt_plain decls (attrs : list (string * string)) rest :
  xt_of decls (map (fun a => ((None, fst a), snd a)) attrs ++ rest) = xt_of decls rest.
Proof. unfold xt_of. rewrite filter_app. induction attrs as [|a r IH]; simpl; auto. Qed.

Lemma xt_type extra xt rest :
  (forall a, In a rest -> match fst a with (Some p, _) => p = "xmlns"%string | _ => True end) ->
  xt_of (Facts.root_xmlns ++ extra) (type_attr xt ++ rest) = xt.
Proof.
  intros Hrest.
  pose proof F_xsi_declared as Fd. unfold f_xsi_declared in Fd.
  pose proof F_xsi_local as Fl. unfold f_xsi_local in Fl.
  pose proof F_xsi_not_xmlns as Fx. unfold f_xsi_not_xmlns in Fx.
  pose proof F_formal as Ff. unfold f_formal in Ff.
  pose proof F_informal as Fi. unfold f_informal in Fi.
  assert (Hnone : filter (is_type_attr (Facts.root_xmlns ++ extra)) rest = []).
  { induction rest as [|a r IH]; simpl; auto.
    assert (Ha := Hrest a (or_introl eq_refl)).
    destruct a as [[[p|] k] v]; unfold is_type_attr at 1; cbn [fst snd] in *.
    - subst p. cbn. apply IH. intros b Hb. apply Hrest. right; auto.
    - apply IH. intros b Hb. apply Hrest. right; auto. }
  unfold xt_of. rewrite filter_app, Hnone, app_nil_r.
  destruct xt as [f|]; [|reflexivity]. cbn [type_attr filter]. unfold is_type_attr. cbn [fst snd].
  assert (R : resolve (Facts.root_xmlns ++ extra) (fst Facts.expr_type_attr) = Facts.expr_type_ns).
  { unfold resolve. rewrite lookup_app.
    destruct (lookup (fst Facts.expr_type_attr) Facts.root_xmlns) as [u|]; [|discriminate].
    apply String.eqb_eq in Fd; exact Fd. }
  rewrite R, String.eqb_refl, Fx, Fl.
  cbn [andb snd]. destruct f.
  - rewrite Ff. reflexivity.
  - apply negb_true_iff in Fi; rewrite Fi. reflexivity.
Qed.

Lemma prefix_resolves0 ns p : prefix_of ns = Some p -> resolve Facts.root_xmlns p = ns.
Proof. intros H. pose proof (prefix_resolves ns p [] H) as R. rewrite app_nil_r in R. exact R. Qed.

Lemma xt_type0 xt : xt_of Facts.root_xmlns (type_attr xt) = xt.
Proof.
  pose proof (xt_type [] xt []) as R. rewrite !app_nil_r in R. apply R. intros a [].
Qed.

(* inner elements: decoding what enc wrote, under the root declarations, gives back the tree *)
Lemma roundtrip_inner dflt t : known t = true -> dec Facts.root_xmlns dflt (enc trim t) = norm trim t.
Proof.
  revert dflt. induction t using tree_ind'. intros dflt K. simpl in K.
  apply andb_prop in K. destruct K as [K Kk]. apply andb_prop in K. destruct K as [Kn Ka].
  destruct px.
  - destruct (prefix_of ns) as [p|] eqn:Ep; [|discriminate].
    cbn [enc dec norm app]. rewrite Ep.
    rewrite decls_of_app, decls_of_plain, decls_of_type. cbn [app].
    rewrite (prefix_resolves0 ns p Ep).
    rewrite plain_app, plain_of_plain, plain_of_type, app_nil_r by auto.
    rewrite xt_plain, xt_type0.
    f_equal. rewrite map_map.
    rewrite forallb_forall in Kk.
    set (d' := default_ns dflt _). clearbody d'. clear -H Kk.
    induction H as [|k r Hk Hr IH]; simpl; auto.
    f_equal; [apply Hk; apply Kk; left; auto|apply IH; intros x Hx; apply Kk; right; auto].
  - destruct kids; [|discriminate].
    cbn [enc dec norm app map].
    assert (E1 : decls_of (((None, "xmlns"%string), ns) :: map (fun a : string * string => ((None, fst a), snd a)) attrs ++ type_attr xt) = []).
    { cbn [decls_of flat_map fst app]. fold (decls_of (map (fun a : string * string => ((None, fst a), snd a)) attrs ++ type_attr xt)).
      rewrite decls_of_app, decls_of_plain, decls_of_type. reflexivity. }
    rewrite E1. cbn [app].
    assert (E2 : default_ns dflt (((None, "xmlns"%string), ns) :: map (fun a : string * string => ((None, fst a), snd a)) attrs ++ type_attr xt) = ns) by reflexivity.
    rewrite E2.
    assert (E3 : plain_attrs (((None, "xmlns"%string), ns) :: map (fun a : string * string => ((None, fst a), snd a)) attrs ++ type_attr xt) = attrs).
    { cbn [plain_attrs flat_map fst snd app]. fold (plain_attrs (map (fun a : string * string => ((None, fst a), snd a)) attrs ++ type_attr xt)).
      rewrite plain_app, plain_of_plain, plain_of_type, app_nil_r by auto. reflexivity. }
    rewrite E3.
    assert (E4 : xt_of Facts.root_xmlns (((None, "xmlns"%string), ns) :: map (fun a : string * string => ((None, fst a), snd a)) attrs ++ type_attr xt) = xt).
    { unfold xt_of. cbn [filter is_type_attr fst]. fold (xt_of Facts.root_xmlns (map (fun a : string * string => ((None, fst a), snd a)) attrs ++ type_attr xt)).
      rewrite xt_plain, xt_type0. reflexivity. }
    rewrite E4. reflexivity.
Qed.

(* the whole document: the root carries the declarations *)
Lemma roundtrip_root t : known t = true -> (match t with T px _ _ _ _ _ _ => px = true end) ->
  dec [] ""%string (enc_root trim t) = norm trim t.
Proof.
  destruct t as [px ns local attrs xt text kids]. intros K Hpx. subst px.
  simpl in K. apply andb_prop in K. destruct K as [K Kk]. apply andb_prop in K. destruct K as [Kn Ka].
  destruct (prefix_of ns) as [p|] eqn:Ep; [|discriminate].
  unfold enc_root, enc_root_with. fold root_decl_attrs. cbn [enc dec norm app]. rewrite Ep.
  rewrite !decls_of_app, decls_of_plain, decls_of_type, decls_root_decls. cbn [app]. rewrite app_nil_r.
  rewrite (prefix_resolves0 ns p Ep).
  rewrite !plain_app, plain_of_plain, plain_of_type, plain_root_decls, !app_nil_r by auto.
  rewrite <- app_assoc, xt_plain.
  assert (R : xt_of Facts.root_xmlns (type_attr xt ++ root_decl_attrs) = xt).
  { pose proof (xt_type [] xt root_decl_attrs) as R0.
    replace (Facts.root_xmlns ++ []) with Facts.root_xmlns in R0 by (symmetry; apply app_nil_r).
    apply R0. unfold root_decl_attrs, decl_attrs. intros a Ha. apply in_map_iff in Ha. destruct Ha as [d [<- _]]. reflexivity. }
  match goal with |- T _ _ _ _ ?x _ _ = _ => replace x with xt by (symmetry; exact R) end.
  f_equal. rewrite map_map. rewrite forallb_forall in Kk.
  match goal with |- map (fun x => dec _ ?d _) _ = _ => set (d' := d); clearbody d' end.
  clear -Kk. induction kids as [|k r IH]; simpl; auto.
  f_equal; [apply roundtrip_inner; apply Kk; left; auto|apply IH; intros x Hx; apply Kk; right; auto].
Qed.
End RT.
