From BV Require Import Model.InclLag.

Lemma lupd_length {A} (l : list A) i x : length (lupd l i x) = length l.
Proof. revert i; induction l as [|a l IH]; intros [|i]; cbn; auto. Qed.

Lemma nth_lupd {A} (l : list A) i j x d :
  nth j (lupd l i x) d = if (j =? i) && (i <? length l) then x else nth j l d.
Proof.
  revert i j; induction l as [|a l IH]; intros [|i] [|j]; cbn; auto.
  all: try (destruct j; reflexivity).
  all: try (rewrite IH; cbn; reflexivity).
  all: try (rewrite andb_false_r; reflexivity).
Qed.

Lemma nth_error_nth' {A} (l : list A) i x d : nth_error l i = Some x -> nth i l d = x /\ i < length l.
Proof.
  revert i; induction l as [|a l IH]; intros [|i] H; cbn in *; try discriminate.
  - inversion H; split; [reflexivity|lia].
  - destruct (IH i H) as [E L]. split; [exact E|lia].
Qed.

Lemma nth_error_repeat_true n i : nth_error (repeat true n) i <> Some false.
Proof.
  intro H. apply nth_error_In, repeat_spec in H. discriminate.
Qed.

Lemma in_lpicture tk kn j : In j (lpicture tk kn) <->
  j < length tk /\ match nth j tk LGone with LGone => False | LWait => True | LRun => nth j kn false = true end.
Proof.
  unfold lpicture. rewrite filter_In, in_seq. cbn.
  destruct (nth j tk LGone); intuition (try lia; try discriminate).
Qed.

Lemma all_wait_spec tk aw : all_wait tk aw = true <-> forall j, In j aw -> nth j tk LRun = LWait.
Proof.
  unfold all_wait. rewrite forallb_forall. split; intros H j Hj; specialize (H j Hj).
  - destruct (nth j tk LRun); try discriminate; reflexivity.
  - rewrite H. reflexivity.
Qed.

Lemma nth_consume tk j : nth j (consume tk) LRun = match nth j tk LRun with LWait => LGone | x => x end.
Proof.
  revert j; induction tk as [|t tk IH]; intros [|j]; cbn; auto.
  all: try (destruct t; reflexivity).
  all: try apply IH.
Qed.

Lemma nth_default_indep (tk : list ltok) j d d' : j < length tk -> nth j tk d = nth j tk d'.
Proof. intros. apply nth_indep. assumption. Qed.

Lemma nth_repeat_true n j : j < n -> nth j (repeat true n) false = true.
Proof. revert j; induction n as [|n IH]; intros [|j] H; cbn; auto; try lia. apply IH; lia. Qed.

(* the invariant of the informed join *)
Definition LInv (n : nat) (s : lst) : Prop :=
  length (ltoks s) = n /\ known s = repeat true n /\
  ((lrel s = 0 /\ (forall j, j < n -> nth j (ltoks s) LRun <> LGone) /\
    (exists j, j < n /\ nth j (ltoks s) LRun = LRun) /\
    (lact s = true -> forall j, In j (lawait s) <-> j < n))
   \/ (lrel s = 1 /\ lact s = false /\ forall j, j < n -> nth j (ltoks s) LRun = LGone)).

Lemma linv_init n : 1 <= n -> LInv n (linit true n).
Proof.
  intros Hn. unfold LInv, linit; cbn. split; [apply repeat_length|]. split; [reflexivity|]. left.
  split; [reflexivity|]. split; [|split].
  - intros j Hj.
    assert (H : nth j (repeat LRun n) LRun = LRun) by (clear; revert j; induction n; intros [|j]; cbn; auto).
    rewrite H. discriminate.
  - exists 0. split; [lia|]. destruct n; [lia|reflexivity].
  - discriminate.
Qed.

Lemma linv_step n s l s' : LInv n s -> lstep s l = Some s' -> LInv n s'.
Proof.
  intros [HL [HK HP]] H. destruct l as [i|i]; cbn [lstep] in H.
  - (* the tracker knows everything already *)
    rewrite HK in H. destruct (nth_error (repeat true n) i) as [[|]|] eqn:E; try discriminate.
    exfalso. exact (nth_error_repeat_true n i E).
  - destruct (nth_error (ltoks s) i) as [t|] eqn:E; [|discriminate]. destruct t; try discriminate.
    destruct (nth_error_nth' _ _ _ LRun E) as [Ei Li].
    destruct HP as [[R0 [NG [_ AW]]]|[R1 [A1 G1]]].
    2:{ exfalso. rewrite G1 in Ei by lia. discriminate. }
    inversion H; subst s'; clear H.
    set (tk := lupd (ltoks s) i LWait).
    assert (Ltk : length tk = n) by (unfold tk; rewrite lupd_length; exact HL).
    assert (NGtk : forall j, j < n -> nth j tk LRun <> LGone).
    { intros j Hj. unfold tk. rewrite nth_lupd. destruct ((j =? i) && (i <? length (ltoks s))); [discriminate|apply NG; exact Hj]. }
    assert (AWtk : forall j, In j (if lact s then lawait s else lpicture tk (known s)) <-> j < n).
    { destruct (lact s) eqn:EA; [apply AW; reflexivity|].
      intros j. rewrite in_lpicture, Ltk. split; [tauto|]. intros Hj. split; [exact Hj|].
      rewrite (nth_default_indep tk j LGone LRun) by lia.
      specialize (NGtk j Hj). destruct (nth j tk LRun) eqn:En; try tauto.
      rewrite HK. apply nth_repeat_true. exact Hj. }
    unfold ltry. cbn [lact ltoks lawait known lrel].
    destruct (all_wait tk (if lact s then lawait s else lpicture tk (known s))) eqn:EW; cbn [andb].
    + (* released *)
      unfold LInv; cbn. split; [unfold consume; rewrite map_length; exact Ltk|]. split; [exact HK|]. right.
      split; [rewrite R0; reflexivity|]. split; [reflexivity|].
      intros j Hj. rewrite nth_consume.
      rewrite (proj1 (all_wait_spec _ _) EW j (proj2 (AWtk j) Hj)). reflexivity.
    + unfold LInv; cbn. split; [exact Ltk|]. split; [exact HK|]. left.
      split; [exact R0|]. split; [exact NGtk|]. split; [|intros _; exact AWtk].
      (* some token still runs, or the join would have released *)
      destruct (existsb (fun j => match nth j tk LRun with LRun => true | _ => false end) (seq 0 n)) eqn:EX.
      * apply existsb_exists in EX. destruct EX as [j [Hj Hr]]. apply in_seq in Hj.
        exists j. split; [lia|]. destruct (nth j tk LRun); try discriminate; reflexivity.
      * exfalso. assert (HA : all_wait tk (if lact s then lawait s else lpicture tk (known s)) = true).
        { apply all_wait_spec. intros j Hj. apply AWtk in Hj.
          assert (Hn : existsb (fun j => match nth j tk LRun with LRun => true | _ => false end) (seq 0 n) = false) by exact EX.
          rewrite <- not_true_iff_false, existsb_exists in Hn.
          specialize (NGtk j Hj). destruct (nth j tk LRun) eqn:En; try tauto.
          exfalso. apply Hn. exists j. split; [apply in_seq; lia|]. rewrite En. reflexivity. }
        congruence.
Qed.

Lemma linv_exec n : forall p s s', LInv n s -> lexec s p = Some s' -> LInv n s'.
Proof.
  induction p as [|l p IH]; intros s s' HI H; cbn in H.
  - inversion H; subst; exact HI.
  - destruct (lstep s l) as [s1|] eqn:E; [|discriminate]. eapply IH; [eapply linv_step; eassumption|exact H].
Qed.

(* When the tracker knows the whole fork activation before the first token reaches the join, the join lets exactly
   one token through, and exactly when every token of the activation has arrived. *)
Theorem informed_join_once n s : 1 <= n -> lreach true n s ->
  lrel s <= 1 /\ (lrel s = 1 <-> all_arrived (ltoks s) = true).
Proof.
  intros Hn [p Hp]. destruct (linv_exec n p _ _ (linv_init n Hn) Hp) as [HL [_ HP]].
  destruct HP as [[R0 [_ [[j [Hj Hr]] _]]]|[R1 [_ G]]].
  - split; [lia|]. rewrite R0. split; [discriminate|]. intros HA. exfalso.
    unfold all_arrived in HA. rewrite forallb_forall in HA.
    assert (Hin : In (nth j (ltoks s) LRun) (ltoks s)) by (apply nth_In; lia).
    specialize (HA _ Hin). rewrite Hr in HA. discriminate.
  - split; [lia|]. rewrite R1. split; [intros _|reflexivity].
    unfold all_arrived. apply forallb_forall. intros t Ht.
    destruct (In_nth _ _ LRun Ht) as [j [Hj Ej]]. rewrite G in Ej by lia. subst t. reflexivity.
Qed.

(* When it does not: two tokens, the first reaches the join before the tracker has seen the fork's trace -- the join
   lets it through, and the second one as well *)
Lemma refuted_uninformed :
  exists s, lexec (linit false 2) [LArr 0; LArr 1] = Some s /\ lrel s = 2.
Proof. eexists. split; [vm_compute; reflexivity|reflexivity]. Qed.

(* ... and a tracker that catches up in time repairs it: the creation of the other token processed before the first
   arrival, or between the two *)
Lemma catching_up_in_time :
  (exists s, lexec (linit false 2) [LKnow 1; LArr 0; LArr 1] = Some s /\ lrel s = 1) /\
  (exists s, lexec (linit false 2) [LKnow 0; LKnow 1; LArr 1; LArr 0] = Some s /\ lrel s = 1).
Proof. split; eexists; (split; [vm_compute; reflexivity|reflexivity]). Qed.
