From BV Require Import Model.Builder.

(* closed form of the builder's output: a chain *)
Fixpoint chain_nodes (cur : nat) (cin : list nat) (steps : list (nat * nat)) : list pnode :=
  match steps with
  | [] => [{| nid := cur; nin := cin; nout := [] |}]
  | (f, n) :: r => {| nid := cur; nin := cin; nout := [f] |} :: chain_nodes n [f] r
  end.
Fixpoint chain_flows (cur : nat) (steps : list (nat * nat)) : list pflow :=
  match steps with
  | [] => []
  | (f, n) :: r => {| fid := f; fsrc := cur; ftgt := n |} :: chain_flows n r
  end.

Lemma add_out_cons f a l : l <> [] -> add_out f (a :: l) = a :: add_out f l.
Proof. destruct l; [congruence|reflexivity]. Qed.

Lemma add_out_last f pre x :
  add_out f (pre ++ [x]) = pre ++ [{| nid := nid x; nin := nin x; nout := nout x ++ [f] |}].
Proof.
  induction pre as [|a pre IH]; [reflexivity|].
  cbn [app]. rewrite add_out_cons by (destruct pre; discriminate). rewrite IH. reflexivity.
Qed.

Lemma last_map_some (pre : list pnode) x : last (map Some (pre ++ [x])) None = Some x.
Proof. rewrite map_app. simpl. apply last_last. Qed.

Lemma build_from_closed : forall steps pre cur cin fl,
  build_from {| nodes := pre ++ [{| nid := cur; nin := cin; nout := [] |}]; flows := fl |} steps =
  {| nodes := pre ++ chain_nodes cur cin steps; flows := fl ++ chain_flows cur steps |}.
Proof.
  induction steps as [|[f n] r IH]; intros pre cur cin fl; simpl.
  - rewrite app_nil_r. reflexivity.
  - unfold link. cbn [nodes flows]. rewrite last_map_some, add_out_last. cbn [nid nin nout app].
    rewrite <- app_assoc. cbn [app].
    replace (pre ++ {| nid := cur; nin := cin; nout := [f] |} :: [{| nid := n; nin := [f]; nout := [] |}])
      with ((pre ++ [{| nid := cur; nin := cin; nout := [f] |}]) ++ [{| nid := n; nin := [f]; nout := [] |}])
      by (rewrite <- app_assoc; reflexivity).
    rewrite IH. rewrite <- !app_assoc. reflexivity.
Qed.

Lemma build_closed start steps :
  build start steps = {| nodes := chain_nodes start [] steps; flows := chain_flows start steps |}.
Proof. unfold build, new_builder. apply (build_from_closed steps [] start [] []). Qed.

(* ---- well-formedness of the chain ---- *)
Lemma chain_node_ids cur cin steps : map nid (chain_nodes cur cin steps) = cur :: map snd steps.
Proof. revert cur cin; induction steps as [|[f n] r IH]; intros; simpl; auto. rewrite IH; auto. Qed.

Lemma chain_flow_ids cur steps : map fid (chain_flows cur steps) = map fst steps.
Proof. revert cur; induction steps as [|[f n] r IH]; intros; simpl; auto. rewrite IH; auto. Qed.

Lemma chain_head cur cin steps : exists o r, chain_nodes cur cin steps = {| nid := cur; nin := cin; nout := o |} :: r.
Proof. destruct steps as [|[f n] r]; simpl; eauto. Qed.

Lemma chain_flow_ends cur cin steps g :
  In g (chain_flows cur steps) ->
  exists s t, In s (chain_nodes cur cin steps) /\ In t (chain_nodes cur cin steps) /\
              nid s = fsrc g /\ nid t = ftgt g /\ In (fid g) (nout s) /\ In (fid g) (nin t).
Proof.
  revert cur cin; induction steps as [|[f n] r IH]; intros cur cin H; simpl in *; [destruct H|].
  destruct H as [<-|H].
  - destruct (chain_head n [f] r) as [o [r' E]].
    exists {| nid := cur; nin := cin; nout := [f] |}, {| nid := n; nin := [f]; nout := o |}.
    rewrite E. simpl. repeat split; auto.
  - destruct (IH n [f] H) as [s [t [A [B C]]]]. exists s, t. repeat split; try tauto; right; auto.
Qed.

Lemma chain_last_out cur cin steps : nout (last (chain_nodes cur cin steps) {| nid := 0; nin := []; nout := [0] |}) = [].
Proof.
  revert cur cin; induction steps as [|[f n] r IH]; intros; simpl; auto.
  destruct (chain_head n [f] r) as [o [r' E]]. rewrite E. rewrite <- E. apply IH.
Qed.

Lemma chain_first_in cur cin steps : nin (hd {| nid := 0; nin := [0]; nout := [] |} (chain_nodes cur cin steps)) = cin.
Proof. destruct (chain_head cur cin steps) as [o [r E]]. rewrite E. reflexivity. Qed.
