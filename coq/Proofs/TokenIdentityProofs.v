From BV Require Import Model.FlowLeave Proofs.FlowLeaveProofs Model.TokenIdentity.

Lemma number_from_flows fresh flows : map fst (number_from fresh flows) = flows.
Proof. revert fresh; induction flows as [|f r IH]; intro fresh; cbn; [reflexivity|]. rewrite IH. reflexivity. Qed.

Lemma number_from_ids fresh flows f t : In (f, t) (number_from fresh flows) -> fresh <= t.
Proof.
  revert fresh; induction flows as [|g r IH]; intro fresh; cbn; [tauto|].
  intros [E|H]; [injection E as _ <-; lia|]. apply IH in H. lia.
Qed.

(** the arriving token is among the tokens that go on whenever any flow flows, on the first flow that flows; the
    flows that carry a token are exactly the ones whose condition holds *)
Theorem the_arriving_token_goes_on me fresh conds :
  map fst (leave_ids FirstThatFlows me fresh conds) = flowing conds /\
  ((exists i, nth_error conds i = Some true) -> exists i, In (i, me) (leave_ids FirstThatFlows me fresh conds)) /\
  (me < fresh -> forall f, In (f, me) (leave_ids FirstThatFlows me fresh conds) -> hd_error (flowing conds) = Some f).
Proof.
  unfold leave_ids. destruct (flowing conds) as [|i rest] eqn:E.
  - split; [reflexivity|]. split.
    + intros [i Hi]. apply flowing_spec in Hi. rewrite E in Hi. destruct Hi.
    + intros _ f [].
  - split; [cbn; rewrite number_from_flows; reflexivity|]. split.
    + intros _. exists i. left. reflexivity.
    + intros Hlt f [H|H]; [injection H as <-; reflexivity|].
      apply number_from_ids in H. lia.
Qed.

Theorem refuted_when_bound_to_the_first_listed_flow :
  leave_ids FirstListedEnds 1 5 [false; true] = [(1, 5)] /\ leave_ids FirstThatFlows 1 5 [false; true] = [(1, 1)] /\
  leave_ids FirstListedEnds 1 5 [true; true] = leave_ids FirstThatFlows 1 5 [true; true].
Proof. vm_compute. repeat split. Qed.
