From BV Require Import Model.SubProc.

Definition pend_body (s : spst) : nat :=
  match cur s with Some a => if entered_body a then 0 else 1 | None => 0 end.

Record SPInv (s : spst) : Prop := {
  sp_acct : arrived s = conts s + queue s + busy s;
  sp_nth : conts s + busy s = nth s;
  sp_bodies : bodies s + pend_body s = nth s;
  sp_early : early s = false;
  sp_cur : forall a, cur s = Some a -> body a = true /\ mon a = true /\ (ceased a = true -> tokens a = 0 /\ started a = true)
           /\ (entered_body a = false -> tokens a = 0 /\ started a = false /\ ceased a = false)
}.

Definition spgood (c : scfg) : Prop := cease_inner c = true /\ per_act c = true /\ rearm c = true /\ fresh_seen c = true.

Lemma spinv_init : SPInv spinit.
Proof. constructor; cbn; auto. intros a H; discriminate. Qed.

Lemma spinv_step c s l s' : spgood c -> SPInv s -> spstep c s l = Some s' -> SPInv s'.
Proof.
  intros [G1 [G2 [G3 G4]]] [A N B E C] H.
  unfold spstep in H. destruct l; destruct (cur s) as [a|] eqn:Hc; try discriminate;
    unfold busy, pend_body in *; rewrite ?Hc in *.
  - injection H as <-. constructor; unfold busy, pend_body; cbn [cur queue nth conts arrived bodies early]; rewrite ?Hc; auto; lia.
  - injection H as <-. constructor; unfold busy, pend_body; cbn [cur queue nth conts arrived bodies early]; rewrite ?Hc; auto; lia.
  - destruct (1 <=? queue s) eqn:Q; [|discriminate]. apply Nat.leb_le in Q. injection H as <-.
    constructor; unfold busy, pend_body; cbn [cur queue nth conts arrived bodies early entered_body];
      [lia | lia | lia | exact E | ].
    intros a Ha. injection Ha as <-. cbn. rewrite G2, G3, G4. cbn. repeat split; auto; intros; discriminate.
  - destruct (negb (entered_body a)) eqn:Q; [|discriminate]. apply negb_true_iff in Q. injection H as <-.
    destruct (C a eq_refl) as [Cb [Cm [Cc Ce]]]. destruct (Ce Q) as [T1 [T2 T3]]. rewrite Q in B.
    constructor; unfold busy, pend_body; cbn [cur queue nth conts arrived bodies early entered_body];
      [lia | lia | rewrite Cb; lia | exact E | ].
    intros a' Ha. injection Ha as <-. cbn. rewrite Cb, T3. repeat split; auto; intros; discriminate.
  - destruct (mon a && entered_body a && negb (started a)) eqn:Q; [|discriminate]. injection H as <-.
    apply andb_prop in Q. destruct Q as [Q Q3]. apply andb_prop in Q. destruct Q as [Q1 Q2]. apply negb_true_iff in Q3.
    destruct (C a eq_refl) as [Cb [Cm [Cc Ce]]]. rewrite Q2 in B.
    constructor; unfold busy, pend_body, with_cur; cbn [cur queue nth conts arrived bodies early entered_body];
      [lia | lia | lia | exact E | ].
    intros a' Ha. injection Ha as <-. cbn. repeat split; auto; try (intros; discriminate);
      try (match goal with X : ceased _ = true |- _ => destruct (Cc X); try lia; congruence end).
  - destruct (entered_body a && (1 <=? tokens a)) eqn:Q; [|discriminate]. injection H as <-.
    apply andb_prop in Q. destruct Q as [Q1 Q2]. apply Nat.leb_le in Q2.
    destruct (C a eq_refl) as [Cb [Cm [Cc Ce]]]. rewrite Q1 in B.
    constructor; unfold busy, pend_body, with_cur; cbn [cur queue nth conts arrived bodies early entered_body];
      [lia | lia | lia | exact E | ].
    intros a' Ha. injection Ha as <-. cbn. repeat split; auto; try (intros; discriminate);
      try (match goal with X : ceased _ = true |- _ => destruct (Cc X); try lia; congruence end).
  - destruct (entered_body a && (1 <=? tokens a)) eqn:Q; [|discriminate]. injection H as <-.
    apply andb_prop in Q. destruct Q as [Q1 Q2]. apply Nat.leb_le in Q2.
    destruct (C a eq_refl) as [Cb [Cm [Cc Ce]]]. rewrite Q1 in B.
    constructor; unfold busy, pend_body, with_cur; cbn [cur queue nth conts arrived bodies early entered_body];
      [lia | lia | lia | exact E | ].
    intros a' Ha. injection Ha as <-. cbn. repeat split; auto; try (intros; discriminate);
      try (match goal with X : ceased _ = true |- _ => destruct (Cc X); try lia; congruence end).
  - destruct (mon a && started a && (tokens a =? 0) && negb (ceased a)) eqn:Q; [|discriminate]. injection H as <-.
    apply andb_prop in Q. destruct Q as [Q Q4]. apply andb_prop in Q. destruct Q as [Q Q3]. apply andb_prop in Q. destruct Q as [Q1 Q2].
    apply Nat.eqb_eq in Q3.
    destruct (C a eq_refl) as [Cb [Cm [Cc Ce]]].
    assert (EB : entered_body a = true).
    { destruct (entered_body a) eqn:X; auto. destruct (Ce eq_refl) as [_ [Y _]]. congruence. }
    rewrite EB in B.
    constructor; unfold busy, pend_body, with_cur; cbn [cur queue nth conts arrived bodies early entered_body];
      [lia | lia | rewrite EB; lia | exact E | ].
    intros a' Ha. injection Ha as <-. cbn. rewrite EB. repeat split; auto; try (intros; discriminate).
  - destruct (ceased a && cease_inner c) eqn:Q; [|discriminate]. injection H as <-.
    apply andb_prop in Q. destruct Q as [Q1 Q2].
    destruct (C a eq_refl) as [Cb [Cm [Cc Ce]]]. destruct (Cc Q1) as [T0 St].
    assert (EB : entered_body a = true).
    { destruct (entered_body a) eqn:X; auto. destruct (Ce eq_refl) as [_ [_ Y]]. congruence. }
    rewrite EB in B.
    constructor; unfold busy, pend_body; cbn [cur queue nth conts arrived bodies early];
      [lia | lia | lia | rewrite E, T0, EB; reflexivity | ].
    intros a' Ha. discriminate.
Qed.

Lemma spinv_reach c s : spgood c -> spreach c s -> SPInv s.
Proof.
  intros G [p E]. revert E. generalize spinv_init. generalize spinit.
  induction p as [|l p IH]; cbn [spexec]; intros s0 I0 E.
  - injection E as <-. exact I0.
  - destruct (spstep c s0 l) as [s1|] eqn:E1; [|discriminate]. eapply IH; [|exact E]. eapply spinv_step; eauto.
Qed.

(** every parent token that arrived is waiting, in its activation, or has continued exactly once;
    none continued while inner tokens were alive; every activation ran the content *)
Lemma sp_exactly_once c s : spgood c -> spreach c s ->
  arrived s = conts s + queue s + busy s /\ early s = false /\ bodies s + pend_body s = conts s + busy s.
Proof. intros G R. destruct (spinv_reach _ _ G R) as [A N B E C]. repeat split; auto. lia. Qed.

Lemma sp_idle_all_continued c s : spgood c -> spreach c s -> cur s = None -> queue s = 0 ->
  conts s = arrived s /\ bodies s = arrived s.
Proof.
  intros G R H Q. destruct (spinv_reach _ _ G R) as [A N B E C]. unfold busy, pend_body in *. rewrite H in *. lia.
Qed.

(** progress: a parent token never stays in the sub-process once the inner tokens are consumed, and a
    queued token begins as soon as the sub-process is free *)
Lemma sp_progress c s : spgood c -> spreach c s ->
  (cur s = None -> 1 <= queue s -> exists s', spstep c s PBegin = Some s') /\
  (forall a, cur s = Some a -> (entered_body a = true -> tokens a = 0) ->
     exists l s', (l = PStartFlows \/ l = PStartSeen \/ l = PCease \/ l = PContinue) /\ spstep c s l = Some s').
Proof.
  intros G R. destruct (spinv_reach _ _ G R) as [A N B E C]. destruct G as [G1 [G2 [G3 G4]]]. split.
  - intros H Q. unfold spstep. rewrite H. apply Nat.leb_le in Q. rewrite Q. eauto.
  - intros a H T. destruct (C a H) as [Cb [Cm [Cc Ce]]].
    destruct (entered_body a) eqn:EB.
    + specialize (T eq_refl). destruct (started a) eqn:St.
      * destruct (ceased a) eqn:Ce'.
        -- exists PContinue. unfold spstep. rewrite H, Ce', G1. cbn. eauto 6.
        -- exists PCease. unfold spstep. rewrite H, Cm, St, T, Ce'. cbn. eauto 6.
      * exists PStartSeen. unfold spstep. rewrite H, Cm, EB, St. cbn. eauto 6.
    + exists PStartFlows. unfold spstep. rewrite H, EB. cbn. eauto 6.
Qed.

(** the three defects of the pinned snapshot *)
Definition sp_pinned_outer : scfg := {| cease_inner := false; per_act := true; rearm := true; fresh_seen := true |}.
Definition sp_pinned_single : scfg := {| cease_inner := true; per_act := false; rearm := true; fresh_seen := true |}.
Definition sp_pinned_norearm : scfg := {| cease_inner := true; per_act := true; rearm := false; fresh_seen := true |}.
Definition sp_labels := [PBegin; PStartFlows; PStartSeen; PFork; PDie; PCease; PContinue].
Definition stuck_for (c : scfg) (s : spst) : bool :=
  forallb (fun l => match spstep c s l with Some _ => false | None => true end) sp_labels.

Lemma sp_refuted_outer :
  exists s, spexec sp_pinned_outer spinit [PEnter; PBegin; PStartFlows; PStartSeen; PDie; PCease] = Some s /\
    conts s = 0 /\ arrived s = 1 /\ stuck_for sp_pinned_outer s = true.
Proof. eexists. split; [vm_compute; reflexivity|]. vm_compute. auto. Qed.

Lemma sp_refuted_single :
  exists s, spexec sp_pinned_single spinit
    [PEnter; PBegin; PStartFlows; PStartSeen; PDie; PCease; PContinue; PEnter; PBegin; PStartFlows; PDie] = Some s /\
    conts s = 1 /\ arrived s = 2 /\ stuck_for sp_pinned_single s = true.
Proof. eexists. split; [vm_compute; reflexivity|]. vm_compute. auto. Qed.

Lemma sp_refuted_norearm :
  exists s, spexec sp_pinned_norearm spinit
    [PEnter; PBegin; PStartFlows; PStartSeen; PDie; PCease; PContinue; PEnter; PBegin; PStartFlows; PStartSeen; PCease; PContinue] = Some s /\
    conts s = 2 /\ bodies s = 1.
Proof. eexists. split; [vm_compute; reflexivity|]. vm_compute. auto. Qed.

(* a monitor that remembers the start events of an earlier activation (a seeded change, not the pinned
   code): on re-entry it can report completion before the inner start flow has registered — the
   parent token continues although the content has not been entered *)
Definition sp_stale_seen : scfg := {| cease_inner := true; per_act := true; rearm := true; fresh_seen := false |}.
Lemma sp_refuted_stale_seen :
  exists s, spexec sp_stale_seen spinit
    [PEnter; PBegin; PStartFlows; PStartSeen; PDie; PCease; PContinue; PEnter; PBegin; PCease; PContinue] = Some s /\
    conts s = 2 /\ bodies s = 1 /\ early s = true.
Proof. eexists. split; [vm_compute; reflexivity|]. vm_compute. auto. Qed.

Example sp_nonvacuous :
  exists s, spexec sp_fixed spinit
    [PEnter; PBegin; PEnter; PStartFlows; PFork; PStartSeen; PDie; PDie; PCease; PContinue; PBegin; PStartFlows; PStartSeen; PDie; PCease; PContinue] = Some s /\
    conts s = 2 /\ bodies s = 2 /\ arrived s = 2 /\ cur s = None.
Proof. eexists. split; [vm_compute; reflexivity|]. vm_compute. auto. Qed.
