From BV Require Import Model.Timer.
Open Scope Z_scope.

(* blocked: the goroutine cannot move at this clock value *)
Definition blocked (now : Z) (s : tstate) : Prop := istep now s = None.

Lemma istep_wf now s s' fs : wf s -> istep now s = Some (s', fs) -> wf s'.
Proof.
  destruct s; simpl; intros W H;
  repeat match type of H with
         | (if ?c then _ else _) = _ => destruct c
         end; inversion H; subst; simpl; auto.
Qed.

(* with a positive interval the goroutine blocks after at most 3 internal steps, so fuel 4 is
   never exhausted: the state returned by settle is blocked *)
Lemma settle_blocked now s : wf s -> blocked now (fst (settle fuel0 now s)).
Proof.
  intros W. unfold fuel0, blocked.
  destruct s as [due|st iv e reps|t iv e reps| |]; simpl in *; try reflexivity.
  - destruct (due <=? now) eqn:E; simpl; [reflexivity| rewrite E; reflexivity].
  - destruct (st <=? now) eqn:E; simpl; [|rewrite E; reflexivity].
    destruct (reps =? 0) eqn:R; simpl; [reflexivity|].
    destruct (ended e now) eqn:En; simpl; [reflexivity|].
    destruct (st + iv <=? now) eqn:D; simpl; [|rewrite R, En, D; reflexivity].
    destruct ((if 0 <? reps then reps - 1 else reps) =? 0) eqn:R2; simpl; [reflexivity|].
    rewrite En.
    assert (now + iv <=? now = false) by (apply Z.leb_gt; lia).
    rewrite H. simpl. rewrite R2, En, H. reflexivity.
  - destruct (reps =? 0) eqn:R; simpl; [reflexivity|].
    destruct (ended e now) eqn:En; simpl; [reflexivity|].
    destruct (t + iv <=? now) eqn:D; simpl; [|rewrite R, En, D; reflexivity].
    destruct ((if 0 <? reps then reps - 1 else reps) =? 0) eqn:R2; simpl; [reflexivity|].
    rewrite En.
    assert (now + iv <=? now = false) by (apply Z.leb_gt; lia).
    rewrite H. simpl. rewrite R2, En, H. reflexivity.
Qed.

Lemma settle_wf fuel now : forall s, wf s -> wf (fst (settle fuel now s)).
Proof.
  induction fuel as [|f IH]; intros s W; simpl; auto.
  destruct (istep now s) as [[s' fs]|] eqn:E; simpl; auto.
  pose proof (istep_wf _ _ _ _ W E) as W'. specialize (IH s' W').
  destruct (settle f now s'); simpl in *; auto.
Qed.

(* ------- generic invariant machinery over runs ------- *)

Lemma run_cons s o r :
  run s (o :: r) = (fst (run (fst (apply s o)) r), snd (apply s o) ++ snd (run (fst (apply s o)) r)).
Proof. simpl. destruct (apply s o) as [s1 f1]. simpl. destruct (run s1 r). reflexivity. Qed.

Lemma apply_wf s o : wf s -> wf (fst (apply s o)).
Proof. intros W. destruct o; unfold apply; [apply settle_wf; auto| destruct s; simpl; auto]. Qed.

(* All firings produced by settle at clock value [now] carry the value [now] *)
Lemma settle_fires_now fuel now : forall s, Forall (fun x => x = now) (snd (settle fuel now s)).
Proof.
  induction fuel as [|f IH]; intros s; simpl; [constructor|].
  destruct (istep now s) as [[s' fs]|] eqn:E; simpl; [|constructor].
  specialize (IH s'). destruct (settle f now s') as [s'' fs']; simpl in *.
  apply Forall_app; split; auto.
  destruct s; simpl in E;
  repeat match type of E with
         | (if ?c then _ else _) = _ => destruct c
         end; inversion E; subst; repeat constructor.
Qed.

(* ------- dead states stay dead ------- *)
Definition dead (s : tstate) : Prop := s = Closed \/ s = Cancelled.

Lemma settle_dead fuel now s : dead s -> settle fuel now s = (s, []).
Proof. intros [->| ->]; destruct fuel; reflexivity. Qed.

Lemma silent_after s ops : dead s -> dead (fst (run s ops)) /\ snd (run s ops) = [].
Proof.
  revert s; induction ops as [|o r IH]; intros s D; [simpl; auto|].
  rewrite run_cons.
  assert (A : apply s o = (fst (apply s o), []) /\ dead (fst (apply s o))).
  { destruct o; unfold apply.
    - rewrite settle_dead by auto. simpl; auto.
    - destruct D as [->| ->]; simpl; unfold dead; auto. }
  destruct A as [A1 A2]. destruct (IH _ A2) as [I1 I2].
  cbn [fst snd]. rewrite I2. split; auto. rewrite A1. reflexivity.
Qed.

(* ------- one-shot timers ------- *)

Lemma one_settle due now :
  settle fuel0 now (One due) = if due <=? now then (Closed, [now]) else (One due, []).
Proof. unfold fuel0; simpl. destruct (due <=? now); reflexivity. Qed.

(* a one-shot timer: every firing happens at a clock value >= due, and there is at most one *)
Lemma one_run due : forall ops,
  (length (snd (run (One due) ops)) <= 1)%nat /\
  Forall (fun x => due <= x) (snd (run (One due) ops)).
Proof.
  induction ops as [|o r IH]; [simpl; split; [lia|constructor]|].
  rewrite run_cons. destruct o as [T|]; cbn [apply].
  - rewrite one_settle. destruct (due <=? T) eqn:E; simpl.
    + destruct (silent_after Closed r (or_introl eq_refl)) as [_ S]. rewrite S. simpl.
      split; [lia|]. constructor; [apply Z.leb_le; auto|constructor].
    + exact IH.
  - destruct (silent_after Cancelled r (or_intror eq_refl)) as [_ S]. simpl. rewrite S. simpl.
    split; [lia|constructor].
Qed.

(* it does fire at the first advance reaching the due time, if not cancelled before *)
Lemma one_fires due pre T post :
  Forall (fun o => match o with Advance x => x < due | Cancel => False end) pre -> due <= T ->
  snd (run (One due) (pre ++ Advance T :: post)) = [T].
Proof.
  intros Hpre HT. induction pre as [|o pre IH]; simpl app.
  - rewrite run_cons. cbn [apply]. rewrite one_settle.
    replace (due <=? T) with true by (symmetry; apply Z.leb_le; auto). simpl.
    destruct (silent_after Closed post (or_introl eq_refl)) as [_ S]. rewrite S. reflexivity.
  - inversion Hpre as [|? ? Ho Hr]; subst. rewrite run_cons. destruct o as [x|]; [|tauto].
    cbn [apply]. rewrite one_settle.
    replace (due <=? x) with false by (symmetry; apply Z.leb_gt; auto). simpl. auto.
Qed.

(* ------- the firing log of any timer, for any operation sequence ------- *)

(* remaining firings allowed, if bounded *)
Definition budget (s : tstate) : option Z :=
  match s with
  | One _ => Some 1
  | CycA _ _ _ reps | CycB _ _ _ reps => if 0 <=? reps then Some reps else None
  | _ => Some 0
  end.

(* the earliest clock value at which the next firing may happen *)
Definition next_due (s : tstate) : option Z :=
  match s with
  | One d => Some d
  | CycA st iv _ _ => Some (st + iv)
  | CycB t iv _ _ => Some (t + iv)
  | _ => None
  end.

Definition end_of (s : tstate) : option Z :=
  match s with CycA _ _ e _ | CycB _ _ e _ => e | _ => None end.

Definition interval_of (s : tstate) : Z :=
  match s with CycA _ iv _ _ | CycB _ iv _ _ => iv | _ => 0 end.

Definition dec (b : option Z) : option Z := option_map (fun k => k - 1) b.

(* THE SPECIFICATION of a firing log: first firing not before [lo], every firing strictly
   before the end bound [e], consecutive firings at least [iv] apart, at most [b] firings. *)
Fixpoint log_ok (lo iv : Z) (e b : option Z) (F : list Z) : Prop :=
  match F with
  | [] => True
  | f :: r => lo <= f /\ (forall x, e = Some x -> f < x) /\ (forall k, b = Some k -> 1 <= k)
              /\ log_ok (f + iv) iv e (dec b) r
  end.

Section Inv.
Variables (iv : Z) (e : option Z).

Definition Rel (s : tstate) (lo : Z) (b : option Z) : Prop :=
  dead s \/ ((forall d, next_due s = Some d -> lo <= d) /\ budget s = b /\
             end_of s = e /\ interval_of s = iv).

Lemma Rel_weaken s lo lo' b : lo' <= lo -> Rel s lo b -> Rel s lo' b.
Proof. intros H [D|[A R]]; [left; auto|right; split; auto]. intros d Hd. specialize (A d Hd). lia. Qed.

Lemma istep_rel now s s' fs lo b : wf s -> Rel s lo b -> istep now s = Some (s', fs) ->
  (fs = [] /\ Rel s' lo b) \/
  (fs = [now] /\ lo <= now /\ (forall x, e = Some x -> now < x) /\ (forall k, b = Some k -> 1 <= k)
   /\ Rel s' (now + iv) (dec b)).
Proof.
  intros W [D|[Hlo [Hb [He Hiv]]]] H.
  { destruct D; subst; discriminate. }
  destruct s as [due|st i0 e0 reps|t i0 e0 reps| |]; simpl in *; try discriminate.
  - destruct (due <=? now) eqn:E; inversion H; subst. apply Z.leb_le in E.
    right. split; [auto|]. split; [specialize (Hlo due eq_refl); lia|].
    split; [intros x Hx; congruence|]. split; [intros k Hk; inversion Hk; lia|]. left; left; auto.
  - destruct (st <=? now) eqn:E; inversion H; subst. left. split; auto.
    right. simpl. repeat split; auto.
  - subst i0 e0.
    destruct (reps =? 0) eqn:R; [inversion H; subst; left; split; auto; left; left; auto|].
    destruct (ended e now) eqn:En; [inversion H; subst; left; split; auto; left; left; auto|].
    destruct (t + iv <=? now) eqn:Du; inversion H; subst. apply Z.leb_le in Du. apply Z.eqb_neq in R.
    right. split; [auto|]. split; [specialize (Hlo _ eq_refl); lia|].
    split. { intros x Hx. subst e. simpl in En. apply Z.leb_gt in En. auto. }
    split. { intros k Hk. destruct (0 <=? reps) eqn:P; inversion Hk; subst. apply Z.leb_le in P. lia. }
    right. simpl. split; [intros d Hd; inversion Hd; lia|]. split; [|auto].
    destruct (0 <=? reps) eqn:P; simpl.
    + apply Z.leb_le in P. replace (0 <? reps) with true by (symmetry; apply Z.ltb_lt; lia).
      replace (0 <=? reps - 1) with true by (symmetry; apply Z.leb_le; lia). reflexivity.
    + apply Z.leb_gt in P. replace (0 <? reps) with false by (symmetry; apply Z.ltb_ge; lia).
      rewrite (proj2 (Z.leb_gt 0 reps)) by auto. reflexivity.
Qed.

(* appending logs *)
Fixpoint after (lo : Z) (b : option Z) (F : list Z) : Z * option Z :=
  match F with [] => (lo, b) | f :: r => after (f + iv) (dec b) r end.

Lemma log_ok_app lo b F1 F2 :
  log_ok lo iv e b F1 -> log_ok (fst (after lo b F1)) iv e (snd (after lo b F1)) F2 ->
  log_ok lo iv e b (F1 ++ F2).
Proof.
  revert lo b; induction F1 as [|f r IH]; intros lo b H1 H2; simpl in *; auto.
  destruct H1 as [A [B [C D]]]. repeat split; auto.
Qed.

Lemma settle_rel fuel now : forall s lo b, wf s -> Rel s lo b ->
  log_ok lo iv e b (snd (settle fuel now s)) /\
  Rel (fst (settle fuel now s)) (fst (after lo b (snd (settle fuel now s))))
                                 (snd (after lo b (snd (settle fuel now s)))).
Proof.
  induction fuel as [|f IH]; intros s lo b W R; [simpl; auto|].
  simpl. destruct (istep now s) as [[s' fs]|] eqn:E; [|simpl; auto].
  pose proof (istep_wf _ _ _ _ W E) as W'.
  destruct (istep_rel _ _ _ _ _ _ W R E) as [[-> R']|[-> [A [B [C R']]]]].
  - destruct (IH s' lo b W' R') as [I1 I2]. destruct (settle f now s') as [s'' fs']. simpl in *. auto.
  - destruct (IH s' _ _ W' R') as [I1 I2]. destruct (settle f now s') as [s'' fs']. simpl in *. auto.
Qed.

Lemma after_app lo b F1 F2 :
  after lo b (F1 ++ F2) = after (fst (after lo b F1)) (snd (after lo b F1)) F2.
Proof. revert lo b; induction F1 as [|f r IH]; intros; simpl; auto. Qed.

Lemma apply_rel s o lo b : wf s -> Rel s lo b ->
  log_ok lo iv e b (snd (apply s o)) /\
  Rel (fst (apply s o)) (fst (after lo b (snd (apply s o)))) (snd (after lo b (snd (apply s o)))).
Proof.
  intros W R. destruct o; unfold apply.
  - apply settle_rel; auto.
  - destruct s; simpl; split; auto; left; unfold dead; auto.
Qed.

Lemma run_rel : forall ops s lo b, wf s -> Rel s lo b -> log_ok lo iv e b (snd (run s ops)).
Proof.
  induction ops as [|o r IH]; intros s lo b W R; [simpl; auto|].
  rewrite run_cons. cbn [snd].
  destruct (apply_rel s o lo b W R) as [A1 A2].
  apply log_ok_app; auto. apply IH; auto. apply apply_wf; auto.
Qed.

Lemma run_from_rel now0 s ops lo b : wf s -> Rel s lo b ->
  log_ok lo iv e b (snd (run_from now0 s ops)).
Proof.
  intros W R. unfold run_from, start_timer.
  destruct (settle_rel fuel0 now0 s lo b W R) as [A1 A2].
  pose proof (settle_wf fuel0 now0 s W) as W1.
  destruct (settle fuel0 now0 s) as [s1 f1]. simpl in *.
  pose proof (run_rel ops s1 _ _ W1 A2) as A3.
  destruct (run s1 ops) as [s2 f2]. simpl in *. apply log_ok_app; auto.
Qed.
End Inv.

Lemma log_ok_length lo iv e k F : log_ok lo iv e (Some k) F -> 0 <= k -> Z.of_nat (length F) <= k.
Proof.
  revert lo k; induction F as [|f r IH]; intros lo k H Hk; simpl in *; [lia|].
  destruct H as [_ [_ [C D]]]. specialize (C k eq_refl). specialize (IH _ _ D). lia.
Qed.

(* ------- liveness: an armed cycle timer fires when the clock reaches its due time ------- *)
Definition decr (reps : Z) : Z := if 0 <? reps then reps - 1 else reps.

Lemma cyc_settle_fire t iv e reps T : 0 < iv -> reps <> 0 -> ended e T = false -> t + iv <= T ->
  settle fuel0 T (CycB t iv e reps) =
  (if decr reps =? 0 then Closed else CycB T iv e (decr reps), [T]).
Proof.
  intros Hiv Hr He Hd. unfold fuel0. cbn [settle istep].
  replace (reps =? 0) with false by (symmetry; apply Z.eqb_neq; auto). rewrite He.
  replace (t + iv <=? T) with true by (symmetry; apply Z.leb_le; auto).
  fold (decr reps). cbn [settle istep].
  destruct (decr reps =? 0) eqn:E0; [reflexivity|].
  rewrite He. replace (T + iv <=? T) with false by (symmetry; apply Z.leb_gt; lia). reflexivity.
Qed.

Lemma cyc_settle_wait t iv e reps T : reps <> 0 -> ended e T = false -> T < t + iv ->
  settle fuel0 T (CycB t iv e reps) = (CycB t iv e reps, []).
Proof.
  intros Hr He Hd. unfold fuel0. cbn [settle istep].
  replace (reps =? 0) with false by (symmetry; apply Z.eqb_neq; auto). rewrite He.
  replace (t + iv <=? T) with false by (symmetry; apply Z.leb_gt; auto). reflexivity.
Qed.

(* exact count: stepping the clock interval by interval fires exactly n times, then the timer closes *)
Fixpoint ticks (t iv : Z) (n : nat) : list op :=
  match n with O => [] | S k => Advance (t + iv) :: ticks (t + iv) iv k end.

Lemma cyc_exact iv : 0 < iv -> forall n t reps, reps = Z.of_nat n ->
  fst (run (fst (settle fuel0 t (CycB t iv None reps))) (ticks t iv n)) = Closed /\
  length (snd (run (fst (settle fuel0 t (CycB t iv None reps))) (ticks t iv n))) = n.
Proof.
  intros Hiv. induction n as [|n IH]; intros t reps Hr.
  - subst reps. simpl. split; reflexivity.
  - assert (Hne : reps <> 0) by lia.
    rewrite cyc_settle_wait by (auto; simpl; lia). cbn [fst ticks]. rewrite run_cons. cbn [apply].
    rewrite cyc_settle_fire by (auto; simpl; lia). cbn [fst snd].
    assert (Hd : decr reps = Z.of_nat n).
    { unfold decr. replace (0 <? reps) with true by (symmetry; apply Z.ltb_lt; lia). lia. }
    rewrite Hd. specialize (IH (t + iv) (Z.of_nat n) eq_refl).
    destruct n as [|n'].
    + simpl. split; reflexivity.
    + replace (Z.of_nat (S n') =? 0) with false by (symmetry; apply Z.eqb_neq; lia).
      rewrite cyc_settle_wait in IH by (try lia; reflexivity). cbn [fst] in IH.
      destruct IH as [I1 I2]. split; [exact I1|]. cbn [app length]. rewrite I2. reflexivity.
Qed.

(* the mock clock with several pending timers *)
Lemma clock_serves_exactly_the_due pending T i :
  In i (fst (clock_set pending T)) <-> exists d, In (i, d) pending /\ d <= T.
Proof.
  unfold clock_set. cbn [fst]. rewrite in_map_iff. split.
  - intros [[i' d] [E H]]. cbn in E. subst i'. apply filter_In in H. destruct H as [H L]. cbn in L.
    exists d. split; auto. apply Z.leb_le. exact L.
  - intros [d [H L]]. exists (i, d). split; auto. apply filter_In. split; auto. cbn. apply Z.leb_le. exact L.
Qed.
Lemma clock_keeps_the_rest pending T i d :
  In (i, d) (snd (clock_set pending T)) <-> In (i, d) pending /\ T < d.
Proof.
  unfold clock_set. cbn [snd]. rewrite filter_In. cbn. rewrite negb_true_iff, Z.leb_gt. tauto.
Qed.
