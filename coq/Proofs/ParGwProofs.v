From BV Require Import Model.ParGw.

Lemma distribute_length n m : length (distribute n m) = n.
Proof. unfold distribute. rewrite map_length, seq_length; auto. Qed.

Lemma nth_distribute n m i : i < n -> nth i (distribute n m) None = dist_one n m i.
Proof.
  intros Hi. unfold distribute.
  rewrite (nth_indep _ None (dist_one n m 0)) by (rewrite map_length, seq_length; auto).
  rewrite map_nth, seq_nth; auto.
Qed.

(* the first min(n-1, m) tokens get exactly one flow each, in order *)
Lemma dist_one_single n m i : S i < n -> i < m -> dist_one n m i = Some (i, 1).
Proof.
  intros H1 H2. unfold dist_one.
  replace (S i =? n) with false by (symmetry; apply Nat.eqb_neq; lia).
  replace (S i <=? m) with true by (symmetry; apply Nat.leb_le; lia).
  replace (S i <=? i) with false by (symmetry; apply Nat.leb_gt; lia).
  f_equal. f_equal. lia.
Qed.

(* tokens beyond the available flows complete *)
Lemma dist_one_surplus n m i : i < n -> m <= i -> dist_one n m i = None.
Proof.
  intros H1 H2. unfold dist_one.
  destruct (S i =? n) eqn:E.
  - rewrite Nat.leb_refl. replace (m <=? i) with true by (symmetry; apply Nat.leb_le; lia). auto.
  - replace (S i <=? m) with false by (symmetry; apply Nat.leb_gt; lia). auto.
Qed.

(* the last token gets all remaining flows *)
Lemma dist_one_last n m : 1 <= n -> n - 1 < m -> dist_one n m (n - 1) = Some (n - 1, m - (n - 1)).
Proof.
  intros H1 H2. unfold dist_one.
  replace (S (n - 1) =? n) with true by (symmetry; apply Nat.eqb_eq; lia).
  rewrite Nat.leb_refl.
  replace (m <=? n - 1) with false by (symmetry; apply Nat.leb_gt; lia). auto.
Qed.

(* Partition: concatenating what the tokens receive gives every outgoing flow exactly once, in order *)
Lemma seq_S_split s k : seq s (S k) = seq s k ++ [s + k].
Proof. rewrite seq_S; auto. Qed.

Lemma concat_prefix n m k : k < n ->
  concat (map flows_of (map (dist_one n m) (seq 0 k))) = seq 0 (Nat.min k m).
Proof.
  induction k as [|k IH]; intros Hk; [reflexivity|].
  rewrite seq_S, !map_app, concat_app, IH by lia. cbn [map concat flows_of Nat.add].
  destruct (Nat.lt_ge_cases k m) as [Hlt|Hge].
  - rewrite dist_one_single by lia.
    replace (Nat.min k m) with k by lia. replace (Nat.min (S k) m) with (S k) by lia.
    rewrite seq_S. reflexivity.
  - rewrite dist_one_surplus by lia.
    replace (Nat.min k m) with m by lia. replace (Nat.min (S k) m) with m by lia.
    simpl. rewrite app_nil_r; auto.
Qed.

Lemma partition n m : 1 <= n -> concat (map flows_of (distribute n m)) = seq 0 m.
Proof.
  intros Hn. unfold distribute. destruct n as [|k]; [lia|].
  rewrite seq_S, !map_app, concat_app, concat_prefix by lia. cbn [map concat Nat.add].
  destruct (Nat.lt_ge_cases k m) as [Hlt|Hge].
  - pose proof (dist_one_last (S k) m ltac:(lia) ltac:(lia)) as Hd.
    replace (S k - 1) with k in Hd by lia. rewrite Hd. cbn [flows_of].
    replace (Nat.min k m) with k by lia.
    rewrite app_nil_r. replace m with (k + (m - k)) at 2 by lia.
    rewrite seq_app. reflexivity.
  - rewrite dist_one_surplus by lia. cbn [flows_of].
    replace (Nat.min k m) with m by lia. rewrite !app_nil_r; auto.
Qed.

(* ---------------- gateway state machine ---------------- *)

Lemma pgw_wait N M : forall a s, cnt s + length a < N ->
  pgw_run N M s a = ({| cnt := cnt s + length a; parked := parked s ++ a |}, repeat [] (length a)).
Proof.
  induction a as [|t a IH]; intros s H; simpl in *.
  - rewrite Nat.add_0_r, app_nil_r. destruct s; reflexivity.
  - unfold pgw_step.
    replace (S (cnt s) =? N) with false by (symmetry; apply Nat.eqb_neq; lia).
    rewrite IH by (simpl; lia). simpl. rewrite <- app_assoc. simpl.
    repeat f_equal. lia.
Qed.

Lemma pgw_run_app N M a b s :
  pgw_run N M s (a ++ b) =
  let '(s1, o1) := pgw_run N M s a in let '(s2, o2) := pgw_run N M s1 b in (s2, o1 ++ o2).
Proof.
  revert s; induction a as [|t a IH]; intros s; simpl.
  - destruct (pgw_run N M s b); reflexivity.
  - destruct (pgw_step N M s t) as [s1 o]. rewrite IH.
    destruct (pgw_run N M s1 a) as [s2 os]. destruct (pgw_run N M s2 b); reflexivity.
Qed.

(* one full activation: nothing is released during the first N-1 arrivals, the N-th releases
   [distribute N M] over the parked tokens in arrival order, and the node is reset *)
Lemma pgw_run_cons N M s t r :
  pgw_run N M s (t :: r) =
  (fst (pgw_run N M (fst (pgw_step N M s t)) r),
   snd (pgw_step N M s t) :: snd (pgw_run N M (fst (pgw_step N M s t)) r)).
Proof. simpl. destruct (pgw_step N M s t) as [p l]. simpl. destruct (pgw_run N M p r). reflexivity. Qed.

Lemma pgw_release N M g rest : 1 <= N -> length g = N ->
  pgw_run N M pgw_init (g ++ rest) =
  (fst (pgw_run N M pgw_init rest),
   repeat [] (N - 1) ++ combine g (distribute N M) :: snd (pgw_run N M pgw_init rest)).
Proof.
  intros HN Hg.
  assert (Hne : g <> []) by (destruct g; simpl in *; [lia|discriminate]).
  pose proof (app_removelast_last 0 Hne) as Hsplit.
  set (g0 := removelast g) in *. set (t := last g 0) in *.
  assert (Hl0 : length g0 = N - 1).
  { rewrite Hsplit, app_length in Hg. simpl in Hg. lia. }
  rewrite Hsplit, <- app_assoc.
  rewrite pgw_run_app. rewrite pgw_wait by (simpl; lia).
  cbn [app cnt parked pgw_init Nat.add]. rewrite pgw_run_cons.
  assert (Hstep : pgw_step N M {| cnt := length g0; parked := g0 |} t
                  = (pgw_init, combine (g0 ++ [t]) (distribute N M))).
  { unfold pgw_step. cbn [cnt parked]. rewrite Hl0.
    replace (S (N - 1) =? N) with true by (symmetry; apply Nat.eqb_eq; lia).
    rewrite app_length, Hl0. simpl length. replace (N - 1 + 1) with N by lia. reflexivity. }
  rewrite Hstep. cbn [fst snd]. rewrite Hl0.
  destruct (pgw_run N M pgw_init rest) as [s2 os]. reflexivity.
Qed.

(* all arrivals: k = q*N + r arrivals give exactly q releases *)
Definition releases (os : list (list (nat * option (nat * nat)))) : nat :=
  length (filter (fun o => negb (match o with [] => true | _ => false end)) os).

Lemma releases_app a b : releases (a ++ b) = releases a + releases b.
Proof. unfold releases. rewrite filter_app, app_length; auto. Qed.

Lemma releases_repeat k : releases (repeat [] k) = 0.
Proof. induction k; simpl; auto. Qed.

Lemma pgw_counts N M : 1 <= N -> forall q arr, length arr < q * N + N ->
  q * N <= length arr ->
  releases (snd (pgw_run N M pgw_init arr)) = q /\
  cnt (fst (pgw_run N M pgw_init arr)) = length arr - q * N /\
  parked (fst (pgw_run N M pgw_init arr)) = skipn (q * N) arr.
Proof.
  intros HN. induction q as [|q IH]; intros arr H1 H2.
  - simpl in *. rewrite pgw_wait by (simpl; lia). simpl.
    rewrite releases_repeat. repeat split; lia.
  - simpl in H1, H2.
    rewrite <- (firstn_skipn N arr).
    assert (Hf : length (firstn N arr) = N) by (rewrite firstn_length; lia).
    rewrite pgw_release by auto. simpl fst. simpl snd.
    assert (Hs : length (skipn N arr) = length arr - N) by apply skipn_length.
    destruct (IH (skipn N arr)) as [R [C P]]; try lia.
    rewrite releases_app, releases_repeat. simpl.
    assert (Hnz : combine (firstn N arr) (distribute N M) <> []).
    { destruct (firstn N arr) eqn:E; simpl in Hf; [lia|].
      unfold distribute. destruct N; [lia|]. simpl. discriminate. }
    unfold releases at 1. simpl.
    destruct (combine (firstn N arr) (distribute N M)) eqn:Ec; [congruence|]. simpl.
    fold (releases (snd (pgw_run N M pgw_init (skipn N arr)))).
    rewrite R, C, P. rewrite firstn_skipn. rewrite Hs.
    repeat split; try lia.
    rewrite <- (firstn_skipn N arr) at 2.
    rewrite skipn_app, Hf. 
    replace (N + q * N - N) with (q * N) by lia.
    rewrite (skipn_all2 (firstn N arr)) by lia. reflexivity.
Qed.

(* ---------------- the counter as the code keeps it ---------------- *)
From Coq Require Import NArith ZifyN ZifyNat.

Lemma wrap_small bits c : (BinNat.N.of_nat c < BinNat.N.pow 2 bits)%N -> wrap bits c = c.
Proof.
  intros H. unfold wrap. rewrite BinNat.N.mod_small by exact H. apply Nnat.Nat2N.id.
Qed.

Lemma pgw_step_w_exact bits N M s t :
  cnt s < N -> (BinNat.N.of_nat N < BinNat.N.pow 2 bits)%N ->
  pgw_step_w bits true N M s t = pgw_step N M s t.
Proof.
  intros Hc Hb. unfold pgw_step_w, pgw_step.
  rewrite wrap_small.
  - destruct (S (cnt s) =? N); reflexivity.
  - eapply BinNat.N.le_lt_trans; [|exact Hb]. lia.
Qed.

Lemma pgw_step_cnt N M s t : 1 <= N -> cnt s < N -> cnt (fst (pgw_step N M s t)) < N.
Proof.
  intros HN Hc. unfold pgw_step. destruct (S (cnt s) =? N) eqn:E; simpl.
  - lia.
  - apply Nat.eqb_neq in E. lia.
Qed.

Lemma pgw_run_w_exact bits N M : 1 <= N -> (BinNat.N.of_nat N < BinNat.N.pow 2 bits)%N ->
  forall arr s, cnt s < N -> pgw_run_w bits true N M s arr = pgw_run N M s arr.
Proof.
  intros HN Hb. induction arr as [|t r IH]; intros s Hc; [reflexivity|].
  cbn [pgw_run_w pgw_run]. rewrite pgw_step_w_exact by assumption.
  pose proof (pgw_step_cnt N M s t HN Hc) as Hc'.
  destruct (pgw_step N M s t) as [s1 o]. cbn [fst] in Hc'. rewrite IH by exact Hc'. reflexivity.
Qed.

(* a running 8-bit counter looked at modulo N: a join of 3 releases on its 256th arrival, one token after the 85th
   complete activation *)
Lemma narrow_running_counter_differs :
  releases (snd (pgw_run_w 8 false 3 1 pgw_init (seq 0 256))) <> releases (snd (pgw_run 3 1 pgw_init (seq 0 256))).
Proof. vm_compute. discriminate. Qed.
