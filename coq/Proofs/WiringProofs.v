From BV Require Import Model.Wiring.

(* resolved by reference the flows come in the node's own order, whatever the order of the declarations *)
Theorem listed_order_kept refs decl l : resolve true refs decl = Some l -> l = refs.
Proof. unfold resolve. destruct (forallb (declared decl) refs); intros H; inversion H; reflexivity. Qed.

Theorem resolves_iff_all_declared b refs decl :
  (exists l, resolve b refs decl = Some l) <-> forall r, In r refs -> In r decl.
Proof.
  unfold resolve. destruct (forallb (declared decl) refs) eqn:E.
  - split; [intros _ r Hr|intros _; eexists; reflexivity].
    rewrite forallb_forall in E. specialize (E r Hr). unfold declared in E.
    apply existsb_exists in E. destruct E as [x [Hx Ex]]. apply Nat.eqb_eq in Ex. subst. exact Hx.
  - split; [intros [l H]; discriminate|]. intros H. exfalso.
    assert (T : forallb (declared decl) refs = true).
    { apply forallb_forall. intros r Hr. unfold declared. apply existsb_exists. exists r. split; [apply H; exact Hr|apply Nat.eqb_refl]. }
    congruence.
Qed.

(* collected in declaration order: a node that lists flow 2 before flow 1 gets them the other way round *)
Lemma refuted_declaration_order :
  resolve false [2; 1] [1; 2] = Some [1; 2] /\ resolve true [2; 1] [1; 2] = Some [2; 1].
Proof. split; reflexivity. Qed.
