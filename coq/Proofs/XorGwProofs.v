From BV Require Import Model.XorGw.

(* ---------- choice ---------- *)

Lemma non_default_spec n dflt i :
  In i (non_default n dflt) <-> i < n /\ dflt <> Some i.
Proof.
  unfold non_default. rewrite filter_In, in_seq. split.
  - intros [H1 H2]. split; [lia|]. destruct dflt as [d|]; [|discriminate].
    apply negb_true_iff, Nat.eqb_neq in H2. congruence.
  - intros [H1 H2]. split; [lia|]. destruct dflt as [d|]; auto.
    apply negb_true_iff, Nat.eqb_neq. congruence.
Qed.

(* non_default is strictly increasing *)
Lemma filter_seq_sorted f s n : forall a b, a < b -> b < length (filter f (seq s n)) ->
  nth a (filter f (seq s n)) 0 < nth b (filter f (seq s n)) 0.
Proof.
  revert s; induction n as [|n IH]; intros s a b Hab Hb; simpl in *; [lia|].
  destruct (f s) eqn:E; simpl in *.
  - destruct b as [|b]; [lia|]. destruct a as [|a].
    + assert (In (nth b (filter f (seq (S s) n)) 0) (filter f (seq (S s) n))) by (apply nth_In; lia).
      apply filter_In in H. destruct H as [H _]. apply in_seq in H. lia.
    + apply IH; lia.
  - apply IH; lia.
Qed.

Lemma probe_head conds nd k rest : probe conds nd = k :: rest ->
  k < length nd /\ nth (nth k nd 0) conds false = true /\
  forall j, j < k -> nth (nth j nd 0) conds false = false.
Proof.
  unfold probe. generalize (length nd) as n. intros n.
  assert (G : forall s, filter (fun k0 => nth (nth k0 nd 0) conds false) (seq s n) = k :: rest ->
              s <= k < s + n /\ nth (nth k nd 0) conds false = true /\
              forall j, s <= j < k -> nth (nth j nd 0) conds false = false).
  { induction n as [|n IH]; intros s H; simpl in H; [discriminate|].
    destruct (nth (nth s nd 0) conds false) eqn:E.
    - injection H as <- _. split; [lia|]. split; [auto|]. intros j Hj; lia.
    - destruct (IH _ H) as [A [B C]]. split; [lia|]. split; [auto|].
      intros j Hj. destruct (Nat.eq_dec j s); [subst; auto|apply C; lia]. }
  intros H. destruct (G 0 H) as [A [B C]]. split; [lia|]. split; [auto|]. intros j Hj; apply C; lia.
Qed.

Lemma probe_nil conds nd : probe conds nd = [] ->
  forall k, k < length nd -> nth (nth k nd 0) conds false = false.
Proof.
  unfold probe. intros H k Hk.
  destruct (nth (nth k nd 0) conds false) eqn:E; auto.
  assert (In k (filter (fun k0 => nth (nth k0 nd 0) conds false) (seq 0 (length nd)))).
  { apply filter_In; split; auto. apply in_seq; lia. }
  rewrite H in H0. destruct H0.
Qed.

(* The chosen flow is the FIRST non-default flow, in gateway order, whose condition is true *)
Lemma choose_flow conds dflt i : xor_choose conds dflt = Flow i -> dflt <> Some i ->
  i < length conds /\ nth i conds false = true /\
  forall j, j < i -> dflt <> Some j -> nth j conds false = false.
Proof.
  unfold xor_choose, decide. set (nd := non_default (length conds) dflt).
  destruct (probe conds nd) as [|k rest] eqn:Ep.
  - destruct dflt as [d|]; intros H Hd; [injection H as <-; congruence|discriminate].
  - intros H _. injection H as <-.
    destruct (probe_head _ _ _ _ Ep) as [Hk [Ht Hf]].
    assert (Hin : In (nth k nd 0) nd) by (apply nth_In; auto).
    apply non_default_spec in Hin. destruct Hin as [Hlt Hnd].
    repeat split; auto.
    intros j Hj Hdj.
    assert (Hjin : In j nd) by (apply non_default_spec; split; [lia|auto]).
    destruct (In_nth _ _ 0 Hjin) as [a [Ha Ea]].
    destruct (Nat.lt_ge_cases a k) as [Hak|Hak].
    + rewrite <- Ea. apply Hf; auto.
    + exfalso. destruct (Nat.eq_dec a k); [subst; lia|].
      assert (nth k nd 0 < nth a nd 0) by (apply filter_seq_sorted; [lia|exact Ha]). lia.
Qed.

(* The default is taken only when every non-default condition is false *)
Lemma choose_default conds d : xor_choose conds (Some d) = Flow d ->
  forall j, j < length conds -> j <> d -> nth j conds false = false.
Proof.
  unfold xor_choose, decide. set (nd := non_default (length conds) (Some d)).
  destruct (probe conds nd) as [|k rest] eqn:Ep.
  - intros _ j Hj Hne.
    assert (Hjin : In j nd) by (apply non_default_spec; split; [lia|congruence]).
    destruct (In_nth _ _ 0 Hjin) as [a [Ha Ea]]. rewrite <- Ea. apply (probe_nil _ _ Ep); auto.
  - intros H. injection H as H.
    assert (Hin : In (nth k nd 0) nd).
    { apply nth_In. apply (probe_head _ _ _ _ Ep). }
    apply non_default_spec in Hin. destruct Hin as [_ Hnd]. congruence.
Qed.

(* Error exactly when there is no default and no condition is true *)
Lemma choose_err conds dflt : xor_choose conds dflt = Err <->
  dflt = None /\ forall j, j < length conds -> nth j conds false = false.
Proof.
  unfold xor_choose, decide. set (nd := non_default (length conds) dflt). split.
  - destruct (probe conds nd) as [|k rest] eqn:Ep; [|discriminate].
    destruct dflt as [d|]; [discriminate|]. intros _. split; auto. intros j Hj.
    assert (Hjin : In j nd) by (apply non_default_spec; split; [lia|congruence]).
    destruct (In_nth _ _ 0 Hjin) as [a [Ha Ea]]. rewrite <- Ea. apply (probe_nil _ _ Ep); auto.
  - intros [Hd Hall]. destruct (probe conds nd) as [|k rest] eqn:Ep; [subst; auto|].
    destruct (probe_head _ _ _ _ Ep) as [Hk [Ht _]].
    assert (Hin : In (nth k nd 0) nd) by (apply nth_In; auto).
    apply non_default_spec in Hin. rewrite Hall in Ht by lia. discriminate.
Qed.

(* totality: some true non-default condition, or a default, always yields a flow *)
Lemma choose_total conds dflt :
  (exists j, j < length conds /\ nth j conds false = true) \/ dflt <> None ->
  exists i, xor_choose conds dflt = Flow i.
Proof.
  intros H. destruct (xor_choose conds dflt) eqn:E; eauto.
  apply choose_err in E. destruct E as [Hd Hall]. destruct H as [[j [Hj Ht]]|H]; [|congruence].
  rewrite Hall in Ht by auto. discriminate.
Qed.

(* ---------- probe protocol: independence of tokens ---------- *)

Lemma handle_local nd dflt tb m :
  (forall t', t' <> msg_tok m -> fst (handle nd dflt tb m) t' = tb t') /\
  Forall (fun o => out_tok o = msg_tok m) (snd (handle nd dflt tb m)).
Proof.
  destruct m as [t|t r]; simpl; destruct (tb t) as [[|]|]; simpl; split;
    try (intros t' Ht; unfold upd; destruct (Nat.eqb_spec t' t); congruence);
    try (intros; reflexivity); repeat constructor.
Qed.

Lemma handle_ext nd dflt tb tb' m : tb (msg_tok m) = tb' (msg_tok m) ->
  snd (handle nd dflt tb m) = snd (handle nd dflt tb' m) /\
  fst (handle nd dflt tb m) (msg_tok m) = fst (handle nd dflt tb' m) (msg_tok m).
Proof.
  destruct m as [t|t r]; simpl; intros E; rewrite E; destruct (tb' t) as [[|]|] eqn:E'; simpl;
    unfold upd; rewrite ?Nat.eqb_refl; auto. all: split; congruence.
Qed.

Definition outs_of (t : nat) (os : list out) := filter (fun o => out_tok o =? t) os.
Definition msgs_of (t : nat) (ms : list msg) := filter (fun m => msg_tok m =? t) ms.

Lemma outs_of_app t a b : outs_of t (a ++ b) = outs_of t a ++ outs_of t b.
Proof. unfold outs_of. apply filter_app. Qed.
Lemma msgs_of_cons t m r :
  msgs_of t (m :: r) = if msg_tok m =? t then m :: msgs_of t r else msgs_of t r.
Proof. reflexivity. Qed.

Lemma run_cons nd dflt tb m r :
  run nd dflt tb (m :: r) =
  (fst (run nd dflt (fst (handle nd dflt tb m)) r),
   snd (handle nd dflt tb m) ++ snd (run nd dflt (fst (handle nd dflt tb m)) r)).
Proof. simpl. destruct (handle nd dflt tb m) as [a b]. simpl. destruct (run nd dflt a r). reflexivity. Qed.

Lemma outs_of_all t os : Forall (fun o => out_tok o = t) os -> outs_of t os = os.
Proof. induction 1; simpl; auto. rewrite H, Nat.eqb_refl. f_equal; auto. Qed.
Lemma outs_of_none t t' os : t' <> t -> Forall (fun o => out_tok o = t') os -> outs_of t os = [].
Proof. intros Hne. induction 1; simpl; auto. rewrite H. destruct (Nat.eqb_spec t' t); congruence. Qed.

(* What the gateway does for token t depends only on t's own messages: running any
   interleaving of many tokens' messages yields, for t, exactly what running t's messages alone yields. *)
Lemma projection nd dflt t : forall ms tb tb', tb t = tb' t ->
  outs_of t (snd (run nd dflt tb ms)) = snd (run nd dflt tb' (msgs_of t ms)) /\
  fst (run nd dflt tb ms) t = fst (run nd dflt tb' (msgs_of t ms)) t.
Proof.
  induction ms as [|m r IH]; intros tb tb' E; [simpl; auto|].
  rewrite run_cons. cbn [fst snd]. rewrite outs_of_app.
  destruct (handle_local nd dflt tb m) as [Hloc Hout].
  rewrite msgs_of_cons.
  destruct (Nat.eqb_spec (msg_tok m) t) as [Hm|Hm].
  - rewrite run_cons. cbn [fst snd]. subst t.
    destruct (handle_ext nd dflt tb tb' m E) as [E1 E2].
    destruct (IH _ _ E2) as [I1 I2].
    rewrite outs_of_all by auto. rewrite E1, I1, I2. auto.
  - rewrite (outs_of_none t (msg_tok m)) by auto. simpl.
    apply IH. rewrite Hloc by congruence. auto.
Qed.

(* A single token's message sequence: Ask, its report (possibly rescheduled j times because it
   arrived before the second Ask), the second Ask, the report again: exactly one decision,
   the one computed from ITS report. *)
Lemma single_token nd dflt t r j tb : tb t = None ->
  outs_of t (snd (run nd dflt tb (Ask t :: repeat (Report t r) j ++ [Ask t; Report t r]))) =
  OProbe t :: repeat (ORequeue t r) j ++ [ODecide t (decide nd dflt r)]
  /\ fst (run nd dflt tb (Ask t :: repeat (Report t r) j ++ [Ask t; Report t r])) t = None.
Proof.
  intros H0. rewrite run_cons. simpl handle. rewrite H0. cbn [fst snd].
  set (tb1 := upd tb t (Some Asked)).
  assert (H1 : tb1 t = Some Asked) by (unfold tb1, upd; rewrite Nat.eqb_refl; auto).
  clearbody tb1. clear H0.
  assert (G : forall j tb1, tb1 t = Some Asked ->
     snd (run nd dflt tb1 (repeat (Report t r) j ++ [Ask t; Report t r])) =
       repeat (ORequeue t r) j ++ [ODecide t (decide nd dflt r)] /\
     fst (run nd dflt tb1 (repeat (Report t r) j ++ [Ask t; Report t r])) t = None).
  { clear. induction j as [|j IH]; intros tb1 H1.
    - simpl. rewrite H1. simpl. unfold upd at 1. rewrite Nat.eqb_refl. simpl.
      unfold upd. rewrite Nat.eqb_refl. split; [reflexivity|]. simpl. rewrite Nat.eqb_refl. reflexivity.
    - cbn [repeat app]. rewrite run_cons. simpl handle. rewrite H1. cbn [fst snd app].
      destruct (IH tb1 H1) as [A B]. rewrite A, B. auto. }
  destruct (G j tb1 H1) as [A B]. rewrite A, B. split; auto.
  simpl. rewrite Nat.eqb_refl. f_equal.
  apply outs_of_all. apply Forall_app; split; [|repeat constructor].
  clear. induction j; simpl; constructor; auto.
Qed.

(* ---------------- the table as the code keys it ---------------- *)
(* the two tables agree: under an injective key the entry of key t is token t's entry, and a Ready entry names t *)
Definition agree (key : nat -> nat) (ktb : ktable) (tb : table) : Prop :=
  forall t, erase (ktb (key t)) = tb t /\ (forall a, ktb (key t) = Some (KReady a) -> a = t).

Lemma handle_k_exact key nd dflt ktb tb m :
  (forall a b, key a = key b -> a = b) -> agree key ktb tb ->
  snd (handle_k key nd dflt ktb m) = snd (handle nd dflt tb m) /\
  agree key (fst (handle_k key nd dflt ktb m)) (fst (handle nd dflt tb m)).
Proof.
  intros Hinj Hag. destruct m as [t|t r]; cbn [handle_k handle].
  - destruct (Hag t) as [E _]. destruct (ktb (key t)) as [ke|] eqn:Ek; cbn in E; rewrite <- E.
    + destruct ke; cbn; (split; [reflexivity|]); intros u; unfold kupd, upd;
        destruct (Nat.eqb_spec (key u) (key t)) as [Hk|Hk].
      * apply Hinj in Hk. subst u. rewrite Nat.eqb_refl. cbn. split; [reflexivity|]. intros a Ha. inversion Ha. reflexivity.
      * destruct (Nat.eqb_spec u t) as [->|Hu]; [congruence|]. apply Hag.
      * apply Hinj in Hk. subst u. rewrite Nat.eqb_refl. cbn. split; [reflexivity|]. intros a Ha. inversion Ha. reflexivity.
      * destruct (Nat.eqb_spec u t) as [->|Hu]; [congruence|]. apply Hag.
    + cbn. split; [reflexivity|]. intros u. unfold kupd, upd.
      destruct (Nat.eqb_spec (key u) (key t)) as [Hk|Hk].
      * apply Hinj in Hk. subst u. rewrite Nat.eqb_refl. cbn. split; [reflexivity|]. intros a Ha. discriminate.
      * destruct (Nat.eqb_spec u t) as [->|Hu]; [congruence|]. apply Hag.
  - destruct (Hag t) as [E N]. destruct (ktb (key t)) as [ke|] eqn:Ek; cbn in E; rewrite <- E.
    + destruct ke as [|a]; cbn.
      * split; [reflexivity|exact Hag].
      * rewrite (N a eq_refl). split; [reflexivity|]. intros u. unfold kupd, upd.
        destruct (Nat.eqb_spec (key u) (key t)) as [Hk|Hk].
        -- apply Hinj in Hk. subst u. rewrite Nat.eqb_refl. cbn. split; [reflexivity|]. intros b Hb. discriminate.
        -- destruct (Nat.eqb_spec u t) as [->|Hu]; [congruence|]. apply Hag.
    + cbn. split; [reflexivity|exact Hag].
Qed.

(* keyed by the whole id the gateway does, for every inbox sequence of any number of tokens, exactly what the model of
   the theorems above does *)
Theorem run_k_exact key nd dflt : (forall a b, key a = key b -> a = b) ->
  forall ms ktb tb, agree key ktb tb -> snd (run_k key nd dflt ktb ms) = snd (run nd dflt tb ms).
Proof.
  intros Hinj. induction ms as [|m r IH]; intros ktb tb Hag; cbn [run_k run]; [reflexivity|].
  destruct (handle_k_exact key nd dflt ktb tb m Hinj Hag) as [Ho Ha].
  destruct (handle_k key nd dflt ktb m) as [k1 o1]. destruct (handle nd dflt tb m) as [t1 o2]. cbn [fst snd] in *.
  specialize (IH k1 t1 Ha).
  destruct (run_k key nd dflt k1 r) as [k2 os1]. destruct (run nd dflt t1 r) as [t2 os2]. cbn [snd] in *.
  rewrite Ho, IH. reflexivity.
Qed.

Lemma agree_empty key : agree key kempty empty.
Proof. intros t. split; [reflexivity|]. intros a H. discriminate. Qed.

(* a key made from too little of the id (here: one key for everybody): token 2's request is taken for token 1's second
   one, token 1's report is answered to token 2, token 1 never hears of its decision and token 2 was never probed *)
Lemma refuted_coarse_key :
  snd (run_k (fun _ => 0) [0; 1] None kempty [Ask 1; Ask 2; Report 1 [1]]) = [OProbe 1; ODecide 2 (Flow 1)] /\
  snd (run [0; 1] None empty [Ask 1; Ask 2; Report 1 [1]]) = [OProbe 1; OProbe 2; ORequeue 1 [1]].
Proof. split; reflexivity. Qed.

(* ---------------- the answer as the token reads it ---------------- *)
(* with a slice of its own for every decision a token reads what was decided for it, whatever was decided for other
   tokens in between: every read returns the token's latest decision *)
Theorem reads_own_decision : forall ops pre t d,
  ops = pre ++ [ARead t] -> decided pre t None = Some d ->
  In (t, d) (seen_ (arun true ops)).
Proof.
  intros ops pre t d -> Hd. unfold arun. rewrite fold_left_app. cbn [fold_left].
  assert (G : forall l s acc,
             (forall c, cell_of (owner s) t = Some c -> nth_error (cells s) c = acc) ->
             (cell_of (owner s) t = None -> acc = None) ->
             (forall x c, cell_of (owner s) x = Some c -> c < length (cells s)) ->
             let s' := fold_left (astep true) l s in
             (forall c, cell_of (owner s') t = Some c -> nth_error (cells s') c = decided l t acc) /\
             (cell_of (owner s') t = None -> decided l t acc = None) /\
             (forall x c, cell_of (owner s') x = Some c -> c < length (cells s'))).
  { induction l as [|o l IH]; intros s acc H1 H2 H3; cbn [fold_left decided]; [auto|].
    destruct o as [a dd|a].
    - apply IH; cbn [astep orb owner cells cell_of].
      + intros c. destruct (a =? t) eqn:E.
        * intros Hc. inversion Hc; subst c. rewrite nth_error_app2 by lia. rewrite Nat.sub_diag. reflexivity.
        * intros Hc. rewrite nth_error_app1 by (eapply H3; eauto). apply H1; exact Hc.
      + destruct (a =? t) eqn:E; [discriminate|exact H2].
      + intros x c. rewrite app_length. cbn [length]. destruct (a =? x); [intros Hc; inversion Hc; lia|].
        intros Hc. specialize (H3 x c Hc). lia.
    - apply IH; cbn [astep].
      + destruct (cell_of (owner s) a) as [c|]; [destruct (nth_error (cells s) c)|]; cbn; exact H1.
      + destruct (cell_of (owner s) a) as [c|]; [destruct (nth_error (cells s) c)|]; cbn; exact H2.
      + destruct (cell_of (owner s) a) as [c|]; [destruct (nth_error (cells s) c)|]; cbn; exact H3. }
  destruct (G pre {| cells := []; owner := []; seen_ := [] |} None) as [A [B _]]; cbn; try discriminate; auto.
  cbn [astep]. destruct (cell_of (owner (fold_left (astep true) pre {| cells := []; owner := []; seen_ := [] |})) t) as [c|] eqn:E.
  - rewrite (A c eq_refl), Hd. cbn. left. reflexivity.
  - rewrite (B eq_refl) in Hd. discriminate.
Qed.

(* one slice for all decisions: token 1 is told flow 0, token 2 is told flow 1 before token 1 gets to read -- token 1
   leaves on flow 1 *)
Lemma refuted_shared_answer_slice :
  seen_ (arun false [ADecide 1 0; ADecide 2 1; ARead 1; ARead 2]) = [(2, 1); (1, 1)] /\
  seen_ (arun true [ADecide 1 0; ADecide 2 1; ARead 1; ARead 2]) = [(2, 1); (1, 0)].
Proof. split; reflexivity. Qed.
