From BV Require Import Model.StartCount.

Lemma mem_In i l : mem i l = true <-> In i l.
Proof.
  induction l as [|x l IH]; cbn; [split; [discriminate|tauto]|].
  rewrite orb_true_iff, Nat.eqb_eq, IH. tauto.
Qed.

(* invariant of the accumulator: distinct indices below k, exactly those of acc0 plus the own ones of the trace *)
Lemma counted_spec k : forall tr acc, NoDup acc -> (forall i, In i acc -> i < k) ->
  NoDup (counted k tr acc) /\ (forall i, In i (counted k tr acc) -> i < k) /\
  (forall i, In i (counted k tr acc) <-> In i acc \/ (i < k /\ fired i tr = true)).
Proof.
  induction tr as [|s tr IH]; intros acc Hn Hb; cbn [counted].
  - split; [exact Hn|]. split; [exact Hb|]. intros i. cbn. split; [tauto|]. intros [H|[_ H]]; [exact H|discriminate].
  - destruct s as [j|j].
    + destruct ((j <? k) && negb (mem j acc)) eqn:E.
      * apply andb_true_iff in E. destruct E as [E1 E2]. apply Nat.ltb_lt in E1.
        apply negb_true_iff in E2.
        assert (Hnj : ~ In j acc) by (intro H; apply mem_In in H; congruence).
        destruct (IH (j :: acc)) as [A [B C]].
        { constructor; assumption. }
        { intros i [H|H]; [subst; exact E1|apply Hb; exact H]. }
        split; [exact A|]. split; [exact B|]. intros i. rewrite C. cbn [fired existsb In].
        rewrite orb_true_iff, Nat.eqb_eq. fold (fired i tr).
        split.
        -- intros [[H|H]|[H1 H2]]; [subst; right; split; [exact E1|left; reflexivity] | left; exact H | right; split; [exact H1|right; exact H2]].
        -- intros [H|[H1 [H2|H2]]]; [left; right; exact H | left; left; exact H2 | right; split; assumption].
      * destruct (IH acc Hn Hb) as [A [B C]]. split; [exact A|]. split; [exact B|].
        intros i. rewrite C. cbn [fired existsb]. rewrite orb_true_iff, Nat.eqb_eq. fold (fired i tr).
        apply andb_false_iff in E.
        split.
        -- intros [H|[H1 H2]]; [left; exact H | right; split; [exact H1|right; exact H2]].
        -- intros [H|[H1 [H2|H2]]]; [left; exact H | | right; split; assumption].
           subst j. destruct E as [E|E]; [apply Nat.ltb_ge in E; lia|].
           apply negb_false_iff, mem_In in E. left; exact E.
    + destruct (IH acc Hn Hb) as [A [B C]]. split; [exact A|]. split; [exact B|].
      intros i. rewrite C. cbn [fired existsb]. cbn [orb]. fold (fired i tr). tauto.
Qed.

Lemma nodup_below_length k (l : list nat) : NoDup l -> (forall i, In i l -> i < k) -> length l <= k.
Proof.
  intros Hn Hb. rewrite <- (seq_length k 0). apply NoDup_incl_length; [exact Hn|].
  intros i Hi. apply in_seq. specialize (Hb i Hi). lia.
Qed.

Lemma nodup_full k (l : list nat) : NoDup l -> (forall i, In i l -> i < k) ->
  (length l = k <-> forall i, i < k -> In i l).
Proof.
  intros Hn Hb. split.
  - intros HL i Hi.
    assert (Hincl : incl (seq 0 k) l).
    { apply NoDup_length_incl; [exact Hn | rewrite seq_length; lia |].
      intros x Hx. apply in_seq. specialize (Hb x Hx). lia. }
    apply Hincl, in_seq. lia.
  - intros H. apply Nat.le_antisymm; [apply nodup_below_length; assumption|].
    rewrite <- (seq_length k 0). apply NoDup_incl_length; [apply seq_NoDup|].
    intros i Hi. apply in_seq in Hi. apply H. lia.
Qed.

(* the monitor that counts its own start events, each once, leaves its first phase exactly when every one of the
   container's start events has fired -- whatever foreign or repeated start traces pass by, in whatever order *)
Theorem phase_one_iff_all_fired k tr : phase_one_done true k tr = all_fired k tr.
Proof.
  unfold phase_one_done, all_fired.
  destruct (counted_spec k tr [] (NoDup_nil _) (fun i H => match H with end)) as [A [B C]].
  apply eq_true_iff_eq. rewrite Nat.eqb_eq, forallb_forall.
  rewrite (nodup_full k _ A B). split.
  - intros H i Hi. apply in_seq in Hi. destruct (proj1 (C i) (H i ltac:(lia))) as [[]|[_ F]]. exact F.
  - intros H i Hi. apply C. right. split; [exact Hi|]. apply H, in_seq. lia.
Qed.

(* the monitor that counts every start-event trace: two start events, the first leads into a sub-process *)
Lemma refuted_counting_every_trace :
  phase_one_done false 2 [Own 0; Foreign 0] = true /\ all_fired 2 [Own 0; Foreign 0] = false /\
  phase_one_done false 2 [Own 0; Own 0] = true /\ all_fired 2 [Own 0; Own 0] = false.
Proof. vm_compute. auto. Qed.

(* ---------------- one accumulator per activation ---------------- *)
Lemma carried_fresh k : forall trs acc, carried true k trs acc = match trs with [] => acc | _ => [] end.
Proof. induction trs as [|tr r IH]; intros acc; cbn; [reflexivity|]. rewrite IH. destruct r; reflexivity. Qed.

(* every activation's monitor, whatever the activations before it saw, leaves its first phase exactly when every start
   event has fired in THIS activation *)
Theorem every_activation_waits_for_its_own_starts k trs tr :
  phase_one_from (carried true k trs []) k tr = all_fired k tr.
Proof.
  rewrite carried_fresh. replace (match trs with [] => [] | _ :: _ => [] end) with (@nil nat) by (destruct trs; reflexivity).
  exact (phase_one_iff_all_fired k tr).
Qed.

(* an accumulator that survives the activation: the second activation's monitor is through its first phase before any
   start event has fired *)
Lemma refuted_accumulator_survives :
  phase_one_from (carried false 1 [[Own 0]] []) 1 [] = true /\ all_fired 1 [] = false.
Proof. vm_compute. auto. Qed.
