From BV Require Import Model.Inbox.

(* ---------- a listener as a function of its message sequence ---------- *)
Definition linv (s : lstate) : Prop := armed s = negb (waiting s =? 0).

Lemma lhandle_inv pat s m : linv s -> linv (lhandle pat s m).
Proof.
  unfold linv. intros H. destruct m as [e|]; simpl; auto.
  destruct (armed s && (e =? pat)); simpl; auto.
Qed.

Lemma fold_conserve pat : forall msgs s,
  conts (fold_left (lhandle pat) msgs s) + waiting (fold_left (lhandle pat) msgs s) = conts s + waiting s + arms msgs.
Proof.
  induction msgs as [|m r IH]; intros s; simpl; [unfold arms; simpl; lia|].
  rewrite IH. destruct m as [e|]; unfold arms; simpl.
  - destruct (armed s && (e =? pat)); simpl; lia.
  - lia.
Qed.

(* every token that armed the listener has either continued exactly once or is still waiting *)
Theorem conserve pat msgs : conts (lrun pat msgs) + waiting (lrun pat msgs) = arms msgs.
Proof. unfold lrun. rewrite fold_conserve. simpl. lia. Qed.

Lemma arms_app a b : arms (a ++ b) = arms a + arms b.
Proof. unfold arms. rewrite filter_app, app_length. reflexivity. Qed.

Lemma fold_waiting pat : forall msgs s acc, linv s -> waiting s = arms acc ->
  waiting (fold_left (lhandle pat) msgs s) = arms (after_last pat msgs acc).
Proof.
  induction msgs as [|m r IH]; intros s acc Hi Hw; simpl; auto.
  destruct m as [e|].
  - destruct (Nat.eqb_spec e pat) as [->|Hne].
    + (* matching event: nobody waits afterwards *)
      apply IH; [apply lhandle_inv; auto|].
      simpl. rewrite Nat.eqb_refl. unfold linv in Hi. destruct (armed s) eqn:Ea; simpl; [reflexivity|].
      destruct (waiting s =? 0) eqn:E0; [apply Nat.eqb_eq in E0; rewrite E0; reflexivity|discriminate].
    + apply IH.
      * apply lhandle_inv; auto.
      * simpl. replace (e =? pat) with false by (symmetry; apply Nat.eqb_neq; auto). rewrite andb_false_r.
        rewrite arms_app. unfold arms at 2. simpl. lia.
  - apply IH; [apply lhandle_inv; auto|]. simpl. rewrite arms_app. unfold arms at 2. simpl. lia.
Qed.

(* the tokens still waiting are exactly those that arrived after the last matching event:
   every token that was listening when a matching event came has continued *)
Theorem waiting_after_last pat msgs : waiting (lrun pat msgs) = arms (after_last pat msgs []).
Proof. unfold lrun. apply fold_waiting; reflexivity. Qed.

(* an event that does not match the listener's definition changes nothing *)
Theorem nomatch_inert pat s e : e <> pat -> lhandle pat s (Some e) = s.
Proof. intros H. simpl. replace (e =? pat) with false by (symmetry; apply Nat.eqb_neq; auto). rewrite andb_false_r. reflexivity. Qed.

Theorem nomatch_removable pat e : e <> pat -> forall msgs s,
  fold_left (lhandle pat) (filter (fun m => match m with Some x => negb (x =? e) | None => true end) msgs) s
  = fold_left (lhandle pat) msgs s.
Proof.
  intros Hne. induction msgs as [|m r IH]; intros s; simpl; auto.
  destruct m as [x|]; simpl; auto.
  destruct (Nat.eqb_spec x e) as [->|]; simpl; auto.
  rewrite IH. f_equal. symmetry. apply nomatch_inert. auto.
Qed.

(* an event delivered while the listener is not armed is dropped without any effect on later listening *)
Theorem idle_dropped pat s e : armed s = false -> lhandle pat s (Some e) = s.
Proof. intros H. simpl. rewrite H. reflexivity. Qed.

Theorem idle_prefix_dropped pat e msgs : lrun pat (Some e :: msgs) = lrun pat msgs.
Proof. reflexivity. Qed.

(* ---------- delivery never blocks (repaired code) ---------- *)
Lemma deliver_all_ok e : forall ns, (forall n, In n ns -> running n = true -> has_room n = true) ->
  exists ns', deliver_all true e ns = Some ns'.
Proof.
  induction ns as [|n r IH]; intros H; simpl; [eexists; reflexivity|].
  destruct IH as [r' Hr]; [intros x Hx; apply H; right; auto|]. rewrite Hr.
  unfold deliver_to. destruct (running n) eqn:Er.
  - rewrite (H n (or_introl eq_refl) Er). eexists; reflexivity.
  - eexists; reflexivity.
Qed.

Lemma occupancy_updl_process ns i n m r :
  nth_error ns i = Some n -> running n = true -> inbox n = m :: r ->
  forall n', running n' = true -> inbox n' = r -> S (occupancy (updl ns i n')) = occupancy ns.
Proof.
  revert i; induction ns as [|a ns IH]; intros i Hn Hr Hi n' Hr' Hi'; [destruct i; discriminate|].
  destruct i as [|i]; simpl in *.
  - inversion Hn; subst a. rewrite Hr, Hr', Hi, Hi'. simpl. lia.
  - specialize (IH i Hn Hr Hi n' Hr' Hi'). lia.
Qed.

(* if a delivery cannot complete right now, a listener step is enabled and frees a slot; since
   such steps strictly decrease the total occupancy, the delivery completes after at most
   [occupancy] listener steps: ConsumeEvent returns, whichever nodes have or have not been reached *)
Theorem delivery_progress e ns : (forall n, In n ns -> 0 < cap n) ->
  deliver_all true e ns = None ->
  exists i ns', dstep true ns (DProcess i) = Some ns' /\ occupancy ns' < occupancy ns.
Proof.
  intros Hcap Hnone.
  assert (Hfull : exists i n, nth_error ns i = Some n /\ running n = true /\ has_room n = false).
  { clear Hcap. induction ns as [|a r IH]; simpl in Hnone; [discriminate|].
    destruct (deliver_to true e a) as [a'|] eqn:Ea.
    - destruct (deliver_all true e r) eqn:Er; [discriminate|].
      destruct (IH eq_refl) as [i [n [A B]]]. exists (S i), n. auto.
    - unfold deliver_to in Ea. destruct (running a) eqn:Ra; [|discriminate].
      destruct (has_room a) eqn:Ha; [discriminate|]. exists 0, a. auto. }
  destruct Hfull as [i [n [Hn [Hr Hroom]]]].
  assert (Hc : 0 < cap n) by (apply Hcap; eapply nth_error_In; eauto).
  unfold has_room in Hroom. apply Nat.ltb_ge in Hroom.
  destruct (inbox n) as [|m r] eqn:Hi; [simpl in Hroom; lia|].
  exists i. cbn [dstep]. rewrite Hn, Hr, Hi. eexists. split; [reflexivity|].
  pose proof (occupancy_updl_process ns i n m r Hn Hr Hi
                {| running := true; cap := cap n; inbox := r; pat_ := pat_ n; st_ := lhandle (pat_ n) (st_ n) m |} eq_refl eq_refl). lia.
Qed.

Theorem delivery_enabled_when_room e ns :
  (forall n, In n ns -> running n = true -> has_room n = true) -> deliver_all true e ns <> None.
Proof. intros H. destruct (deliver_all_ok e ns H) as [x Hx]. congruence. Qed.

(* ---------- the pinned snapshot: a catch event that is never reached ---------- *)
Definition unreached : lnode := {| running := false; cap := 3; inbox := []; pat_ := 1; st_ := l0 |}.

Fixpoint dexec (b : bool) (ns : list lnode) (p : list dlabel) : option (list lnode) :=
  match p with
  | [] => Some ns
  | l :: r => match dstep b ns l with Some ns' => dexec b ns' r | None => None end
  end.

Lemma refuted_blocking : exists ns, dexec false [unreached] [DDeliver 1; DDeliver 2; DDeliver 1] = Some ns /\
  forall e, dstep false ns (DDeliver e) = None /\ (forall i, dstep false ns (DProcess i) = None).
Proof.
  eexists. split; [vm_compute; reflexivity|]. intros e. split; [reflexivity|].
  intros [|[|i]]; reflexivity.
Qed.
