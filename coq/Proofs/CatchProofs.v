From BV Require Import Model.Catch.

Lemma crun_app p r a b : crun p r (a ++ b) = fold_left (cstep p r) b (crun p r a).
Proof. unfold crun. apply fold_left_app. Qed.

(** AFTER A RESET THE LISTENER STARTS AFRESH: whatever happened before, tokens that arrive after a reset wait — none of
    them continues — until the next event is delivered; then exactly those c_waiting continue *)
Theorem fresh_after_reset p before n :
  let s := crun p true (before ++ [CReset] ++ repeat CArm n) in
  c_conts s = c_conts (crun p true before) /\ c_waiting s = n /\ c_owed s = 0.
Proof.
  cbn zeta. rewrite !crun_app. set (s0 := crun p true before). cbn [fold_left cstep orb].
  set (s1 := {| c_activated := false; c_waiting := 0; c_owed := 0; c_conts := c_conts s0; c_withdrawn := c_withdrawn s0 + c_waiting s0 |}).
  assert (G : forall k s, c_owed s = 0 -> c_conts (fold_left (cstep p true) (repeat CArm k) s) = c_conts s /\
                          c_waiting (fold_left (cstep p true) (repeat CArm k) s) = c_waiting s + k /\
                          c_owed (fold_left (cstep p true) (repeat CArm k) s) = 0).
  { induction k as [|k IH]; intros s O; cbn [repeat fold_left].
    - repeat split; auto.
    - cbn [cstep]. rewrite O. destruct (IH {| c_activated := true; c_waiting := S (c_waiting s); c_owed := 0; c_conts := c_conts s; c_withdrawn := c_withdrawn s |} eq_refl) as [A [B C]].
      cbn [c_conts c_waiting] in *. repeat split; auto. lia. }
  destruct (G n s1 eq_refl) as [A [B C]]. cbn [c_conts c_waiting] in *. repeat split; auto.
Qed.

Theorem event_after_reset_serves_the_waiting p before n :
  c_conts (crun p true (before ++ [CReset] ++ repeat CArm n ++ [CEvent])) = c_conts (crun p true before) + n.
Proof.
  replace (before ++ [CReset] ++ repeat CArm n ++ [CEvent]) with ((before ++ [CReset] ++ repeat CArm n) ++ [CEvent])
    by (rewrite <- !app_assoc; reflexivity).
  rewrite crun_app. destruct (fresh_after_reset p before n) as [A [B C]]. cbn zeta in *.
  set (s := crun p true (before ++ [CReset] ++ repeat CArm n)) in *. cbn [fold_left cstep].
  destruct n as [|n].
  - (* nobody arrived: the listener is not c_activated, the event is dropped *)
    assert (c_activated s = false).
    { unfold s. rewrite crun_app. cbn. reflexivity. }
    rewrite H. lia.
  - assert (c_activated s = true).
    { unfold s. rewrite !crun_app. cbn [repeat]. rewrite <- (app_nil_r (repeat CArm n)).
      replace (CArm :: repeat CArm n ++ []) with ((CArm :: repeat CArm n)) by (rewrite app_nil_r; reflexivity).
      clear. set (s1 := fold_left (cstep p true) [CReset] (crun p true before)).
      assert (G : forall k s, c_activated (fold_left (cstep p true) (repeat CArm (S k)) s) = true).
      { induction k as [|k IH]; intros s; cbn [repeat fold_left cstep].
        - destruct (c_owed s); reflexivity.
        - specialize (IH (cstep p true s CArm)). cbn [repeat fold_left] in IH. exact IH. }
      apply (G n s1). }
    rewrite H. cbn [c_conts]. lia.
Qed.

(* a reset that forgets what is c_owed only when somebody waits: two events in a burst, the host answered, left, and
   entered again — the new listener continues at once although no event was delivered to it *)
Theorem refuted_reset_only_when_waiting :
  let ms := [CArm; CEvent; CEvent; CReset; CArm] in
  c_conts (crun true false ms) = 2 /\ c_conts (crun true true ms) = 1 /\ c_waiting (crun true true ms) = 1.
Proof. cbn. repeat split; reflexivity. Qed.
