From BV Require Import Model.Blocks Proofs.TokenGameProofs.

Lemma endfree_flatten b : endfree (flatten b) = endfree b.
Proof. induction b; cbn [flatten endfree]; auto; congruence. Qed.

Lemma nev_flatR r : nev r -> nev (flatR r).
Proof.
  induction r; cbn [nev flatR]; auto.
  - intros [A B]. rewrite endfree_flatten. auto.
  - intros [A B]. auto.
  - intros [A B]. rewrite endfree_flatten. auto.
  - intros [[A B]|[[A B]|[A B]]]; subst; cbn [flatR]; auto.
Qed.

Lemma fin_ended_flatR r : nev r -> fin (flatR r) = fin r /\ ended (flatR r) = ended r.
Proof.
  induction r; cbn [nev flatR fin ended]; auto.
  - intros [A B]. destruct (IHr1 A) as [-> _], (IHr2 B) as [-> _]. auto.
  - intros A. destruct (IHr A) as [-> E]. rewrite (nev_not_ended _ A), orb_false_r. split; auto.
    rewrite E. apply nev_not_ended. exact A.
  - intros [[A B]|[[A B]|[A B]]]; subst; cbn [flatR fin ended].
    + destruct (IHr1 A) as [-> ->], (IHr2 B) as [-> ->]. auto.
    + destruct (IHr1 A) as [-> ->]. auto.
    + destruct (IHr2 B) as [-> ->]. auto.
Qed.
Lemma fin_flatR r : nev r -> fin (flatR r) = fin r.
Proof. intros N. apply fin_ended_flatR, N. Qed.

Lemma pending_flatR r : pending (flatR r) = pending r.
Proof. induction r; cbn [flatR pending]; auto; rewrite IHr1, IHr2; reflexivity. Qed.

Lemma start_flatten e b : endfree b = true -> flatR (start e b) = start e (flatten b).
Proof.
  induction b; cbn [endfree start flatten flatR]; auto; try discriminate.
  - intros H. apply andb_prop in H. destruct H as [H1 H2].
    rewrite <- (IHb1 H1). pose proof (nev_start e b1 H1) as N.
    rewrite (fin_flatR _ N). rewrite (nev_not_ended _ (nev_flatR _ N)), (nev_not_ended _ N).
    destruct (fin (start e b1)); cbn [flatR]; auto.
  - intros H. apply andb_prop in H. destruct H as [H1 H2]. rewrite (IHb1 H1), (IHb2 H2). reflexivity.
  - intros H. apply andb_prop in H. destruct H as [H1 H2]. destruct (getv e v); auto.
  - intros H. rewrite <- (IHb H). pose proof (nev_start e b H) as N.
    rewrite (fin_flatR _ N). rewrite (nev_not_ended _ (nev_flatR _ N)), (nev_not_ended _ N).
    destruct (fin (start e b)); cbn [flatR]; auto. destruct (getv e v); reflexivity.
  - intros H. apply andb_prop in H. destruct H as [H H3]. apply andb_prop in H. destruct H as [H1 H2].
    destruct (getv e v1), (getv e v2); cbn [orb flatR]; rewrite ?(IHb1 H1), ?(IHb2 H2); auto.
Qed.

Lemma answer_flatR e r t : nev r -> flatR (answer e r t) = answer e (flatR r) t.
Proof.
  induction r; cbn [nev answer flatR]; auto.
  - intros _. destruct (t =? t0); reflexivity.
  - intros [A B]. rewrite <- (IHr A). pose proof (nev_answer e r t A) as N.
    rewrite (fin_flatR _ N). rewrite (nev_not_ended _ (nev_flatR _ N)), (nev_not_ended _ N).
    destruct (fin (answer e r t)); cbn [flatR]; auto. apply start_flatten; auto.
  - intros [A B]. rewrite (IHr1 A), (IHr2 B). reflexivity.
  - intros [A B]. rewrite <- (IHr A). pose proof (nev_answer e r t A) as N.
    rewrite (fin_flatR _ N). rewrite (nev_not_ended _ (nev_flatR _ N)), (nev_not_ended _ N).
    destruct (fin (answer e r t)); cbn [flatR]; auto.
    destruct (getv e v); auto. rewrite <- (start_flatten e body B). pose proof (nev_start e body B) as N2.
    rewrite (fin_flatR _ N2). rewrite (nev_not_ended _ (nev_flatR _ N2)), (nev_not_ended _ N2).
    destruct (fin (start e body)); reflexivity.
  - intros [[A B]|[[A B]|[A B]]]; subst; cbn [flatR answer]; rewrite ?(IHr1 A), ?(IHr2 B); reflexivity.
Qed.

Lemma observe_flatR ops : forall e r, nev r -> observe (e, flatR r) ops = observe (e, r) ops.
Proof.
  induction ops as [|o ops IH]; intros e r N; cbn [observe fst snd].
  - unfold complete. destruct (fin_ended_flatR r N) as [-> ->]. rewrite pending_flatR. reflexivity.
  - unfold step. cbn [fst snd]. rewrite <- (answer_flatR _ _ _ N). rewrite IH by (apply nev_answer; exact N).
    rewrite pending_flatR. reflexivity.
Qed.

(** a program (without end events of its own) with any blocks wrapped in sub-processes, at any depth, behaves
    like the program with their content inlined: for every initial data and every sequence of answers and writes *)
Lemma inline_equiv b e ops : endfree b = true -> behaviour (flatten b) e ops = behaviour b e ops.
Proof. intros H. unfold behaviour. rewrite <- (start_flatten e b H). apply observe_flatR. apply nev_start, H. Qed.

Lemma flatten_wrap n b : flatten (wrap n b) = flatten b.
Proof. induction n; cbn [wrap flatten]; auto. Qed.
Lemma endfree_wrap n b : endfree (wrap n b) = endfree b.
Proof. induction n; cbn [wrap endfree]; auto. Qed.

Lemma flatten_idem b : flatten (flatten b) = flatten b.
Proof. induction b; cbn [flatten]; congruence. Qed.

(* wrapping one block anywhere in a context *)
Inductive ctx :=
| CHole | CSeqL (c : ctx) (b : blk) | CSeqR (a : blk) (c : ctx) | CParL (c : ctx) (b : blk) | CParR (a : blk) (c : ctx)
| CIfL (v : nat) (c : ctx) (b : blk) | CIfR (v : nat) (a : blk) (c : ctx) | CLoop (v : nat) (c : ctx) | CSub (c : ctx).
Fixpoint plug (c : ctx) (x : blk) : blk :=
  match c with
  | CHole => x
  | CSeqL c b => BSeq (plug c x) b | CSeqR a c => BSeq a (plug c x)
  | CParL c b => BPar (plug c x) b | CParR a c => BPar a (plug c x)
  | CIfL v c b => BIf v (plug c x) b | CIfR v a c => BIf v a (plug c x)
  | CLoop v c => BLoop v (plug c x)
  | CSub c => BSub (plug c x)
  end.

Lemma flatten_plug_wrap c n x : flatten (plug c (wrap n x)) = flatten (plug c x).
Proof. induction c; cbn [plug flatten]; try congruence. apply flatten_wrap. Qed.
Lemma endfree_plug_wrap c n x : endfree (plug c (wrap n x)) = endfree (plug c x).
Proof. induction c; cbn [plug endfree]; try congruence. apply endfree_wrap. Qed.

Lemma wrap_anywhere c n x e ops : endfree (plug c x) = true ->
  behaviour (plug c (wrap n x)) e ops = behaviour (plug c x) e ops.
Proof.
  intros H. rewrite <- (inline_equiv (plug c (wrap n x))) by (rewrite endfree_plug_wrap; exact H).
  rewrite <- (inline_equiv (plug c x)) by exact H. rewrite flatten_plug_wrap. reflexivity.
Qed.

(* an end event inside a sub-process ends that sub-process only: the inlining is not an equivalence for such content *)
Example inline_needs_endfree :
  behaviour (BSeq (BSub (BEnd 1)) (BTask 2)) [] [] = ([[2]], false, []) /\
  behaviour (flatten (BSeq (BSub (BEnd 1)) (BTask 2))) [] [] = ([[]], true, []).
Proof. split; reflexivity. Qed.

Example inline_nonvacuous :
  behaviour (BLoop 3 (BSub (BSeq (BTask 1) (BSub (BPar (BTask 2) (BTask 3)))))) [false; false; false; false]
    [(1, [(3, true)]); (3, []); (2, []); (1, [(3, false)]); (2, []); (3, [])]
  = ([[1]; [2; 3]; [2]; [1]; [2; 3]; [3]; []], true, [false; false; false; false]).
Proof. reflexivity. Qed.
