From BV Require Import Model.Blocks.

Lemma fin_flatR r : fin (flatR r) = fin r.
Proof. induction r; cbn [flatR fin]; auto. rewrite IHr1, IHr2. reflexivity. Qed.

Lemma pending_flatR r : pending (flatR r) = pending r.
Proof. induction r; cbn [flatR pending]; auto. rewrite IHr1, IHr2. reflexivity. Qed.

Lemma start_flatten e b : flatR (start e b) = start e (flatten b).
Proof.
  induction b; cbn [start flatten flatR]; auto.
  - rewrite <- IHb1. rewrite fin_flatR. destruct (fin (start e b1)); cbn [flatR]; congruence.
  - congruence.
  - destruct (getv e v); auto.
  - rewrite <- IHb. rewrite fin_flatR. destruct (fin (start e b)); cbn [flatR]; auto. destruct (getv e v); reflexivity.
  - destruct (getv e v1), (getv e v2); cbn [orb flatR]; congruence.
Qed.

Lemma answer_flatR e r t : flatR (answer e r t) = answer e (flatR r) t.
Proof.
  induction r; cbn [answer flatR]; auto.
  - destruct (t =? t0); reflexivity.
  - rewrite <- IHr. rewrite fin_flatR. destruct (fin (answer e r t)); cbn [flatR]; auto. apply start_flatten.
  - congruence.
  - rewrite <- IHr. rewrite fin_flatR. destruct (fin (answer e r t)); cbn [flatR]; auto.
    destruct (getv e v); auto. rewrite <- start_flatten. rewrite fin_flatR.
    destruct (fin (start e body)); reflexivity.
Qed.

Lemma observe_flatR ops : forall e r, observe (e, flatR r) ops = observe (e, r) ops.
Proof.
  induction ops as [|o ops IH]; intros e r; cbn [observe fst snd].
  - rewrite pending_flatR, fin_flatR. reflexivity.
  - unfold step. cbn [fst snd]. rewrite <- answer_flatR. rewrite IH. rewrite pending_flatR. reflexivity.
Qed.

(** a program with any blocks wrapped in sub-processes, at any depth, behaves like the program with
    their content inlined: for every initial data and every sequence of answers and writes *)
Lemma inline_equiv b e ops : behaviour (flatten b) e ops = behaviour b e ops.
Proof. unfold behaviour. rewrite <- start_flatten. apply observe_flatR. Qed.

Lemma flatten_wrap n b : flatten (wrap n b) = flatten b.
Proof. induction n; cbn [wrap flatten]; auto. Qed.

Lemma flatten_idem b : flatten (flatten b) = flatten b.
Proof. induction b; cbn [flatten]; congruence. Qed.

(* wrapping one block anywhere in a context *)
Inductive ctx :=
| CHole | CSeqL (c : ctx) (b : blk) | CSeqR (a : blk) (c : ctx) | CParL (c : ctx) (b : blk) | CParR (a : blk) (c : ctx)
| CIfL (v : nat) (c : ctx) (b : blk) | CIfR (v : nat) (a : blk) (c : ctx) | CLoop (v : nat) (c : ctx) | CSub (c : ctx).
Fixpoint plug (c : ctx) (x : blk) : blk :=
  match c with
  | CHole => x
  | CSeqL c b => BSeq (plug c x) b | CSeqR a c => BSeq a (plug c x)
  | CParL c b => BPar (plug c x) b | CParR a c => BPar a (plug c x)
  | CIfL v c b => BIf v (plug c x) b | CIfR v a c => BIf v a (plug c x)
  | CLoop v c => BLoop v (plug c x)
  | CSub c => BSub (plug c x)
  end.

Lemma flatten_plug_wrap c n x : flatten (plug c (wrap n x)) = flatten (plug c x).
Proof. induction c; cbn [plug flatten]; try congruence. apply flatten_wrap. Qed.

Lemma wrap_anywhere c n x e ops : behaviour (plug c (wrap n x)) e ops = behaviour (plug c x) e ops.
Proof. rewrite <- (inline_equiv (plug c (wrap n x))), <- (inline_equiv (plug c x)), flatten_plug_wrap. reflexivity. Qed.

Example inline_nonvacuous :
  behaviour (BLoop 3 (BSub (BSeq (BTask 1) (BSub (BPar (BTask 2) (BTask 3)))))) [false; false; false; false]
    [(1, [(3, true)]); (3, []); (2, []); (1, [(3, false)]); (2, []); (3, [])]
  = ([[1]; [2; 3]; [2]; [1]; [2; 3]; [3]; []], true, [false; false; false; false]).
Proof. reflexivity. Qed.
