From BV Require Import Model.Layout.
From Coq Require Import Permutation.

(* ---------- first_free ---------- *)
Lemma filter_mono {A} (p q : A -> bool) l : (forall x, p x = true -> q x = true) ->
  (length (filter p l) <= length (filter q l))%nat.
Proof.
  intros H. induction l as [|a l IH]; cbn [filter]; auto.
  destruct (p a) eqn:E; [rewrite (H a E); cbn [length]; lia|].
  destruct (q a); cbn [length]; lia.
Qed.

Lemma filter_ge_lt (occ : list nat) r : In r occ ->
  (length (filter (fun x => Nat.leb (S r) x) occ) < length (filter (fun x => Nat.leb r x) occ))%nat.
Proof.
  assert (M : forall x, Nat.leb (S r) x = true -> Nat.leb r x = true).
  { intros x Hx. apply Nat.leb_le in Hx. apply Nat.leb_le. lia. }
  induction occ as [|a occ IH]; intros H; [destruct H|].
  cbn [filter]. destruct H as [->|H].
  - rewrite Nat.leb_refl. replace (Nat.leb (S r) r) with false by (symmetry; apply Nat.leb_gt; lia).
    cbn [length]. pose proof (filter_mono (fun x => Nat.leb (S r) x) (fun x => Nat.leb r x) occ M). lia.
  - specialize (IH H). destruct (Nat.leb (S r) a) eqn:E.
    + rewrite (M a E). cbn [length]. lia.
    + destruct (Nat.leb r a); cbn [length]; lia.
Qed.

Lemma first_free_spec : forall fuel occ r,
  (length (filter (fun x => Nat.leb r x) occ) < fuel)%nat ->
  ~ In (first_free fuel occ r) occ /\ (r <= first_free fuel occ r)%nat.
Proof.
  induction fuel as [|k IH]; intros occ r H; [lia|].
  simpl. destruct (existsb (Nat.eqb r) occ) eqn:E.
  - apply existsb_exists in E. destruct E as [x [Hx Ex]]. apply Nat.eqb_eq in Ex. subst x.
    pose proof (filter_ge_lt occ r Hx).
    destruct (IH occ (S r)) as [A B]; [lia|]. split; auto; lia.
  - split; [|lia]. intros Hin.
    assert (existsb (Nat.eqb r) occ = true) by (apply existsb_exists; exists r; split; auto; apply Nat.eqb_refl).
    congruence.
Qed.

Lemma first_free_fresh occ r : ~ In (first_free (S (length occ)) occ r) occ.
Proof.
  apply first_free_spec.
  assert (length (filter (fun x => Nat.leb r x) occ) <= length occ)%nat.
  { clear. induction occ as [|a occ IH]; cbn [filter length]; auto. destruct (Nat.leb r a); cbn [length]; lia. }
  lia.
Qed.

(* ---------- updo ---------- *)
Lemma updo_length l i x : length (updo l i x) = length l.
Proof. revert i; induction l; intros [|i]; simpl; auto. Qed.
Lemma updo_same l i x : (i < length l)%nat -> nth i (updo l i x) None = Some x.
Proof. revert i; induction l; intros [|i] H; simpl in *; try lia; auto. apply IHl; lia. Qed.
Lemma updo_other l i j x : i <> j -> nth j (updo l i x) None = nth j l None.
Proof. revert i j; induction l; intros [|i] [|j] H; simpl; auto; try lia. Qed.

(* ---------- place: rows handed out within one level are pairwise distinct ---------- *)
Definition row_of (rows : list (option nat)) (v : nat) : option nat := nth v rows None.

Lemma place_spec want : forall ns occ rows,
  NoDup ns -> Forall (fun v => (v < length rows)%nat) ns ->
  let rows' := place want ns occ rows in
  length rows' = length rows /\
  (forall u, ~ In u ns -> row_of rows' u = row_of rows u) /\
  (forall v, In v ns -> exists r, row_of rows' v = Some r /\ ~ In r occ) /\
  (forall u v, In u ns -> In v ns -> u <> v -> row_of rows' u <> row_of rows' v).
Proof.
  induction ns as [|v ns IH]; intros occ rows ND Hlt; cbn [place]; cbv zeta.
  - split; [auto|]. split; [auto|]. split; [intros v []|intros u v []].
  - inversion ND as [|? ? Hnin ND']; subst. inversion Hlt as [|? ? Hv Hlt']; subst.
    set (row := first_free (S (length occ)) occ (want v)).
    assert (Hfresh : ~ In row occ) by apply first_free_fresh.
    assert (Hlt2 : Forall (fun v0 => (v0 < length (updo rows v row))%nat) ns)
      by (rewrite updo_length; auto).
    destruct (IH (row :: occ) (updo rows v row) ND' Hlt2) as [L [Keep [New Dist]]].
    rewrite updo_length in L.
    assert (Hv' : row_of (place want ns (row :: occ) (updo rows v row)) v = Some row).
    { rewrite Keep by auto. unfold row_of. apply updo_same; auto. }
    repeat split; auto.
    + intros u Hu. simpl in Hu. rewrite Keep by tauto. unfold row_of. apply updo_other. intros E; apply Hu; left; auto.
    + intros u [Eu|Hu].
      * rewrite <- Eu. exists row; auto.
      * destruct (New u Hu) as [r [Hr Hnr]]. exists r; split; auto. intros H; apply Hnr; right; auto.
    + intros a b [Ea|Ha] [Eb|Hb] Hne.
      * congruence.
      * rewrite <- Ea. destruct (New b Hb) as [r [Hr Hnr]]. rewrite Hv', Hr.
        intros E; inversion E; subst r. apply Hnr; left; auto.
      * rewrite <- Eb. destruct (New a Ha) as [r [Hr Hnr]]. rewrite Hv', Hr.
        intros E; inversion E; subst r. apply Hnr; left; auto.
      * apply Dist; auto.
Qed.

(* ---------- insertion sort is a permutation ---------- *)
Lemma insert_perm lt x l : Permutation (x :: l) (insert_by lt x l).
Proof.
  induction l as [|y r IH]; simpl; auto. destruct (lt x y); auto.
  rewrite perm_swap. constructor. auto.
Qed.

Lemma sort_perm lt l : Permutation l (sort_by lt l).
Proof.
  unfold sort_by. assert (G : forall acc, Permutation (acc ++ l) (fold_left (fun a x => insert_by lt x a) l acc)).
  { induction l as [|x r IH]; intros acc; simpl; [rewrite app_nil_r; auto|].
    rewrite <- IH. rewrite <- insert_perm. simpl. symmetry. apply Permutation_middle. }
  apply (G []).
Qed.

(* ---------- levels keep their length ---------- *)
Lemma setl_length l i v : length (setl l i v) = length l.
Proof. revert i; induction l; intros [|i]; simpl; auto. Qed.

Lemma relax_pass_length n edges : forall lv, length (fst (relax_pass n edges lv)) = length lv.
Proof.
  unfold relax_pass. intros lv. generalize false.
  revert lv; induction edges as [|[s t] r IH]; intros lv b; simpl; auto.
  destruct ((s <? n)%nat && (t <? n)%nat); [|apply IH].
  destruct (getl lv t <? S (getl lv s))%nat; rewrite IH; auto. apply setl_length.
Qed.

Lemma relax_length iters n edges : forall lv, length (relax iters n edges lv) = length lv.
Proof.
  induction iters as [|k IH]; intros lv; simpl; auto.
  pose proof (relax_pass_length n edges lv) as H.
  destruct (relax_pass n edges lv) as [lv' upd]. simpl in H.
  destruct upd; [rewrite IH|]; auto.
Qed.

Lemma levels_length n edges : length (levels n edges) = n.
Proof. unfold levels. rewrite relax_length, repeat_length; auto. Qed.

(* ---------- rows_of: two nodes of the same level never share a row ---------- *)
Lemma max_list_ge l x : In x l -> (x <= max_list l)%nat.
Proof.
  unfold max_list. assert (G : forall l a, (a <= fold_left Nat.max l a)%nat /\
     forall x, In x l -> (x <= fold_left Nat.max l a)%nat).
  { induction l0 as [|y r IH]; intros a; simpl; [split; [lia|intros ? []]|].
    destruct (IH (Nat.max a y)) as [A B]. split; [lia|]. intros z [->|Hz]; [lia|auto]. }
  intros H. apply (G l 0%nat); auto.
Qed.

Section Rows.
Variables (n : nat) (edges : list (nat * nat)) (lv : list nat).

Lemma rows_level_spec rows level : length rows = n ->
  let rows' := rows_level n edges lv rows level in
  length rows' = n /\
  (forall u, (u < n)%nat -> getl lv u <> level -> row_of rows' u = row_of rows u) /\
  (forall u, (u < n)%nat -> getl lv u = level -> exists r, row_of rows' u = Some r) /\
  (forall u v, (u < n)%nat -> (v < n)%nat -> getl lv u = level -> getl lv v = level -> u <> v ->
               row_of rows' u <> row_of rows' v).
Proof.
  intros Hlen. unfold rows_level.
  match goal with |- context [sort_by ?f _] => set (lt := f) end.
  match goal with |- context [place ?f _ _ _] => set (want := f) end.
  set (ns := sort_by lt (level_nodes lv n level)).
  assert (Hperm : Permutation (level_nodes lv n level) ns) by apply sort_perm.
  assert (Hin : forall u, In u ns <-> (u < n)%nat /\ getl lv u = level).
  { intros u. rewrite <- (Permutation_in' (eq_refl u) Hperm). unfold level_nodes.
    rewrite filter_In, in_seq, Nat.eqb_eq. lia. }
  assert (ND : NoDup ns).
  { eapply Permutation_NoDup; [exact Hperm|]. apply NoDup_filter, seq_NoDup. }
  assert (Hlt : Forall (fun v => (v < length rows)%nat) ns).
  { apply Forall_forall. intros v Hv. apply Hin in Hv. lia. }
  destruct (place_spec want ns [] rows ND Hlt) as [L [Keep [New Dist]]].
  split; [lia|]. split; [|split].
  - intros u Hu Hl. apply Keep. rewrite Hin. tauto.
  - intros u Hu Hl. destruct (New u) as [r [Hr _]]; [apply Hin; auto|]. eauto.
  - intros u v Hu Hv Lu Lv Hne. apply Dist; auto; apply Hin; auto.
Qed.

Lemma rows_fold_spec : forall ls rows, length rows = n -> NoDup ls ->
  let rows' := fold_left (rows_level n edges lv) ls rows in
  length rows' = n /\
  (forall u, (u < n)%nat -> ~ In (getl lv u) ls -> row_of rows' u = row_of rows u) /\
  (forall u, (u < n)%nat -> In (getl lv u) ls -> exists r, row_of rows' u = Some r) /\
  (forall u v, (u < n)%nat -> (v < n)%nat -> getl lv u = getl lv v -> In (getl lv u) ls -> u <> v ->
               row_of rows' u <> row_of rows' v).
Proof.
  induction ls as [|l ls IH]; intros rows Hlen ND; simpl.
  - repeat split; auto; intros; tauto.
  - inversion ND as [|x xs Hnin ND']; subst x xs.
    destruct (rows_level_spec rows l Hlen) as [L1 [K1 [N1 D1]]].
    destruct (IH (rows_level n edges lv rows l) L1 ND') as [L2 [K2 [N2 D2]]].
    split; [auto|]. split; [|split].
    + intros u Hu Hn. simpl in Hn. rewrite K2 by tauto. apply K1; auto.
    + intros u Hu [E|Hin].
      * rewrite K2; [apply N1; auto|auto|rewrite <- E; auto].
      * apply N2; auto.
    + intros u v Hu Hv Euv [E|Hin] Hne.
      * rewrite (K2 u); [|auto|rewrite <- E; auto]. rewrite (K2 v); [|auto|rewrite <- Euv, <- E; auto].
        apply D1; auto; congruence.
      * apply D2; auto.
Qed.
End Rows.

Theorem rows_injective_per_level n edges u v :
  let lv := levels n edges in let rows := rows_of n edges lv in
  (u < n)%nat -> (v < n)%nat -> u <> v -> getl lv u = getl lv v ->
  (exists r, row_of rows u = Some r) /\ (exists r, row_of rows v = Some r) /\ row_of rows u <> row_of rows v.
Proof.
  intros lv rows Hu Hv Hne Hl. unfold rows, rows_of.
  set (ls := seq 0 (S (max_list (firstn n lv)))).
  assert (Hlen : length lv = n) by apply levels_length.
  assert (Hcover : forall w, (w < n)%nat -> In (getl lv w) ls).
  { intros w Hw. unfold ls. apply in_seq. split; [lia|]. simpl.
    assert (In (getl lv w) (firstn n lv)).
    { rewrite firstn_all2 by lia. unfold getl. apply nth_In. lia. }
    apply max_list_ge in H. lia. }
  destruct (rows_fold_spec n edges lv ls (repeat None n) (repeat_length _ _) (seq_NoDup _ _)) as [L [K [N D]]].
  split; [apply N; auto|]. split; [apply N; auto|]. apply D; auto.
Qed.

(* ---------- geometry: rectangles of one process do not overlap ---------- *)
Open Scope Z_scope.

Definition disjoint (a b : rect) : Prop :=
  rx a + rw a <= rx b \/ rx b + rw b <= rx a \/ ry a + rh a <= ry b \/ ry b + rh b <= ry a.

Theorem shapes_disjoint c sy size n edges u v maxw maxh2 :
  let lv := levels n edges in let rows := rows_of n edges lv in
  (u < n)%nat -> (v < n)%nat -> u <> v ->
  (forall w, (w < n)%nat -> 0 <= fst (size w) <= maxw /\ 0 <= snd (size w) <= maxh2) ->
  maxw <= colGap c -> 2 * maxh2 <= rowGap c ->
  disjoint (shape c sy size lv rows u) (shape c sy size lv rows v).
Proof.
  intros lv rows Hu Hv Hne Hsz Hc Hr.
  destruct (Hsz u Hu) as [[Wu0 Wu] [Hu0 Hu2]]. destruct (Hsz v Hv) as [[Wv0 Wv] [Hv0 Hv2]].
  unfold disjoint, shape. destruct (size u) as [wu hu]. destruct (size v) as [wv hv]. cbn [rx ry rw rh fst snd] in *.
  destruct (Nat.eq_dec (getl lv u) (getl lv v)) as [El|Nl].
  - destruct (rows_injective_per_level n edges u v Hu Hv Hne El) as [[ru Ru] [[rv Rv] Hd]].
    fold lv in Ru, Rv, Hd. fold rows in Ru, Rv, Hd. unfold row_of in *. rewrite Ru, Rv in *.
    assert (ru <> rv) by congruence.
    right; right. destruct (Nat.lt_ge_cases ru rv).
    + left. assert (Z.of_nat ru + 1 <= Z.of_nat rv) by lia. nia.
    + right. assert (Z.of_nat rv + 1 <= Z.of_nat ru) by lia. nia.
  - destruct (Nat.lt_ge_cases (getl lv u) (getl lv v)).
    + left. assert (Z.of_nat (getl lv u) + 1 <= Z.of_nat (getl lv v)) by lia. nia.
    + right; left. assert (Z.of_nat (getl lv v) + 1 <= Z.of_nat (getl lv u)) by lia. nia.
Qed.

(* ---------- edges start on the source shape and end on the target shape ---------- *)
Definition on_right_border2 (r : rect) (p : Z * Z) : Prop :=
  fst p = 2 * (rx r + rw r) /\ 2 * ry r <= snd p <= 2 * (ry r + rh r).
Definition on_left_border2 (r : rect) (p : Z * Z) : Prop :=
  fst p = 2 * rx r /\ 2 * ry r <= snd p <= 2 * (ry r + rh r).

Theorem waypoints_ends s t : 0 <= rh s -> 0 <= rh t ->
  on_right_border2 s (hd (0, 0) (waypoints2 s t)) /\
  on_left_border2 t (last (waypoints2 s t) (0, 0)) /\
  (length (waypoints2 s t) = 2 \/ length (waypoints2 s t) = 4)%nat.
Proof.
  intros Hs Ht. unfold waypoints2, on_right_border2, on_left_border2.
  destruct (2 * ry s + rh s =? 2 * ry t + rh t); cbn [hd last fst snd length];
    (split; [split; lia|]); (split; [split; lia|]); auto.
Qed.

(* one shape per node *)
Theorem one_shape_per_node c u sy n edges size :
  length (fst (layout_process c u sy n edges size)) = n.
Proof. unfold layout_process. simpl. rewrite map_length, seq_length. reflexivity. Qed.
