From BV Require Import Model.EventGw.

Lemma nth_upd {A} (l : list A) i j x d :
  nth j (upd l i x) d = if (j =? i) && (i <? length l) then x else nth j l d.
Proof.
  revert i j; induction l as [|a l IH]; intros i j; simpl.
  - destruct i, j; simpl; rewrite ?andb_false_r; reflexivity.
  - destruct i as [|i], j as [|j]; simpl; auto. rewrite IH. reflexivity.
Qed.
Lemma upd_length {A} (l : list A) i x : length (upd l i x) = length l.
Proof. revert i; induction l; intros [|i]; simpl; auto. Qed.

Definition cnt (f : alt -> bool) (l : list alt) : nat := length (filter f l).

Lemma cnt_upd f l i x : i < length l ->
  cnt f (upd l i x) + (if f (nth i l Lost) then 1 else 0) = cnt f l + (if f x then 1 else 0).
Proof.
  unfold cnt. revert i; induction l as [|a l IH]; intros i H; simpl in H; [lia|].
  destruct i as [|i]; simpl.
  - destruct (f a), (f x); simpl; lia.
  - specialize (IH i ltac:(lia)). destruct (f a); simpl; lia.
Qed.

Lemma cnt_repeat f a n : cnt f (repeat a n) = if f a then n else 0.
Proof. unfold cnt. induction n; simpl; [destruct (f a); auto|]. destruct (f a); simpl; lia. Qed.

Lemma cnt_zero_all f l : cnt f l = 0 -> forall i, i < length l -> f (nth i l Lost) = false.
Proof.
  unfold cnt. induction l as [|a l IH]; intros H i Hi; simpl in *; [lia|].
  destruct (f a) eqn:E; [simpl in H; lia|]. destruct i; auto. apply IH; auto; lia.
Qed.

Lemma cnt_pos_ex f l : 0 < cnt f l -> exists i, i < length l /\ f (nth i l Lost) = true.
Proof.
  unfold cnt. induction l as [|a l IH]; simpl; intros H; [lia|].
  destruct (f a) eqn:E; [exists 0; split; [lia|auto]|].
  destruct (IH H) as [i [A B]]. exists (S i); split; [lia|auto].
Qed.

Lemma filter_length_le {A} (f : A -> bool) l : length (filter f l) <= length l.
Proof. induction l as [|a l IH]; simpl; auto. destruct (f a); simpl; lia. Qed.

Definition isW (a : alt) := match a with Winner => true | _ => false end.
Definition isC (a : alt) := match a with Continued => true | _ => false end.
Definition isP (a : alt) := match a with Parked => true | _ => false end.
Definition isT (a : alt) := match a with Took => true | _ => false end.
Definition early (a : alt) := match a with Parked | Took => true | _ => false end.

Record GInv (n : nat) (s : gst) : Prop := {
  g_len : length (alts s) = n /\ length (boxes s) = n;
  g_before : first s = false -> cnt early (alts s) = n /\ tonotify s = [] /\ conts s = 0 /\
                                (forall j, nth j (boxes s) false = false);
  g_one : first s = true -> cnt isW (alts s) + cnt isC (alts s) = 1;
  g_conts : conts s = cnt isC (alts s);
  g_notify : tonotify s <> [] -> cnt isW (alts s) = 1;
  g_parked : first s = true -> forall j, j < n -> aget s j = Parked ->
             In j (tonotify s) \/ nth j (boxes s) false = true;
  g_tn_lt : forall j, In j (tonotify s) -> j < n
}.

Lemma ginv_init n : GInv n (ginit n).
Proof.
  constructor; simpl; intros; try discriminate; try tauto; rewrite ?repeat_length, ?cnt_repeat; auto.
  all: try (simpl; repeat split; auto; intros j;
            destruct (Nat.lt_ge_cases j n); [apply nth_repeat|apply nth_overflow; rewrite repeat_length; lia]).
  all: try congruence.
Qed.

Ltac fields H := destruct H as [[Hla Hlb] Hbefore Hone Hconts Hnot Hpark Htn].

Lemma aget_upd s i x j : aget {| alts := upd (alts s) i x; first := first s; tonotify := tonotify s; boxes := boxes s; conts := conts s |} j
  = if (j =? i) && (i <? length (alts s)) then x else aget s j.
Proof. unfold aget. simpl. apply nth_upd. Qed.

Lemma ginv_step b n s l s' : GInv n s -> gstep b s l = Some s' -> GInv n s'.
Proof.
  intros HI Hs. fields HI.
  destruct l as [i|i| |j| ]; cbn [gstep] in Hs.
  - (* Deliver *)
    destruct (aget s i) eqn:Ea; try (inversion Hs; subst; constructor; auto; fail).
    destruct (i <? length (alts s)) eqn:Elt; [|discriminate]. inversion Hs; subst s'; clear Hs.
    apply Nat.ltb_lt in Elt. unfold aget in Ea.
    pose proof (cnt_upd early (alts s) i Took Elt) as Ce. rewrite Ea in Ce. simpl in Ce.
    pose proof (cnt_upd isW (alts s) i Took Elt) as Cw. rewrite Ea in Cw. simpl in Cw.
    pose proof (cnt_upd isC (alts s) i Took Elt) as Cc. rewrite Ea in Cc. simpl in Cc.
    constructor; cbn [alts first tonotify boxes conts]; rewrite ?upd_length; auto; try lia.
    + intros H. destruct (Hbefore H) as [A [B [C D]]]. repeat split; auto. lia.
    + intros H. specialize (Hone H). lia.
    + intros H. specialize (Hnot H). lia.
    + intros H j Hj Hp. unfold aget in Hp. cbn [alts] in Hp. rewrite nth_upd in Hp.
      destruct ((j =? i) && (i <? length (alts s))); [discriminate|]. apply Hpark; auto.
  - (* Cas *)
    destruct (aget s i) eqn:Ea; try discriminate.
    assert (Elt : i < length (alts s)).
    { unfold aget in Ea. destruct (Nat.lt_ge_cases i (length (alts s))); auto. rewrite nth_overflow in Ea by lia. discriminate. }
    unfold aget in Ea.
    destruct (first s) eqn:Ef; inversion Hs; subst s'; clear Hs.
    + (* loser *)
      pose proof (cnt_upd isW (alts s) i Lost Elt) as Cw. rewrite Ea in Cw. simpl in Cw.
      pose proof (cnt_upd isC (alts s) i Lost Elt) as Cc. rewrite Ea in Cc. simpl in Cc.
      constructor; cbn [alts first tonotify boxes conts]; rewrite ?upd_length; auto; try lia; try discriminate.
      all: try (intros _; specialize (Hone eq_refl); lia).
      all: try (specialize (Hone eq_refl); lia).
      all: try (intros H; specialize (Hnot H); lia).
      all: try (intros _ j Hj Hp; unfold aget in Hp; cbn [alts] in Hp; rewrite nth_upd in Hp;
                destruct ((j =? i) && (i <? length (alts s))); [discriminate|]; apply Hpark; auto).
    + (* winner *)
      destruct (Hbefore eq_refl) as [A [B [C D]]].
      pose proof (cnt_upd isW (alts s) i Winner Elt) as Cw. rewrite Ea in Cw. simpl in Cw.
      pose proof (cnt_upd isC (alts s) i Winner Elt) as Cc. rewrite Ea in Cc. simpl in Cc.
      assert (Hw0 : cnt isW (alts s) = 0 /\ cnt isC (alts s) = 0).
      { (* everybody is still early *)
        assert (G : forall l, cnt early l = length l -> cnt isW l = 0 /\ cnt isC l = 0).
        { unfold cnt. induction l as [|a l IH]; simpl; auto. intros H.
          assert (length (filter early l) <= length l) by apply filter_length_le.
          destruct a; simpl in *; try lia; apply IH; lia. }
        apply G. lia. }
      destruct Hw0 as [W0 C0].
      constructor; cbn [alts first tonotify boxes conts]; rewrite ?upd_length; auto; try lia; try discriminate.
      * intros _ j Hj Hp. left. apply filter_In. split; [apply in_seq; lia|].
        apply negb_true_iff, Nat.eqb_neq. intros ->. unfold aget in Hp. cbn [alts] in Hp.
        rewrite nth_upd, Nat.eqb_refl in Hp. apply Nat.ltb_lt in Elt. rewrite Elt in Hp. discriminate.
      * intros j Hj. apply filter_In in Hj. destruct Hj as [Hj _]. apply in_seq in Hj. lia.
  - (* Notify *)
    destruct (tonotify s) as [|j rest] eqn:Et; [discriminate|].
    assert (Hjn : j < n) by (apply Htn; left; auto).
    destruct b.
    + inversion Hs; subst s'; clear Hs.
      constructor; cbn [alts first tonotify boxes conts]; rewrite ?upd_length; auto; try lia.
      all: try (intros H; destruct (Hbefore H) as [_ [B _]]; discriminate).
      all: try (intros H; apply Hnot; discriminate).
      all: try (intros j' Hj'; apply Htn; right; auto; fail).
      intros H j' Hj' Hp. destruct (Hpark H j' Hj' Hp) as [[E|Hin]|Hb]; auto.
      * subst j'. right. rewrite nth_upd, Nat.eqb_refl. replace (j <? length (boxes s)) with true by (symmetry; apply Nat.ltb_lt; lia). reflexivity.
      * right. rewrite nth_upd. destruct ((j' =? j) && (j <? length (boxes s))); auto.
    + destruct (aget s j) eqn:Ea; try discriminate. inversion Hs; subst s'; clear Hs.
      unfold aget in Ea. assert (Elt : j < length (alts s)) by lia.
      pose proof (cnt_upd isW (alts s) j Withdrawn Elt) as Cw. rewrite Ea in Cw. simpl in Cw.
      pose proof (cnt_upd isC (alts s) j Withdrawn Elt) as Cc. rewrite Ea in Cc. simpl in Cc.
      constructor; cbn [alts first tonotify boxes conts]; rewrite ?upd_length; auto; try lia.
      all: try (intros H; destruct (Hbefore H) as [_ [B _]]; discriminate).
      all: try (intros H; specialize (Hone H); lia).
      all: try (intros H; assert (X : cnt isW (alts s) = 1) by (apply Hnot; discriminate); lia).
      all: try (intros j' Hj'; apply Htn; right; auto; fail).
      intros H j' Hj' Hp. unfold aget in Hp. cbn [alts] in Hp. rewrite nth_upd in Hp.
      destruct (Nat.eqb_spec j' j); cbn [andb] in Hp.
      * subst. apply Nat.ltb_lt in Elt. rewrite Elt in Hp. discriminate.
      * destruct (Hpark H j' Hj' Hp) as [[E|Hin]|Hb]; auto; congruence.
  - (* TakeNotice *)
    destruct (aget s j) eqn:Ea; try discriminate. destruct (nth j (boxes s) false) eqn:Eb; [|discriminate].
    inversion Hs; subst s'; clear Hs.
    assert (Elt : j < length (alts s)).
    { unfold aget in Ea. destruct (Nat.lt_ge_cases j (length (alts s))); auto. rewrite nth_overflow in Ea by lia. discriminate. }
    unfold aget in Ea.
    pose proof (cnt_upd isW (alts s) j Withdrawn Elt) as Cw. rewrite Ea in Cw. simpl in Cw.
    pose proof (cnt_upd isC (alts s) j Withdrawn Elt) as Cc. rewrite Ea in Cc. simpl in Cc.
    constructor; cbn [alts first tonotify boxes conts]; rewrite ?upd_length; auto; try lia.
    all: try (intros H; destruct (Hbefore H) as [_ [_ [_ D]]]; rewrite D in Eb; discriminate).
    all: try (intros H; specialize (Hone H); lia).
    all: try (intros H; specialize (Hnot H); lia).
    intros H j' Hj' Hp. unfold aget in Hp. cbn [alts] in Hp. rewrite nth_upd in Hp.
    destruct (Nat.eqb_spec j' j); cbn [andb] in Hp.
    + subst. apply Nat.ltb_lt in Elt. rewrite Elt in Hp. discriminate.
    + destruct (Hpark H j' Hj' Hp) as [Hin|Hb]; auto. right. rewrite nth_upd.
      destruct (Nat.eqb_spec j' j); [congruence|]. auto.
  - (* Proceed *)
    destruct (tonotify s) eqn:Et; [|discriminate].
    destruct (find _ (seq 0 (length (alts s)))) as [i|] eqn:Ef; [|discriminate]. inversion Hs; subst s'; clear Hs.
    apply find_some in Ef. destruct Ef as [Hin Hw]. apply in_seq in Hin.
    assert (Ea : nth i (alts s) Lost = Winner) by (unfold aget in Hw; destruct (nth i (alts s) Lost); try discriminate; auto).
    assert (Elt : i < length (alts s)) by lia.
    pose proof (cnt_upd isW (alts s) i Continued Elt) as Cw. rewrite Ea in Cw. simpl in Cw.
    pose proof (cnt_upd isC (alts s) i Continued Elt) as Cc. rewrite Ea in Cc. simpl in Cc.
    assert (Hf : first s = true).
    { destruct (first s) eqn:E; auto. destruct (Hbefore eq_refl) as [A _].
      assert (G : forall l k, k < length l -> nth k l Lost = Winner -> cnt early l < length l).
      { unfold cnt. induction l as [|a l IH]; intros k Hk Hn; simpl in *; [lia|].
        destruct k; [subst; simpl; pose proof (filter_length_le early l); lia|].
        specialize (IH k ltac:(lia) Hn). destruct (early a); simpl; lia. }
      specialize (G _ _ Elt Ea). lia. }
    constructor; cbn [alts first tonotify boxes conts]; rewrite ?upd_length; auto; try lia; try congruence.
    all: try (intros _; specialize (Hone Hf); lia).
    all: try (intros j0 Hin0; destruct Hin0; fail).
    intros _ j0 Hj Hp. unfold aget in Hp. cbn [alts] in Hp. rewrite nth_upd in Hp.
    destruct ((j0 =? i) && (i <? length (alts s))); [discriminate|].
    destruct (Hpark Hf j0 Hj Hp) as [X|X]; auto; destruct X.
Qed.

Lemma ginv_exec b n : forall p s s', GInv n s -> gexec b s p = Some s' -> GInv n s'.
Proof.
  induction p as [|l r IH]; intros s s' HI H; simpl in H; [inversion H; subst; auto|].
  destruct (gstep b s l) as [s1|] eqn:E; [|discriminate]. eapply IH; [eapply ginv_step; eauto|auto].
Qed.
Theorem ginv_reach b n s : greach b n s -> GInv n s.
Proof. intros [p H]. eapply ginv_exec; [apply ginv_init|eauto]. Qed.

(* ONE WINNER: at most one alternative wins, and at most one branch ever continues *)
Theorem one_winner b n s : greach b n s ->
  cnt isW (alts s) + cnt isC (alts s) <= 1 /\ conts s <= 1 /\ conts s = cnt isC (alts s).
Proof.
  intros R. destruct (ginv_reach _ _ _ R) as [[Hla Hlb] Hbefore Hone Hconts Hnot Hpark Htn].
  destruct (first s) eqn:Ef.
  - specialize (Hone eq_refl). lia.
  - destruct (Hbefore eq_refl) as [A [B [C D]]].
    assert (G : forall l, cnt early l = length l -> cnt isW l = 0 /\ cnt isC l = 0).
    { unfold cnt. induction l as [|a l IH]; simpl; auto. intros H.
      pose proof (filter_length_le early l). destruct a; simpl in *; try lia; apply IH; lia. }
    destruct (G (alts s)) as [W0 C0]; [lia|]. lia.
Qed.

(* internal labels: everything except event deliveries *)
Definition internal (l : glabel) : bool := match l with Deliver _ => false | _ => true end.

(* PROGRESS (repaired code, buffered channels): once a determination has been made, as long as some
   alternative is still open (parked, has taken its action, or is the notifying winner) some
   internal step is enabled — the winner is never blocked, every loser can be withdrawn *)
Theorem progress n s : greach true n s -> first s = true ->
  (exists i, i < n /\ is_open (aget s i) = true) ->
  exists l s', internal l = true /\ gstep true s l = Some s'.
Proof.
  intros R Hf [i [Hi Ho]].
  destruct (ginv_reach _ _ _ R) as [[Hla Hlb] Hbefore Hone Hconts Hnot Hpark Htn].
  destruct (tonotify s) as [|j rest] eqn:Et.
  - destruct (aget s i) eqn:Ea; try discriminate.
    + (* parked: its notice is pending *)
      destruct (Hpark Hf i Hi Ea) as [X|X]; [destruct X|].
      exists (TakeNotice i). cbn [gstep]. rewrite Ea, X. eexists; split; reflexivity.
    + exists (Cas i). cbn [gstep]. rewrite Ea, Hf. eexists; split; reflexivity.
    + (* winner with nothing left to notify: proceeds *)
      exists Proceed. cbn [gstep]. rewrite Et.
      destruct (find (fun i0 => match aget s i0 with Winner => true | _ => false end) (seq 0 (length (alts s)))) as [w|] eqn:Ef.
      * eexists; split; reflexivity.
      * exfalso. assert (X : In i (seq 0 (length (alts s)))) by (apply in_seq; lia).
        pose proof (find_none _ _ Ef i X) as Y. cbn beta in Y. rewrite Ea in Y. discriminate.
  - exists Notify. cbn [gstep]. rewrite Et. eexists; split; reflexivity.
Qed.

(* every internal step strictly decreases a measure, so the hand-off terminates on every schedule *)
Definition mu (s : gst) : nat :=
  3 * cnt isP (alts s) + 2 * cnt isT (alts s) + 2 * cnt isW (alts s) + length (tonotify s).

(* FINAL STATES: when no alternative is open any more, exactly one branch has continued and every
   other alternative was withdrawn or lost (it never continues) *)
Theorem final n s : greach true n s -> first s = true ->
  (forall i, i < n -> is_open (aget s i) = false) ->
  conts s = 1 /\ cnt isC (alts s) = 1 /\
  forall i, i < n -> aget s i = Continued \/ aget s i = Lost \/ aget s i = Withdrawn.
Proof.
  intros R Hf Hclosed.
  destruct (ginv_reach _ _ _ R) as [[Hla Hlb] Hbefore Hone Hconts Hnot Hpark Htn].
  specialize (Hone Hf).
  assert (W0 : cnt isW (alts s) = 0).
  { destruct (Nat.eq_dec (cnt isW (alts s)) 0) as [E|E]; auto. exfalso.
    destruct (cnt_pos_ex isW (alts s)) as [i [Hi Hw]]; [lia|].
    specialize (Hclosed i ltac:(lia)). unfold aget in Hclosed. destruct (nth i (alts s) Lost); discriminate. }
  split; [lia|]. split; [lia|]. intros i Hi. specialize (Hclosed i Hi).
  destruct (aget s i); try discriminate; auto.
Qed.

(* LATE EVENTS ARE INERT: delivering the event of an alternative that is no longer parked changes nothing *)
Theorem late_inert b s i : aget s i <> Parked -> gstep b s (Deliver i) = Some s.
Proof. intros H. cbn [gstep]. destruct (aget s i); auto. congruence. Qed.

(* ---- the pinned snapshot (unbuffered): two events back to back ---- *)
Definition path_stuck : list glabel := [Deliver 0; Deliver 1; Cas 0; Cas 1].

Lemma refuted_unbuffered : exists s, gexec false (ginit 2) path_stuck = Some s /\
  aget s 0 = Winner /\ conts s = 0 /\ (forall l, internal l = true -> gstep false s l = None).
Proof.
  eexists. split; [vm_compute; reflexivity|]. split; [reflexivity|]. split; [reflexivity|].
  intros l Hl. destruct l as [i|i| |j| ]; try discriminate; try (vm_compute; reflexivity).
  - destruct i as [|[|i]]; vm_compute; try reflexivity. destruct i; reflexivity.
  - destruct j as [|[|j]]; vm_compute; try reflexivity. destruct j; reflexivity.
Qed.

(* ... and no later event can help: the winner stays blocked, nothing ever continues *)
Lemma refuted_unbuffered_forever : forall p s0 s1, gexec false s0 p = Some s1 ->
  alts s0 = [Winner; Lost] -> tonotify s0 = [1] -> conts s0 = 0 ->
  alts s1 = [Winner; Lost] /\ conts s1 = 0.
Proof.
  induction p as [|l r IH]; intros s0 s1 H A T C; simpl in H; [inversion H; subst; auto|].
  destruct (gstep false s0 l) as [s2|] eqn:St; [|discriminate].
  assert (G : alts s2 = [Winner; Lost] /\ tonotify s2 = [1] /\ conts s2 = 0).
  { destruct l as [i|i| |j| ]; cbn [gstep] in St; unfold aget in St; rewrite ?A, ?T in St.
    - destruct i as [|[|i]]; simpl in St; inversion St; subst; auto. destruct i; inversion H1; subst; auto.
    - destruct i as [|[|i]]; simpl in St; try discriminate. destruct i; discriminate.
    - simpl in St. discriminate.
    - destruct j as [|[|j]]; simpl in St; try discriminate. destruct j; discriminate.
    - discriminate. }
  destruct G as [A2 [T2 C2]]. eapply IH; eauto.
Qed.

(** why the determination must be one atomic compare-and-swap: with the test and the set as two
    steps (an atomic load followed by an atomic store — a seeded change, not the code), two
    alternatives whose events are delivered at the same moment both see "not determined" *)
Inductive tas_label := TLoad (i : nat) | TStore (i : nat).
Record tas := { flag : bool; saw : list (option bool); winners : nat }.
Definition tas_step (s : tas) (l : tas_label) : option tas :=
  match l with
  | TLoad i => match nth i (saw s) None with
               | None => Some {| flag := flag s; saw := upd (saw s) i (Some (flag s)); winners := winners s |}
               | Some _ => None
               end
  | TStore i => match nth i (saw s) None with
                | Some false => Some {| flag := true; saw := upd (saw s) i (Some true); winners := S (winners s) |}
                | _ => None
                end
  end.
Fixpoint tas_exec (s : tas) (p : list tas_label) : option tas :=
  match p with [] => Some s | l :: r => match tas_step s l with Some s' => tas_exec s' r | None => None end end.
Lemma refuted_split_test_and_set :
  exists s, tas_exec {| flag := false; saw := [None; None]; winners := 0 |} [TLoad 0; TLoad 1; TStore 0; TStore 1] = Some s /\ winners s = 2.
Proof. eexists. split; [vm_compute; reflexivity|]. reflexivity. Qed.

(* ---------------- several activations of one node ---------------- *)
Lemma gexec_snoc b : forall p s l,
  gexec b s (p ++ [l]) = match gexec b s p with Some s' => gstep b s' l | None => None end.
Proof.
  induction p as [|x p IH]; intros s l; cbn [app gexec].
  - destruct (gstep b s l); reflexivity.
  - destruct (gstep b s x); [apply IH|reflexivity].
Qed.

Lemma greach_step b n g l g' : greach b n g -> gstep b g l = Some g' -> greach b n g'.
Proof. intros [p Hp] Hs. exists (p ++ [l]). rewrite gexec_snoc, Hp. exact Hs. Qed.

Lemma greach_init b n : greach b n (ginit n).
Proof. exists []. reflexivity. Qed.

Lemma nth_error_upd {A} (l : list A) i x : forall j y, nth_error (upd l i x) j = Some y ->
  (j = i /\ y = x /\ i < length l) \/ (j <> i /\ nth_error l j = Some y).
Proof.
  revert i. induction l as [|a l IH]; intros i j y H.
  - destruct i, j; discriminate.
  - destruct i as [|i], j as [|j]; cbn in H.
    + inversion H; subst. left. cbn. repeat split; lia.
    + right. split; [lia|exact H].
    + right. split; [lia|exact H].
    + destruct (IH i j y H) as [[E [E' L]]|[E E']].
      * left. cbn. repeat split; try lia; assumption.
      * right. split; [lia|exact E'].
Qed.

Definition MInv (b : bool) (k n : nat) (s : mst) : Prop :=
  length (acts s) = k /\ forall a g, nth_error (acts s) a = Some g -> greach b n g.

Lemma minv_init b k n : MInv b k n (minit k n).
Proof.
  split; [apply repeat_length|]. intros a g H. cbn in H.
  apply nth_error_In, repeat_spec in H. subst. apply greach_init.
Qed.

Lemma minv_step b k n s al s' : MInv b k n s -> mstep true b s al = Some s' -> MInv b k n s'.
Proof.
  intros [HL HR] H. unfold mstep in H.
  destruct (nth_error (acts s) (fst al)) as [g|] eqn:E; [|discriminate].
  destruct (gstep b g (snd al)) as [g'|] eqn:Eg; [|discriminate].
  inversion H; subst s'; clear H. split; cbn.
  - rewrite upd_length. exact HL.
  - intros a x Hx. destruct (nth_error_upd _ _ _ _ _ Hx) as [[_ [Ex _]]|[_ Ho]].
    + subst x. eapply greach_step; [apply (HR _ _ E)|exact Eg].
    + apply (HR _ _ Ho).
Qed.

Lemma minv_exec b k n : forall p s s', MInv b k n s -> mexec true b s p = Some s' -> MInv b k n s'.
Proof.
  induction p as [|l p IH]; intros s s' HI H; cbn in H.
  - inversion H; subst; exact HI.
  - destruct (mstep true b s l) as [s1|] eqn:E; [|discriminate].
    eapply IH; [eapply minv_step; eassumption|exact H].
Qed.

(* with a flag per activation every activation is a gateway of its own: whatever the other activations do, and in
   whatever order the steps of all of them are scheduled, it is in a state the single gateway can reach *)
Theorem activations_independent b k n s : mreach true b k n s ->
  length (acts s) = k /\ forall a g, nth_error (acts s) a = Some g -> greach b n g.
Proof. intros [p Hp]. exact (minv_exec b k n p _ _ (minv_init b k n) Hp). Qed.

(* one flag for the node: two activations, the event of alternative 0 is delivered to both; the first activation's
   token wins, the second activation's token finds the flag taken: that activation has no winner, its other
   alternative stays parked, nothing can ever move there again *)
Definition path_shared_flag : list (nat * glabel) := [(0, Deliver 0); (1, Deliver 0); (0, Cas 0); (1, Cas 0)].

Lemma refuted_shared_flag : exists s g, mexec false true (minit 2 2) path_shared_flag = Some s /\
  nth_error (acts s) 1 = Some g /\ aget g 0 = Lost /\ aget g 1 = Parked /\
  cnt isW (alts g) + cnt isC (alts g) = 0 /\ conts g = 0 /\
  forall l, internal l = true -> mstep false true s (1, l) = None.
Proof.
  eexists. eexists. split; [vm_compute; reflexivity|]. split; [reflexivity|].
  repeat split.
  intros l Hl. destruct l as [i|i| |j|]; try discriminate.
  - destruct i as [|[|[|i]]]; reflexivity.
  - reflexivity.
  - destruct j as [|[|[|j]]]; reflexivity.
  - reflexivity.
Qed.
