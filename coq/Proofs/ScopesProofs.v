From BV Require Import Model.Store Proofs.StoreProofs Model.Scopes.

Lemma wf_cons h t n v : wf h t -> wf (h ++ [v]) ((n, length h) :: t).
Proof.
  intros W m l. cbn [lookup]. destruct (n =? m).
  - intro E. injection E as <-. rewrite app_length. cbn. lia.
  - intro E. apply W in E. rewrite app_length. cbn. lia.
Qed.

Lemma swrite_wf0 st w : wf0 st -> wf0 (swrite true false st w).
Proof.
  destruct st as [h ts]. destruct w as [[s n] v]. intros [t0 [E W]]. cbn [fst snd] in *.
  unfold swrite, loc_of, write. cbn [fst snd]. rewrite E. rewrite set_var_replace.
  exists ((n, length h) :: t0). cbn [fst snd]. split.
  - apply nth_error_set_nth_same with (t0 := t0). exact E.
  - apply wf_cons. exact W.
Qed.

Lemma swrites_wf0 ws : forall st, wf0 st -> wf0 (swrites true false st ws).
Proof.
  induction ws as [|w ws IH]; intros st W; [exact W|]. cbn [swrites fold_left]. apply IH. apply swrite_wf0. exact W.
Qed.

Lemma one_step st s n v s' : wf0 st ->
  sread true (swrite true false st (s, n, v)) s' n = Some v /\
  forall m, m <> n -> sread true (swrite true false st (s, n, v)) s' m = sread true st s' m.
Proof.
  destruct st as [h ts]. intros [t0 [E W]]. cbn [fst snd] in *.
  destruct (a_write_reads_back h ts 0 n v t0 E W) as [t' [E' [R [O _]]]].
  unfold sread, swrite, loc_of. cbn [fst snd]. rewrite E'. split.
  - exact R.
  - intros m Hm. rewrite E. apply O. exact Hm.
Qed.

Theorem one_store st ws s n v s' : wf0 st ->
  sread true (swrite true false (swrites true false st ws) (s, n, v)) s' n = Some v /\
  forall m, m <> n ->
    sread true (swrite true false (swrites true false st ws) (s, n, v)) s' m = sread true (swrites true false st ws) s' m.
Proof. intro W. apply one_step. apply swrites_wf0. exact W. Qed.

Theorem refuted_with_a_locator_per_scope :
  let st := swrites false false ([], [[]; []; []]) [(0, 1, 7); (2, 2, 9)] in
  sread false st 0 1 = Some 7 /\ sread false st 1 1 = None /\ sread false st 2 1 = None /\
  sread false st 2 2 = Some 9 /\ sread false st 0 2 = None.
Proof. vm_compute. repeat split. Qed.
