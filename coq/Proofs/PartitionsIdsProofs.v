From BV Require Import Model.Partitions Proofs.PartitionsProofs Model.Ids Proofs.IdsProofs.
From Coq Require Import ZArith.

Theorem program_generators_never_collide limit evs i j p q g1 g2 c1 c2 x :
  nth_error (parts (prun Library limit evs)) i = Some p ->
  nth_error (parts (prun Library limit evs)) j = Some q -> i <> j ->
  gpart g1 = Z.of_nat p -> gpart g2 = Z.of_nat q ->
  In x (snd (draws g1 c1)) -> In x (snd (draws g2 c2)) -> False.
Proof.
  intros Hi Hj D E1 E2. apply multi_disjoint.
  rewrite E1, E2. intro E. apply Nat2Z.inj in E. exact (two_generators_differ limit evs i j p q Hi Hj D E).
Qed.
