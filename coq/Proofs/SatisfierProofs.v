From BV Require Import Model.Satisfier.
From Coq Require Import Permutation.

Lemma setb_length i c : length (setb i c) = length c.
Proof. revert i; induction c as [|b c IH]; intros [|i]; simpl; auto. Qed.

Lemma testb_setb j i c :
  testb j (setb i c) = if j =? i then (j <? length c) else testb j c.
Proof.
  unfold testb. revert i j; induction c as [|b c IH]; intros i j.
  - assert (E : setb i [] = []) by (destruct i; reflexivity). rewrite E. simpl. destruct (j =? i); destruct j; reflexivity.
  - destruct i as [|i], j as [|j]; simpl; auto.
    rewrite IH. destruct (j =? i); reflexivity.
Qed.

Lemma allb_spec c : allb c = true <-> forall j, j < length c -> testb j c = true.
Proof.
  unfold allb, testb. induction c as [|b c IH]; simpl.
  - split; auto. intros _ j Hj; lia.
  - rewrite andb_true_iff, IH. split.
    + intros [Hb Hc] [|j] Hj; auto. apply Hc; lia.
    + intros H; split. apply (H 0); lia. intros j Hj. apply (H (S j)); lia.
Qed.

Lemma allb_false_witness c : allb c = false -> exists j, j < length c /\ testb j c = false.
Proof.
  unfold allb, testb. induction c as [|b c IH]; simpl; intros H; [discriminate|].
  destruct b; simpl in H.
  - destruct (IH H) as [j [Hj Ht]]. exists (S j); split; auto; lia.
  - exists 0; split; auto; lia.
Qed.

Lemma testb_repeat j n : testb j (repeat false n) = false.
Proof. unfold testb. revert j; induction n; intros [|j]; simpl; auto. Qed.

Lemma fresh_length n i : length (fresh n i) = n.
Proof. unfold fresh. rewrite setb_length, repeat_length; auto. Qed.

Lemma testb_fresh n i j : i < n -> testb j (fresh n i) = (j =? i).
Proof.
  intros Hi. unfold fresh. rewrite testb_setb, repeat_length, testb_repeat.
  destruct (Nat.eqb_spec j i); auto. subst. apply Nat.ltb_lt; auto.
Qed.

Lemma allb_fresh n i : 2 <= n -> i < n -> allb (fresh n i) = false.
Proof.
  intros Hn Hi. destruct (allb (fresh n i)) eqn:E; auto.
  rewrite allb_spec, fresh_length in E.
  assert (exists j, j < n /\ j <> i) as [j [Hj Hne]].
  { destruct i. exists 1; lia. exists 0; lia. }
  specialize (E j Hj). rewrite testb_fresh in E by auto.
  apply Nat.eqb_eq in E; lia.
Qed.

(* ---------- swap_remove / set_nth as permutations ---------- *)

Lemma swap_remove_perm j (cs : list chain) d :
  j < length cs -> Permutation cs (nth j cs d :: swap_remove j cs).
Proof.
  revert j; induction cs as [|c t IH]; intros j Hj; simpl in Hj; [lia|].
  destruct j as [|j].
  - simpl. destruct t as [|c1 t1]; [reflexivity|].
    constructor.
    assert (Hne : c1 :: t1 <> []) by discriminate.
    rewrite (app_removelast_last c Hne) at 1.
    rewrite Permutation_app_comm. reflexivity.
  - simpl. assert (Hj' : j < length t) by lia.
    specialize (IH j Hj').
    rewrite perm_swap. constructor. exact IH.
Qed.

Lemma set_nth_split {A} j (x d : A) l :
  j < length l -> exists l1 l2, l = l1 ++ nth j l d :: l2 /\ set_nth j x l = l1 ++ x :: l2.
Proof.
  revert j; induction l as [|a l IH]; intros j Hj; simpl in Hj; [lia|].
  destruct j as [|j].
  - exists [], l; split; reflexivity.
  - destruct (IH j) as [l1 [l2 [H1 H2]]]; [lia|].
    exists (a :: l1), l2; simpl; split; congruence.
Qed.

Lemma find_lacking_spec i cs j :
  find_lacking i cs = Some j ->
  j < length cs /\ testb i (nth j cs []) = false.
Proof.
  revert j; induction cs as [|c t IH]; intros j H; simpl in H; [discriminate|].
  destruct (testb i c) eqn:E.
  - destruct (find_lacking i t) as [k|]; simpl in H; [|discriminate].
    injection H as <-. destruct (IH k eq_refl) as [H1 H2]. simpl; split; [lia|auto].
  - injection H as <-. simpl; split; [lia|auto].
Qed.

Lemma find_lacking_none i cs :
  find_lacking i cs = None -> Forall (fun c => testb i c = true) cs.
Proof.
  induction cs as [|c t IH]; simpl; intros H; [constructor|].
  destruct (testb i c) eqn:E; [|discriminate].
  destruct (find_lacking i t); [discriminate|]. constructor; auto.
Qed.

(* ---------- the invariant ---------- *)

Definition nfilter (i : nat) (cs : list chain) : nat := length (filter (testb i) cs).

Record Inv (n : nat) (cs : list chain) (f : nat) (cnt : nat -> nat) : Prop := {
  inv_shape : Forall (fun c => length c = n /\ allb c = false) cs;
  inv_count : forall i, i < n -> cnt i = f + nfilter i cs;
  inv_common : cs <> [] -> exists x, x < n /\ Forall (fun c => testb x c = true) cs
}.

Definition bump (cnt : nat -> nat) (i : nat) : nat -> nat :=
  fun j => cnt j + (if j =? i then 1 else 0).

Lemma nfilter_le i cs : nfilter i cs <= length cs.
Proof. unfold nfilter. induction cs as [|c cs IH]; simpl; auto. destruct (testb i c); simpl; lia. Qed.

Lemma nfilter_perm i cs cs' : Permutation cs cs' -> nfilter i cs = nfilter i cs'.
Proof.
  unfold nfilter. induction 1; simpl; auto.
  - destruct (testb i x); simpl; auto.
  - destruct (testb i x), (testb i y); simpl; auto.
  - congruence.
Qed.

Lemma nfilter_app i a b : nfilter i (a ++ b) = nfilter i a + nfilter i b.
Proof. unfold nfilter. rewrite filter_app, app_length; auto. Qed.

Lemma nfilter_cons i c cs : nfilter i (c :: cs) = (if testb i c then 1 else 0) + nfilter i cs.
Proof. unfold nfilter; simpl. destruct (testb i c); auto. Qed.

Lemma Forall_perm {A} (P : A -> Prop) l l' : Permutation l l' -> Forall P l -> Forall P l'.
Proof. intros Hp H. rewrite Forall_forall in *. intros x Hx. apply H. eapply Permutation_in; [symmetry|]; eauto. Qed.

Lemma step_inv n cs f cnt i :
  2 <= n -> i < n -> Inv n cs f cnt ->
  let r := satisfy_par n cs i in
  Inv n (s_chains r) (f + (if s_matched r then 1 else 0)) (bump cnt i).
Proof.
  intros Hn Hi [Hshape Hcount Hcommon]. unfold satisfy_par.
  destruct cs as [|c0 t] eqn:Ecs.
  - (* no chains: create the first one *)
    simpl. constructor.
    + constructor; [|constructor]. split; [apply fresh_length | apply allb_fresh; auto].
    + intros j Hj. unfold bump. rewrite (Hcount j Hj), !nfilter_cons, testb_fresh by auto.
      unfold nfilter; simpl. destruct (j =? i); lia.
    + intros _. exists i; split; auto. constructor; [|constructor]. rewrite testb_fresh by auto. apply Nat.eqb_refl.
  - rewrite <- Ecs in *. assert (Hne : cs <> []) by (subst; discriminate).
    clear Ecs c0 t.
    destruct (find_lacking i cs) as [j|] eqn:Efl.
    + destruct (find_lacking_spec _ _ _ Efl) as [Hj Hlack].
      set (c := nth j cs []) in *.
      assert (Hc : length c = n /\ allb c = false).
      { rewrite Forall_forall in Hshape. apply Hshape. apply nth_In; auto. }
      destruct Hc as [Hlen Hnf].
      destruct (allb (setb i c)) eqn:Eall; simpl.
      * (* chain completed and removed *)
        pose proof (swap_remove_perm j cs [] Hj) as Hp. fold c in Hp.
        constructor.
        -- apply (Forall_perm _ _ _ Hp) in Hshape. inversion Hshape; auto.
        -- intros k Hk. unfold bump. rewrite (Hcount k Hk), (nfilter_perm k _ _ Hp), nfilter_cons.
           rewrite allb_spec, setb_length in Eall. specialize (Eall k). rewrite Hlen in Eall.
           specialize (Eall Hk). rewrite testb_setb in Eall.
           destruct (Nat.eqb_spec k i).
           ++ subst k. rewrite Hlack. lia.
           ++ rewrite Eall. lia.
        -- intros Hne'. destruct (Hcommon Hne) as [x [Hx Hall]]. exists x; split; auto.
           apply (Forall_perm _ _ _ Hp) in Hall. inversion Hall; auto.
      * (* bit added, chain stays *)
        destruct (set_nth_split j (setb i c) [] cs Hj) as [l1 [l2 [E1 E2]]]. fold c in E1.
        rewrite E2. constructor.
        -- rewrite E1 in Hshape. apply Forall_app in Hshape. destruct Hshape as [H1 H2].
           inversion H2 as [|? ? Hh Ht]. apply Forall_app; split; auto. constructor; auto.
           split; auto. rewrite setb_length; auto.
        -- intros k Hk. unfold bump. rewrite (Hcount k Hk). rewrite E1 at 1.
           rewrite !nfilter_app, !nfilter_cons, testb_setb, Hlen.
           destruct (Nat.eqb_spec k i).
           ++ subst k. rewrite Hlack. apply Nat.ltb_lt in Hk. rewrite Hk. lia.
           ++ lia.
        -- intros _. destruct (Hcommon Hne) as [x [Hx Hall]]. exists x; split; auto.
           rewrite E1 in Hall. apply Forall_app in Hall. destruct Hall as [H1 H2]. inversion H2 as [|? ? Hh Ht].
           apply Forall_app; split; auto. constructor; auto.
           rewrite testb_setb, Hlen. destruct (x =? i) eqn:E; auto. apply Nat.ltb_lt; auto.
    + (* every chain already has i: append a new chain *)
      pose proof (find_lacking_none _ _ Efl) as Hall. simpl.
      constructor.
      * apply Forall_app; split; auto. constructor; [|constructor].
        split; [apply fresh_length | apply allb_fresh; auto].
      * intros k Hk. unfold bump. rewrite (Hcount k Hk), nfilter_app, nfilter_cons, testb_fresh by auto.
        unfold nfilter at 3; simpl. destruct (k =? i); lia.
      * intros _. exists i; split; auto. apply Forall_app; split; auto.
        constructor; [|constructor]. rewrite testb_fresh by auto. apply Nat.eqb_refl.
Qed.

Lemma Inv_ext n cs f cnt cnt' : (forall i, cnt i = cnt' i) -> Inv n cs f cnt -> Inv n cs f cnt'.
Proof. intros E [A B C]; constructor; auto. intros i Hi. rewrite <- E; auto. Qed.

Lemma count_cons i e h :
  count i (e :: h) = (match e with Some j => if j =? i then 1 else 0 | None => 0 end) + count i h.
Proof. unfold count; simpl. destruct e as [j|]; auto. destruct (j =? i); auto. Qed.

Lemma fires_cons b c log : fires ((b, c) :: log) = (if b then 1 else 0) + fires log.
Proof. unfold fires; simpl. destruct b; reflexivity. Qed.

Lemma run_catch_cons par n cs e h :
  run_catch par n cs (e :: h) =
  let r := satisfy_catch par n cs e in
  (fst (run_catch par n (s_chains r) h), (s_matched r, s_chain r) :: snd (run_catch par n (s_chains r) h)).
Proof. simpl. destruct (run_catch par n _ h); reflexivity. Qed.

Lemma satisfy_catch_par n cs i : 2 <= n -> satisfy_catch true n cs (Some i) = satisfy_par n cs i.
Proof. intros Hn. unfold satisfy_catch. replace (n =? 1) with false; auto. symmetry; apply Nat.eqb_neq; lia. Qed.

Lemma run_par_inv n : 2 <= n ->
  forall h cs f cnt, valid_hist n h -> Inv n cs f cnt ->
  Inv n (fst (run_catch true n cs h)) (f + fires (snd (run_catch true n cs h))) (fun j => cnt j + count j h).
Proof.
  intros Hn. induction h as [|e h IH]; intros cs f cnt Hv HI.
  - simpl. unfold fires; simpl. eapply Inv_ext; [|rewrite Nat.add_0_r; exact HI].
    intros i; unfold count; simpl; lia.
  - inversion Hv as [|? ? He Hv']; subst. rewrite run_catch_cons. cbv zeta.
    destruct e as [i|].
    + rewrite satisfy_catch_par by auto.
      pose proof (step_inv n cs f cnt i Hn He HI) as Hs. cbv zeta in Hs.
      specialize (IH _ _ _ Hv' Hs). cbn [fst snd]. rewrite fires_cons.
      eapply Inv_ext; [|rewrite Nat.add_assoc; exact IH].
      intros j. unfold bump. rewrite count_cons. rewrite (Nat.eqb_sym i j). lia.
    + cbn [satisfy_catch s_chains s_matched s_chain fst snd]. rewrite fires_cons.
      specialize (IH _ _ _ Hv' HI). eapply Inv_ext; [|exact IH].
      intros j. rewrite count_cons; lia.
Qed.

Lemma Inv_init n : Inv n [] 0 (fun _ => 0).
Proof. constructor; [constructor | intros i _; reflexivity | intros H; congruence]. Qed.

Lemma par_upper n h i : 2 <= n -> valid_hist n h -> i < n ->
  fires (snd (run_catch true n [] h)) <= count i h.
Proof.
  intros Hn Hv Hi. pose proof (run_par_inv n Hn h [] 0 _ Hv (Inv_init n)) as H.
  destruct H as [_ Hc _]. specialize (Hc i Hi). simpl in Hc. lia.
Qed.

Lemma par_balanced n h k : 2 <= n -> valid_hist n h ->
  (forall i, i < n -> count i h = k) ->
  fires (snd (run_catch true n [] h)) = k /\ fst (run_catch true n [] h) = [].
Proof.
  intros Hn Hv Hbal. pose proof (run_par_inv n Hn h [] 0 _ Hv (Inv_init n)) as H.
  destruct (run_catch true n [] h) as [cs' log]. cbn [fst snd] in *.
  destruct H as [Hshape Hc Hcommon]. simpl in Hc.
  destruct cs' as [|c0 t].
  - split; auto. specialize (Hc 0 ltac:(lia)). rewrite Hbal in Hc by lia. unfold nfilter in Hc; simpl in Hc. lia.
  - exfalso. destruct (Hcommon ltac:(discriminate)) as [x [Hx Hall]].
    inversion Hshape as [|? ? Hc0 _]; subst. destruct Hc0 as [Hlen Hnf].
    destruct (allb_false_witness _ Hnf) as [y [Hy Hty]]. rewrite Hlen in Hy.
    pose proof (Hc x Hx) as Cx. pose proof (Hc y Hy) as Cy.
    rewrite Hbal in Cx, Cy by auto.
    assert (nfilter x (c0 :: t) = length (c0 :: t)).
    { unfold nfilter. clear -Hall. induction Hall; simpl; auto. rewrite H. simpl. f_equal; auto. }
    assert (nfilter y (c0 :: t) <= length t).
    { rewrite nfilter_cons, Hty. pose proof (nfilter_le y t). simpl. lia. }
    simpl in *. lia.
Qed.

(* run_throw with n >= 2 coincides with run_catch true *)
Lemma run_throw_eq n cs h : run_throw n cs h = run_catch true n cs h.
Proof.
  revert cs; induction h as [|e h IH]; intros cs; simpl; auto.
  assert (E : satisfy_throw n cs e = satisfy_catch true n cs e) by (destruct e; reflexivity).
  rewrite E, IH. reflexivity.
Qed.

(* plain multiple / single definition: every matching event fires, nothing is remembered *)
Lemma plain_fires par n cs h : (par = false \/ n = 1) ->
  fst (run_catch par n cs h) = cs /\
  snd (run_catch par n cs h) = map (fun e => match e with Some _ => (true, Some 0) | None => (false, None) end) h.
Proof.
  intros Hp. assert (E : negb par || (n =? 1) = true).
  { destruct Hp; subst; auto. destruct par; auto. }
  induction h as [|e h IH]; simpl; auto.
  destruct e as [i|]; unfold satisfy_catch; rewrite ?E; simpl;
    destruct (run_catch par n cs h) as [cs' log]; simpl in *; destruct IH; subst; auto.
Qed.

Lemma nomatch_inert par n cs :
  satisfy_catch par n cs None = {| s_chains := cs; s_matched := false; s_chain := None |}
  /\ satisfy_throw n cs None = {| s_chains := cs; s_matched := false; s_chain := None |}.
Proof. split; reflexivity. Qed.

(* dropping non-matching events from a history changes neither the chains nor the firing subsequence *)
Lemma nomatch_skip par n cs h1 h2 :
  fst (run_catch par n cs (h1 ++ None :: h2)) = fst (run_catch par n cs (h1 ++ h2)) /\
  fires (snd (run_catch par n cs (h1 ++ None :: h2))) = fires (snd (run_catch par n cs (h1 ++ h2))).
Proof.
  revert cs; induction h1 as [|e h1 IH]; intros cs; simpl.
  - destruct (run_catch par n cs h2); simpl; auto.
  - specialize (IH (s_chains (satisfy_catch par n cs e))).
    destruct (run_catch par n _ (h1 ++ None :: h2)), (run_catch par n _ (h1 ++ h2)); simpl in *.
    destruct IH; split; auto. unfold fires in *; simpl. destruct (s_matched _); simpl; auto.
Qed.
