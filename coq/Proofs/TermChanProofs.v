From BV Require Import Model.TermChan.

Lemma nth_tupd {A} (l : list A) i j x d :
  nth j (tupd l i x) d = if (j =? i) && (i <? length l) then x else nth j l d.
Proof.
  revert i j; induction l as [|a l IH]; intros i j; simpl.
  - destruct i, j; simpl; rewrite ?andb_false_r; reflexivity.
  - destruct i, j; simpl; auto. rewrite IH. reflexivity.
Qed.
Lemma tupd_length {A} (l : list A) i x : length (tupd l i x) = length l.
Proof. revert i; induction l as [|a l IH]; intros [|i]; simpl; auto. Qed.

Lemma nth_repeat_lt {A} (a d : A) n j : j < n -> nth j (repeat a n) d = a.
Proof. revert j; induction n as [|n IH]; intros [|j] H; simpl; auto; try lia. apply IH. lia. Qed.

Definition open_tok (t : tok) : bool := match t with NotYet | Holding => true | _ => false end.

Record TInv (n : nat) (s : tst) : Prop := {
  t_len : length (toks s) = n /\ length (box s) = n;
  t_live : table_live s = true;
  t_nodeaf : forall j, tget s j <> Deaf;
  t_before : winner s = None -> forall j, nth j (box s) false = false /\ (j < n -> open_tok (tget s j) = true);
  t_after : forall i, winner s = Some i -> i < n /\
            forall j, j < n -> j <> i ->
              (tget s j = Noticed /\ nth j (box s) false = false) \/ (open_tok (tget s j) = true /\ nth j (box s) false = true)
}.

Lemma tinv_init n : TInv n (tinit n).
Proof.
  constructor; cbn; rewrite ?repeat_length; auto; try discriminate.
  - intros j. unfold tget. cbn. destruct (Nat.lt_ge_cases j n); [rewrite nth_repeat_lt by auto|rewrite nth_overflow by (rewrite repeat_length; lia)]; discriminate.
  - intros _ j. split.
    + destruct (Nat.lt_ge_cases j n); [apply nth_repeat_lt; auto|apply nth_overflow; rewrite repeat_length; lia].
    + intros H. unfold tget. cbn. rewrite nth_repeat_lt by auto. reflexivity.
Qed.

Lemma nth_map_seq (f : nat -> bool) n j : j < n -> nth j (map f (seq 0 n)) false = f j.
Proof.
  intros H. rewrite nth_indep with (d' := f 0) by (rewrite map_length, seq_length; lia).
  rewrite map_nth. rewrite seq_nth by lia. reflexivity.
Qed.

Lemma tinv_step n s l s' : TInv n s -> tstep false s l = Some s' -> TInv n s'.
Proof.
  intros [[La Lb] Live ND Bef Aft] H. destruct l as [j|i|j]; cbn [tstep] in H.
  - destruct (tget s j) eqn:E; try discriminate. destruct (j <? length (toks s)) eqn:Lt; [|discriminate].
    injection H as <-. rewrite Live. apply Nat.ltb_lt in Lt.
    constructor; cbn [toks box table_live winner]; rewrite ?tupd_length; auto.
    + intros k. unfold tget. cbn [toks]. rewrite nth_tupd. destruct ((k =? j) && (j <? length (toks s))); [discriminate|apply ND].
    + intros W k. destruct (Bef W k) as [B O]. split; auto. intros Hk.
      unfold tget. cbn [toks]. rewrite nth_tupd. destruct ((k =? j) && (j <? length (toks s))); auto.
    + intros i W. destruct (Aft i W) as [Hi A]. split; auto. intros k Hk Nk.
      unfold tget. cbn [toks]. rewrite nth_tupd. destruct (Nat.eqb_spec k j) as [->|Ne]; cbn [andb].
      * replace (j <? length (toks s)) with true by (symmetry; apply Nat.ltb_lt; lia).
        destruct (A j Hk Nk) as [[T _]|[_ B]]; [rewrite E in T; discriminate|]. right. split; auto.
      * apply A; auto.
  - destruct (winner s) eqn:W; [discriminate|]. destruct (i <? length (toks s)) eqn:Lt; [|discriminate].
    injection H as <-. apply Nat.ltb_lt in Lt.
    constructor; cbn [toks box table_live winner negb]; rewrite ?map_length, ?seq_length; auto; try discriminate.
    intros i' E. injection E as <-. split; [lia|]. intros j Hj Nj.
    rewrite nth_map_seq by lia. apply Nat.eqb_neq in Nj. rewrite Nj. cbn [negb].
    right. split; auto.
    (* before the determination nobody is noticed: every token is NotYet or Holding *)
    apply (Bef eq_refl j). lia.
  - destruct (tget s j) eqn:E; try discriminate. destruct (nth j (box s) false) eqn:B; [|discriminate].
    injection H as <-.
    assert (Lt : j < length (toks s)).
    { destruct (Nat.lt_ge_cases j (length (toks s))); auto. unfold tget in E. rewrite nth_overflow in E by lia. discriminate. }
    constructor; cbn [toks box table_live winner]; rewrite ?tupd_length; auto.
    + intros k. unfold tget. cbn [toks]. rewrite nth_tupd. destruct ((k =? j) && (j <? length (toks s))); [discriminate|apply ND].
    + intros W. destruct (Bef W j) as [B0 _]. rewrite B0 in B. discriminate.
    + intros i W. destruct (Aft i W) as [Hi A]. split; auto. intros k Hk Nk.
      unfold tget. cbn [toks]. rewrite !nth_tupd. destruct (Nat.eqb_spec k j) as [->|Ne]; cbn [andb].
      * replace (j <? length (toks s)) with true by (symmetry; apply Nat.ltb_lt; lia).
        replace (j <? length (box s)) with true by (symmetry; apply Nat.ltb_lt; lia). left. auto.
      * apply A; auto.
Qed.

Lemma tinv_exec n : forall p s s', TInv n s -> texec false s p = Some s' -> TInv n s'.
Proof.
  induction p as [|l p IH]; intros s s' HI H; cbn [texec] in H.
  - injection H as <-. exact HI.
  - destruct (tstep false s l) as [s1|] eqn:E; [|discriminate]. eapply IH; [eapply tinv_step; eauto|exact H].
Qed.
Lemma tinv_reach n s : treach false n s -> TInv n s.
Proof. intros [p H]. eapply tinv_exec; [apply tinv_init|exact H]. Qed.

(** repaired code: whenever a token looks its channel up, it finds it — no alternative is ever left in its
    select without a termination channel *)
Theorem never_deaf n s : treach false n s -> forall j, tget s j <> Deaf.
Proof. intros R. apply (t_nodeaf n s (tinv_reach n s R)). Qed.

(** ... and once the determination is made, every other alternative — whether it reached its select before
    the winner or only afterwards — can receive the withdrawal notice: at most two steps of its own (look,
    receive) take it there *)
Theorem all_withdrawable n s i j : treach false n s -> winner s = Some i -> j < n -> j <> i ->
  exists p s', length p <= 2 /\ texec false s p = Some s' /\ tget s' j = Noticed.
Proof.
  intros R W Hj Nj. pose proof (tinv_reach n s R) as HI. destruct HI as [[La Lb] Live ND Bef Aft].
  destruct (Aft i W) as [Hi A]. destruct (A j Hj Nj) as [[T B]|[O B]].
  - exists [], s. repeat split; auto.
  - assert (Recv_ok : forall s0, tget s0 j = Holding -> nth j (box s0) false = true -> length (toks s0) = n ->
                      exists s', tstep false s0 (Recv j) = Some s' /\ tget s' j = Noticed).
    { intros s0 T0 B0 L0. cbn [tstep]. rewrite T0, B0. eexists. split; [reflexivity|].
      unfold tget. cbn [toks]. rewrite nth_tupd, Nat.eqb_refl.
      replace (j <? length (toks s0)) with true by (symmetry; apply Nat.ltb_lt; lia). reflexivity. }
    destruct (tget s j) eqn:T; try discriminate.
    + (* not yet in its select: look, then receive *)
      set (s1 := {| toks := tupd (toks s) j Holding; box := box s; table_live := table_live s; winner := winner s |}).
      assert (S1 : tstep false s (Look j) = Some s1).
      { cbn [tstep]. rewrite T. replace (j <? length (toks s)) with true by (symmetry; apply Nat.ltb_lt; lia).
        unfold s1. rewrite Live. reflexivity. }
      destruct (Recv_ok s1) as [s2 [S2 T2]].
      * unfold tget, s1. cbn [toks]. rewrite nth_tupd, Nat.eqb_refl.
        replace (j <? length (toks s)) with true by (symmetry; apply Nat.ltb_lt; lia). reflexivity.
      * exact B.
      * unfold s1. cbn [toks]. rewrite tupd_length. exact La.
      * exists [Look j; Recv j], s2. repeat split; auto. cbn [texec]. rewrite S1, S2. reflexivity.
    + destruct (Recv_ok s T B La) as [s2 [S2 T2]].
      exists [Recv j], s2. repeat split; auto. cbn [texec]. rewrite S2. reflexivity.
Qed.

(** the code as found (the winner replaces the table): an alternative that reaches its select after the winner
    is through holds no channel, and nothing but its own event will ever wake it *)
Lemma deaf_stays swap s l s' j : tget s j = Deaf -> tstep swap s l = Some s' -> tget s' j = Deaf.
Proof.
  intros D H. destruct l as [k|i|k]; cbn [tstep] in H.
  - destruct (tget s k) eqn:E; try discriminate. destruct (k <? length (toks s)); [|discriminate]. injection H as <-.
    unfold tget. cbn [toks]. rewrite nth_tupd. destruct (Nat.eqb_spec j k) as [->|]; cbn [andb]; auto.
    rewrite D in E. discriminate.
  - destruct (winner s); [discriminate|]. destruct (i <? length (toks s)); [|discriminate]. injection H as <-. exact D.
  - destruct (tget s k) eqn:E; try discriminate. destruct (nth k (box s) false); [|discriminate]. injection H as <-.
    unfold tget. cbn [toks]. rewrite nth_tupd. destruct (Nat.eqb_spec j k) as [->|]; cbn [andb]; auto.
    rewrite D in E. discriminate.
Qed.

Theorem refuted_table_swapped :
  exists s, texec true (tinit 2) [Determine 0; Look 1] = Some s /\ tget s 1 = Deaf /\
            forall p s', texec true s p = Some s' -> tget s' 1 = Deaf.
Proof.
  eexists. split; [reflexivity|]. split; [reflexivity|].
  intros p. generalize dependent (Some {| toks := [NotYet; Deaf]; box := [false; true]; table_live := false; winner := Some 0 |}).
  intros _. set (s0 := {| toks := [NotYet; Deaf]; box := [false; true]; table_live := false; winner := Some 0 |}).
  assert (G : forall p s s', tget s 1 = Deaf -> texec true s p = Some s' -> tget s' 1 = Deaf).
  { induction p0 as [|l p0 IH]; intros s s' D H; cbn [texec] in H.
    - injection H as <-. exact D.
    - destruct (tstep true s l) as [s1|] eqn:E; [|discriminate]. apply (IH s1 s'); auto. eapply deaf_stays; eauto. }
  intros s'. apply G. reflexivity.
Qed.

Example lookup_runs :
  lookup_run false [false; true; false] = Some [false; true; true] /\
  lookup_run true  [false; true; false] = Some [false; true; false].
Proof. split; reflexivity. Qed.
