From BV Require Import Model.Shutdown Gen.Facts.

Record TInv (s : tst) : Prop := {
  t_closes : closes s = if finished s then 1 else 0;
  t_fin : finished s = true -> cancelled s = true /\ waiter s = true;
  t_wait : waiter s = true -> cancelled s = true;
  t_after : after_close s = 0
}.

Lemma tinv_init : TInv tinit.
Proof. constructor; cbn; auto; intros; discriminate. Qed.

Lemma tinv_step s l s' : TInv s -> tstep s l = Some s' -> TInv s'.
Proof.
  intros [C F W A] H. destruct l; cbn [tstep] in H.
  - injection H as <-. constructor; auto.
  - destruct (1 <=? senders s); [|discriminate]. injection H as <-. constructor; auto.
  - destruct (finished s) eqn:E; injection H as <-;
      (constructor; cbn [closes finished cancelled waiter after_close]; auto;
       try (rewrite C; reflexivity); try (intros _; apply F; reflexivity); try (intros; discriminate);
       try (rewrite A, C; reflexivity)).
  - injection H as <-. constructor; cbn [closes finished cancelled waiter after_close]; auto.
    intros X. destruct (F X). auto.
  - destruct (cancelled s && negb (waiter s)) eqn:G; [|discriminate]. injection H as <-.
    constructor; cbn [closes finished cancelled waiter after_close]; auto.
  - destruct (waiter s && (senders s =? 0) && negb (finished s)) eqn:G; [|discriminate]. injection H as <-.
    apply andb_prop in G. destruct G as [G G3]. apply andb_prop in G. destruct G as [G1 G2]. apply negb_true_iff in G3.
    constructor; cbn [closes finished cancelled waiter after_close]; auto.
    rewrite C, G3. reflexivity.
Qed.

Lemma tinv_reach s : treach s -> TInv s.
Proof.
  intros [p E]. revert E. generalize tinv_init. generalize tinit.
  induction p as [|l p IH]; cbn [texec]; intros s0 I0 E.
  - injection E as <-. exact I0.
  - destruct (tstep s0 l) as [s1|] eqn:E1; [|discriminate]. eapply IH; [|exact E]. eapply tinv_step; eauto.
Qed.

(** the subscribers' channels are closed at most once, only after the cancellation, and nothing is
    delivered to them afterwards (a late trace is dropped, its sender not blocked) *)
Lemma close_once_nothing_after s : treach s ->
  closes s <= 1 /\ (closes s = 1 -> cancelled s = true) /\ after_close s = 0.
Proof.
  intros R. destruct (tinv_reach _ R) as [C F W A]. rewrite C. destruct (finished s) eqn:E; repeat split; auto.
  - intros _. apply F. reflexivity.
  - intros; discriminate.
Qed.

(** once cancelled and every sender gone, the tracer can finish; a sender can always send or leave *)
Lemma shutdown_progress s : treach s -> cancelled s = true -> senders s = 0 -> finished s = false ->
  exists l s', (l = TSpawnWaiter \/ l = TFinish) /\ tstep s l = Some s'.
Proof.
  intros R C S F. destruct (waiter s) eqn:W.
  - exists TFinish. cbn [tstep]. rewrite W, S, F. cbn. eauto.
  - exists TSpawnWaiter. cbn [tstep]. rewrite C, W. cbn. eauto.
Qed.
Lemma send_never_blocks s : exists s', tstep s TSend = Some s'.
Proof. cbn [tstep]. destruct (finished s); eauto. Qed.

(** the census of the current sources is covered: every select has an alternative that fires on
    cancellation or shutdown, every other blocking operation is a listed non-blocking one *)
Lemma census_is_covered : census_covered blocking_ops = true.
Proof. vm_compute. reflexivity. Qed.

(* what the tracer did before 20950ce: a send after the end blocked for ever — in the model, a
   variant in which TSend is not enabled once finished *)
Definition tstep_pinned (s : tst) (l : tlabel) : option tst :=
  match l with TSend => if finished s then None else tstep s l | _ => tstep s l end.
Lemma refuted_send_after_finish :
  exists s, texec tinit [TRegister; TCancel; TSpawnWaiter; TSenderDone; TFinish] = Some s /\ tstep_pinned s TSend = None.
Proof. eexists. split; [vm_compute; reflexivity|]. vm_compute. reflexivity. Qed.
