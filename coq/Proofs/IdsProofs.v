From BV Require Import Model.Ids.
From Coq Require Import Permutation.
Open Scope Z_scope.

(* ---- the byte layout is injective on its field ranges ---- *)
Lemma encode_inj i j :
  0 <= part i < 2 ^ 16 -> 0 <= sq i < 2 ^ 16 -> 0 <= part j < 2 ^ 16 -> 0 <= sq j < 2 ^ 16 ->
  encode i = encode j -> i = j.
Proof.
  destruct i as [t1 k1 p1 s1], j as [t2 k2 p2 s2]. unfold encode. cbn [ts tick part sq].
  change (2 ^ 16) with 65536. change (2 ^ 8) with 256. intros.
  assert (t1 = t2 /\ k1 = k2 /\ p1 = p2 /\ s1 = s2) as [-> [-> [-> ->]]]; [|reflexivity].
  destruct k1, k2; repeat split; try lia.
Qed.

(* ---- invariant of one (serialised) generator over everything it has issued ---- *)
Definition Inv (g : gen) (L : list sid) : Prop :=
  forall i, In i L ->
    part i = gpart g /\
    (tick i = par g -> ts i < hi g \/ (ts i = hi g /\ sq i <= seq g)) /\
    (tick i <> par g -> ts i <= safe g).

Lemma step_fresh g L now g1 i : Inv g L -> gen_new g now = Some (g1, i) ->
  ~ In i L /\ Inv g1 (i :: L).
Proof.
  intros HI H. unfold gen_new in H.
  destruct (Z.eqb_spec now (hi g)) as [E|NE].
  - destruct (Z.leb_spec (seq g + 1) (smax g)); [|discriminate]. inversion H; subst g1 i; clear H. cbn.
    split.
    + intros Hin. destruct (HI _ Hin) as [_ [A _]]. cbn in A. specialize (A eq_refl). lia.
    + intros j [<-|Hj]; cbn; [repeat split; auto; try lia; tauto|].
      destruct (HI _ Hj) as [P [A B]]. repeat split; auto. intros T. specialize (A T). lia.
  - destruct (Z.ltb_spec (hi g) now).
    + inversion H; subst g1 i; clear H. cbn. split.
      * intros Hin. destruct (HI _ Hin) as [_ [A _]]. cbn in A. specialize (A eq_refl). lia.
      * intros j [<-|Hj]; cbn; [repeat split; auto; try lia; tauto|].
        destruct (HI _ Hj) as [P [A B]]. repeat split; auto. intros T. specialize (A T). lia.
    + destruct (Z.ltb_spec (safe g) now); [|discriminate].
      inversion H; subst g1 i; clear H. cbn. split.
      * intros Hin. destruct (HI _ Hin) as [_ [_ B]]. cbn in B.
        assert (Hne : negb (par g) <> par g) by (destruct (par g); discriminate). specialize (B Hne). lia.
      * intros j [<-|Hj]; cbn; [repeat split; auto; try lia; tauto|].
        destruct (HI _ Hj) as [P [A B]]. repeat split; auto.
        -- intros T. assert (Hne : tick j <> par g) by (rewrite T; destruct (par g); discriminate).
           specialize (B Hne). lia.
        -- intros T. assert (Heq : tick j = par g) by (destruct (tick j), (par g); simpl in *; congruence).
           specialize (A Heq). lia.
Qed.

Lemma Inv_perm g L L' : (forall i, In i L' -> In i L) -> Inv g L -> Inv g L'.
Proof. intros H HI i Hi. apply HI, H, Hi. Qed.

Lemma draws_unique : forall clock g L, Inv g L -> NoDup L ->
  NoDup (snd (draws g clock) ++ L) /\ Inv (fst (draws g clock)) (snd (draws g clock) ++ L).
Proof.
  induction clock as [|now r IH]; intros g L HI ND; cbn [draws].
  - simpl. auto.
  - destruct (gen_new g now) as [[g1 i]|] eqn:E; [|apply IH; auto].
    destruct (step_fresh _ _ _ _ _ HI E) as [Hfresh HI1].
    destruct (IH g1 (i :: L) HI1 (NoDup_cons _ Hfresh ND)) as [N1 I1].
    destruct (draws g1 r) as [g2 l]. cbn [fst snd] in *.
    split.
    + eapply Permutation_NoDup; [|exact N1]. symmetry. apply Permutation_middle.
    + eapply Inv_perm; [|exact I1]. intros j Hj. cbn in Hj. rewrite in_app_iff in *. cbn. tauto.
Qed.

Lemma Inv_fresh p : Inv (fresh_gen p) [].
Proof. intros i []. Qed.

Lemma single_unique p clock : NoDup (snd (draws (fresh_gen p) clock)).
Proof.
  destruct (draws_unique clock (fresh_gen p) [] (Inv_fresh p) (NoDup_nil _)) as [N _].
  rewrite app_nil_r in N. exact N.
Qed.

(* every id carries its generator's partition: generators with distinct partitions never collide *)
Lemma draws_partition : forall clock g i, In i (snd (draws g clock)) -> part i = gpart g.
Proof.
  intros clock g i Hi.
  assert (HI : Inv g []) by (intros j []).
  destruct (draws_unique clock g [] HI (NoDup_nil _)) as [_ I]. rewrite app_nil_r in I.
  destruct (I i Hi) as [P _]. rewrite P.
  clear. revert g. induction clock as [|now r IH]; intros g; cbn [draws]; [reflexivity|].
  destruct (gen_new g now) as [[g1 j]|] eqn:E; [|apply IH].
  specialize (IH g1). destruct (draws g1 r) as [g2 l]. cbn [fst] in *. rewrite IH.
  unfold gen_new in E.
  repeat match type of E with (if ?c then _ else _) = _ => destruct c end; inversion E; reflexivity.
Qed.

Lemma multi_disjoint c1 c2 g1 g2 i : gpart g1 <> gpart g2 ->
  In i (snd (draws g1 c1)) -> In i (snd (draws g2 c2)) -> False.
Proof. intros H A B. apply draws_partition in A. apply draws_partition in B. congruence. Qed.

(* ---- snapshot / restore ---- *)
Lemma restore_unique g L now_s clock : Inv g L -> NoDup L -> hi g <= now_s ->
  Forall (fun r => now_s <= r) clock ->
  NoDup (snd (draws (snapshot g now_s) clock) ++ L).
Proof.
  intros HI ND Hs Hc. unfold snapshot.
  destruct (Z.eqb_spec now_s (hi g)) as [E|NE].
  - replace {| hi := hi g; safe := safe g; par := par g; seq := seq g; smin := smin g; smax := smax g; gpart := gpart g |}
      with g by (destruct g; reflexivity).
    apply draws_unique; auto.
  - (* the clock has moved past the last issued timestamp: the first draw re-establishes Inv *)
    set (r := {| hi := hi g; safe := safe g; par := par g; seq := smin g; smin := smin g; smax := smax g; gpart := gpart g |}).
    induction Hc as [|now rest Hn Hrest IH]; [simpl; auto|].
    cbn [draws].
    assert (Hlt : hi g < now) by lia.
    assert (Eg : gen_new r now = Some ({| hi := now; safe := safe g; par := par g; seq := smin g; smin := smin g; smax := smax g; gpart := gpart g |},
                                       {| ts := now; tick := par g; part := gpart g; sq := smin g |})).
    { unfold gen_new, r. cbn. replace (now =? hi g) with false by (symmetry; apply Z.eqb_neq; lia).
      replace (hi g <? now) with true by (symmetry; apply Z.ltb_lt; lia). reflexivity. }
    rewrite Eg.
    set (g1 := {| hi := now; safe := safe g; par := par g; seq := smin g; smin := smin g; smax := smax g; gpart := gpart g |}).
    set (i := {| ts := now; tick := par g; part := gpart g; sq := smin g |}).
    assert (Hfresh : ~ In i L).
    { intros Hin. destruct (HI _ Hin) as [_ [A _]]. cbn in A. specialize (A eq_refl). lia. }
    assert (HI1 : Inv g1 (i :: L)).
    { intros j [<-|Hj]; cbn; [repeat split; auto; try lia; tauto|].
      destruct (HI _ Hj) as [P [A B]]. repeat split; auto. intros T. specialize (A T). lia. }
    destruct (draws_unique rest g1 (i :: L) HI1 (NoDup_cons _ Hfresh ND)) as [N1 _].
    destruct (draws g1 rest) as [g2 l]. cbn [snd] in *.
    eapply Permutation_NoDup; [|exact N1]. symmetry. apply Permutation_middle.
Qed.

(* ---- fallback generator ---- *)
Lemma fallback_unique p n : NoDup (fallback_ids p n).
Proof.
  unfold fallback_ids. apply FinFun.Injective_map_NoDup; [|apply seq_NoDup].
  intros a b H. inversion H. lia.
Qed.

Lemma fallback_disjoint p q n m x : p <> q -> In x (fallback_ids p n) -> In x (fallback_ids q m) -> False.
Proof.
  unfold fallback_ids. intros H A B. apply in_map_iff in A. apply in_map_iff in B.
  destruct A as [a [<- _]]. destruct B as [b [E _]]. inversion E. congruence.
Qed.

(* ---- the unserialised library code does produce duplicates: a two-thread schedule ---- *)
Definition idle : thr := {| pc := 0; t_hi := 0; t_now := 0 |}.
Definition race_schedule : list (bool * Z) :=
  [(false, 11); (false, 11);            (* A: loads wallHi=10, clock 11; wins the CAS *)
   (true, 11); (true, 11);              (* B: sees wallHi=11=clock: increments the OLD sequence 7 -> 8 *)
   (false, 11)]                         (* A: resets the sequence to 0 and issues (11,0) *)
  ++ concat (repeat [(true, 11); (true, 11)] 8).   (* eight more draws in the same time unit: ..., (11,8) again *)

Fixpoint has_dup (l : list (Z * Z)) : bool :=
  match l with
  | [] => false
  | x :: r => existsb (fun y => (fst x =? fst y) && (snd x =? snd y)) r || has_dup r
  end.

Lemma race_duplicates :
  has_dup (r_out (rrun {| r_hi := 10; r_seq := 7; r_out := [] |} idle idle race_schedule)) = true.
Proof. vm_compute. reflexivity. Qed.
