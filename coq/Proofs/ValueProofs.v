From BV Require Import Model.Value.
Open Scope Z_scope.

(* ---- no declared type and no value makes the (repaired) value layer panic ---- *)
Lemma marshal_as_ok t v : marshal_as t v <> Panic.
Proof. unfold marshal_as. destruct (to_json v); discriminate. Qed.

Lemma no_panic declared v : value_from declared v <> Panic.
Proof.
  unfold value_from, value_from_gen.
  destruct declared; simpl.
  - unfold infer. destruct (deref1 v); try discriminate; try apply marshal_as_ok.
  - destruct v; discriminate.
  - destruct v as [| | |s| | | | | | | |]; try discriminate. destruct s; try discriminate.
    match goal with |- context [if ?c then _ else _] => destruct c end; discriminate.
  - destruct v as [| | |s| | | | | | | |]; try discriminate. destruct s; discriminate.
  - destruct v as [| | |s| | | | | | | |]; try discriminate. destruct s; discriminate.
  - destruct v; try discriminate; try apply marshal_as_ok.
  - destruct v; simpl; try discriminate; try apply marshal_as_ok.
    destruct (is_rec v); simpl; try discriminate; apply marshal_as_ok.
Qed.

(* ---- top-level scalars come back unchanged with the matching item type ---- *)
Lemma rt_int z : roundtrip TNone (VInt z) = Some (TInteger, CInt z).   Proof. reflexivity. Qed.
Lemma rt_uint z : roundtrip TNone (VUint z) = Some (TInteger, CInt z). Proof. reflexivity. Qed.
Lemma rt_float f : roundtrip TNone (VFloat f) = Some (TFloat, CFlt f). Proof. reflexivity. Qed.
Lemma rt_str s : roundtrip TNone (VStr s) = Some (TString, CStr s).    Proof. reflexivity. Qed.
Lemma rt_bool b : roundtrip TNone (VBool b) = Some (TBoolean, CBool b). Proof. reflexivity. Qed.
Lemma rt_ptr v : match v with VPtr _ | VNilPtr => False | _ => True end ->
  roundtrip TNone (VPtr v) = roundtrip TNone v.
Proof.
  intros H. unfold roundtrip, value_from, value_from_gen, infer. simpl deref1.
  destruct v; try tauto; try reflexivity.
Qed.

(* ---- composites: decode (to_json v) is the canonical form; exact when nested ints are small ---- *)
Lemma r64_small z : - 2 ^ 53 <= z <= 2 ^ 53 -> r64 z = z.
Proof.
  intros H. unfold r64, r64_nonneg.
  destruct (Z.ltb_spec z 0).
  - destruct (Z.ltb_spec (- z) (2 ^ 53)); [lia|].
    assert (z = - 2 ^ 53) by lia. subst z. vm_compute. reflexivity.
  - destruct (Z.ltb_spec z (2 ^ 53)); [lia|].
    assert (z = 2 ^ 53) by lia. subst z. vm_compute. reflexivity.
Qed.

(* induction principle for the nested type *)
Section GvInd.
Variable P : gv -> Prop.
Hypotheses (HInt : forall z, P (VInt z)) (HUint : forall z, P (VUint z)) (HFloat : forall f, P (VFloat f))
  (HStr : forall s, P (VStr s)) (HBool : forall b, P (VBool b)) (HNil : P VNil) (HNilPtr : P VNilPtr)
  (HPtr : forall v, P v -> P (VPtr v))
  (HSlice : forall l, Forall P l -> P (VSlice l))
  (HMap : forall l, Forall (fun p => P (snd p)) l -> P (VMap l))
  (HStruct : forall l, Forall (fun p => P (snd p)) l -> P (VStruct l))
  (HOther : P VOther).
Fixpoint gv_ind' (v : gv) : P v :=
  match v with
  | VInt z => HInt z | VUint z => HUint z | VFloat f => HFloat f | VStr s => HStr s | VBool b => HBool b
  | VNil => HNil | VNilPtr => HNilPtr | VPtr x => HPtr x (gv_ind' x)
  | VSlice l => HSlice l ((fix go (l : list gv) : Forall P l :=
                             match l with [] => Forall_nil _ | x :: r => Forall_cons _ (gv_ind' x) (go r) end) l)
  | VMap l => HMap l ((fix go (l : list (N * gv)) : Forall (fun p => P (snd p)) l :=
                             match l with [] => Forall_nil _ | x :: r => Forall_cons _ (gv_ind' (snd x)) (go r) end) l)
  | VStruct l => HStruct l ((fix go (l : list (N * gv)) : Forall (fun p => P (snd p)) l :=
                             match l with [] => Forall_nil _ | x :: r => Forall_cons _ (gv_ind' (snd x)) (go r) end) l)
  | VOther => HOther
  end.
End GvInd.

Lemma sequence_map_decode (l : list gv) jl :
  Forall (fun v => forall j, small v = true -> to_json v = Some j -> decode j = exact v) l ->
  forallb small l = true -> sequence (map to_json l) = Some jl -> map decode jl = map exact l.
Proof.
  intros H. revert jl. induction H as [|a r Ha Hr IH]; intros jl Hs Hj; simpl in *.
  - inversion Hj; reflexivity.
  - apply andb_true_iff in Hs. destruct Hs as [Sa Sr].
    destruct (to_json a) as [ja|]; [|discriminate]. destruct (sequence (map to_json r)) as [jr|]; [|discriminate].
    inversion Hj; subst. simpl. f_equal; auto.
Qed.

Lemma sequence_map_decode_kv (l : list (N * gv)) jl :
  Forall (fun p => forall j, small (snd p) = true -> to_json (snd p) = Some j -> decode j = exact (snd p)) l ->
  forallb (fun p => small (snd p)) l = true ->
  sequence (map (fun p => option_map (pair (fst p)) (to_json (snd p))) l) = Some jl ->
  map (fun p => (fst p, decode (snd p))) jl = map (fun p => (fst p, exact (snd p))) l.
Proof.
  intros H. revert jl. induction H as [|[k a] r Ha Hr IH]; intros jl Hs Hj; simpl in *.
  - inversion Hj; reflexivity.
  - apply andb_true_iff in Hs. destruct Hs as [Sa Sr].
    destruct (to_json a) as [ja|]; [|discriminate]. simpl in Hj.
    destruct (sequence (map (fun p => option_map (pair (fst p)) (to_json (snd p))) r)) as [jr|]; [|discriminate].
    inversion Hj; subst. simpl. f_equal; auto. f_equal; auto.
Qed.

Lemma canon_exact v : forall j, small v = true -> to_json v = Some j -> decode j = exact v.
Proof.
  induction v using gv_ind'; intros j Hs Hj; simpl in *.
  - inversion Hj; subst. simpl. rewrite r64_small; auto.
    apply andb_true_iff in Hs. destruct Hs as [A B]. apply Z.leb_le in A. apply Z.leb_le in B. lia.
  - inversion Hj; subst. simpl. rewrite r64_small; auto.
    apply andb_true_iff in Hs. destruct Hs as [A B]. apply Z.leb_le in A. apply Z.leb_le in B. lia.
  - destruct f; inversion Hj; subst; reflexivity.
  - inversion Hj; subst; reflexivity.
  - inversion Hj; subst; reflexivity.
  - inversion Hj; subst; reflexivity.
  - inversion Hj; subst; reflexivity.
  - apply IHv; auto.
  - destruct (sequence (map to_json l)) as [jl|] eqn:E; [|discriminate]. inversion Hj; subst. simpl.
    f_equal. eapply sequence_map_decode; eauto.
  - destruct (sequence _) as [jl|] eqn:E; [|discriminate]. inversion Hj; subst. simpl.
    f_equal. eapply sequence_map_decode_kv; eauto.
  - destruct (sequence _) as [jl|] eqn:E; [|discriminate]. inversion Hj; subst. simpl.
    f_equal. eapply sequence_map_decode_kv; eauto.
  - discriminate.
Qed.

Lemma encodable_json v : encodable v = true -> exists j, to_json v = Some j.
Proof.
  induction v using gv_ind'; intros He; simpl in *; try (eexists; reflexivity); try discriminate.
  - destruct f; try discriminate; eexists; reflexivity.
  - auto.
  - assert (G : exists jl, sequence (map to_json l) = Some jl).
    { induction H as [|a r Ha Hr IH]; simpl in *; [eexists; reflexivity|].
      apply andb_true_iff in He. destruct He as [Ea Er].
      destruct (Ha Ea) as [ja Ja]. destruct (IH Er) as [jr Jr]. rewrite Ja, Jr. eexists; reflexivity. }
    destruct G as [jl G]. rewrite G. eexists; reflexivity.
  - assert (G : exists jl, sequence (map (fun p => option_map (pair (fst p)) (to_json (snd p))) l) = Some jl).
    { induction H as [|[k a] r Ha Hr IH]; simpl in *; [eexists; reflexivity|].
      apply andb_true_iff in He. destruct He as [Ea Er].
      destruct (Ha Ea) as [ja Ja]. destruct (IH Er) as [jr Jr]. rewrite Ja. simpl. rewrite Jr. eexists; reflexivity. }
    destruct G as [jl G]. rewrite G. eexists; reflexivity.
  - assert (G : exists jl, sequence (map (fun p => option_map (pair (fst p)) (to_json (snd p))) l) = Some jl).
    { induction H as [|[k a] r Ha Hr IH]; simpl in *; [eexists; reflexivity|].
      apply andb_true_iff in He. destruct He as [Ea Er].
      destruct (Ha Ea) as [ja Ja]. destruct (IH Er) as [jr Jr]. rewrite Ja. simpl. rewrite Jr. eexists; reflexivity. }
    destruct G as [jl G]. rewrite G. eexists; reflexivity.
Qed.

(* slices / maps / structs: the stored value reads back as its exact canonical form *)
Lemma rt_slice l : encodable (VSlice l) = true -> small (VSlice l) = true ->
  roundtrip TNone (VSlice l) = Some (TArray, exact (VSlice l)).
Proof.
  intros He Hs. destruct (encodable_json _ He) as [j Hj].
  pose proof (canon_exact _ _ Hs Hj) as Hc.
  unfold roundtrip, value_from, value_from_gen, infer, marshal_as. cbn [deref1]. rewrite Hj.
  simpl in Hj. destruct (sequence (map to_json l)) as [jl|]; [|discriminate]. inversion Hj; subst.
  cbn [value_for]. simpl in Hc. cbn [exact]. inversion Hc as [Hc']. reflexivity.
Qed.

Lemma rt_map l : encodable (VMap l) = true -> small (VMap l) = true ->
  roundtrip TNone (VMap l) = Some (TObject, exact (VMap l)).
Proof.
  intros He Hs. destruct (encodable_json _ He) as [j Hj].
  pose proof (canon_exact _ _ Hs Hj) as Hc.
  unfold roundtrip, value_from, value_from_gen, infer, marshal_as. cbn [deref1]. rewrite Hj.
  simpl in Hj. destruct (sequence _) as [jl|]; [|discriminate]. inversion Hj; subst.
  cbn [value_for]. simpl in Hc. cbn [exact]. inversion Hc as [Hc']. reflexivity.
Qed.

Lemma rt_struct l : encodable (VStruct l) = true -> small (VStruct l) = true ->
  roundtrip TNone (VStruct l) = Some (TObject, exact (VStruct l)).
Proof.
  intros He Hs. destruct (encodable_json _ He) as [j Hj].
  pose proof (canon_exact _ _ Hs Hj) as Hc.
  unfold roundtrip, value_from, value_from_gen, infer, marshal_as. cbn [deref1]. rewrite Hj.
  simpl in Hj. destruct (sequence _) as [jl|]; [|discriminate]. inversion Hj; subst.
  cbn [value_for]. simpl in Hc. cbn [exact]. inversion Hc as [Hc']. reflexivity.
Qed.
