From BV Require Import Model.TracerFlow.

Lemma nth_error_fupd_same {A} (l : list A) i x u : nth_error l i = Some u -> nth_error (fupd l i x) i = Some x.
Proof. revert i; induction l as [|a l IH]; intros [|i] H; cbn in *; try discriminate; auto. Qed.

Lemma nth_error_fupd_other {A} (l : list A) i j x : i <> j -> nth_error (fupd l i x) j = nth_error l j.
Proof. revert i j; induction l as [|a l IH]; intros [|i] [|j] H; cbn; auto; try lia. all: try (apply IH; lia). Qed.

Lemma in_fupd {A} (l : list A) i x u : In u (fupd l i x) -> u = x \/ In u l.
Proof.
  revert i; induction l as [|a l IH]; intros [|i] H; cbn in *; auto.
  - destruct H as [H|H]; auto.
  - destruct H as [H|H]; auto. destruct (IH _ H); auto.
Qed.

Lemma in_combine_seq {A} (l : list A) : forall k i u,
  In (i, u) (combine (seq k (length l)) l) <-> k <= i /\ nth_error l (i - k) = Some u.
Proof.
  induction l as [|a l IH]; intros k i u; cbn [length seq combine].
  - cbn. split; [tauto|]. intros [_ H]. destruct (i - k); discriminate.
  - cbn [In]. rewrite IH. split.
    + intros [H|[H1 H2]].
      * inversion H; subst. split; [lia|]. rewrite Nat.sub_diag. reflexivity.
      * split; [lia|]. replace (i - k) with (S (i - S k)) by lia. exact H2.
    + intros [H1 H2]. destruct (Nat.eq_dec i k) as [->|Hne].
      * left. rewrite Nat.sub_diag in H2. cbn in H2. inversion H2. reflexivity.
      * right. split; [lia|]. replace (i - k) with (S (i - S k)) in H2 by lia. exact H2.
Qed.

Lemma members_spec l i : In i (members l) <-> exists u, nth_error l i = Some u /\ member u = true.
Proof.
  unfold members. rewrite in_map_iff. split.
  - intros [[j u] [E H]]. cbn in E. subst j. apply filter_In in H. destruct H as [H M]. cbn in M.
    apply in_combine_seq in H. rewrite Nat.sub_0_r in H. exists u. tauto.
  - intros [u [H M]]. exists (i, u). split; [reflexivity|]. apply filter_In. split; [|exact M].
    apply in_combine_seq. rewrite Nat.sub_0_r. split; [lia|exact H].
Qed.

Definition live (u : sub) : Prop := mode u = SReading \/ mode u = SUnsub false \/ mode u = SStopped.

Definition FInv (s : fstate) : Prop :=
  (forall u, In u (subs_ s) -> member u = true -> live u) /\
  match phase s with
  | TIdle => True
  | TDeliver rest => rest <> [] /\ forall i, In i rest -> exists u, nth_error (subs_ s) i = Some u /\ member u = true
  | TAck j => exists u, nth_error (subs_ s) j = Some u /\ mode u = SUnsub true
  end.

Lemma finv_init k : FInv (finit k).
Proof.
  split; [|exact I]. intros u H _. cbn in H. apply repeat_spec in H. subst. left. reflexivity.
Qed.

Lemma after_inv (subs : list sub) rest :
  (forall i, In i rest -> exists u, nth_error subs i = Some u /\ member u = true) ->
  match after rest with
  | TIdle => True
  | TDeliver r => r <> [] /\ forall i, In i r -> exists u, nth_error subs i = Some u /\ member u = true
  | TAck j => exists u, nth_error subs j = Some u /\ mode u = SUnsub true
  end.
Proof. intros H. destruct rest as [|a r]; cbn; [exact I|]. split; [discriminate|exact H]. Qed.

(* updating subscriber i with a record that keeps its membership keeps every "is a member" fact *)
Lemma member_kept (l : list sub) i x u0 j :
  nth_error l i = Some u0 -> member x = member u0 ->
  (exists u, nth_error l j = Some u /\ member u = true) ->
  exists u, nth_error (fupd l i x) j = Some u /\ member u = true.
Proof.
  intros H0 Hm [u [Hu Mu]]. destruct (Nat.eq_dec i j) as [->|Hne].
  - exists x. split; [eapply nth_error_fupd_same; eauto|]. rewrite Hm. congruence.
  - exists u. rewrite nth_error_fupd_other by exact Hne. tauto.
Qed.

Lemma finv_step d cap s l s' : FInv s -> fstep d cap s l = Some s' -> FInv s'.
Proof.
  intros [HL HP] H. destruct l as [|i|i| | |i|i|i]; cbn [fstep] in H.
  - inversion H; subst s'. split; assumption.
  - destruct (nth_error (subs_ s) i) as [u|] eqn:E; [|discriminate].
    destruct (mode u) eqn:M; try discriminate. inversion H; subst s'; clear H. split; cbn.
    + intros v Hv Mv. apply in_fupd in Hv. destruct Hv as [->|Hv]; [right; left; reflexivity|apply HL; assumption].
    + destruct (phase s) as [|rest|j]; [exact I| |].
      * destruct HP as [Hn Hr]. split; [exact Hn|]. intros j Hj. eapply member_kept; eauto.
      * destruct HP as [v [Hv Mv]]. destruct (Nat.eq_dec i j) as [->|Hne].
        -- rewrite E in Hv. inversion Hv; subst v. congruence.
        -- exists v. rewrite nth_error_fupd_other by exact Hne. tauto.
  - destruct (nth_error (subs_ s) i) as [u|] eqn:E; [|discriminate].
    destruct (mode u) eqn:M; try discriminate. inversion H; subst s'; clear H. split; cbn.
    + intros v Hv Mv. apply in_fupd in Hv. destruct Hv as [->|Hv]; [right; right; reflexivity|apply HL; assumption].
    + destruct (phase s) as [|rest|j]; [exact I| |].
      * destruct HP as [Hn Hr]. split; [exact Hn|]. intros j Hj. eapply member_kept; eauto.
      * destruct HP as [v [Hv Mv]]. destruct (Nat.eq_dec i j) as [->|Hne].
        -- rewrite E in Hv. inversion Hv; subst v. congruence.
        -- exists v. rewrite nth_error_fupd_other by exact Hne. tauto.
  - destruct (phase s) eqn:P; try discriminate. destruct (pend s) as [|p]; [discriminate|].
    inversion H; subst s'; clear H. split; cbn; [exact HL|].
    apply after_inv. intros i Hi. apply members_spec. exact Hi.
  - destruct (phase s) as [|[|i rest]|j] eqn:P; try discriminate.
    destruct (nth_error (subs_ s) i) as [u|] eqn:E; [|discriminate].
    destruct (fill u <? cap); [|discriminate]. inversion H; subst s'; clear H. destruct HP as [_ Hr]. split; cbn.
    + intros v Hv Mv. apply in_fupd in Hv. destruct Hv as [->|Hv]; [|apply HL; assumption].
      cbn in Mv. assert (Hu : In u (subs_ s)) by (eapply nth_error_In; eauto).
      destruct (HL u Hu Mv) as [A|[A|A]]; unfold live; cbn; tauto.
    + apply after_inv. intros j Hj. eapply member_kept; eauto. apply Hr. right. exact Hj.
  - destruct (nth_error (subs_ s) i) as [u|] eqn:E; [|discriminate].
    destruct (fill u) as [|f] eqn:F; [discriminate|].
    destruct (match mode u with SReading => true | SUnsub _ => d | _ => false end); [|discriminate].
    inversion H; subst s'; clear H. split; cbn.
    + intros v Hv Mv. apply in_fupd in Hv. destruct Hv as [->|Hv]; [|apply HL; assumption].
      cbn in Mv. assert (Hu : In u (subs_ s)) by (eapply nth_error_In; eauto).
      destruct (HL u Hu Mv) as [A|[A|A]]; unfold live; cbn; tauto.
    + destruct (phase s) as [|rest|j]; [exact I| |].
      * destruct HP as [Hn Hr]. split; [exact Hn|]. intros j Hj. eapply member_kept; eauto.
      * destruct HP as [v [Hv Mv]]. destruct (Nat.eq_dec i j) as [->|Hne].
        -- rewrite E in Hv. inversion Hv; subst v. exists {| mode := mode u; fill := f; member := member u |}.
           split; [eapply nth_error_fupd_same; eauto|exact Mv].
        -- exists v. rewrite nth_error_fupd_other by exact Hne. tauto.
  - destruct (phase s) eqn:P; try discriminate.
    destruct (nth_error (subs_ s) i) as [u|] eqn:E; [|discriminate].
    destruct (mode u) as [|[|]| |] eqn:M; try discriminate. inversion H; subst s'; clear H. split; cbn.
    + intros v Hv Mv. apply in_fupd in Hv. destruct Hv as [->|Hv]; [cbn in Mv; discriminate|apply HL; assumption].
    + eexists. split; [eapply nth_error_fupd_same; eauto|reflexivity].
  - destruct (phase s) as [| |j] eqn:P; try discriminate.
    destruct (nth_error (subs_ s) i) as [u|] eqn:E; [|discriminate].
    destruct ((i =? j) && match mode u with SUnsub true => true | _ => false end) eqn:C; [|discriminate].
    inversion H; subst s'; clear H. split; cbn; [|exact I].
    intros v Hv Mv. apply in_fupd in Hv. destruct Hv as [->|Hv]; [|apply HL; assumption].
    cbn in Mv. apply andb_true_iff in C. destruct C as [_ C]. destruct (mode u) as [|[|]| |] eqn:M; try discriminate.
    assert (Hu : In u (subs_ s)) by (eapply nth_error_In; eauto).
    destruct (HL u Hu Mv) as [A|[A|A]]; congruence.
Qed.

Lemma finv_reach d cap k s : freach d cap k s -> FInv s.
Proof.
  intros [p Hp]. revert Hp. generalize (finv_init k). generalize (finit k).
  induction p as [|l p IH]; intros s0 HI H; cbn in H.
  - inversion H; subst; exact HI.
  - destruct (fstep d cap s0 l) as [s1|] eqn:E; [|discriminate]. eapply IH; [eapply finv_step; eassumption|exact H].
Qed.

(* As long as every subscriber reads or is unsubscribing (and an unsubscribing one keeps emptying its channel), the
   broadcaster is never stuck: whenever a trace is under way, an unsubscription is being acknowledged or a sender
   waits, one of the goroutines involved can make its next move -- any number of subscribers, any buffer size >= 1,
   any order of sends, reads and unsubscriptions. Senders and leaving subscribers never deadlock. *)
Theorem never_stuck cap k s : 1 <= cap -> freach true cap k s -> nobody_stopped s -> busy s ->
  exists l s', internal_f l = true /\ fstep true cap s l = Some s'.
Proof.
  intros Hc Hr Hn Hb. destruct (finv_reach _ _ _ _ Hr) as [HL HP].
  destruct (phase s) as [|rest|j] eqn:P.
  - destruct Hb as [Hb|Hb]; [congruence|]. destruct (pend s) as [|p] eqn:Q; [lia|].
    exists FTake. eexists. split; [reflexivity|]. unfold fstep. rewrite P, Q. reflexivity.
  - destruct HP as [Hne Hrest]. destruct rest as [|i rest]; [congruence|].
    destruct (Hrest i (or_introl eq_refl)) as [u [Hu Mu]].
    destruct (fill u <? cap) eqn:F.
    + exists FDeliver. eexists. split; [reflexivity|]. unfold fstep. rewrite P, Hu, F. reflexivity.
    + apply Nat.ltb_ge in F. destruct (fill u) as [|f] eqn:Fu; [lia|].
      assert (Hin : In u (subs_ s)) by (eapply nth_error_In; eauto).
      destruct (HL u Hin Mu) as [A|[A|A]]; [| |exfalso; exact (Hn u Hin A)].
      * exists (FPop i). eexists. split; [reflexivity|]. unfold fstep. rewrite Hu, Fu, A. reflexivity.
      * exists (FPop i). eexists. split; [reflexivity|]. unfold fstep. rewrite Hu, Fu, A. reflexivity.
  - destruct HP as [u [Hu Mu]]. exists (FAck j). eexists. split; [reflexivity|]. unfold fstep.
    rewrite P, Hu, Nat.eqb_refl, Mu. reflexivity.
Qed.

(* An unsubscribing subscriber that does not empty its channel: its buffer is full, the broadcaster is pushing the next
   trace to it and therefore cannot take its unsubscription -- nobody can move, and every later sender waits for ever *)
Lemma refuted_without_draining :
  exists s, fexec false 1 (finit 1) [FSendReq; FTake; FDeliver; FStartUnsub 0; FSendReq; FTake] = Some s /\
    nobody_stopped s /\ busy s /\ forall l, internal_f l = true -> fstep false 1 s l = None.
Proof.
  eexists. split; [vm_compute; reflexivity|]. split; [|split].
  - intros u [<-|[]]. discriminate.
  - left. discriminate.
  - intros l Hl. destruct l as [|i|i| | |i|i|i]; try discriminate; try reflexivity.
    all: destruct i as [|[|i]]; reflexivity.
Qed.

(* A subscriber that stops reading without unsubscribing (a goroutine that first waits for something else): same
   stand-still, whatever the unsubscribing subscribers do *)
Lemma refuted_with_a_stopped_subscriber :
  exists s, fexec true 1 (finit 2) [FStop 1; FSendReq; FTake; FDeliver; FDeliver; FSendReq; FTake; FPop 0; FDeliver] = Some s /\
    busy s /\ forall l, internal_f l = true -> fstep true 1 s l = None \/ exists i, l = FPop i /\ i = 0.
Proof.
  eexists. split; [vm_compute; reflexivity|]. split.
  - left. discriminate.
  - intros l Hl. destruct l as [|i|i| | |i|i|i]; try discriminate; try (left; reflexivity).
    all: destruct i as [|[|[|i]]]; try (left; reflexivity).
    all: right; exists 0; split; reflexivity.
Qed.
