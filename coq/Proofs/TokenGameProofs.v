(** Properties of the block token game itself (C01): no deadlock, and — for data that the answers do
    not change — every activity is requested exactly as often as the data prescribes, whatever the
    order in which concurrently pending requests are answered. *)
From BV Require Import Model.Blocks.
From Coq Require Import Permutation.

(* run states built by [start]/[answer]: a sequence or loop never holds a finished first part *)
Fixpoint wfr (r : run) : Prop :=
  match r with
  | RSeq r _ | RLoop r _ _ => fin r = false /\ wfr r
  | RPar a b => wfr a /\ wfr b
  | RSub r => wfr r
  | _ => True
  end.
Fixpoint nospin (r : run) : Prop :=
  match r with
  | RSpin => False
  | RSeq r _ | RLoop r _ _ | RSub r => nospin r
  | RPar a b => nospin a /\ nospin b
  | _ => True
  end.

Lemma wfr_start e b : wfr (start e b).
Proof.
  induction b; cbn [start wfr]; auto.
  - destruct (fin (start e b1)) eqn:F; cbn [wfr]; auto.
  - destruct (getv e v); auto.
  - destruct (fin (start e b)) eqn:F; cbn [wfr]; auto. destruct (getv e v); cbn; auto.
  - destruct (getv e v1), (getv e v2); cbn [orb wfr]; auto.
Qed.

Lemma wfr_answer e r t : wfr r -> wfr (answer e r t).
Proof.
  induction r; cbn [answer wfr]; auto.
  - intros _. destruct (t =? t0); cbn; auto.
  - intros [F W]. destruct (fin (answer e r t)) eqn:G; cbn [wfr]; auto. apply wfr_start.
  - intros [W1 W2]. auto.
  - intros [F W]. destruct (fin (answer e r t)) eqn:G; cbn [wfr]; auto.
    destruct (getv e v); cbn; auto. destruct (fin (start e body)) eqn:H; cbn [wfr]; auto. split; auto. apply wfr_start.
Qed.

(** NO DEADLOCK: a run that is not complete (and not a busy loop) has a pending request *)
Lemma progress r : wfr r -> nospin r -> fin r = false -> pending r <> [].
Proof.
  induction r; cbn [wfr nospin fin pending]; try (intros; discriminate); try contradiction.
  - intros [F W] N _. auto.
  - intros [W1 W2] [N1 N2] F. apply andb_false_iff in F. intros E. apply app_eq_nil in E. destruct E as [E1 E2].
    destruct F as [F|F]; [apply (IHr1 W1 N1 F E1)|apply (IHr2 W2 N2 F E2)].
  - intros [F W] N _. auto.
  - intros W N F. auto.
Qed.

(* an answer for a task that is not pending changes nothing *)
Lemma answer_not_pending e r t : wfr r -> ~ In t (pending r) -> answer e r t = r.
Proof.
  induction r; cbn [wfr pending answer]; auto.
  - intros _ N. destruct (Nat.eqb_spec t t0); auto. subst. exfalso. apply N. left; reflexivity.
  - intros [F W] N. rewrite (IHr W N), F. reflexivity.
  - intros [W1 W2] N. rewrite IHr1, IHr2; auto; intros H; apply N; apply in_or_app; auto.
  - intros [F W] N. rewrite (IHr W N), F. reflexivity.
  - intros W N. rewrite IHr; auto.
Qed.

(* what the data prescribes when no answer changes it: the tasks a block executes (None: a loop whose
   condition stays true never ends) *)
Fixpoint exec_tasks (e : env) (b : blk) : option (list nat) :=
  match b with
  | BSkip => Some []
  | BTask t => Some [t]
  | BSeq a b | BPar a b =>
      match exec_tasks e a, exec_tasks e b with Some x, Some y => Some (x ++ y) | _, _ => None end
  | BIf v a b => if getv e v then exec_tasks e a else exec_tasks e b
  | BLoop v body => if getv e v then None else exec_tasks e body
  | BSub b => exec_tasks e b
  | BIncl v1 v2 a b d =>
      if getv e v1 || getv e v2 then
        match (if getv e v1 then exec_tasks e a else Some []), (if getv e v2 then exec_tasks e b else Some []) with
        | Some x, Some y => Some (x ++ y) | _, _ => None end
      else exec_tasks e d
  | BCond t v a b => match (if getv e v then exec_tasks e a else exec_tasks e b) with Some x => Some (t :: x) | None => None end
  end.

(* the tasks still to be executed from a run state *)
Fixpoint remaining (e : env) (r : run) : option (list nat) :=
  match r with
  | RDone => Some []
  | RSpin => None
  | RTask t => Some [t]
  | RSeq r rest => match remaining e r, exec_tasks e rest with Some x, Some y => Some (x ++ y) | _, _ => None end
  | RPar a b => match remaining e a, remaining e b with Some x, Some y => Some (x ++ y) | _, _ => None end
  | RLoop r v body => if getv e v then None else remaining e r
  | RSub r => remaining e r
  end.

Lemma remaining_fin e r : fin r = true -> remaining e r = Some [].
Proof.
  induction r; cbn [fin remaining]; try discriminate; auto.
  intros H. apply andb_prop in H. destruct H as [H1 H2]. rewrite (IHr1 H1), (IHr2 H2). reflexivity.
Qed.

Lemma remaining_start e b : remaining e (start e b) = exec_tasks e b.
Proof.
  induction b; cbn [start exec_tasks remaining]; auto.
  - destruct (fin (start e b1)) eqn:F.
    + rewrite <- IHb1, (remaining_fin _ _ F), IHb2. destruct (exec_tasks e b2); reflexivity.
    + cbn [remaining]. rewrite IHb1. reflexivity.
  - rewrite IHb1, IHb2. reflexivity.
  - destruct (getv e v); auto.
  - destruct (fin (start e b)) eqn:F.
    + destruct (getv e v); cbn [remaining]; auto. rewrite <- IHb. apply eq_sym, remaining_fin, F.
    + cbn [remaining]. destruct (getv e v); auto.
  - destruct (getv e v1), (getv e v2); cbn [orb remaining]; auto; rewrite ?IHb1, ?IHb2; auto.
Qed.

Lemma nodup_app {A} (a b : list A) : NoDup (a ++ b) -> NoDup a /\ NoDup b /\ forall x, In x a -> ~ In x b.
Proof.
  induction a as [|x a IH]; cbn; intros H.
  - repeat split; auto. constructor.
  - inversion H as [|? ? N D]; subst. destruct (IH D) as [Da [Db Dj]]. repeat split; auto.
    + constructor; auto. intros I. apply N. apply in_or_app. auto.
    + intros y [->|I] Hb; [apply N; apply in_or_app; auto|exact (Dj y I Hb)].
Qed.

(* answering a pending task removes exactly that task from what remains (the data e does not change) *)
Lemma remaining_answer e r t l : wfr r -> NoDup (pending r) -> In t (pending r) -> remaining e r = Some l ->
  exists l', remaining e (answer e r t) = Some l' /\ Permutation l (t :: l').
Proof.
  revert l. induction r; intros l W ND I R; cbn [wfr pending answer remaining] in *; try contradiction.
  - destruct I as [->|[]]. rewrite Nat.eqb_refl. injection R as <-. exists []. split; auto.
  - destruct W as [F W]. destruct (remaining e r) as [x|] eqn:Rx; [|discriminate].
    destruct (exec_tasks e rest) as [y|] eqn:Ry; [|discriminate]. injection R as <-.
    destruct (IHr x W ND I eq_refl) as [x' [E P]].
    destruct (fin (answer e r t)) eqn:G.
    + rewrite (remaining_fin _ _ G) in E. injection E as <-. exists y. split; [rewrite remaining_start; exact Ry|].
      apply (Permutation_app_tail y) in P. exact P.
    + cbn [remaining]. rewrite E, Ry. exists (x' ++ y). split; auto. apply (Permutation_app_tail y) in P. exact P.
  - destruct W as [W1 W2]. destruct (remaining e r1) as [x|] eqn:Rx; [|discriminate].
    destruct (remaining e r2) as [y|] eqn:Ry; [|discriminate]. injection R as <-.
    destruct (nodup_app _ _ ND) as [ND1 [ND2 DJ]].
    apply in_app_or in I. destruct I as [I|I].
    + assert (N2 : ~ In t (pending r2)) by (apply DJ; exact I).
      rewrite (answer_not_pending e r2 t W2 N2). destruct (IHr1 x W1 ND1 I eq_refl) as [x' [E P]].
      rewrite E, Ry. exists (x' ++ y). split; auto. apply (Permutation_app_tail y) in P. exact P.
    + assert (N1 : ~ In t (pending r1)) by (intros H; exact (DJ t H I)).
      rewrite (answer_not_pending e r1 t W1 N1). destruct (IHr2 y W2 ND2 I eq_refl) as [y' [E P]].
      rewrite Rx, E. exists (x ++ y'). split; auto.
      apply Permutation_trans with (x ++ t :: y'); [apply Permutation_app_head; exact P|].
      apply Permutation_sym, Permutation_middle.
  - destruct W as [F W]. destruct (getv e v) eqn:V; [discriminate|].
    destruct (IHr l W ND I R) as [l' [E P]].
    destruct (fin (answer e r t)) eqn:G.
    + rewrite (remaining_fin _ _ G) in E. injection E as <-. exists []. split; auto.
    + cbn [remaining]. rewrite V. exists l'. split; auto.
  - destruct (IHr l W ND I R) as [l' [E P]]. exists l'. split; auto.
Qed.

(* a run of the driver that never writes: the tasks answered, each pending (and pending without
   duplicates) when answered *)
Fixpoint valid_run (e : env) (r : run) (ts : list nat) : Prop :=
  match ts with
  | [] => fin r = true
  | t :: rest => In t (pending r) /\ NoDup (pending r) /\ valid_run e (answer e r t) rest
  end.

Lemma order_independent_gen e ts : forall r l, wfr r -> remaining e r = Some l -> valid_run e r ts -> Permutation l ts.
Proof.
  induction ts as [|t ts IH]; intros r l W R V; cbn [valid_run] in V.
  - rewrite (remaining_fin _ _ V) in R. injection R as <-. constructor.
  - destruct V as [I [ND V]]. destruct (remaining_answer e r t l W ND I R) as [l' [E P]].
    apply Permutation_trans with (t :: l'); auto. apply perm_skip.
    apply (IH (answer e r t) l'); [apply wfr_answer; auto | exact E | exact V].
Qed.

(** EXACTLY AS OFTEN AS PRESCRIBED, IN EVERY ORDER: any complete run of the driver answers each task
    exactly as many times as the data prescribes *)
Lemma order_independent e b ts l : exec_tasks e b = Some l -> valid_run e (start e b) ts -> Permutation l ts.
Proof. intros X V. eapply order_independent_gen; eauto. apply wfr_start. rewrite remaining_start. exact X. Qed.

Example order_independent_nonvacuous :
  let b := BSeq (BPar (BTask 1) (BSub (BIncl 0 1 (BTask 2) (BTask 3) (BTask 4)))) (BCond 5 2 (BTask 6) (BTask 7)) in
  let e := [true; true; false; false] in
  exec_tasks e b = Some [1; 2; 3; 5; 7] /\ valid_run e (start e b) [3; 1; 2; 5; 7] /\ valid_run e (start e b) [2; 3; 1; 5; 7].
Proof.
  cbn. repeat split; auto; repeat constructor; cbn; intuition discriminate.
Qed.

(** The open finding, as a theorem about the engine's firing rule (Model/Cohort.v): in the witness
    program the token game prescribes tasks 1, 2 and 3 after the outer fork, but the inner inclusive
    fork may not fire — its cohort contains the sibling token, which never comes to it — neither at
    once nor after task 3 is answered (the sibling then waits at the outer join, which in turn waits
    for the inner block: a deadlock). *)
From BV Require Import Model.Cohort.
Lemma nested_inclusive_refuted :
  let b := BIncl 0 1 (BIncl 0 1 (BTask 1) (BTask 2) BSkip) (BTask 3) BSkip in
  let e := [true; true; false; false] in
  pending (start e b) = [1; 2; 3] /\
  may_fire after_outer_fork 2 0 = false /\ may_fire after_T3 2 0 = false /\ may_fire after_T3 4 1 = false.
Proof. cbn. repeat split; reflexivity. Qed.
