(** Properties of the block token game itself (C01): no deadlock, and — for data that the answers do
    not change — every activity is requested exactly as often as the data prescribes, whatever the
    order in which concurrently pending requests are answered. *)
From BV Require Import Model.Blocks.
From Coq Require Import Permutation.

(* run states built by [start]/[answer]: a sequence or loop never holds a finished first part *)
Fixpoint wfr (r : run) : Prop :=
  match r with
  | RSeq r _ | RLoop r _ _ => fin r = false /\ ended r = false /\ wfr r
  | RPar a b | RIncl a b => wfr a /\ wfr b
  | RSub r => wfr r
  | _ => True
  end.
Fixpoint nospin (r : run) : Prop :=
  match r with
  | RSpin => False
  | RSeq r _ | RLoop r _ _ | RSub r => nospin r
  | RPar a b | RIncl a b => nospin a /\ nospin b
  | _ => True
  end.

Lemma wfr_start e b : wfr (start e b).
Proof.
  induction b; cbn [start wfr]; auto.
  - destruct (fin (start e b1)) eqn:F; cbn [wfr]; auto. destruct (ended (start e b1)) eqn:G; cbn [wfr]; auto.
  - destruct (getv e v); auto.
  - destruct (fin (start e b)) eqn:F; cbn [wfr]; auto. destruct (getv e v); cbn; auto.
    destruct (ended (start e b)) eqn:G; cbn [wfr]; auto.
  - destruct (getv e v1), (getv e v2); cbn [orb wfr]; auto.
Qed.

Lemma wfr_answer e r t : wfr r -> wfr (answer e r t).
Proof.
  induction r; cbn [answer wfr]; auto.
  - intros _. destruct (t =? t0); cbn; auto.
  - intros [F [E W]]. destruct (fin (answer e r t)) eqn:G; cbn [wfr]; auto. apply wfr_start.
    destruct (ended (answer e r t)) eqn:H; cbn [wfr]; auto.
  - intros [W1 W2]. auto.
  - intros [F [E W]]. destruct (fin (answer e r t)) eqn:G; cbn [wfr]; auto.
    + destruct (getv e v); cbn; auto. destruct (fin (start e body)) eqn:H; cbn [wfr]; auto.
      destruct (ended (start e body)) eqn:H2; cbn [wfr]; auto. repeat split; auto. apply wfr_start.
    + destruct (ended (answer e r t)) eqn:H; cbn [wfr]; auto.
  - intros [W1 W2]. auto.
Qed.

(* the only dead ends of the game: a parallel block one of whose branches was consumed by an end event
   (its join waits for ever) *)
Fixpoint stuck_par (r : run) : Prop :=
  match r with
  | RPar a b => ended a = true \/ ended b = true \/ stuck_par a \/ stuck_par b
  | RSeq r _ | RLoop r _ _ | RSub r => stuck_par r
  | RIncl a b => stuck_par a \/ stuck_par b
  | _ => False
  end.

Lemma fin_not_ended r : fin r = true -> ended r = false.
Proof.
  induction r; cbn [fin ended]; try discriminate; auto.
  intros H. apply andb_prop in H. destruct H as [H H3]. apply andb_prop in H. destruct H as [H1 H2].
  apply orb_prop in H3. destruct H3 as [H3|H3]; [rewrite (IHr1 H3)|rewrite (IHr2 H3), andb_false_r]; reflexivity.
Qed.

(** NO DEADLOCK: a run that is not complete (and not a busy loop) has a pending request — unless an end
    event consumed a branch of a parallel block *)
Lemma progress_or_stuck r : wfr r -> nospin r -> complete r = false -> pending r = [] -> stuck_par r.
Proof.
  unfold complete. induction r; cbn [wfr nospin fin ended pending stuck_par orb]; try (intros; discriminate); try contradiction.
  - intros [F [E W]] N _ P. apply IHr; auto. rewrite F, E. reflexivity.
  - intros [W1 W2] [N1 N2] C P. apply app_eq_nil in P. destruct P as [P1 P2]. rewrite orb_false_r in C.
    destruct (fin r1) eqn:F1.
    + destruct (fin r2) eqn:F2; [discriminate|]. destruct (ended r2) eqn:E2; [auto|].
      right; right; right. apply IHr2; auto.
    + destruct (ended r1) eqn:E1; [auto|]. right; right; left. apply IHr1; auto.
  - intros [F [E W]] N _ P. apply IHr; auto. rewrite F, E. reflexivity.
  - intros W N C P. rewrite orb_false_r in C. apply IHr; auto.
  - intros [W1 W2] [N1 N2] C P. apply app_eq_nil in P. destruct P as [P1 P2].
    destruct (fin r1) eqn:F1, (ended r1) eqn:E1, (fin r2) eqn:F2, (ended r2) eqn:E2; cbn in C; try discriminate;
      try (left; apply IHr1; auto; rewrite ?F1, ?E1; reflexivity); try (right; apply IHr2; auto; rewrite ?F2, ?E2; reflexivity).
Qed.

(* states that never end without a leaving token, now or later: what programs without end events produce
   (REnded only as the placeholder of an inclusive branch that was not activated) *)
Fixpoint nev (r : run) : Prop :=
  match r with
  | REnded => False
  | RSeq r rest | RLoop r _ rest => nev r /\ endfree rest = true
  | RPar a b => nev a /\ nev b
  | RSub r => nev r
  | RIncl a b => (nev a /\ nev b) \/ (nev a /\ b = REnded) \/ (a = REnded /\ nev b)
  | _ => True
  end.

Lemma nev_not_ended r : nev r -> ended r = false.
Proof.
  induction r; cbn [nev ended]; auto; try contradiction.
  intros [[A B]|[[A B]|[A B]]]; [rewrite (IHr1 A)|rewrite (IHr1 A)|rewrite (IHr2 B), andb_false_r]; reflexivity.
Qed.

Lemma nev_start e b : endfree b = true -> nev (start e b).
Proof.
  induction b; cbn [endfree start nev]; auto; try discriminate.
  - intros H. apply andb_prop in H. destruct H as [H1 H2]. specialize (IHb1 H1). specialize (IHb2 H2).
    destruct (fin (start e b1)); auto. rewrite (nev_not_ended _ IHb1). cbn [nev]. auto.
  - intros H. apply andb_prop in H. destruct H as [H1 H2]. auto.
  - intros H. apply andb_prop in H. destruct H as [H1 H2]. destruct (getv e v); auto.
  - intros H. specialize (IHb H). destruct (fin (start e b)).
    + destruct (getv e v); cbn; auto.
    + rewrite (nev_not_ended _ IHb). cbn [nev]. auto.
  - intros H. apply andb_prop in H. destruct H as [H H3]. apply andb_prop in H. destruct H as [H1 H2].
    destruct (getv e v1), (getv e v2); cbn [orb nev]; auto.
Qed.

Lemma nev_answer e r t : nev r -> nev (answer e r t).
Proof.
  induction r; cbn [nev answer]; auto.
  - intros _. destruct (t =? t0); cbn; auto.
  - intros [A B]. specialize (IHr A). destruct (fin (answer e r t)); [apply nev_start; auto|].
    rewrite (nev_not_ended _ IHr). cbn [nev]. auto.
  - intros [A B]. auto.
  - intros [A B]. specialize (IHr A). destruct (fin (answer e r t)).
    + destruct (getv e v); cbn; auto. pose proof (nev_start e body B) as S. destruct (fin (start e body)); cbn; auto.
      rewrite (nev_not_ended _ S). cbn [nev]. auto.
    + rewrite (nev_not_ended _ IHr). cbn [nev]. auto.
  - intros [[A B]|[[A B]|[A B]]]; subst; cbn [answer]; auto.
Qed.

Lemma nev_not_stuck r : nev r -> ~ stuck_par r.
Proof.
  induction r; cbn [nev stuck_par]; auto.
  - intros [A B]. auto.
  - intros [A B] [H|[H|[H|H]]]; [rewrite (nev_not_ended _ A) in H; discriminate|rewrite (nev_not_ended _ B) in H; discriminate|apply IHr1; auto|apply IHr2; auto].
  - intros [A B]. auto.
  - intros [[A B]|[[A B]|[A B]]] [H|H]; subst; cbn in *; auto; try (apply IHr1; auto; fail); try (apply IHr2; auto; fail).
Qed.

(* states of programs in which no end event sits inside a parallel block *)
Fixpoint okR (r : run) : Prop :=
  match r with
  | RSeq r rest | RLoop r _ rest => okR r /\ endsafe rest = true
  | RPar a b => nev a /\ nev b
  | RSub r => okR r
  | RIncl a b => okR a /\ okR b
  | _ => True
  end.

Lemma okR_start e b : endsafe b = true -> okR (start e b).
Proof.
  induction b; cbn [endsafe start okR]; auto.
  - intros H. apply andb_prop in H. destruct H as [H1 H2]. specialize (IHb1 H1). specialize (IHb2 H2).
    destruct (fin (start e b1)); auto. destruct (ended (start e b1)); cbn [okR]; auto.
  - intros H. apply andb_prop in H. destruct H as [H1 H2]. split; apply nev_start; auto.
  - intros H. apply andb_prop in H. destruct H as [H1 H2]. destruct (getv e v); auto.
  - intros H. specialize (IHb H). destruct (fin (start e b)).
    + destruct (getv e v); cbn; auto.
    + destruct (ended (start e b)); cbn [okR]; auto.
  - intros H. apply andb_prop in H. destruct H as [H H3]. apply andb_prop in H. destruct H as [H1 H2].
    destruct (getv e v1), (getv e v2); cbn [orb okR]; auto.
Qed.

Lemma okR_answer e r t : okR r -> okR (answer e r t).
Proof.
  induction r; cbn [okR answer]; auto.
  - intros _. destruct (t =? t0); cbn; auto.
  - intros [A B]. specialize (IHr A). destruct (fin (answer e r t)); [apply okR_start; auto|].
    destruct (ended (answer e r t)); cbn [okR]; auto.
  - intros [A B]. split; apply nev_answer; auto.
  - intros [A B]. specialize (IHr A). destruct (fin (answer e r t)).
    + destruct (getv e v); cbn; auto. pose proof (okR_start e body B) as S. destruct (fin (start e body)); cbn; auto.
      destruct (ended (start e body)); cbn [okR]; auto.
    + destruct (ended (answer e r t)); cbn [okR]; auto.
  - intros [A B]. auto.
Qed.

Lemma okR_not_stuck r : okR r -> ~ stuck_par r.
Proof.
  induction r; cbn [okR stuck_par]; auto.
  - intros [A B]. auto.
  - intros [A B] [H|[H|[H|H]]]; [rewrite (nev_not_ended _ A) in H; discriminate|rewrite (nev_not_ended _ B) in H; discriminate|exact (nev_not_stuck _ A H)|exact (nev_not_stuck _ B H)].
  - intros [A B]. auto.
  - intros [A B] [H|H]; [apply IHr1|apply IHr2]; auto.
Qed.

Lemma progress r : wfr r -> nospin r -> okR r -> complete r = false -> pending r <> [].
Proof. intros W N O C P. exact (okR_not_stuck r O (progress_or_stuck r W N C P)). Qed.

(* an answer for a task that is not pending changes nothing *)
Lemma answer_not_pending e r t : wfr r -> ~ In t (pending r) -> answer e r t = r.
Proof.
  induction r; cbn [wfr pending answer]; auto.
  - intros _ N. destruct (Nat.eqb_spec t t0); auto. subst. exfalso. apply N. left; reflexivity.
  - intros [F [E W]] N. rewrite (IHr W N), F, E. reflexivity.
  - intros [W1 W2] N. rewrite IHr1, IHr2; auto; intros H; apply N; apply in_or_app; auto.
  - intros [F [E W]] N. rewrite (IHr W N), F, E. reflexivity.
  - intros W N. rewrite IHr; auto.
  - intros [W1 W2] N. rewrite IHr1, IHr2; auto; intros H; apply N; apply in_or_app; auto.
Qed.

(* what the data prescribes when no answer changes it: the tasks a block executes, the end events it reaches, whether a
   token leaves it (None: a loop whose condition stays true never ends) *)
Definition res := option (list nat * list nat * bool).
Definition seq_res (a : res) (b : res) : res :=
  match a with
  | Some (ta, na, true) => match b with Some (tb, nb, x) => Some (ta ++ tb, na ++ nb, x) | None => None end
  | other => other
  end.
Definition both_res (f : bool -> bool -> bool) (a b : res) : res :=
  match a, b with Some (ta, na, xa), Some (tb, nb, xb) => Some (ta ++ tb, na ++ nb, f xa xb) | _, _ => None end.
(* what follows one pass through a loop body: nothing if the condition is false; otherwise another pass — which, the
   data being constant, either never ends or is consumed by an end event *)
Definition loop_tail (c : bool) (pass : res) : res :=
  if c then match pass with Some (_, _, true) => None | other => other end else Some ([], [], true).
Definition sub_res (a : res) : res := match a with Some (t, n, _) => Some (t, n, true) | None => None end.
Definition none_res : res := Some ([], [], false).

Fixpoint exec (e : env) (b : blk) : res :=
  match b with
  | BSkip => Some ([], [], true)
  | BTask t => Some ([t], [], true)
  | BEnd k => Some ([], [k], false)
  | BSeq a b => seq_res (exec e a) (exec e b)
  | BPar a b => both_res andb (exec e a) (exec e b)
  | BIf v a b => if getv e v then exec e a else exec e b
  | BLoop v body => seq_res (exec e body) (loop_tail (getv e v) (exec e body))
  | BSub b => sub_res (exec e b)
  | BIncl v1 v2 a b d =>
      if getv e v1 || getv e v2
      then both_res orb (if getv e v1 then exec e a else none_res) (if getv e v2 then exec e b else none_res)
      else exec e d
  | BCond t v a b => seq_res (Some ([t], [], true)) (if getv e v then exec e a else exec e b)
  end.

Fixpoint rem (e : env) (r : run) : res :=
  match r with
  | RDone => Some ([], [], true)
  | REnded => none_res
  | RSpin => None
  | RTask t => Some ([t], [], true)
  | RSeq r rest => seq_res (rem e r) (exec e rest)
  | RPar a b => both_res andb (rem e a) (rem e b)
  | RIncl a b => both_res orb (rem e a) (rem e b)
  | RLoop r v body => seq_res (rem e r) (loop_tail (getv e v) (exec e body))
  | RSub r => sub_res (rem e r)
  end.

Definition req (a b : res) : Prop :=
  match a, b with
  | Some (t, n, x), Some (t', n', x') => Permutation t t' /\ Permutation n n' /\ x = x'
  | None, None => True
  | _, _ => False
  end.
Definition pre (s : list nat) (a : res) : res := match a with Some (t, n, x) => Some (t, s ++ n, x) | None => None end.
Definition cons_t (t0 : nat) (a : res) : res := match a with Some (t, n, x) => Some (t0 :: t, n, x) | None => None end.

Lemma req_refl a : req a a.
Proof. destruct a as [[[t n] x]|]; cbn; auto. Qed.
Lemma req_sym a b : req a b -> req b a.
Proof. destruct a as [[[t n] x]|], b as [[[t' n'] x']|]; cbn; auto. intros [A [B C]]. repeat split; auto using Permutation_sym. Qed.
Lemma req_trans a b c : req a b -> req b c -> req a c.
Proof.
  destruct a as [[[t n] x]|], b as [[[t' n'] x']|], c as [[[t2 n2] x2]|]; cbn; auto; try contradiction.
  intros [A [B C]] [A' [B' C']]. repeat split; try congruence; eauto using Permutation_trans.
Qed.
Lemma req_eq a b : a = b -> req a b.
Proof. intros ->. apply req_refl. Qed.

Lemma seq_res_req a a' b b' : req a a' -> req b b' -> req (seq_res a b) (seq_res a' b').
Proof.
  destruct a as [[[t n] x]|], a' as [[[t' n'] x']|]; cbn; auto; try contradiction.
  intros [A [B C]]. subst x'. destruct x; cbn; auto.
  destruct b as [[[tb nb] xb]|], b' as [[[tb' nb'] xb']|]; cbn; auto; try contradiction.
  intros [A' [B' C']]. repeat split; auto using Permutation_app.
Qed.
Lemma both_res_req f a a' b b' : req a a' -> req b b' -> req (both_res f a b) (both_res f a' b').
Proof.
  destruct a as [[[t n] x]|], a' as [[[t' n'] x']|]; cbn; auto; try contradiction.
  intros [A [B C]]. subst x'.
  destruct b as [[[tb nb] xb]|], b' as [[[tb' nb'] xb']|]; cbn; auto; try contradiction.
  intros [A' [B' C']]. subst. repeat split; auto using Permutation_app.
Qed.
Lemma loop_tail_req c a a' : req a a' -> req (loop_tail c a) (loop_tail c a').
Proof.
  destruct c; cbn; auto. destruct a as [[[t n] x]|], a' as [[[t' n'] x']|]; cbn; auto; try contradiction.
  intros [A [B C]]. subst x'. destruct x; cbn; auto.
Qed.
Lemma sub_res_req a a' : req a a' -> req (sub_res a) (sub_res a').
Proof. destruct a as [[[t n] x]|], a' as [[[t' n'] x']|]; cbn; auto. intros [A [B C]]. auto. Qed.
Lemma pre_req s s' a a' : Permutation s s' -> req a a' -> req (pre s a) (pre s' a').
Proof.
  destruct a as [[[t n] x]|], a' as [[[t' n'] x']|]; cbn; auto. intros P [A [B C]]. repeat split; auto using Permutation_app.
Qed.
Lemma cons_req t0 a a' : req a a' -> req (cons_t t0 a) (cons_t t0 a').
Proof. destruct a as [[[t n] x]|], a' as [[[t' n'] x']|]; cbn; auto. intros [A [B C]]. repeat split; auto. Qed.

Lemma pre_nil a : pre [] a = a.
Proof. destruct a as [[[t n] x]|]; reflexivity. Qed.
Lemma pre_app s1 s2 a : pre (s1 ++ s2) a = pre s1 (pre s2 a).
Proof. destruct a as [[[t n] x]|]; cbn; auto. rewrite app_assoc. reflexivity. Qed.
Lemma pre_seq s a b : pre s (seq_res a b) = seq_res (pre s a) b.
Proof.
  destruct a as [[[t n] x]|]; cbn; auto. destruct x; cbn; auto.
  destruct b as [[[tb nb] xb]|]; cbn; auto. rewrite app_assoc. reflexivity.
Qed.
Lemma pre_sub s a : pre s (sub_res a) = sub_res (pre s a).
Proof. destruct a as [[[t n] x]|]; reflexivity. Qed.
Lemma pre_both f s1 s2 a b : req (pre (s1 ++ s2) (both_res f a b)) (both_res f (pre s1 a) (pre s2 b)).
Proof.
  destruct a as [[[t n] x]|], b as [[[tb nb] xb]|]; cbn; auto. repeat split; auto.
  rewrite <- !app_assoc. apply Permutation_app_head. rewrite !app_assoc. apply Permutation_app_tail. apply Permutation_app_comm.
Qed.
Lemma cons_seq t0 a b : cons_t t0 (seq_res a b) = seq_res (cons_t t0 a) b.
Proof. destruct a as [[[t n] x]|]; cbn; auto. destruct x; cbn; auto. destruct b as [[[tb nb] xb]|]; reflexivity. Qed.
Lemma cons_sub t0 a : cons_t t0 (sub_res a) = sub_res (cons_t t0 a).
Proof. destruct a as [[[t n] x]|]; reflexivity. Qed.
Lemma cons_pre t0 s a : cons_t t0 (pre s a) = pre s (cons_t t0 a).
Proof. destruct a as [[[t n] x]|]; reflexivity. Qed.
Lemma cons_both_l f t0 a b : cons_t t0 (both_res f a b) = both_res f (cons_t t0 a) b.
Proof. destruct a as [[[t n] x]|], b as [[[tb nb] xb]|]; reflexivity. Qed.
Lemma cons_both_r f t0 a b : req (cons_t t0 (both_res f a b)) (both_res f a (cons_t t0 b)).
Proof. destruct a as [[[t n] x]|], b as [[[tb nb] xb]|]; cbn; auto. repeat split; auto. apply Permutation_middle. Qed.

Lemma rem_fin_ended e r : (fin r = true -> rem e r = Some ([], [], true)) /\ (ended r = true -> rem e r = Some ([], [], false)).
Proof.
  induction r; cbn [fin ended rem]; split; try discriminate; auto.
  - intros H. apply andb_prop in H. destruct H as [H1 H2]. destruct IHr1 as [A _], IHr2 as [B _]. rewrite (A H1), (B H2). reflexivity.
  - intros H. destruct IHr as [A B]. apply orb_prop in H. destruct H as [H|H]; [rewrite (A H)|rewrite (B H)]; reflexivity.
  - intros H. apply andb_prop in H. destruct H as [H H3]. apply andb_prop in H. destruct H as [H1 H2].
    destruct IHr1 as [A1 B1], IHr2 as [A2 B2].
    apply orb_prop in H1. apply orb_prop in H2.
    destruct H1 as [H1|H1], H2 as [H2|H2].
    + rewrite (A1 H1), (A2 H2). reflexivity.
    + rewrite (A1 H1), (B2 H2). reflexivity.
    + rewrite (B1 H1), (A2 H2). reflexivity.
    + exfalso. apply orb_prop in H3. destruct H3 as [H3|H3]; apply fin_not_ended in H3; congruence.
  - intros H. apply andb_prop in H. destruct H as [H1 H2]. destruct IHr1 as [_ B1], IHr2 as [_ B2]. rewrite (B1 H1), (B2 H2). reflexivity.
Qed.

Lemma rem_fin e r : fin r = true -> rem e r = Some ([], [], true).
Proof. apply rem_fin_ended. Qed.
Lemma rem_ended e r : ended r = true -> rem e r = Some ([], [], false).
Proof. apply rem_fin_ended. Qed.

Lemma rem_start e b : req (exec e b) (pre (ends_start e b) (rem e (start e b))).
Proof.
  induction b; cbn [exec ends_start start].
  - apply req_refl.
  - apply req_refl.
  - destruct (fin (start e b1)) eqn:F.
    + rewrite pre_app. eapply req_trans; [apply seq_res_req; [exact IHb1|exact IHb2]|].
      rewrite (rem_fin _ _ F). cbn [pre]. rewrite app_nil_r.
      destruct (pre (ends_start e b2) (rem e (start e b2))) as [[[t n] x]|]; cbn; auto.
    + destruct (ended (start e b1)) eqn:G.
      * eapply req_trans; [apply seq_res_req; [exact IHb1|apply req_refl]|].
        rewrite (rem_ended _ _ G). cbn. repeat split; auto. rewrite !app_nil_r. auto.
      * cbn [rem]. rewrite app_nil_r, pre_seq. apply seq_res_req; [exact IHb1|apply req_refl].
  - cbn [rem]. eapply req_trans; [|apply req_sym, pre_both]. apply both_res_req; auto.
  - destruct (getv e v); auto.
  - destruct (fin (start e b)) eqn:F.
    + rewrite (rem_fin _ _ F) in IHb. cbn [pre] in IHb.
      eapply req_trans; [apply seq_res_req; [exact IHb|apply loop_tail_req; exact IHb]|].
      destruct (getv e v); cbn; auto. repeat split; auto. rewrite !app_nil_r. auto.
    + destruct (ended (start e b)) eqn:G.
      * rewrite (rem_ended _ _ G) in IHb. cbn [pre none_res] in IHb.
        eapply req_trans; [apply seq_res_req; [exact IHb|apply req_refl]|]. cbn. auto.
      * cbn [rem]. rewrite pre_seq. apply seq_res_req; [exact IHb|apply req_refl].
  - cbn [rem]. rewrite pre_sub. apply sub_res_req. exact IHb.
  - destruct (getv e v1 || getv e v2) eqn:O; auto. cbn [rem].
    eapply req_trans; [|apply req_sym, pre_both]. apply both_res_req.
    + destruct (getv e v1); auto. apply req_refl.
    + destruct (getv e v2); auto. apply req_refl.
  - cbn [rem exec]. rewrite pre_nil. apply req_refl.
  - cbn. auto.
Qed.

Lemma ends_answer_not_pending e r t : wfr r -> ~ In t (pending r) -> ends_answer e r t = [].
Proof.
  induction r; cbn [wfr pending ends_answer]; auto.
  - intros [F [E W]] N. rewrite (IHr W N), (answer_not_pending e r t W N), F. reflexivity.
  - intros [W1 W2] N. rewrite IHr1, IHr2; auto; intros H; apply N; apply in_or_app; auto.
  - intros [F [E W]] N. rewrite (IHr W N), (answer_not_pending e r t W N), F. reflexivity.
  - intros [W1 W2] N. rewrite IHr1, IHr2; auto; intros H; apply N; apply in_or_app; auto.
Qed.

Lemma nodup_app {A} (a b : list A) : NoDup (a ++ b) -> NoDup a /\ NoDup b /\ forall x, In x a -> ~ In x b.
Proof.
  induction a as [|x a IH]; cbn; intros H.
  - repeat split; auto. constructor.
  - inversion H as [|? ? N D]; subst. destruct (IH D) as [Da [Db Dj]]. repeat split; auto.
    + constructor; auto. intros I. apply N. apply in_or_app. auto.
    + intros y [->|I] Hb; [apply N; apply in_or_app; auto|exact (Dj y I Hb)].
Qed.

(* both-branch blocks: answering in one branch *)
Lemma both_answer f e r1 r2 t :
  (forall (IH1 : In t (pending r1)) , req (rem e r1) (cons_t t (pre (ends_answer e r1 t) (rem e (answer e r1 t))))) ->
  (forall (IH2 : In t (pending r2)) , req (rem e r2) (cons_t t (pre (ends_answer e r2 t) (rem e (answer e r2 t))))) ->
  wfr r1 -> wfr r2 -> NoDup (pending r1 ++ pending r2) -> In t (pending r1 ++ pending r2) ->
  req (both_res f (rem e r1) (rem e r2))
      (cons_t t (pre (ends_answer e r1 t ++ ends_answer e r2 t) (both_res f (rem e (answer e r1 t)) (rem e (answer e r2 t))))).
Proof.
  intros IH1 IH2 W1 W2 ND I. destruct (nodup_app _ _ ND) as [ND1 [ND2 DJ]].
  apply in_app_or in I. destruct I as [I|I].
  - assert (N2 : ~ In t (pending r2)) by (apply DJ; exact I).
    rewrite (answer_not_pending e r2 t W2 N2), (ends_answer_not_pending e r2 t W2 N2).
    eapply req_trans; [|apply cons_req, req_sym, pre_both]. rewrite pre_nil, cons_both_l.
    apply both_res_req; [apply IH1; exact I|apply req_refl].
  - assert (N1 : ~ In t (pending r1)) by (intros H; exact (DJ t H I)).
    rewrite (answer_not_pending e r1 t W1 N1), (ends_answer_not_pending e r1 t W1 N1).
    eapply req_trans; [|apply cons_req, req_sym, pre_both]. rewrite pre_nil.
    eapply req_trans; [|apply req_sym, cons_both_r].
    apply both_res_req; [apply req_refl|apply IH2; exact I].
Qed.

(* answering a pending task: exactly that task leaves what remains, and the end events reached by the answer *)
Lemma rem_answer e r t : wfr r -> NoDup (pending r) -> In t (pending r) ->
  req (rem e r) (cons_t t (pre (ends_answer e r t) (rem e (answer e r t)))).
Proof.
  induction r; intros W ND I; cbn [wfr pending answer rem ends_answer] in *; try contradiction.
  - destruct I as [->|[]]. rewrite Nat.eqb_refl. cbn. auto.
  - destruct W as [F [E W]]. specialize (IHr W ND I).
    destruct (fin (answer e r t)) eqn:G.
    + rewrite (rem_fin _ _ G) in IHr. cbn [pre cons_t] in IHr. rewrite pre_app.
      eapply req_trans; [apply seq_res_req; [exact IHr|apply rem_start]|].
      destruct (pre (ends_start e rest) (rem e (start e rest))) as [[[tb nb] xb]|]; cbn; auto.
      repeat split; auto. rewrite app_nil_r. auto.
    + destruct (ended (answer e r t)) eqn:H.
      * rewrite (rem_ended _ _ H) in IHr. cbn [pre cons_t] in IHr.
        eapply req_trans; [apply seq_res_req; [exact IHr|apply req_refl]|]. cbn. repeat split; auto. rewrite !app_nil_r. auto.
      * cbn [rem]. rewrite app_nil_r, pre_seq, cons_seq. apply seq_res_req; [exact IHr|apply req_refl].
  - destruct W as [W1 W2]. apply both_answer; auto.
    + intros I1. apply IHr1; auto. apply (nodup_app _ _ ND).
    + intros I2. apply IHr2; auto. apply (nodup_app _ _ ND).
  - destruct W as [F [E W]]. specialize (IHr W ND I).
    destruct (fin (answer e r t)) eqn:G.
    + rewrite (rem_fin _ _ G) in IHr. cbn [pre cons_t] in IHr. cbn [andb].
      destruct (getv e v) eqn:V.
      * rewrite pre_app.
        eapply req_trans; [apply seq_res_req; [exact IHr|apply loop_tail_req, rem_start]|].
        destruct (fin (start e body)) eqn:F2.
        -- rewrite (rem_fin _ _ F2). cbn. auto.
        -- destruct (ended (start e body)) eqn:E2.
           ++ rewrite (rem_ended _ _ E2). cbn. repeat split; auto. rewrite !app_nil_r. auto.
           ++ cbn [rem]. rewrite V.
              pose proof (rem_start e body) as RS.
              destruct (rem e (start e body)) as [[[t2 n2] x2]|] eqn:R2; cbn [pre] in *.
              ** destruct (exec e body) as [[[tx nx] xx]|] eqn:X; cbn in RS; [|contradiction].
                 destruct RS as [P1 [P2 P3]]. subst xx. destruct x2; cbn; auto.
                 repeat split; auto. rewrite !app_nil_r. rewrite app_assoc. auto.
              ** cbn. auto.
      * eapply req_trans; [apply seq_res_req; [exact IHr|apply req_refl]|]. cbn. repeat split; auto; rewrite ?app_nil_r; auto.
    + destruct (ended (answer e r t)) eqn:H.
      * rewrite (rem_ended _ _ H) in IHr. cbn [pre cons_t] in IHr. cbn [andb].
        eapply req_trans; [apply seq_res_req; [exact IHr|apply req_refl]|]. cbn. repeat split; auto. rewrite !app_nil_r. auto.
      * cbn [rem andb]. rewrite app_nil_r, pre_seq, cons_seq. apply seq_res_req; [exact IHr|apply req_refl].
  - rewrite pre_sub, cons_sub. apply sub_res_req. apply IHr; auto.
  - destruct W as [W1 W2]. apply both_answer; auto.
    + intros I1. apply IHr1; auto. apply (nodup_app _ _ ND).
    + intros I2. apply IHr2; auto. apply (nodup_app _ _ ND).
Qed.

(* a run of the driver that never writes: the tasks answered, each pending (and pending without
   duplicates) when answered; the end events it reaches; the state it ends in *)
Fixpoint valid_run (e : env) (r : run) (ts : list nat) : Prop :=
  match ts with
  | [] => complete r = true
  | t :: rest => In t (pending r) /\ NoDup (pending r) /\ valid_run e (answer e r t) rest
  end.
Fixpoint run_ends (e : env) (r : run) (ts : list nat) : list nat :=
  match ts with [] => [] | t :: rest => ends_answer e r t ++ run_ends e (answer e r t) rest end.
Definition final (e : env) (r : run) (ts : list nat) : run := fold_left (answer e) ts r.

Lemma order_independent_gen e ts : forall r l n x, wfr r -> rem e r = Some (l, n, x) -> valid_run e r ts ->
  Permutation l ts /\ Permutation n (run_ends e r ts) /\ x = fin (final e r ts).
Proof.
  induction ts as [|t ts IH]; intros r l n x W R V; cbn [valid_run run_ends final fold_left] in *.
  - unfold complete in V. destruct (fin r) eqn:F.
    + rewrite (rem_fin _ _ F) in R. injection R as <- <- <-. auto.
    + cbn in V. rewrite (rem_ended _ _ V) in R. injection R as <- <- <-. auto.
  - destruct V as [I [ND V]]. pose proof (rem_answer e r t W ND I) as RA. rewrite R in RA.
    destruct (rem e (answer e r t)) as [[[l' n'] x']|] eqn:R'; cbn in RA; [|contradiction].
    destruct RA as [P1 [P2 ->]].
    destruct (IH (answer e r t) l' n' x' (wfr_answer e r t W) R' V) as [Q1 [Q2 Q3]].
    repeat split; auto.
    + apply Permutation_trans with (t :: l'); auto.
    + apply Permutation_trans with (ends_answer e r t ++ n'); auto. apply Permutation_app_head. exact Q2.
Qed.

(** EXACTLY AS OFTEN AS PRESCRIBED, IN EVERY ORDER: any complete run of the driver answers each task
    exactly as many times as the data prescribes, reaches exactly the end events it prescribes, and a
    token leaves the program iff it prescribes that *)
Lemma order_independent e b ts l n x : exec e b = Some (l, n, x) -> valid_run e (start e b) ts ->
  Permutation l ts /\ Permutation n (ends_start e b ++ run_ends e (start e b) ts) /\ x = fin (final e (start e b) ts).
Proof.
  intros X V. pose proof (rem_start e b) as RS. rewrite X in RS.
  destruct (rem e (start e b)) as [[[l' n'] x']|] eqn:R; cbn in RS; [|contradiction].
  destruct RS as [P1 [P2 ->]].
  destruct (order_independent_gen e ts _ _ _ _ (wfr_start e b) R V) as [Q1 [Q2 Q3]].
  repeat split; auto.
  - apply Permutation_trans with l'; auto.
  - apply Permutation_trans with (ends_start e b ++ n'); auto. apply Permutation_app_head. exact Q2.
Qed.

Example order_independent_nonvacuous :
  let b := BSeq (BPar (BTask 1) (BSub (BIncl 0 1 (BSeq (BTask 2) (BEnd 8)) (BTask 3) (BTask 4)))) (BCond 5 2 (BTask 6) (BSeq (BTask 7) (BEnd 9))) in
  let e := [true; true; false; false] in
  exec e b = Some ([1; 2; 3; 5; 7], [8; 9], false) /\ valid_run e (start e b) [3; 1; 2; 5; 7] /\ valid_run e (start e b) [2; 3; 1; 5; 7]
  /\ run_ends e (start e b) [3; 1; 2; 5; 7] = [8; 9].
Proof.
  cbn. repeat split; auto; repeat constructor; cbn; intuition discriminate.
Qed.

(** The open finding, as a theorem about the engine's firing rule (Model/Cohort.v): in the witness
    program the token game prescribes tasks 1, 2 and 3 after the outer fork, but the inner inclusive
    fork may not fire — its cohort contains the sibling token, which never comes to it — neither at
    once nor after task 3 is answered (the sibling then waits at the outer join, which in turn waits
    for the inner block: a deadlock). *)
From BV Require Import Model.Cohort.
Lemma nested_inclusive_refuted :
  let b := BIncl 0 1 (BIncl 0 1 (BTask 1) (BTask 2) BSkip) (BTask 3) BSkip in
  let e := [true; true; false; false] in
  pending (start e b) = [1; 2; 3] /\
  may_fire after_outer_fork 2 0 = false /\ may_fire after_T3 2 0 = false /\ may_fire after_T3 4 1 = false.
Proof. cbn. repeat split; reflexivity. Qed.
