From BV Require Import Model.TaskAnswer.

(* ================= Do / process ================= *)

(* invariant (both variants): the effective answer is the FIRST one that entered the buffer *)
Definition DInv (s : dstate) : Prop :=
  match got s with
  | Some v => hd_error (sent s) = Some v
  | None => (buf s = None /\ sent s = []) \/ (exists b, buf s = Some b /\ sent s = [b])
  end.

Lemma dstep_inv blocking s o : DInv s -> DInv (dstep blocking s o).
Proof.
  unfold DInv. intros H. destruct o as [i|i| |]; cbn [dstep].
  - destruct (phase s i =? 0); cbn [got buf sent]; auto.
  - destruct ((phase s i =? 1) || (phase s i =? 3)); auto.
    destruct (buf s) as [b|] eqn:Eb.
    + destruct blocking; cbn [got buf sent]; exact H.
    + cbn [got buf sent]. destruct (got s) as [v|].
      * destruct (sent s); simpl in *; [discriminate|auto].
      * destruct H as [[_ Hs]|[b [Hb _]]]; [|congruence]. rewrite Hs. right. exists i. auto.
  - destruct (got s) as [v|] eqn:Eg; [simpl; rewrite ?Eg; exact H|].
    destruct (buf s) as [b|] eqn:Eb; [|rewrite Eg, Eb; exact H].
    cbn [got buf sent]. destruct H as [[Hb _]|[b' [Hb Hs]]]; [congruence|]. rewrite Hs. simpl. congruence.
  - destruct (got s) as [v|] eqn:Eg; simpl; rewrite ?Eg; exact H.
Qed.

Lemma drun_inv blocking sched : DInv (drun blocking sched).
Proof.
  unfold drun. assert (G : forall s, DInv s -> DInv (fold_left (dstep blocking) sched s)).
  { induction sched as [|o r IH]; intros s H; simpl; auto. apply IH. apply dstep_inv. auto. }
  apply G. unfold DInv, dinit. simpl. left. auto.
Qed.

(* FIRST WINS: whatever the interleaving and the number of callers, the answer that takes effect
   is the first one sent *)
Theorem first_wins blocking sched v : got (drun blocking sched) = Some v ->
  hd_error (sent (drun blocking sched)) = Some v.
Proof. intros H. pose proof (drun_inv blocking sched) as I. unfold DInv in I. rewrite H in I. exact I. Qed.

(* at most one answer is ever taken *)
Lemma got_stable blocking s o v : got s = Some v -> got (dstep blocking s o) = Some v.
Proof.
  intros H. destruct o as [i|i| |]; simpl.
  - destruct (phase s i =? 0); auto.
  - destruct ((phase s i =? 1) || (phase s i =? 3)); auto. destruct (buf s); [destruct blocking|]; auto.
  - rewrite H. auto.
  - rewrite H. auto.
Qed.

(* NON-BLOCKING (repaired code): no caller is ever blocked, under any interleaving *)
Lemma never_blocked_step s o : (forall i, phase s i <> 3) -> forall i, phase (dstep false s o) i <> 3.
Proof.
  intros H i. destruct o as [j|j| |]; cbn [dstep].
  - destruct (phase s j =? 0); [|apply H]. cbn [phase]. unfold set_phase.
    destruct (i =? j); [destruct (dn s); discriminate|apply H].
  - destruct ((phase s j =? 1) || (phase s j =? 3)); [|apply H].
    destruct (buf s); cbn [phase]; unfold set_phase; (destruct (i =? j); [discriminate|apply H]).
  - destruct (got s); [apply H|]. destruct (buf s); apply H.
  - destruct (got s); apply H.
Qed.

Theorem never_blocked sched i : phase (drun false sched) i <> 3.
Proof.
  unfold drun. assert (G : forall s, (forall i, phase s i <> 3) -> forall i, phase (fold_left (dstep false) sched s) i <> 3).
  { induction sched as [|o r IH]; intros s H j; simpl; auto. apply IH. apply never_blocked_step. auto. }
  apply G. intros j. simpl. discriminate.
Qed.

(* a caller that has passed the check returns at its send *)
Theorem send_returns s i : phase s i = 1 -> phase (dstep false s (Snd i)) i = 2.
Proof.
  intros H. simpl. rewrite H. simpl. destruct (buf s); simpl; unfold set_phase; rewrite Nat.eqb_refl; reflexivity.
Qed.

(* a caller arriving after done is closed returns at once, without effect *)
Theorem late_caller_inert blocking s i : dn s = true -> phase s i = 0 ->
  let s' := dstep blocking s (Chk i) in
  phase s' i = 2 /\ buf s' = buf s /\ got s' = got s /\ sent s' = sent s.
Proof.
  intros Hd Hp. simpl. rewrite Hp, Hd. simpl. unfold set_phase. rewrite Nat.eqb_refl. auto.
Qed.

(* BLOCKING (pinned snapshot): three callers pass the check, the first answer is taken, the
   second fills the slot, the third is blocked — and stays blocked whatever happens next *)
Definition stuck_schedule : list dop := [Chk 0; Chk 1; Chk 2; Snd 0; Rcv; Snd 1; Snd 2; Cls].

Lemma blocked_forever : forall more,
  phase (fold_left (dstep true) more (drun true stuck_schedule)) 2 = 3.
Proof.
  set (s0 := drun true stuck_schedule).
  assert (G : forall more s, phase s 2 = 3 -> buf s = Some 1 -> got s = Some 0 ->
              phase (fold_left (dstep true) more s) 2 = 3).
  { induction more as [|o r IH]; intros s Hp Hb Hg; simpl; auto.
    apply IH.
    - destruct o as [i|i| |]; simpl.
      + destruct (phase s i =? 0) eqn:E; simpl; auto. unfold set_phase.
        destruct (Nat.eqb_spec 2 i); auto. subst i. rewrite Hp in E. discriminate.
      + destruct ((phase s i =? 1) || (phase s i =? 3)); simpl; auto. rewrite Hb. simpl.
        unfold set_phase. destruct (Nat.eqb_spec 2 i); auto.
      + rewrite Hg. auto.
      + rewrite Hg. auto.
    - destruct o as [i|i| |]; simpl.
      + destruct (phase s i =? 0); auto.
      + destruct ((phase s i =? 1) || (phase s i =? 3)); auto. rewrite Hb. auto.
      + rewrite Hg. auto.
      + rewrite Hg. auto.
    - apply got_stable. auto. }
  intros more. apply G; reflexivity.
Qed.

(* ================= declared-only filtering ================= *)

Lemma apply_results_sound {A} declared (supplied : list (nat * A)) k v :
  In (k, v) (apply_results declared supplied) -> In k declared /\ lookupn k supplied = Some v.
Proof.
  unfold apply_results. rewrite in_flat_map. intros [d [Hd H]].
  destruct (lookupn d supplied) as [w|] eqn:E; [|destruct H].
  destruct H as [H|[]]. inversion H; subst. auto.
Qed.

Lemma apply_results_complete {A} declared (supplied : list (nat * A)) k v :
  In k declared -> lookupn k supplied = Some v -> In (k, v) (apply_results declared supplied).
Proof.
  intros Hd Hl. unfold apply_results. rewrite in_flat_map. exists k. split; auto. rewrite Hl. left. reflexivity.
Qed.

Lemma read_store_other {A} (kept vars : list (nat * A)) k :
  (forall v, ~ In (k, v) kept) -> read (store vars kept) k = read vars k.
Proof.
  unfold store, read. revert vars. induction kept as [|[a b] r IH]; intros vars H; simpl; auto.
  rewrite IH by (intros v Hv; apply (H v); right; auto). simpl.
  destruct (Nat.eqb_spec a k); auto. subst. exfalso. apply (H b). left. reflexivity.
Qed.

(* an undeclared result name never changes any variable *)
Theorem undeclared_ignored {A} declared (supplied vars : list (nat * A)) k :
  ~ In k declared -> read (store vars (apply_results declared supplied)) k = read vars k.
Proof.
  intros H. apply read_store_other. intros v Hv. apply apply_results_sound in Hv. tauto.
Qed.

(* a declared name that was not supplied leaves the variable unchanged *)
Theorem unsupplied_unchanged {A} declared (supplied vars : list (nat * A)) k :
  lookupn k supplied = None -> read (store vars (apply_results declared supplied)) k = read vars k.
Proof.
  intros H. apply read_store_other. intros v Hv. apply apply_results_sound in Hv. destruct Hv as [_ Hv]. congruence.
Qed.

Lemma in_key_dec {A} (r : list (nat * A)) k : (exists w, In (k, w) r) \/ (forall w, ~ In (k, w) r).
Proof.
  induction r as [|[a b] r IH]; [right; intros w []|].
  destruct (Nat.eq_dec a k) as [->|Hne]; [left; exists b; left; reflexivity|].
  destruct IH as [[w Hw]|Hn]; [left; exists w; right; auto|].
  right. intros w [E|Hw]; [inversion E; congruence|apply (Hn w); auto].
Qed.

Lemma read_store_last {A} (kept vars : list (nat * A)) k v :
  In (k, v) kept -> (forall w, In (k, w) kept -> w = v) -> read (store vars kept) k = Some v.
Proof.
  unfold store, read. revert vars. induction kept as [|[a b] r IH]; intros vars Hin Hu; [destruct Hin|].
  simpl. destruct (in_key_dec r k) as [[w Hw]|Hn].
  - assert (w = v) by (apply Hu; right; auto). subst w.
    apply IH; auto. intros w' Hw'. apply Hu. right. auto.
  - assert (read (store ((a, b) :: vars) r) k = read ((a, b) :: vars) k).
    { apply read_store_other. intros x Hx. apply (Hn x). auto. }
    unfold store, read in H. rewrite H. simpl.
    destruct Hin as [E|Hin]; [|exfalso; apply (Hn v); auto].
    inversion E; subst. rewrite Nat.eqb_refl. reflexivity.
Qed.

(* a declared and supplied result is stored and visible to every later reader *)
Theorem declared_stored {A} declared (supplied vars : list (nat * A)) k v :
  In k declared -> lookupn k supplied = Some v ->
  read (store vars (apply_results declared supplied)) k = Some v.
Proof.
  intros Hd Hl. apply read_store_last.
  - apply apply_results_complete; auto.
  - intros w Hw. apply apply_results_sound in Hw. destruct Hw as [_ Hw]. congruence.
Qed.

(* ================= error modes ================= *)
Open Scope Z_scope.

Lemma mode_simple rest k :
  token k (AOk :: rest) = (1%nat, 0%nat, Continues) /\
  token k (AErrNoHandler :: rest) = (1%nat, 1%nat, Continues) /\
  token k (AErrSkip :: rest) = (1%nat, 1%nat, Continues) /\
  token k (AErrExit :: rest) = (1%nat, 1%nat, Ended).
Proof. repeat split. Qed.

Lemma token_retry_step k r rest :
  token k (AErrRetry r :: rest) =
  if is_continue r k then let '(n, e, o) := token (k + 1) rest in (S n, S e, o) else (1%nat, 1%nat, Ended).
Proof. reflexivity. Qed.

Lemma is_continue_lt r k : 0 <= r -> k < r -> is_continue r k = true.
Proof. intros. unfold is_continue. replace (k <? r) with true by (symmetry; apply Z.ltb_lt; lia). apply orb_true_r. Qed.
Lemma is_continue_ge r k : 0 <= r -> r <= k -> is_continue r k = false.
Proof.
  intros. unfold is_continue. replace (r =? -1) with false by (symmetry; apply Z.eqb_neq; lia).
  replace (k <? r) with false by (symmetry; apply Z.ltb_ge; lia). reflexivity.
Qed.

(* retry r, every attempt failing: r further requests (r+1 in all), then the token stops *)
Lemma retry_exhausted r : 0 <= r -> forall n k, 0 <= k -> k + Z.of_nat n = r ->
  token k (repeat (AErrRetry r) (S n)) = (S n, S n, Ended).
Proof.
  intros Hr. induction n as [|n IH]; intros k Hk E.
  - change (repeat (AErrRetry r) 1) with [AErrRetry r]. rewrite token_retry_step, is_continue_ge by lia. reflexivity.
  - change (repeat (AErrRetry r) (S (S n))) with (AErrRetry r :: repeat (AErrRetry r) (S n)).
    rewrite token_retry_step, is_continue_lt by lia. rewrite (IH (k + 1)) by lia. reflexivity.
Qed.

(* success on attempt j <= r+1: j requests, j-1 error traces, the token continues *)
Lemma retry_success r : 0 <= r -> forall j k, 0 <= k -> k + Z.of_nat j <= r ->
  token k (repeat (AErrRetry r) j ++ [AOk]) = (S j, j, Continues).
Proof.
  intros Hr. induction j as [|j IH]; intros k Hk E; [reflexivity|].
  change (repeat (AErrRetry r) (S j) ++ [AOk]) with (AErrRetry r :: (repeat (AErrRetry r) j ++ [AOk])).
  rewrite token_retry_step, is_continue_lt by lia. rewrite (IH (k + 1)) by lia. reflexivity.
Qed.

(* never more than r additional requests, whatever is answered *)
Lemma retry_bound r : 0 <= r -> forall answers k, 0 <= k <= r ->
  Forall (fun a => match a with AErrRetry r' => r' = r | _ => True end) answers ->
  (Z.of_nat (fst (fst (token k answers))) <= r - k + 1).
Proof.
  intros Hr. induction answers as [|a rest IH]; intros k Hk Hall; [simpl; lia|].
  inversion Hall as [|? ? Ha Hrest]; subst.
  destruct a; try (simpl; lia).
  subst r0. rewrite token_retry_step.
  destruct (Z.lt_ge_cases k r).
  - rewrite is_continue_lt by lia.
    specialize (IH (k + 1) ltac:(lia) Hrest). destruct (token (k + 1) rest) as [[n e] o]. cbn [fst] in *. lia.
  - rewrite is_continue_ge by lia. cbn [fst]. lia.
Qed.

(* unbounded retries (-1) never end by exhaustion *)
Lemma retry_unbounded k : is_continue (-1) k = true.
Proof. reflexivity. Qed.

(* ---------------- the answer as the host gives it ---------------- *)
(* an answer without error is a success whatever handler comes along with it: the token continues, one request, no
   error trace -- at any point of a retry history *)
Theorem success_ignores_handler h attempts rest :
  token attempts (interpret true (false, h) :: rest) = (1%nat, 0%nat, Continues).
Proof. reflexivity. Qed.

(* a handler obeyed whenever it is there: a success with "exit" queued stops the token, with "retry" queued the answered
   task is requested again *)
Lemma refuted_handler_obeyed_on_success :
  token 0 [interpret false (false, Some HExit)] = (1%nat, 1%nat, Ended) /\
  token 0 [interpret false (false, Some (HRetry 2)); interpret false (false, None)] = (2%nat, 1%nat, Continues).
Proof. split; reflexivity. Qed.
