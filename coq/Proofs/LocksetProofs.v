From BV Require Import Model.Lockset Gen.Facts.

Lemma firstn_S_nth {A} (l : list A) : forall n e, nth_error l n = Some e -> firstn (S n) l = firstn n l ++ [e].
Proof.
  induction l as [|a l IH]; intros [|n] e H; cbn in *; try discriminate.
  - injection H as ->. reflexivity.
  - rewrite (IH n e H). reflexivity.
Qed.

Lemma firstn_S_none {A} (l : list A) : forall n, nth_error l n = None -> firstn (S n) l = firstn n l.
Proof.
  induction l as [|a l IH]; intros [|n] H; cbn in *; try discriminate; auto. rewrite (IH n H). reflexivity.
Qed.

Lemma holder_S tr n l e : nth_error tr n = Some e -> holder tr (S n) l = hstep l (holder tr n l) e.
Proof. intros H. unfold holder. rewrite (firstn_S_nth _ _ _ H), fold_left_app. reflexivity. Qed.

Lemma holder_S_none tr n l : nth_error tr n = None -> holder tr (S n) l = holder tr n l.
Proof. intros H. unfold holder. rewrite (firstn_S_none _ _ H). reflexivity. Qed.

(* while nobody releases it, the lock stays with its holder: the first lock event after i is t's release *)
Lemma stays_until_release tr l i t : wf tr -> holder tr (S i) l = Some t ->
  forall n, i < n ->
    (forall p, i < p <= n -> holder tr p l = Some t) \/
    (exists k, i < k < n /\ nth_error tr k = Some (Rel t l) /\ forall p, i < p <= k -> holder tr p l = Some t).
Proof.
  intros W H0 n. induction n as [|n IH]; intros Hn; [lia|].
  destruct (Nat.eq_dec n i) as [->|Ne].
  - left. intros p Hp. assert (p = S i) by lia. subst. exact H0.
  - assert (Hi : i < n) by lia. destruct (IH Hi) as [A|[k [Hk [Ek Ak]]]].
    + assert (Hh : holder tr n l = Some t) by (apply A; lia).
      destruct (nth_error tr n) as [e|] eqn:E.
      * destruct e as [t0 l'|t0 l'|t0 x w].
        -- destruct (Nat.eqb_spec l' l) as [->|Nl].
           ++ destruct (W n) as [W1 _]. rewrite (W1 _ _ E) in Hh. discriminate.
           ++ left. intros p Hp. destruct (Nat.eq_dec p (S n)) as [->|]; [|apply A; lia].
              rewrite (holder_S _ _ _ _ E). cbn. apply Nat.eqb_neq in Nl. rewrite Nl. exact Hh.
        -- destruct (Nat.eqb_spec l' l) as [->|Nl].
           ++ destruct (W n) as [_ W2]. rewrite (W2 _ _ E) in Hh. injection Hh as ->.
              right. exists n. repeat split; auto; lia.
           ++ left. intros p Hp. destruct (Nat.eq_dec p (S n)) as [->|]; [|apply A; lia].
              rewrite (holder_S _ _ _ _ E). cbn. apply Nat.eqb_neq in Nl. rewrite Nl. exact Hh.
        -- left. intros p Hp. destruct (Nat.eq_dec p (S n)) as [->|]; [|apply A; lia].
           rewrite (holder_S _ _ _ _ E). cbn. exact Hh.
      * left. intros p Hp. destruct (Nat.eq_dec p (S n)) as [->|]; [|apply A; lia].
        rewrite (holder_S_none _ _ _ E). exact Hh.
    + right. exists k. repeat split; auto; lia.
Qed.

(* a goroutine that holds the lock later, and did not hold it at i, acquired it in between *)
Lemma acquired_between tr l i t' : holder tr (S i) l <> Some t' ->
  forall n, i < n -> holder tr n l <> Some t' \/ exists m, i < m < n /\ nth_error tr m = Some (Acq t' l).
Proof.
  intros H0 n. induction n as [|n IH]; intros Hn; [lia|].
  destruct (Nat.eq_dec n i) as [->|Ne]; [left; exact H0|].
  assert (Hi : i < n) by lia. destruct (IH Hi) as [A|[m [Hm Em]]].
  - destruct (nth_error tr n) as [e|] eqn:E.
    + rewrite (holder_S _ _ _ _ E). destruct e as [t0 l'|t0 l'|t0 x w]; cbn.
      * destruct (Nat.eqb_spec l' l) as [->|Nl]; [|left; exact A].
        destruct (Nat.eq_dec t0 t') as [->|Nt]; [right; exists n; split; [lia|exact E]|left; congruence].
      * destruct (l' =? l); [left; discriminate|left; exact A].
      * left; exact A.
    + left. rewrite (holder_S_none _ _ _ E). exact A.
  - right. exists m. split; [lia|exact Em].
Qed.

(** two accesses of different goroutines that both hold a common lock are ordered by happens-before *)
Lemma common_lock_orders tr l i j t t' x x' w w' : wf tr -> i < j ->
  nth_error tr i = Some (Acc t x w) -> nth_error tr j = Some (Acc t' x' w') -> t <> t' ->
  holder tr i l = Some t -> holder tr j l = Some t' -> hb tr i j.
Proof.
  intros W Hij Ei Ej Nt Hi Hj.
  assert (H0 : holder tr (S i) l = Some t) by (rewrite (holder_S _ _ _ _ Ei); exact Hi).
  destruct (stays_until_release tr l i t W H0 j Hij) as [A|[k [Hk [Ek Ak]]]].
  { rewrite (A j) in Hj by lia. congruence. }
  assert (H1 : holder tr (S i) l <> Some t') by (rewrite H0; congruence).
  destruct (acquired_between tr l i t' H1 j Hij) as [B|[m [Hm Em]]]; [contradiction|].
  assert (Hkm : k < m).
  { destruct (Nat.lt_trichotomy m k) as [L|[->|G]]; auto.
    - destruct (W m) as [W1 _]. specialize (W1 _ _ Em). rewrite (Ak m) in W1 by lia. discriminate.
    - rewrite Ek in Em. discriminate. }
  eapply hb_trans; [eapply hb_po with (i := i) (j := k); eauto; lia|].
  eapply hb_trans; [eapply hb_sync with (i := k) (j := m); eauto|].
  eapply hb_po with (i := m) (j := j); eauto; lia.
Qed.

(** NO RACE under the discipline: a variable all of whose accesses hold one common lock, or all of
    whose accesses come from one goroutine, has no data race in any trace that respects mutual exclusion *)
Lemma lock_discipline_no_race tr x l : wf tr ->
  (forall i t w, nth_error tr i = Some (Acc t x w) -> holder tr i l = Some t) -> ~ race tr x.
Proof.
  intros W D [i [j [t [t' [w [w' [Hij [Ei [Ej [Nt [_ Nhb]]]]]]]]]]]. apply Nhb.
  eapply common_lock_orders; eauto.
Qed.

Lemma owner_discipline_no_race tr x t0 :
  (forall i t w, nth_error tr i = Some (Acc t x w) -> t = t0) -> ~ race tr x.
Proof.
  intros D [i [j [t [t' [w [w' [_ [Ei [Ej [Nt _]]]]]]]]]]. apply Nt. rewrite (D _ _ _ Ei), (D _ _ _ Ej). reflexivity.
Qed.

(** the sources' fields satisfy the discipline (facts regenerated on every run) *)
Lemma ownership_holds : ownership_ok own_fields own_accesses = true.
Proof. vm_compute. reflexivity. Qed.

Lemma global_maps_hold : global_maps_ok global_map_accesses = true.
Proof. vm_compute. reflexivity. Qed.

Lemma captured_hold : captured_ok captured_accesses = true.
Proof. vm_compute. reflexivity. Qed.

Lemma single_owner_holds : single_owner_ok run_starts = true.
Proof. vm_compute. reflexivity. Qed.

(* the discipline is not vacuous on traces, and an undisciplined access is a race *)
Example disciplined_trace :
  let tr := [Acq 1 0; Acc 1 7 true; Rel 1 0; Acq 2 0; Acc 2 7 false; Rel 2 0] in
  wf tr /\ ~ race tr 7.
Proof.
  cbn zeta. assert (W : wf [Acq 1 0; Acc 1 7 true; Rel 1 0; Acq 2 0; Acc 2 7 false; Rel 2 0]).
  { intros n. split; intros t l H;
      destruct n as [|[|[|[|[|[|n]]]]]]; cbn in H; try discriminate;
      try (inversion H; subst; reflexivity); destruct n; discriminate. }
  split; auto. apply (lock_discipline_no_race _ 7 0 W).
  intros i t w H. destruct i as [|[|[|[|[|[|i]]]]]]; cbn in H; try discriminate;
    try (inversion H; subst; reflexivity); destruct i; discriminate.
Qed.

Lemma hb_lt tr i j : hb tr i j -> i < j.
Proof. induction 1; lia. Qed.

Lemma no_hb_without_sync : forall i j, ~ hb [Acc 1 7 true; Acc 2 7 false] i j.
Proof.
  intros i j H. induction H as [i j ea eb L Ei Ej T|i j t t' l L Ei Ej|i j k H1 IH1 H2 IH2]; auto.
  - destruct i as [|[|i]], j as [|[|j]]; simpl in Ei, Ej; try lia; try discriminate;
      try (inversion Ei; inversion Ej; subst; simpl in T; discriminate);
      try (destruct i; discriminate); try (destruct j; discriminate).
  - destruct i as [|[|i]]; simpl in Ei; try discriminate. destruct i; discriminate.
Qed.

Example undisciplined_race : race [Acc 1 7 true; Acc 2 7 false] 7.
Proof.
  exists 0, 1, 1, 2, true, false. repeat split; auto; try discriminate. apply no_hb_without_sync.
Qed.

Lemma package_state_reviewed : package_state_ok package_level_state = true.
Proof. vm_compute. reflexivity. Qed.
