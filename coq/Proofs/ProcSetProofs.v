From BV Require Import Model.ProcSet.

Definition cnt (f : pst -> bool) (l : list pst) : nat := length (filter f l).

Lemma cnt_updp_same f l i p x : nth_error l i = Some p -> f x = f p -> cnt f (updp l i x) = cnt f l.
Proof.
  unfold cnt. revert i; induction l as [|a l IH]; intros [|i] H E; cbn [updp nth_error filter] in *; try discriminate.
  - injection H as ->. rewrite E. destruct (f p); reflexivity.
  - destruct (f a); cbn [length]; rewrite (IH i H E); reflexivity.
Qed.

Lemma cnt_updp_off f l i p x : nth_error l i = Some p -> f p = true -> f x = false -> S (cnt f (updp l i x)) = cnt f l.
Proof.
  unfold cnt. revert i; induction l as [|a l IH]; intros [|i] H E1 E2; cbn [updp nth_error filter] in *; try discriminate.
  - injection H as ->. rewrite E1, E2. reflexivity.
  - destruct (f a); cbn [length]; rewrite <- (IH i H E1 E2); reflexivity.
Qed.

Lemma cnt_updp_on f l i p x : nth_error l i = Some p -> f p = false -> f x = true -> cnt f (updp l i x) = S (cnt f l).
Proof.
  unfold cnt. revert i; induction l as [|a l IH]; intros [|i] H E1 E2; cbn [updp nth_error filter] in *; try discriminate.
  - injection H as ->. rewrite E1, E2. reflexivity.
  - destruct (f a); cbn [length]; rewrite (IH i H E1 E2); reflexivity.
Qed.

Lemma cnt_pos f l i p : nth_error l i = Some p -> f p = true -> 1 <= cnt f l.
Proof.
  unfold cnt. revert i; induction l as [|a l IH]; intros [|i] H E; cbn [nth_error filter] in *; try discriminate.
  - injection H as ->. rewrite E. cbn. lia.
  - destruct (f a); cbn [length]; specialize (IH i H E); lia.
Qed.

Lemma cnt_app f l x : cnt f (l ++ [x]) = cnt f l + (if f x then 1 else 0).
Proof. unfold cnt. rewrite filter_app, app_length. cbn [filter]. destruct (f x); reflexivity. Qed.

Lemma cnt_zero f l : cnt f l = 0 -> Forall (fun p => f p = false) l.
Proof.
  unfold cnt. induction l as [|a l IH]; cbn [filter]; intros H; constructor.
  - destruct (f a); [discriminate|reflexivity].
  - apply IH. destruct (f a); [discriminate|exact H].
Qed.

Lemma updp_length {A} (l : list A) i x : length (updp l i x) = length l.
Proof. revert i; induction l; intros [|i]; simpl; auto. Qed.

Lemma Forall_updp {A} (P : A -> Prop) l i x : Forall P l -> P x -> Forall P (updp l i x).
Proof.
  intros H Hx. revert i; induction H as [|a l Ha Hl IH]; intros [|i]; cbn [updp]; constructor; auto.
Qed.

Lemma Forall_nth {A} (P : A -> Prop) l i p : Forall P l -> nth_error l i = Some p -> P p.
Proof. intros H E. rewrite Forall_forall in H. apply H. eapply nth_error_In; eauto. Qed.

Lemma Forall_updp_weak {A} (P : A -> Prop) l i p x : Forall P l -> nth_error l i = Some p -> (P p -> P x) -> Forall P (updp l i x).
Proof. intros H E I. apply Forall_updp; auto. apply I. eapply Forall_nth; eauto. Qed.

Lemma existsb_nth {A} (f : A -> bool) l : existsb f l = true -> exists i p, nth_error l i = Some p /\ f p = true.
Proof.
  intros H. apply existsb_exists in H. destruct H as [p [Hin Hp]].
  apply In_nth_error in Hin. destruct Hin as [i Hi]. eauto.
Qed.

Lemma existsb_false_Forall {A} (f : A -> bool) l : existsb f l = false -> Forall (fun p => f p = false) l.
Proof.
  induction l as [|a l IH]; cbn [existsb]; intros H; constructor.
  - destruct (f a); [discriminate|reflexivity].
  - apply IH. destruct (f a); [discriminate|exact H].
Qed.

Definition notdone (p : pst) : bool := negb (wdone p).

(** the invariant of the repaired watcher protocol (watchers subscribed first, hand-off counted) *)
Record SInv (n0 : nat) (s : sst) : Prop := {
  i_wg : wg s = cnt notdone (procs s) + mch s;
  i_sub : Forall (fun p => wsub p = true /\ wmissed p = false) (procs s);
  i_done : Forall (fun p => wdone p = true -> finished p = true /\ (thrown p = true -> fwd p = true)) (procs s);
  i_fwd : Forall (fun p => fwd p = true -> thrown p = true) (procs s);
  i_closed : closed s = true -> wg s = 0;
  i_run : runalive s = false -> closed s = true;
  i_ceases : ceases s + (if runalive s then 1 else 0) = 1;
  i_inst : length (procs s) + mch s + delivered s = n0 + cnt fwd (procs s)
}.

Definition good (c : pcfg) : Prop := sub_first c = true /\ add_on_throw c = true.

Lemma sinv_init c ts : good c -> SInv (length ts) (sinit c ts).
Proof.
  intros [Hs Ha]. constructor; cbn [sinit procs wg mch closed runalive ceases delivered]; try (intros; discriminate || lia).
  - induction ts as [|t ts IH]; cbn; auto.
  - induction ts; cbn; constructor; auto.
  - induction ts; cbn; constructor; auto; try (intros; discriminate).
  - induction ts; cbn; constructor; auto; try (intros; discriminate).
  - rewrite map_length. induction ts; cbn; auto.
Qed.

Ltac sinv_fields H := destruct H as [Hwg Hsub Hdone Hfwd Hcl Hrun Hce Hinst].

Lemma sinv_step c n0 s l s' : good c -> SInv n0 s -> sstep c s l = Some s' -> SInv n0 s'.
Proof.
  intros [Hs Ha] I E. sinv_fields I.
  destruct l as [i|i|i|i|i| | | | |]; cbn [sstep] in E.
  - (* watcher subscribes: impossible, already subscribed *)
    destruct (nth_error (procs s) i) as [p|] eqn:Hp; [|discriminate].
    destruct (Forall_nth _ _ _ _ Hsub Hp) as [W _]. rewrite W in E. discriminate.
  - destruct (nth_error (procs s) i) as [p|] eqn:Hp; [|discriminate].
    destruct (hasthrow p && negb (thrown p) && negb (finished p)) eqn:G; [|discriminate].
    injection E as <-. apply andb_prop in G. destruct G as [G G3]. apply andb_prop in G. destruct G as [G1 G2].
    apply negb_true_iff in G2, G3.
    constructor; cbn [set_procs procs wg mch closed runalive ceases delivered]; auto.
    + rewrite (cnt_updp_same notdone _ _ p); auto.
    + eapply Forall_updp_weak; eauto.
    + eapply Forall_updp_weak; eauto. cbn. intros H D. specialize (H D). rewrite G3 in H. destruct H; discriminate.
    + eapply Forall_updp_weak; eauto.
    + rewrite updp_length. rewrite (cnt_updp_same fwd _ _ p); auto.
  - destruct (nth_error (procs s) i) as [p|] eqn:Hp; [|discriminate].
    destruct (negb (finished p) && (negb (hasthrow p) || thrown p)) eqn:G; [|discriminate].
    injection E as <-.
    constructor; cbn [set_procs procs wg mch closed runalive ceases delivered]; auto.
    + rewrite (cnt_updp_same notdone _ _ p); auto.
    + eapply Forall_updp_weak; eauto.
    + eapply Forall_updp_weak; eauto. cbn. intros H D. specialize (H D). tauto.
    + eapply Forall_updp_weak; eauto.
    + rewrite updp_length. rewrite (cnt_updp_same fwd _ _ p); auto.
  - destruct (nth_error (procs s) i) as [p|] eqn:Hp; [|discriminate].
    destruct (wsub p && thrown p && negb (fwd p) && negb (wdone p)) eqn:G; [|discriminate].
    injection E as <-. apply andb_prop in G. destruct G as [G G4]. apply andb_prop in G. destruct G as [G G3].
    apply andb_prop in G. destruct G as [G1 G2]. apply negb_true_iff in G3, G4. rewrite Ha.
    assert (P : 1 <= cnt notdone (procs s)) by (eapply cnt_pos; eauto; unfold notdone; rewrite G4; reflexivity).
    constructor; cbn [set_procs procs wg mch closed runalive ceases delivered]; auto.
    + rewrite (cnt_updp_same notdone _ _ p); auto. lia. unfold notdone. cbn. rewrite G4. reflexivity.
    + eapply Forall_updp_weak; eauto. cbn. tauto.
    + eapply Forall_updp_weak; eauto. cbn. intros; discriminate.
    + eapply Forall_updp_weak; eauto.
    + intros C. specialize (Hcl C). lia.
    + rewrite updp_length. rewrite (cnt_updp_on fwd _ _ p); auto. lia.
  - destruct (nth_error (procs s) i) as [p|] eqn:Hp; [|discriminate].
    destruct (wsub p && finished p && negb (wmissed p) && negb (wdone p) && (negb (thrown p) || fwd p) && (1 <=? wg s)) eqn:G; [|discriminate].
    injection E as <-.
    apply andb_prop in G. destruct G as [G G6]. apply andb_prop in G. destruct G as [G G5].
    apply andb_prop in G. destruct G as [G G4]. apply andb_prop in G. destruct G as [G G3].
    apply andb_prop in G. destruct G as [G1 G2]. apply negb_true_iff in G3, G4. apply Nat.leb_le in G6.
    constructor; cbn [set_procs procs wg mch closed runalive ceases delivered]; auto.
    + pose proof (cnt_updp_off notdone _ _ p {| hasthrow := hasthrow p; thrown := thrown p; fwd := fwd p; finished := true;
                                                wsub := true; wmissed := false; wdone := true |} Hp) as Q.
      unfold notdone at 1 2 in Q. cbn in Q. rewrite G4 in Q. specialize (Q eq_refl eq_refl). lia.
    + eapply Forall_updp; eauto.
    + eapply Forall_updp; eauto. cbn. intros _. split; auto. intros T. rewrite T in G5. exact G5.
    + eapply Forall_updp_weak; eauto.
    + intros C. specialize (Hcl C). lia.
    + rewrite updp_length. rewrite (cnt_updp_same fwd _ _ p); auto.
  - destruct (runalive s && (1 <=? mch s)) eqn:G; [|discriminate].
    injection E as <-. apply andb_prop in G. destruct G as [G1 G2]. apply Nat.leb_le in G2. rewrite Ha.
    constructor; cbn [set_procs procs wg mch closed runalive ceases delivered]; auto.
    + rewrite cnt_app. cbn. lia.
    + apply Forall_app; split; auto; constructor; auto; cbn; auto.
    + apply Forall_app; split; auto; constructor; auto; cbn; try (intros; discriminate).
    + apply Forall_app; split; auto; constructor; auto; cbn; try (intros; discriminate).
    + rewrite app_length, cnt_app. cbn. lia.
  - destruct (runalive s && (1 <=? mch s) && implb (add_on_throw c) (1 <=? wg s)) eqn:G; [|discriminate].
    injection E as <-. apply andb_prop in G. destruct G as [G _]. apply andb_prop in G. destruct G as [G1 G2].
    apply Nat.leb_le in G2. rewrite Ha.
    constructor; cbn [procs wg mch closed runalive ceases delivered]; auto; try lia.
    intros C. specialize (Hcl C). lia.
  - destruct (once_close c && spawned s); [discriminate|]. injection E as <-.
    constructor; cbn [procs wg mch closed runalive ceases delivered]; auto.
  - destruct ((1 <=? closers s) && (wg s =? 0)) eqn:G; [|discriminate].
    injection E as <-. apply andb_prop in G. destruct G as [G1 G2]. apply Nat.eqb_eq in G2.
    constructor; cbn [procs wg mch closed runalive ceases delivered]; auto.
  - destruct (runalive s && closed s) eqn:G; [|discriminate].
    injection E as <-. apply andb_prop in G. destruct G as [G1 G2].
    constructor; cbn [procs wg mch closed runalive ceases delivered]; auto.
    rewrite G1 in Hce. lia.
Qed.

Lemma sinv_exec c n0 p : good c -> forall s s', SInv n0 s -> sexec c s p = Some s' -> SInv n0 s'.
Proof.
  intros G. induction p as [|l p IH]; cbn [sexec]; intros s s' I E.
  - injection E as <-. exact I.
  - destruct (sstep c s l) as [s1|] eqn:E1; [|discriminate]. eapply IH; [|exact E]. eapply sinv_step; eauto.
Qed.

Lemma sinv_reach c ts s : good c -> sreach c ts s -> SInv (length ts) s.
Proof. intros G [p E]. eapply sinv_exec; eauto. apply sinv_init; auto. Qed.

(** SAFETY: a completed wait means every started process has completed, every message flow has been
    handed over and acted on *)
Lemma closed_means_complete c ts s : good c -> sreach c ts s -> closed s = true ->
  Forall (fun p => finished p = true /\ (thrown p = true -> fwd p = true)) (procs s) /\ mch s = 0 /\
  length (procs s) + delivered s = length ts + cnt thrown (procs s).
Proof.
  intros G R C. pose proof (sinv_reach _ _ _ G R) as I. sinv_fields I. specialize (Hcl C).
  assert (Z : cnt notdone (procs s) = 0) by lia. assert (M : mch s = 0) by lia.
  apply cnt_zero in Z.
  assert (F : Forall (fun p => finished p = true /\ (thrown p = true -> fwd p = true)) (procs s)).
  { rewrite Forall_forall in *. intros p Hin. apply Hdone; auto. specialize (Z p Hin). unfold notdone in Z.
    apply negb_false_iff in Z. exact Z. }
  split; auto. split; auto.
  assert (Q : cnt fwd (procs s) = cnt thrown (procs s)).
  { clear - F Hfwd. unfold cnt. induction (procs s) as [|a l IH]; cbn [filter]; auto.
    inversion F as [|? ? [_ Fa] Fl]; subst. inversion Hfwd as [|? ? Ha Hl]; subst.
    destruct (fwd a) eqn:E1, (thrown a) eqn:E2; cbn [length]; auto.
    - specialize (Ha eq_refl). discriminate.
    - specialize (Fa eq_refl). discriminate. }
  lia.
Qed.

Lemma one_cease_set c ts s : good c -> sreach c ts s -> ceases s <= 1 /\ (ceases s = 1 -> closed s = true).
Proof.
  intros G R. pose proof (sinv_reach _ _ _ G R) as I. sinv_fields I.
  destruct (runalive s) eqn:E; split; try lia. intros _. apply Hrun. reflexivity.
Qed.

(** waits are repeatable: with the closer started once, the done channel is closed at most once *)
Record PInv (s : sst) : Prop := {
  p_nopanic : panicked s = false;
  p_unspawned : spawned s = false -> closers s = 0 /\ closed s = false;
  p_one : closers s + (if closed s then 1 else 0) <= 1
}.

Lemma pinv_step c s l s' : once_close c = true -> PInv s -> sstep c s l = Some s' -> PInv s'.
Proof.
  intros O [P1 P2 P3] E.
  destruct l as [i|i|i|i|i| | | | |]; cbn [sstep] in E;
    try (destruct (nth_error (procs s) i) as [p|]; [|discriminate]).
  - destruct (wsub p); [discriminate|]. injection E as <-. constructor; auto.
  - destruct (_ && _); [|discriminate]. injection E as <-. constructor; auto.
  - destruct (_ && _); [|discriminate]. injection E as <-. constructor; auto.
  - destruct (_ && _); [|discriminate]. injection E as <-. constructor; auto.
  - destruct (_ && _); [|discriminate]. injection E as <-. constructor; auto.
  - destruct (_ && _); [|discriminate]. injection E as <-. constructor; auto.
  - destruct (_ && _); [|discriminate]. injection E as <-. constructor; auto.
  - rewrite O in E. destruct (spawned s) eqn:Sp; [discriminate|]. injection E as <-.
    destruct (P2 eq_refl) as [A B]. constructor; cbn [panicked spawned closers closed]; auto.
    + intros; discriminate.
    + rewrite A, B. lia.
  - destruct ((1 <=? closers s) && (wg s =? 0)) eqn:G; [|discriminate]. injection E as <-.
    apply andb_prop in G. destruct G as [G1 _]. apply Nat.leb_le in G1.
    assert (C : closed s = false) by (destruct (closed s); [lia|reflexivity]).
    constructor; cbn [panicked spawned closers closed].
    + rewrite P1, C. reflexivity.
    + intros Sp. destruct (P2 Sp). lia.
    + lia.
  - destruct (runalive s && closed s) eqn:G; [|discriminate]. injection E as <-.
    apply andb_prop in G. destruct G as [_ G2].
    constructor; cbn [panicked spawned closers closed]; auto.
    + intros Sp. destruct (P2 Sp). congruence.
    + rewrite G2 in P3. exact P3.
Qed.

Lemma pinv_reach c ts s : once_close c = true -> sreach c ts s -> PInv s.
Proof.
  intros O [p E]. assert (I0 : PInv (sinit c ts)) by (constructor; cbn; auto).
  revert I0 E. generalize (sinit c ts). induction p as [|l p IH]; cbn [sexec]; intros s0 I0 E.
  - injection E as <-. exact I0.
  - destruct (sstep c s0 l) as [s1|] eqn:E1; [|discriminate]. eapply IH; [|exact E]. eapply pinv_step; eauto.
Qed.

Lemma never_panics c ts s : once_close c = true -> sreach c ts s -> panicked s = false.
Proof. intros O R. apply (pinv_reach _ _ _ O R). Qed.

(** PROGRESS: once every started process has completed and a wait is in progress, a step of the set's
    own goroutines (watcher, run loop, closer) is enabled until the wait has completed and the
    cease-process-set trace has been emitted *)
Definition internal (l : slabel) : Prop :=
  match l with SWatchThrow _ | SWatchCease _ | SRunThrow | SRunDeliver | SClose | SRunDone => True | _ => False end.

Lemma progress c ts s : good c -> sreach c ts s ->
  Forall (fun p => finished p = true) (procs s) -> (1 <= closers s \/ closed s = true) ->
  (closed s = true /\ ceases s = 1) \/ exists l s', internal l /\ sstep c s l = Some s'.
Proof.
  intros G R F W. pose proof (sinv_reach _ _ _ G R) as I. sinv_fields I. destruct G as [Hs Ha].
  destruct (existsb (fun p => thrown p && negb (fwd p)) (procs s)) eqn:E1.
  { apply existsb_nth in E1. destruct E1 as [i [p [Hp Q]]]. apply andb_prop in Q. destruct Q as [Q1 Q2].
    right. exists (SWatchThrow i). cbn [sstep]. rewrite Hp.
    destruct (Forall_nth _ _ _ _ Hsub Hp) as [S1 _]. pose proof (Forall_nth _ _ _ _ Hdone Hp) as D.
    assert (D' : wdone p = false).
    { destruct (wdone p) eqn:Wd; auto. cbn in D. destruct (D Wd) as [_ D2]. rewrite (D2 Q1) in Q2. discriminate. }
    rewrite S1, Q1, Q2, D'. cbn. eauto. }
  apply existsb_false_Forall in E1.
  destruct (1 <=? mch s) eqn:E2.
  { right. exists SRunThrow. cbn [sstep]. rewrite E2.
    destruct (runalive s) eqn:Ra; cbn; eauto.
    specialize (Hcl (Hrun eq_refl)). apply Nat.leb_le in E2. lia. }
  apply Nat.leb_gt in E2.
  destruct (existsb notdone (procs s)) eqn:E3.
  { apply existsb_nth in E3. destruct E3 as [i [p [Hp Q]]]. unfold notdone in Q. apply negb_true_iff in Q.
    right. exists (SWatchCease i). cbn [sstep]. rewrite Hp.
    destruct (Forall_nth _ _ _ _ Hsub Hp) as [S1 S2]. pose proof (Forall_nth _ _ _ _ F Hp) as Fp. cbn in Fp.
    pose proof (Forall_nth _ _ _ _ E1 Hp) as Tp. cbn in Tp.
    assert (P : 1 <= cnt notdone (procs s)) by (eapply cnt_pos; eauto; unfold notdone; rewrite Q; reflexivity).
    rewrite S1, S2, Fp, Q. cbn [andb negb].
    assert (T : negb (thrown p) || fwd p = true) by (destruct (thrown p), (fwd p); auto).
    rewrite T. assert (L : (1 <=? wg s) = true) by (apply Nat.leb_le; lia). rewrite L. cbn. eauto. }
  apply existsb_false_Forall in E3.
  assert (Z : cnt notdone (procs s) = 0).
  { clear - E3. unfold cnt. induction E3 as [|a l Ha Hl IH]; cbn [filter]; auto. rewrite Ha. exact IH. }
  assert (W0 : wg s = 0) by lia.
  destruct (closed s) eqn:C.
  - destruct (runalive s) eqn:Ra.
    + right. exists SRunDone. cbn [sstep]. rewrite Ra, C. cbn. eauto.
    + left. split; auto. lia.
  - right. exists SClose. cbn [sstep]. destruct W as [W|W]; [|discriminate].
    apply Nat.leb_le in W. rewrite W, W0. cbn. eauto.
Qed.

(** the three pinned defects, as executions of the model with the corresponding flag off *)
Definition pinned_sub : pcfg := {| sub_first := false; once_close := true; add_on_throw := true |}.
Definition pinned_close : pcfg := {| sub_first := true; once_close := false; add_on_throw := true |}.
Definition pinned_throw : pcfg := {| sub_first := true; once_close := true; add_on_throw := false |}.

Definition all_labels (n : nat) : list slabel :=
  flat_map (fun i => [SWatchSub i; SThrow i; SFinish i; SWatchThrow i; SWatchCease i]) (seq 0 n) ++ [SRunThrow; SRunDeliver; SSpawnCloser; SClose; SRunDone].

(* the process completes before its watcher subscribes: the wait group never reaches zero; nothing but
   starting further closers remains enabled, and no wait ever completes *)
Lemma refuted_subscribe_late :
  exists s, sexec pinned_sub (sinit pinned_sub [false]) [SFinish 0; SWatchSub 0; SSpawnCloser] = Some s /\
    closed s = false /\ Forall (fun p => finished p = true) (procs s) /\
    forallb (fun l => match sstep pinned_sub s l with Some _ => false | None => true end) (all_labels 1) = true.
Proof. eexists. split; [vm_compute; reflexivity|]. vm_compute. repeat split; auto. Qed.

Lemma refuted_double_close :
  exists s, sexec pinned_close (sinit pinned_close [false]) [SFinish 0; SWatchCease 0; SSpawnCloser; SSpawnCloser; SClose; SClose] = Some s /\
    panicked s = true.
Proof. eexists. split; vm_compute; reflexivity. Qed.

(* the wait completes between the watcher's hand-off and the run loop's instantiation: it returns
   true while a message flow is still queued; the instantiated process then runs after completion *)
Lemma refuted_early_completion :
  exists s s', sexec pinned_throw (sinit pinned_throw [true]) [SThrow 0; SWatchThrow 0; SFinish 0; SWatchCease 0; SSpawnCloser; SClose] = Some s /\
    closed s = true /\ mch s = 1 /\
    sstep pinned_throw s SRunThrow = Some s' /\ closed s' = true /\ existsb (fun p => negb (finished p)) (procs s') = true.
Proof. eexists. eexists. split; [vm_compute; reflexivity|]. vm_compute. repeat split; auto. Qed.

Example nonvacuous_run :
  exists s, sexec fixedcfg (sinit fixedcfg [true; false])
    [SThrow 0; SWatchThrow 0; SFinish 1; SRunThrow; SFinish 0; SWatchCease 1; SSpawnCloser; SFinish 2; SWatchCease 0; SWatchCease 2; SClose; SRunDone] = Some s /\
    closed s = true /\ ceases s = 1 /\ length (procs s) = 3.
Proof. eexists. split; [vm_compute; reflexivity|]. vm_compute. auto. Qed.

(* ---------------- waking a catch event over a message flow ---------------- *)
Lemma wrun_direct_gen : forall ls s,
  wwoken (fold_left (wstep false) ls s) = wwoken s + wexpected (wlistening s) ls.
Proof.
  induction ls as [|l ls IH]; intros s; cbn [fold_left wexpected]; [lia|].
  destruct l; rewrite IH; cbn [wstep wlistening wwoken].
  - reflexivity.
  - destruct (wannounced s); reflexivity.
  - destruct (wlistening s); cbn; lia.
Qed.

(* handed to the process directly: every throw made while the catch event listens wakes it exactly once, and no other
   throw wakes anything -- whenever the watcher gets round to reading the announcements *)
Theorem direct_wake_exact ls : wwoken (wrun false ls) = wexpected false ls.
Proof. unfold wrun. rewrite wrun_direct_gen. reflexivity. Qed.

(* through the table: the catch event listens, the throw is handled before the watcher has read the announcement -- the
   message is lost *)
Lemma refuted_wake_through_the_table :
  wwoken (wrun true [WListen; WThrow; WRegister]) = 0 /\ wexpected false [WListen; WThrow; WRegister] = 1 /\
  wwoken (wrun true [WListen; WRegister; WThrow]) = 1.
Proof. repeat split. Qed.
