#!/bin/bash
cd /verif/coq && coq_makefile -f _CoqProject $(find Lib Model Proofs Properties Gen Corr -name '*.v' | sort) -o Makefile >/dev/null; rm -f .vfiles
