(** C02 — completion is reported iff all start events fired and no token remains.
    Model: Model/Completion.v — k start events, an abstract token pool guarded by the wait group,
    the completion monitor and any number of WaitUntilComplete callers; every path of the labelled
    transition system is an interleaving (schedule).  [reach c nw s]: s is reachable with nw callers. *)
From BV Require Import Model.Completion Proofs.CompletionProofs Model.StartCount Proofs.StartCountProofs.

(* SAFETY, for every k, every token history, every number of callers and every schedule, in every
   code variant: a wait returns true only when every start event has fired, no token is left and
   the cease-flow trace has been emitted. *)
Theorem C02_safe : forall c nw s w, reach c nw s -> wget s w = WTrue ->
  trig s = k c /\ emitted s = k c /\ tokens s = 0 /\ ceases s = 1.
Proof. exact safe. Qed.
Print Assumptions C02_safe.

(* the cease-flow trace appears at most once, and after it no token activity is possible *)
Theorem C02_cease_once : forall c nw s, reach c nw s -> ceases s <= 1.
Proof. exact cease_at_most_once. Qed.
Print Assumptions C02_cease_once.
Theorem C02_cease_last : forall c nw s l s', reach c nw s -> ceases s = 1 -> env_label l = true ->
  step c s l = Some s' -> False.
Proof. exact nothing_after_cease. Qed.
Print Assumptions C02_cease_last.

(* LIVENESS (repaired code): when every start event has fired and the last token is gone, nothing
   but the monitor can move, each of its steps is enabled and decreases a measure bounded by k+1,
   so completion is reached within k+1 monitor steps on every schedule ... *)
Theorem C02_env_quiet : forall c nw s l s', reach c nw s -> quiescent c s -> env_label l = true ->
  step c s l = Some s' -> False.
Proof. exact env_quiet. Qed.
Print Assumptions C02_env_quiet.
Theorem C02_monitor_progress : forall c nw s, sub_first c = true -> reach c nw s -> quiescent c s ->
  mon s <> MDone -> mon s <> MNone ->
  exists l s', monitor_label l = true /\ step c s l = Some s' /\ measure c s' < measure c s /\ quiescent c s'.
Proof. exact monitor_progress. Qed.
Print Assumptions C02_monitor_progress.

(* ... and then every waiting caller is served: a free lock can be taken by its helper, a helper
   holding the lock can always finish and releases it (also when its caller has timed out), and a
   live caller whose helper sends returns true. Timed-out waits never poison later ones. *)
Theorem C02_waiter_progress : forall c nw s w, sigbuf c = true -> reach c nw s -> mon s = MDone ->
  (wget s w = WWait \/ wget s w = WGone) ->
  (lock s = None /\ exists s', step c s (LHelperLock w) = Some s') \/
  (exists w' s', lock s = Some (HHelper w') /\ step c s (LHelperSend w') = Some s' /\ lock s' = None).
Proof. exact waiter_progress. Qed.
Print Assumptions C02_waiter_progress.
Theorem C02_helper_send_true : forall c s w s', wget s w = WHeld -> step c s (LHelperSend w) = Some s' ->
  w < length (ws s) -> wget s' w = WTrue.
Proof. exact helper_send_returns_true. Qed.
Print Assumptions C02_helper_send_true.

(* The pinned snapshot violated liveness in two ways (both repaired, see KNOWN_FINDINGS.txt):
   (a) monitor subscribed after the trigger: the start trace can be missed, then the instance is
       never reported complete; *)
Theorem C02_live_refuted_before_fix_a :
  exists s, exec cfg_a (init 1) path_a = Some s /\ quiescent cfg_a s /\ mon s = MCount /\
    (forall l, monitor_label l = true -> step cfg_a s l = None).
Proof. exact refuted_a. Qed.
Print Assumptions C02_live_refuted_before_fix_a.
(* (c) unbuffered signal: after a timed-out wait the helper holds the lock for ever and no later
       caller can return true, on any continuation. *)
Theorem C02_live_refuted_before_fix_c :
  exists s, exec cfg_c (init 2) path_c = Some s /\ quiescent cfg_c s /\ mon s = MDone /\
    lock s = Some (HHelper 0) /\ wget s 0 = WGoneHeld /\ wget s 1 = WWait /\
    forall p s1, exec cfg_c s p = Some s1 -> lock s1 = Some (HHelper 0) /\ wget s1 1 <> WTrue.
Proof.
  destruct refuted_c as [s [E [Q [M [L [W0 W1]]]]]]. exists s.
  split; [exact E|]. split; [exact Q|]. split; [exact M|]. split; [exact L|]. split; [exact W0|]. split; [exact W1|].
  intros p s1 H. eapply refuted_c_forever; eauto.
  - apply (inv_reach cfg_c 2). exists path_c. exact E.
  - rewrite W1. discriminate.
Qed.
Print Assumptions C02_live_refuted_before_fix_c.

(* WHICH start events the monitor counts (Model/StartCount.v): the traces of the inner start events of sub-processes pass
   through the container's stream too, and a start event may be started twice. The monitor that counts the
   container's own start events, each once, leaves its first phase exactly when every one of them has fired -- for every
   trace, whatever foreign or repeated start traces it contains, in whatever order (the engine's answers are replayed
   against this function: Corr.C02corr c02_start_mismatches) ... *)
Theorem C02_all_start_events_means_all_own : forall kk tr, phase_one_done true kk tr = all_fired kk tr.
Proof. exact phase_one_iff_all_fired. Qed.
Print Assumptions C02_all_start_events_means_all_own.

(* ... the monitor that counts every start-event trace it sees does not (the pinned code, repaired by /repo 33ad8e4): two
   start events, the first leads into a sub-process, or is started twice *)
Theorem C02_counting_every_start_trace_refuted :
  phase_one_done false 2 [Own 0; Foreign 0] = true /\ all_fired 2 [Own 0; Foreign 0] = false /\
  phase_one_done false 2 [Own 0; Own 0] = true /\ all_fired 2 [Own 0; Own 0] = false.
Proof. exact refuted_counting_every_trace. Qed.
Print Assumptions C02_counting_every_start_trace_refuted.

Example C02_nonvacuous :
  let c := {| k := 2; sub_first := true; sigbuf := true |} in
  exists s, exec c (init 2)
    [LCreate; LTrig; LTrig; LEmit; LCall 0; LEmit; LSee; LFork; LSee; LTimeout 0; LDie; LDie; LDie;
     LWaitDone; LCall 1; LHelperLock 0; LHelperSend 0; LHelperLock 1; LHelperSend 1] = Some s /\
    wget s 1 = WTrue /\ wget s 0 = WGoneDone /\ ceases s = 1 /\ lock s = None.
Proof. eexists. split; [vm_compute; reflexivity|]. vm_compute. auto. Qed.
