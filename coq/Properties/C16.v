(** C16 — values survive storage unchanged; no value or declaration makes the value layer panic.
    Model: Model/Value.v (ValueFrom / ValueFor of schema/schema_item.go). *)
From BV Require Import Model.Value Proofs.ValueProofs Model.Store Proofs.StoreProofs Model.Scopes Proofs.ScopesProofs Gen.Facts.
Open Scope Z_scope.

(* No dynamic value under any declared item type (or none) panics — for the code as repaired. *)
Theorem C16_no_panic : forall declared v, value_from declared v <> Panic.
Proof. exact no_panic. Qed.
Print Assumptions C16_no_panic.

(* The pinned snapshot did panic: witnesses (replayed on the implementation, repaired by the
   two "fix:" commits recorded in KNOWN_FINDINGS.txt). *)
Theorem C16_no_panic_refuted_before_fix :
  value_from_old TNone (VUint 5) = Panic /\ value_from_old TArray VNil = Panic /\
  value_from_old TObject VNil = Panic.
Proof. repeat split. Qed.
Print Assumptions C16_no_panic_refuted_before_fix.

(* Scalars of every integer width (signed and unsigned), floats, strings, booleans come back
   unchanged with the matching item type; a pointer behaves like the value it points to. *)
Theorem C16_scalars : forall z f s b,
  roundtrip TNone (VInt z) = Some (TInteger, CInt z) /\
  roundtrip TNone (VUint z) = Some (TInteger, CInt z) /\
  roundtrip TNone (VFloat f) = Some (TFloat, CFlt f) /\
  roundtrip TNone (VStr s) = Some (TString, CStr s) /\
  roundtrip TNone (VBool b) = Some (TBoolean, CBool b).
Proof. intros. repeat split. Qed.
Print Assumptions C16_scalars.

Theorem C16_pointer : forall v, match v with VPtr _ | VNilPtr => False | _ => True end ->
  roundtrip TNone (VPtr v) = roundtrip TNone v.
Proof. exact rt_ptr. Qed.
Print Assumptions C16_pointer.

(* Slices, maps and structs of any nesting come back as their exact canonical form (numbers as
   float64 of the same value) provided they are JSON-encodable and every nested integer is
   exactly representable as a float64 (|z| <= 2^53). *)
Theorem C16_slice : forall l, encodable (VSlice l) = true -> small (VSlice l) = true ->
  roundtrip TNone (VSlice l) = Some (TArray, exact (VSlice l)).
Proof. exact rt_slice. Qed.
Print Assumptions C16_slice.
Theorem C16_map : forall l, encodable (VMap l) = true -> small (VMap l) = true ->
  roundtrip TNone (VMap l) = Some (TObject, exact (VMap l)).
Proof. exact rt_map. Qed.
Print Assumptions C16_map.
Theorem C16_struct : forall l, encodable (VStruct l) = true -> small (VStruct l) = true ->
  roundtrip TNone (VStruct l) = Some (TObject, exact (VStruct l)).
Proof. exact rt_struct. Qed.
Print Assumptions C16_struct.

(* The full statement (every integer within the signed 64-bit range, also when nested) is FALSE
   of the faithful model: a nested integer beyond 2^53 is decoded as a float64 and changes.
   Witness replayed on the implementation; recorded as an open finding. *)
Theorem C16_nested_int_refuted :
  exists z, - 2 ^ 63 <= z < 2 ^ 63 /\
    roundtrip TNone (VSlice [VInt z]) <> Some (TArray, exact (VSlice [VInt z])).
Proof. exists (2 ^ 62 + 1). split; [lia|]. vm_compute. discriminate. Qed.
Print Assumptions C16_nested_int_refuted.

(* ISOLATION. Variables are kept as a table from names to pointers to stored values (Model/Store.v); snapshots
   (CloneVariables), merged locators, a caller's own value handed in through a reused option, and the locators of other
   instances made from that option all share such pointers. With a SetVariable that points the name at another value
   (the variant the sources show: src_setvariable_replaces, read off pkg/data/impl.go on every run) every holder of a
   table reads what it read before, whatever is written afterwards, to which locator and how often ... *)
Open Scope nat_scope.
Theorem C16_holders_keep_their_values : forall h ts ws o n, wf h o ->
  read (fst (writes (negb src_setvariable_replaces) (h, ts) ws)) o n = read h o n.
Proof. exact observers_keep_their_values. Qed.
Print Assumptions C16_holders_keep_their_values.

(* ... while the write itself takes effect where it was made and nowhere else *)
Theorem C16_a_write_reads_back : forall h ts i n v t, nth_error ts i = Some t -> wf h t ->
  exists t', nth_error (snd (write (negb src_setvariable_replaces) (h, ts) (i, n, v))) i = Some t' /\
    read (fst (write (negb src_setvariable_replaces) (h, ts) (i, n, v))) t' n = Some v /\
    (forall m, m <> n -> read (fst (write (negb src_setvariable_replaces) (h, ts) (i, n, v))) t' m = read h t m) /\
    (forall j, j <> i -> nth_error (snd (write (negb src_setvariable_replaces) (h, ts) (i, n, v))) j = nth_error ts j).
Proof. exact a_write_reads_back. Qed.
Print Assumptions C16_a_write_reads_back.

(* with a SetVariable that overwrites the stored value of a bound name it is not so: x := 7, snapshot, x := 41 --
   the snapshot reads 41 *)
Theorem C16_isolation_refuted_with_writes_in_place :
  let '(h1, t1) := set_var true [] [] 0 7 in
  let snapshot := t1 in
  let '(h2, _) := set_var true h1 t1 0 41 in
  read h1 snapshot 0 = Some 7 /\ read h2 snapshot 0 = Some 41.
Proof. exact refuted_in_place. Qed.
Print Assumptions C16_isolation_refuted_with_writes_in_place.

(* ONE STORE PER INSTANCE (Model/Scopes.v). The process and its embedded sub-processes, however deep, read and write
   through one locator (the variant the sources show: src_subprocess_shares_the_locator, read off newSubProcess on every
   run): after any history of writes made from any scopes, a value stored from scope s is what EVERY scope s' reads
   under that name, and no other name changes for anybody. *)
Theorem C16_a_value_stored_in_any_scope_is_read_in_every_scope : forall st ws s n v s', wf0 st ->
  let sh := src_subprocess_shares_the_locator in let ip := negb src_setvariable_replaces in
  sread sh (swrite sh ip (swrites sh ip st ws) (s, n, v)) s' n = Some v /\
  forall m, m <> n ->
    sread sh (swrite sh ip (swrites sh ip st ws) (s, n, v)) s' m = sread sh (swrites sh ip st ws) s' m.
Proof. exact one_store. Qed.
Print Assumptions C16_a_value_stored_in_any_scope_is_read_in_every_scope.

(* with a locator per scope (a merged copy made when the instance is built) it is not so: what the process stores is
   not read inside the sub-processes and the other way round -- C16_holders_keep_their_values turned against the engine *)
Theorem C16_one_store_refuted_with_a_locator_per_scope :
  let st := swrites false false ([], [[]; []; []]) [(0, 1, 7); (2, 2, 9)] in
  sread false st 0 1 = Some 7 /\ sread false st 1 1 = None /\ sread false st 2 1 = None /\
  sread false st 2 2 = Some 9 /\ sread false st 0 2 = None.
Proof. exact refuted_with_a_locator_per_scope. Qed.
Print Assumptions C16_one_store_refuted_with_a_locator_per_scope.

Example C16_scopes_nonvacuous :
  wf0 ([], [[]]) /\
  let st := swrites true false ([], [[]]) [(0, 1, 7); (2, 2, 9); (1, 1, 8)] in
  map (fun s => (sread true st s 1, sread true st s 2)) [0; 1; 2; 3] = repeat (Some 8, Some 9) 4.
Proof. split; [exists []; split; [reflexivity|intros n l H; discriminate H]|vm_compute; reflexivity]. Qed.

Example C16_store_nonvacuous :
  let s := writes false ([], [[]; []]) [(0, 1, 7); (1, 1, 8); (0, 2, 9); (0, 1, 41)] in
  map (fun t => (read (fst s) t 1, read (fst s) t 2)) (snd s) = [(Some 41, Some 9); (Some 8, None)].
Proof. vm_compute. reflexivity. Qed.
Close Scope nat_scope.

Example C16_nonvacuous :
  roundtrip TNone (VMap [(1%N, VSlice [VInt 7; VStr (SLit 3); VPtr (VBool true)]); (2%N, VStruct [(5%N, VFloat (FId 9))])])
  = Some (TObject, CObj [(1%N, CArr [CFlt (FInt 7); CStr (SLit 3); CBool true]); (2%N, CObj [(5%N, CFlt (FId 9))])]).
Proof. vm_compute. reflexivity. Qed.
