(** C11 — events reach every listening catch event exactly once and delivery never blocks.
    Model: Model/Inbox.v — a catch event as a function of its FIFO message sequence (arming requests
    of arriving tokens and delivered events), and delivery to listeners with bounded inboxes. *)
From BV Require Import Model.Inbox Proofs.InboxProofs Model.Arming Proofs.ArmingProofs Model.Catch Proofs.CatchProofs Model.EventTree Proofs.EventTreeProofs Model.EventTreeFlow Proofs.EventTreeFlowProofs Gen.Facts.

(* EXACTLY ONCE — for every message history of a listener: every token that armed it has either
   continued exactly once or is still waiting ... *)
Theorem C11_conserve : forall pat msgs, conts (lrun pat msgs) + waiting (lrun pat msgs) = arms msgs.
Proof. exact conserve. Qed.
Print Assumptions C11_conserve.
(* ... and those still waiting are exactly the tokens that arrived after the last matching event:
   every token that was listening when a matching event was delivered has continued. *)
Theorem C11_waiting_after_last : forall pat msgs, waiting (lrun pat msgs) = arms (after_last pat msgs []).
Proof. exact waiting_after_last. Qed.
Print Assumptions C11_waiting_after_last.

(* NON-MATCHING events do not react, wherever they occur in the history *)
Theorem C11_nonmatching_inert : forall pat e, e <> pat -> forall msgs s,
  fold_left (lhandle pat) (filter (fun m => match m with Some x => negb (x =? e) | None => true end) msgs) s
  = fold_left (lhandle pat) msgs s.
Proof. exact nomatch_removable. Qed.
Print Assumptions C11_nonmatching_inert.

(* events delivered while nothing listens are DROPPED without effect on later listeners *)
Theorem C11_dropped_when_idle : forall pat s e, armed s = false -> lhandle pat s (Some e) = s.
Proof. exact idle_dropped. Qed.
Print Assumptions C11_dropped_when_idle.

(* DELIVERY RETURNS (repaired code) — a delivery is enabled whenever every running listener has a
   free inbox slot; otherwise a listener step is enabled that frees one, and such steps strictly
   decrease the total occupancy: ConsumeEvent returns after at most [occupancy] listener steps,
   whichever nodes have or have not been reached (a node that is not running drops the event). *)
Theorem C11_delivery_enabled : forall e ns,
  (forall n, In n ns -> running n = true -> has_room n = true) -> deliver_all true e ns <> None.
Proof. exact delivery_enabled_when_room. Qed.
Print Assumptions C11_delivery_enabled.
Theorem C11_delivery_progress : forall e ns, (forall n, In n ns -> 0 < cap n) ->
  deliver_all true e ns = None ->
  exists i ns', dstep true ns (DProcess i) = Some ns' /\ occupancy ns' < occupancy ns.
Proof. exact delivery_progress. Qed.
Print Assumptions C11_delivery_progress.

(* The pinned snapshot queued events in the inbox of nodes nobody drains: after three deliveries
   to an instance with a catch event that has not been reached, the fourth blocks for ever. *)
Theorem C11_delivery_returns_refuted_before_fix :
  exists ns, dexec false [unreached] [DDeliver 1; DDeliver 2; DDeliver 1] = Some ns /\
    forall e, dstep false ns (DDeliver e) = None /\ (forall i, dstep false ns (DProcess i) = None).
Proof. exact refuted_blocking. Qed.
Print Assumptions C11_delivery_returns_refuted_before_fix.

Example C11_nonvacuous :
  lrun 1 [Some 1; None; Some 2; None; Some 1; Some 1; None] = {| armed := true; waiting := 1; conts := 2 |}.
Proof. reflexivity. Qed.

(* BOUNDARY EVENTS ARE LISTENERS TOO (Model/Arming.v): the harness opens itself for events before it arms the boundary
   events one after the other — [src_active_before_arm], read off activity.go on every run — so an event delivered the
   moment a boundary event announces that it listens, while the others are still being armed, is forwarded to it:
   for any number of boundary events and any moment of the arming *)
Theorem C11_announced_boundary_listener_gets_its_event : forall n s, areach src_active_before_arm n s -> dropped s = 0.
Proof. exact announced_listener_gets_its_event. Qed.
Print Assumptions C11_announced_boundary_listener_gets_its_event.
Theorem C11_delivery_to_announced_listener_is_forwarded : forall n s i s',
  areach src_active_before_arm n s -> astep src_active_before_arm n s (ADeliver i) = Some s' -> got s' = aupd (got s) i.
Proof. exact delivery_to_announced_is_forwarded. Qed.
Print Assumptions C11_delivery_to_announced_listener_is_forwarded.
(* opened only after the arming (a seeded change): the first listener's event, delivered on its announcement, is dropped *)
Theorem C11_forwarding_refuted_when_opened_after_arming :
  exists s, aexec false 3 (ainit 3) [AArm; ADeliver 0; AArm; AArm; ASetActive] = Some s /\ dropped s = 1 /\ got s = [0; 0; 0].
Proof. exact refuted_active_after_arming. Qed.
Print Assumptions C11_forwarding_refuted_when_opened_after_arming.

(* A BOUNDARY EVENT'S LISTENER STARTS AFRESH WITH EVERY ACTIVATION OF ITS HOST (Model/Catch.v, the message function of
   event_catch.go with the c_owed events of non-interrupting boundary events): whatever happened before a reset, tokens
   that arrive after it wait — none continues — until the next event, which then serves exactly those c_waiting *)
Theorem C11_listener_fresh_after_reset : forall p before n,
  let s := crun p true (before ++ [CReset] ++ repeat CArm n) in
  c_conts s = c_conts (crun p true before) /\ c_waiting s = n /\ c_owed s = 0.
Proof. exact fresh_after_reset. Qed.
Print Assumptions C11_listener_fresh_after_reset.
Theorem C11_event_after_reset_serves_the_waiting : forall p before n,
  c_conts (crun p true (before ++ [CReset] ++ repeat CArm n ++ [CEvent])) = c_conts (crun p true before) + n.
Proof. exact event_after_reset_serves_the_waiting. Qed.
Print Assumptions C11_event_after_reset_serves_the_waiting.
Theorem C11_fresh_start_refuted_when_reset_skips_idle_listeners :
  let ms := [CArm; CEvent; CEvent; CReset; CArm] in
  c_conts (crun true false ms) = 2 /\ c_conts (crun true true ms) = 1 /\ c_waiting (crun true true ms) = 1.
Proof. exact refuted_reset_only_when_waiting. Qed.
Print Assumptions C11_fresh_start_refuted_when_reset_skips_idle_listeners.

(* EVENTS FIND THE CATCH EVENTS INSIDE EMBEDDED SUB-PROCESSES (Model/EventTree.v: the tree of event consumers; the flag
   [src_subprocess_registers] is read off subprocess.go on every run): every catch event, at whatever depth, is reached *)
Theorem C11_every_catch_event_reached_at_any_depth : forall top,
  all_built src_subprocess_registers top -> deliver top = flat_map catches top.
Proof. exact every_catch_event_reached. Qed.
Print Assumptions C11_every_catch_event_reached_at_any_depth.
(* the code as found did not register a sub-process with its parent: nothing inside ever heard of an event (fixed) *)
Theorem C11_delivery_refuted_for_unregistered_subprocesses :
  deliver [ECatch 1; ESub false [ECatch 2; ESub false [ECatch 3]]] = [1] /\
  deliver [ECatch 1; ESub true [ECatch 2; ESub true [ECatch 3]]] = [1; 2; 3].
Proof. exact refuted_unregistered_subprocess. Qed.
Print Assumptions C11_delivery_refuted_for_unregistered_subprocesses.

(* DELIVERY RETURNS THROUGH SUB-PROCESSES (Model/EventTreeFlow.v: the tree of consumers with the listeners' bounded
   inboxes). An embedded sub-process forwards an event to the consumers inside on the goroutine of whoever delivers it
   (the variant the sources show: src_subprocess_forwards_directly, read off subProcess.ConsumeEvent on every run):
   for every tree, at any depth, whatever sub-processes have or have not been entered, a delivery is enabled whenever
   every RUNNING listener has a free inbox slot -- C11_delivery_enabled carried through the tree. *)
Theorem C11_delivery_returns_through_subprocesses : forall e top,
  all_forward_as (negb src_subprocess_forwards_directly) top -> all_roomy top -> tdeliver_all e top <> None.
Proof. exact delivery_returns_through_subprocesses. Qed.
Print Assumptions C11_delivery_returns_through_subprocesses.

(* a sub-process that queues the event in an inbox of its own, emptied by its run loop once a token has entered it:
   the fourth event handed to an instance whose sub-process is not entered yet blocks, although nobody inside listens *)
Theorem C11_delivery_refuted_with_a_queueing_subprocess :
  (exists t, tdeliver_all 5 [TSub true false 3 0 [TCatch idle_catch]] = Some t /\
     exists t', tdeliver_all 5 t = Some t' /\ exists t'', tdeliver_all 5 t' = Some t'' /\ tdeliver_all 5 t'' = None) /\
  tdeliver_all 5 [TSub false false 3 0 [TCatch idle_catch]] = Some [TSub false false 3 0 [TCatch idle_catch]].
Proof. exact refuted_with_a_queueing_subprocess. Qed.
Print Assumptions C11_delivery_refuted_with_a_queueing_subprocess.

Example C11_tree_flow_nonvacuous :
  let l := {| running := true; cap := 2; inbox := [None]; pat_ := 1; st_ := l0 |} in
  let top := [TCatch l; TSub false false 3 0 [TCatch idle_catch; TSub false true 3 0 [TCatch l]]] in
  all_forward_as false top /\ all_roomy top /\
  option_map (map (fun n => length (inbox n))) (option_map (flat_map leaves) (tdeliver_all 1 top)) = Some [2; 0; 2].
Proof. cbn. repeat split; auto. Qed.

