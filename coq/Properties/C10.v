(** C10 — boundary events: interrupting replaces the normal flow, non-interrupting adds.
    Model: Model/Boundary.v — the activity harness as an LTS over any number of entering tokens, any
    boundary events, any schedule of deliveries, listener decisions and answers. *)
From BV Require Import Model.Boundary Proofs.BoundaryProofs Model.Arming Proofs.ArmingProofs Model.Catch Proofs.CatchProofs Model.TokenNumbers Proofs.TokenNumbersProofs Gen.Facts.
Open Scope nat_scope.

(* REPLACES, NOT ADDS — every token that entered left by the normal flow, was withdrawn, or is still
   inside, and the interrupting boundary events continued at most one exception token per withdrawn
   token: no token takes both ways, whatever the order of events, decisions and answers (an answer
   after the withdrawal is not even a step of the token) *)
Theorem C10_interrupting_replaces : forall c specs s, bgood c -> breach c specs s ->
  entered s = normal s + withdrawn s + inside s /\ intr_sum specs (exc s) <= withdrawn s.
Proof. exact replace_not_add. Qed.
Print Assumptions C10_interrupting_replaces.
Theorem C10_single_activation : forall c specs s, bgood c -> breach c specs s -> entered s <= 1 ->
  normal s + intr_sum specs (exc s) <= 1.
Proof. exact single_activation. Qed.
Print Assumptions C10_single_activation.

(* ONCE PER EVENT — per boundary event: exception tokens + listeners still deciding = matching events
   delivered while the activity waited (non-interrupting); at most that many (interrupting) *)
Theorem C10_once_per_event : forall c specs s, bgood c -> breach c specs s -> rel specs (exc s) (inflight s) (matched s).
Proof. exact once_per_event. Qed.
Print Assumptions C10_once_per_event.

(* AFTER COMPLETION — with no token inside, no listener is left waiting (nothing keeps the instance
   from completing) and a delivered event changes nothing; also before the first activation *)
Theorem C10_idle_disarmed : forall c specs s, bgood c -> breach c specs s -> inside s = 0 ->
  armed s = all_false (length specs) /\ forall e, bstep c specs s (BEvent e) = Some s.
Proof. exact idle_disarmed. Qed.
Print Assumptions C10_idle_disarmed.

(* PROGRESS — a listener that got its event can always take its decision *)
Theorem C10_decision_enabled : forall c specs s i, bgood c -> breach c specs s -> 1 <= nth i (inflight s) 0 ->
  exists s', bstep c specs s (BFire i) = Some s'.
Proof. exact fire_enabled. Qed.
Print Assumptions C10_decision_enabled.

(* The pinned snapshot (8d7d701, 69f85e0, 33a28e5 repair the first three) and the intermediate state
   before 4d68ed6 (an event racing with the answer) *)
Theorem C10_completion_refuted_before_fix_listeners_left :
  exists s, bexec b_pinned_listeners [(false, 0)] (binit 1) [BEnter; BAnswer] = Some s /\ inside s = 0 /\ armed s = [true].
Proof. exact refuted_listeners_left. Qed.
Print Assumptions C10_completion_refuted_before_fix_listeners_left.
Theorem C10_replaces_refuted_before_fix_cancel_refused :
  exists s, bexec b_pinned_cancel [(true, 0)] (binit 1) [BEnter; BEvent 0; BFire 0; BAnswer] = Some s /\
    normal s = 1 /\ exc s = [1] /\ entered s = 1.
Proof. exact refuted_both_flows. Qed.
Print Assumptions C10_replaces_refuted_before_fix_cancel_refused.
Theorem C10_once_per_event_refuted_before_fix_no_rearm :
  exists s, bexec b_pinned_rearm [(false, 0)] (binit 1) [BEnter; BEvent 0; BFire 0; BEvent 0] = Some s /\
    exc s = [1] /\ inflight s = [0] /\ matched s = [1] /\ inside s = 1.
Proof. exact refuted_once_only. Qed.
Print Assumptions C10_once_per_event_refuted_before_fix_no_rearm.
Theorem C10_replaces_refuted_before_fix_race :
  exists s, bexec b_no_arbiter [(true, 0)] (binit 1) [BEnter; BEvent 0; BAnswer; BFire 0] = Some s /\
    normal s = 1 /\ exc s = [1] /\ entered s = 1.
Proof. exact refuted_race_both. Qed.
Print Assumptions C10_replaces_refuted_before_fix_race.

Example C10_nonvacuous :
  exists s, bexec b_fixed [(false, 0); (true, 1)] (binit 2)
    [BEvent 0; BEnter; BEvent 0; BFire 0; BEvent 0; BEvent 1; BFire 0; BFire 1; BEvent 0; BEnter; BAnswer] = Some s /\
    normal s = 1 /\ exc s = [2; 1] /\ withdrawn s = 1 /\ entered s = 2 /\ armed s = [false; false].
Proof. exact boundary_nonvacuous. Qed.

(* BOUNDARY EVENTS ARE LISTENERS TOO (Model/Arming.v): the harness opens itself for events before it arms the boundary
   events one after the other — [src_active_before_arm], read off activity.go on every run — so an event delivered the
   moment a boundary event announces that it listens, while the others are still being armed, is forwarded to it:
   for any number of boundary events and any moment of the arming *)
Theorem C10_announced_boundary_listener_gets_its_event : forall n s, areach src_active_before_arm n s -> dropped s = 0.
Proof. exact announced_listener_gets_its_event. Qed.
Print Assumptions C10_announced_boundary_listener_gets_its_event.
Theorem C10_delivery_to_announced_listener_is_forwarded : forall n s i s',
  areach src_active_before_arm n s -> astep src_active_before_arm n s (ADeliver i) = Some s' -> got s' = aupd (got s) i.
Proof. exact delivery_to_announced_is_forwarded. Qed.
Print Assumptions C10_delivery_to_announced_listener_is_forwarded.
(* opened only after the arming (a seeded change): the first listener's event, delivered on its announcement, is dropped *)
Theorem C10_forwarding_refuted_when_opened_after_arming :
  exists s, aexec false 3 (ainit 3) [AArm; ADeliver 0; AArm; AArm; ASetActive] = Some s /\ dropped s = 1 /\ got s = [0; 0; 0].
Proof. exact refuted_active_after_arming. Qed.
Print Assumptions C10_forwarding_refuted_when_opened_after_arming.

(* A BOUNDARY EVENT'S LISTENER STARTS AFRESH WITH EVERY ACTIVATION OF ITS HOST (Model/Catch.v, the message function of
   event_catch.go with the c_owed events of non-interrupting boundary events): whatever happened before a reset, tokens
   that arrive after it wait — none continues — until the next event, which then serves exactly those c_waiting *)
Theorem C10_listener_fresh_after_reset : forall p before n,
  let s := crun p true (before ++ [CReset] ++ repeat CArm n) in
  c_conts s = c_conts (crun p true before) /\ c_waiting s = n /\ c_owed s = 0.
Proof. exact fresh_after_reset. Qed.
Print Assumptions C10_listener_fresh_after_reset.
Theorem C10_event_after_reset_serves_the_waiting : forall p before n,
  c_conts (crun p true (before ++ [CReset] ++ repeat CArm n ++ [CEvent])) = c_conts (crun p true before) + n.
Proof. exact event_after_reset_serves_the_waiting. Qed.
Print Assumptions C10_event_after_reset_serves_the_waiting.
Theorem C10_fresh_start_refuted_when_reset_skips_idle_listeners :
  let ms := [CArm; CEvent; CEvent; CReset; CArm] in
  c_conts (crun true false ms) = 2 /\ c_conts (crun true true ms) = 1 /\ c_waiting (crun true true ms) = 1.
Proof. exact refuted_reset_only_when_waiting. Qed.
Print Assumptions C10_fresh_start_refuted_when_reset_skips_idle_listeners.

(* EACH ANSWER FINDS ITS OWN TOKEN (Model/TokenNumbers.v: the numbers the harness gives the tokens inside an activity):
   whatever the order in which tokens enter and leave, the tokens inside carry pairwise different numbers *)
Theorem C10_tokens_inside_have_distinct_numbers : forall p, NoDup (inside_ (hrun true p)).
Proof. exact numbers_distinct. Qed.
Print Assumptions C10_tokens_inside_have_distinct_numbers.
(* numbered by the count of tokens inside (a seeded change): two inside, the older leaves, a third enters — two tokens
   share a number, one answer goes to the wrong token and the other is lost *)
Theorem C10_distinct_numbers_refuted_when_numbered_by_count :
  inside_ (hrun false [HEnter; HEnter; HLeave 0; HEnter]) = [2; 2] /\ inside_ (hrun true [HEnter; HEnter; HLeave 0; HEnter]) = [2; 3].
Proof. exact refuted_numbered_by_count. Qed.
Print Assumptions C10_distinct_numbers_refuted_when_numbered_by_count.

(* ... and over the whole life of the activity no number is ever issued twice: the answer of a token that an interrupting
   boundary event withdrew long ago can only find nobody ("even if the task is answered afterwards"). Stated for the
   variant the sources show (src_token_counter_never_set_back: the counter is only ever incremented) *)
Theorem C10_numbers_are_never_issued_twice : forall p, NoDup (issued2 (hrun2 (negb src_token_counter_never_set_back) p)).
Proof. exact numbers_never_reused. Qed.
Print Assumptions C10_numbers_are_never_issued_twice.
(* a counter that starts again whenever the activity is empty: enter, withdrawn, enter -- the second token gets the
   number of the withdrawn one, whose late answer is then taken for the second token's *)
Theorem C10_late_answer_refuted_when_the_counter_is_set_back :
  issued2 (hrun2 true [HEnter; HLeave 0; HEnter]) = [1; 1] /\ issued2 (hrun2 false [HEnter; HLeave 0; HEnter]) = [1; 2].
Proof. exact refuted_counter_set_back. Qed.
Print Assumptions C10_late_answer_refuted_when_the_counter_is_set_back.
