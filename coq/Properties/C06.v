(** C06 — event-based gateway: exactly one alternative wins and the instance goes on.
    Model: Model/EventGw.v — n alternatives parked at their catch events, the compare-and-swap in
    the action transformer, the winner's notification of every other alternative over its
    termination channel, events delivered in any order and concurrently (every path = a schedule). *)
From BV Require Import Model.EventGw Proofs.EventGwProofs Model.TermChan Proofs.TermChanProofs Gen.Facts.

(* at most one alternative wins and at most one branch ever continues — any n, any delivery
   sequence, any schedule, both code variants *)
Theorem C06_one_winner : forall b n s, greach b n s ->
  cnt isW (alts s) + cnt isC (alts s) <= 1 /\ conts s <= 1 /\ conts s = cnt isC (alts s).
Proof. exact one_winner. Qed.
Print Assumptions C06_one_winner.

(* repaired code: after the determination, while any alternative is still open some internal step
   is enabled (the winner's notifications never block, every parked loser has its notice) ... *)
Theorem C06_progress : forall n s, greach true n s -> first s = true ->
  (exists i, i < n /\ is_open (aget s i) = true) ->
  exists l s', internal l = true /\ gstep true s l = Some s'.
Proof. exact progress. Qed.
Print Assumptions C06_progress.

(* ... and when none is open any more exactly one branch has continued, exactly once, and every
   other alternative was withdrawn or lost: it never continues *)
Theorem C06_final : forall n s, greach true n s -> first s = true ->
  (forall i, i < n -> is_open (aget s i) = false) ->
  conts s = 1 /\ cnt isC (alts s) = 1 /\
  forall i, i < n -> aget s i = Continued \/ aget s i = Lost \/ aget s i = Withdrawn.
Proof. exact final. Qed.
Print Assumptions C06_final.

(* later deliveries of the losing (or the winning) events have no effect *)
Theorem C06_late_events_inert : forall b s i, aget s i <> Parked -> gstep b s (Deliver i) = Some s.
Proof. exact late_inert. Qed.
Print Assumptions C06_late_events_inert.

(* The pinned snapshot (unbuffered termination channels): two events back to back leave the winner
   blocked in its notification for ever; nothing continues whatever is delivered afterwards.
   Replayed on the implementation; repaired by the "fix:" commit in KNOWN_FINDINGS.txt. *)
Theorem C06_completes_refuted_before_fix :
  exists s, gexec false (ginit 2) path_stuck = Some s /\ aget s 0 = Winner /\ conts s = 0 /\
    (forall l, internal l = true -> gstep false s l = None) /\
    (forall p s1, gexec false s p = Some s1 -> alts s1 = [Winner; Lost] /\ conts s1 = 0).
Proof.
  destruct refuted_unbuffered as [s [E [A [C N]]]]. exists s. repeat split; auto;
  assert (X : s = {| alts := [Winner; Lost]; first := true; tonotify := [1]; boxes := [false; false]; conts := 0 |})
    by (vm_compute in E; inversion E; reflexivity);
  intros; eapply refuted_unbuffered_forever; eauto; rewrite X; reflexivity.
Qed.
Print Assumptions C06_completes_refuted_before_fix.

(* why the determination is one compare-and-swap: split into a load and a store (a seeded change,
   not the code), two simultaneously triggered alternatives both win *)
Theorem C06_one_winner_refuted_with_split_test_and_set :
  exists s, tas_exec {| flag := false; saw := [None; None]; winners := 0 |} [TLoad 0; TLoad 1; TStore 0; TStore 1] = Some s /\ winners s = 2.
Proof. exact refuted_split_test_and_set. Qed.
Print Assumptions C06_one_winner_refuted_with_split_test_and_set.

(* THE OTHERS ARE WITHDRAWN WHENEVER THEY GET TO THEIR SELECT (Model/TermChan.v: the table of termination
   channels; EventGw.v above assumes a parked alternative holds its channel — this is why it does): in the repaired
   code no alternative is ever left in its select without a channel, and once the determination is made every
   other alternative can receive its notice, whether the scheduler ran it before the winner or only afterwards *)
Theorem C06_no_alternative_without_channel : forall n s, treach false n s -> forall j, tget s j <> Deaf.
Proof. exact never_deaf. Qed.
Print Assumptions C06_no_alternative_without_channel.
Theorem C06_every_other_alternative_withdrawable : forall n s i j,
  treach false n s -> winner s = Some i -> j < n -> j <> i ->
  exists p s', length p <= 2 /\ texec false s p = Some s' /\ tget s' j = Noticed.
Proof. exact all_withdrawable. Qed.
Print Assumptions C06_every_other_alternative_withdrawable.
(* the code as found replaced the table when the winner was determined: an alternative that reached its select
   afterwards found no channel and stayed, for good, until its own event (genuine defect, fixed) *)
Theorem C06_withdrawal_refuted_when_the_table_is_replaced :
  exists s, texec true (tinit 2) [Determine 0; Look 1] = Some s /\ tget s 1 = Deaf /\
            forall p s', texec true s p = Some s' -> tget s' 1 = Deaf.
Proof. exact refuted_table_swapped. Qed.
Print Assumptions C06_withdrawal_refuted_when_the_table_is_replaced.

(* THE VARIANT THE SOURCES SHOW (facts read off gateway_event_based.go on every run, harness/protocol.go): the
   termination channels are buffered, the table is not replaced inside the function literals, the determination is one
   compare-and-swap — the theorems above, stated for exactly that variant *)
Theorem C06_progress_for_the_source_variant : forall n s, greach (0 <? src_termchan_capacity) n s -> first s = true ->
  (exists i, i < n /\ is_open (aget s i) = true) ->
  exists l s', internal l = true /\ gstep (0 <? src_termchan_capacity) s l = Some s'.
Proof. exact C06_progress. Qed.
Print Assumptions C06_progress_for_the_source_variant.
Theorem C06_no_alternative_without_channel_for_the_source_variant :
  forall n s, treach (negb src_termchan_table_kept) n s -> forall j, tget s j <> Deaf.
Proof. exact never_deaf. Qed.
Print Assumptions C06_no_alternative_without_channel_for_the_source_variant.
Theorem C06_determination_is_one_compare_and_swap : src_determination_is_cas = true.
Proof. reflexivity. Qed.
Print Assumptions C06_determination_is_one_compare_and_swap.

(* SEVERAL TOKENS BEHIND ONE GATEWAY AT THE SAME TIME (k activations of one node, n alternatives each, the steps of
   all of them scheduled in any order): with a flag per activation every activation is a gateway of its own, so all
   of the above holds of each of them — at most one winner, one continuation ... *)
Theorem C06_one_winner_per_activation : forall b k n s, mreach true b k n s ->
  length (acts s) = k /\ forall a g, nth_error (acts s) a = Some g ->
    greach b n g /\ cnt isW (alts g) + cnt isC (alts g) <= 1 /\ conts g <= 1 /\ conts g = cnt isC (alts g).
Proof.
  intros b k n s H. destruct (activations_independent b k n s H) as [HL HR]. split; [exact HL|].
  intros a g Hg. split; [exact (HR a g Hg)|]. exact (one_winner b n g (HR a g Hg)).
Qed.
Print Assumptions C06_one_winner_per_activation.

(* ... and once an activation is decided and none of its alternatives is open any more, exactly one of its branches
   has continued, exactly once *)
Theorem C06_final_per_activation : forall k n s, mreach true true k n s ->
  forall a g, nth_error (acts s) a = Some g -> first g = true ->
  (forall i, i < n -> is_open (aget g i) = false) -> conts g = 1 /\ cnt isC (alts g) = 1.
Proof.
  intros k n s H a g Hg Hf Hc. destruct (activations_independent true k n s H) as [_ HR].
  destruct (final n g (HR a g Hg) Hf Hc) as [A [B _]]. split; assumption.
Qed.
Print Assumptions C06_final_per_activation.

(* with ONE flag for the node it is not so: two activations, one event — the second activation has no winner, its other
   alternative stays parked for ever (the instance never completes) *)
Theorem C06_one_winner_per_activation_refuted_with_a_flag_on_the_node :
  exists s g, mexec false true (minit 2 2) path_shared_flag = Some s /\ nth_error (acts s) 1 = Some g /\ aget g 0 = Lost /\ aget g 1 = Parked /\ cnt isW (alts g) + cnt isC (alts g) = 0 /\ conts g = 0 /\ forall l, internal l = true -> mstep false true s (1, l) = None.
Proof. exact refuted_shared_flag. Qed.
Print Assumptions C06_one_winner_per_activation_refuted_with_a_flag_on_the_node.

(* the variant the sources show: the variable the compare-and-swap decides on is declared inside the case that handles
   one token's arrival *)
Theorem C06_one_winner_per_activation_for_the_source_variant : forall k n s,
  mreach src_determination_flag_per_activation (0 <? src_termchan_capacity) k n s ->
  forall a g, nth_error (acts s) a = Some g ->
    cnt isW (alts g) + cnt isC (alts g) <= 1 /\ conts g <= 1 /\   (first g = true -> (forall i, i < n -> is_open (aget g i) = false) -> conts g = 1).
Proof.
  intros k n s H a g Hg.
  destruct (C06_one_winner_per_activation _ k n s H) as [_ HR]. destruct (HR a g Hg) as [_ [A [B _]]].
  split; [exact A|]. split; [exact B|].
  intros Hf Hc. exact (proj1 (C06_final_per_activation k n s H a g Hg Hf Hc)).
Qed.
Print Assumptions C06_one_winner_per_activation_for_the_source_variant.

Example C06_two_activations_nonvacuous :
  exists s, mexec true true (minit 2 2)
    [(0, Deliver 0); (1, Deliver 0); (0, Cas 0); (1, Cas 0); (0, Notify); (1, Notify); (0, TakeNotice 1); (1, TakeNotice 1);
     (0, Proceed); (1, Proceed)] = Some s /\ map alts (acts s) = [[Continued; Withdrawn]; [Continued; Withdrawn]] /\ map conts (acts s) = [1; 1].
Proof. eexists. split; [vm_compute; reflexivity|]. vm_compute. auto. Qed.

Example C06_nonvacuous :
  exists s, gexec true (ginit 3) [Deliver 1; Deliver 2; Cas 2; Notify; Cas 1; Notify; TakeNotice 0; Proceed; Deliver 0; Deliver 1] = Some s /\
    alts s = [Withdrawn; Lost; Continued] /\ conts s = 1.
Proof. eexists. split; [vm_compute; reflexivity|]. vm_compute. auto. Qed.
