(** C17 — no data race and no panic inside the engine under concurrent use.
    PARTIAL. Proved: (1) the lockset theorem — in every trace that respects mutual exclusion, two
    accesses of different goroutines that both hold a common lock are ordered by happens-before, so a
    variable all of whose accesses hold one common lock, or come from one goroutine, has no data race;
    (2) the fields of the engine's goroutine-owning struct types, as extracted from the current
    sources on every run, satisfy that discipline.  Not proved: that the extraction sees every access
    (it is syntactic: struct fields reached through the receiver, package-level maps, locals captured by
    function literals, and the list of package-level variables that can hold state; aliases and other packages are outside it) — for those, and for panics, the check relies on the
    harness rebuilt with Go's race detector. *)
From BV Require Import Model.Lockset Proofs.LocksetProofs Gen.Facts.
Open Scope nat_scope.

Theorem C17_common_lock_orders : forall tr l i j t t' x x' w w', wf tr -> i < j ->
  nth_error tr i = Some (Acc t x w) -> nth_error tr j = Some (Acc t' x' w') -> t <> t' ->
  holder tr i l = Some t -> holder tr j l = Some t' -> hb tr i j.
Proof. exact common_lock_orders. Qed.
Print Assumptions C17_common_lock_orders.

Theorem C17_lock_discipline_no_race : forall tr x l, wf tr ->
  (forall i t w, nth_error tr i = Some (Acc t x w) -> holder tr i l = Some t) -> ~ race tr x.
Proof. exact lock_discipline_no_race. Qed.
Print Assumptions C17_lock_discipline_no_race.

Theorem C17_owner_discipline_no_race : forall tr x t0,
  (forall i t w, nth_error tr i = Some (Acc t x w) -> t = t0) -> ~ race tr x.
Proof. exact owner_discipline_no_race. Qed.
Print Assumptions C17_owner_discipline_no_race.

(* the current sources: every field of a goroutine-owning struct type synchronises itself, is touched
   by its owner goroutine only, or is touched only by functions locking one and the same mutex *)
Theorem C17_sources_follow_the_discipline : ownership_ok own_fields own_accesses = true.
Proof. exact ownership_holds. Qed.
Print Assumptions C17_sources_follow_the_discipline.

(* ... and every function touching a package-level map of the engine's packages takes the lock it needs
   (a write lock for writing) *)
Theorem C17_package_level_maps_locked : global_maps_ok global_map_accesses = true.
Proof. exact global_maps_hold. Qed.
Print Assumptions C17_package_level_maps_locked.

(* ... and every local variable shared between a function and its function literals that is modified once
   such a literal exists is accessed under a lock, atomically, or synchronises itself *)
Theorem C17_captured_locals_synchronised : captured_ok captured_accesses = true.
Proof. exact captured_hold. Qed.
Print Assumptions C17_captured_locals_synchronised.

(* ... and every run loop is started at most once per value (there is ONE owner goroutine) *)
Theorem C17_one_run_loop_per_value : single_owner_ok run_starts = true.
Proof. exact single_owner_holds. Qed.
Print Assumptions C17_one_run_loop_per_value.

(* ... and the engine's packages hold no package-level state beyond the variables that were looked at one by one
   (Model/Lockset.v reviewed_package_state): nothing else is shared by the instances of one OS process *)
Theorem C17_no_unreviewed_package_level_state : package_state_ok package_level_state = true.
Proof. exact package_state_reviewed. Qed.
Print Assumptions C17_no_unreviewed_package_level_state.

(* without the discipline a race exists (the notion is not vacuous) *)
Theorem C17_race_without_discipline : race [Acc 1 7 true; Acc 2 7 false] 7.
Proof. exact undisciplined_race. Qed.
Print Assumptions C17_race_without_discipline.

Example C17_nonvacuous :
  let tr := [Acq 1 0; Acc 1 7 true; Rel 1 0; Acq 2 0; Acc 2 7 false; Rel 2 0] in wf tr /\ ~ race tr 7.
Proof. exact disciplined_trace. Qed.
