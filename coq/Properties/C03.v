(** C03 — parallel gateway waits for all incoming tokens and emits one token per outgoing flow.
    Model: Model/ParGw.v (distributeFlows + the node's counter/parked list). *)
From BV Require Import Model.ParGw Proofs.ParGwProofs Gen.Facts.
From Coq Require Import NArith.

(* Every outgoing flow is handed out exactly once, in order, for every N >= 1 and M:
   no token is lost or duplicated by the distribution. *)
Theorem C03_partition : forall n m, 1 <= n ->
  concat (map flows_of (distribute n m)) = seq 0 m.
Proof. exact partition. Qed.
Print Assumptions C03_partition.

(* Each of the first min(N-1, M) parked tokens continues on exactly one flow ... *)
Theorem C03_one_each : forall n m i, S i < n -> i < m ->
  nth i (distribute n m) None = Some (i, 1).
Proof. intros. rewrite nth_distribute by lia. apply dist_one_single; auto. Qed.
Print Assumptions C03_one_each.

(* ... the last parked token takes all remaining flows ... *)
Theorem C03_last_rest : forall n m, 1 <= n -> n - 1 < m ->
  nth (n - 1) (distribute n m) None = Some (n - 1, m - (n - 1)).
Proof. intros. rewrite nth_distribute by lia. apply dist_one_last; auto. Qed.
Print Assumptions C03_last_rest.

(* ... and surplus arrivals are consumed (told to complete). *)
Theorem C03_surplus : forall n m i, i < n -> m <= i ->
  nth i (distribute n m) None = None.
Proof. intros. rewrite nth_distribute by lia. apply dist_one_surplus; auto. Qed.
Print Assumptions C03_surplus.

(* Nothing is released before the N-th arrival, whatever tokens arrive. *)
Theorem C03_waits : forall N M a s, cnt s + length a < N ->
  pgw_run N M s a = ({| cnt := cnt s + length a; parked := parked s ++ a |}, repeat [] (length a)).
Proof. exact pgw_wait. Qed.
Print Assumptions C03_waits.

(* The N-th arrival releases exactly [distribute N M] over the parked tokens (arrival order) and
   resets the gateway: what follows behaves like a fresh gateway (re-entry, any number of times). *)
Theorem C03_release : forall N M g rest, 1 <= N -> length g = N ->
  pgw_run N M pgw_init (g ++ rest) =
  (fst (pgw_run N M pgw_init rest),
   repeat [] (N - 1) ++ combine g (distribute N M) :: snd (pgw_run N M pgw_init rest)).
Proof. exact pgw_release. Qed.
Print Assumptions C03_release.

(* Over any arrival sequence: q*N <= k < (q+1)*N arrivals cause exactly q releases and leave
   exactly the last k - q*N tokens parked. *)
Theorem C03_counts : forall N M, 1 <= N -> forall q arr,
  length arr < q * N + N -> q * N <= length arr ->
  releases (snd (pgw_run N M pgw_init arr)) = q /\
  cnt (fst (pgw_run N M pgw_init arr)) = length arr - q * N /\
  parked (fst (pgw_run N M pgw_init arr)) = skipn (q * N) arr.
Proof. exact pgw_counts. Qed.
Print Assumptions C03_counts.

(* The counter as the code keeps it (an integer field of src_join_counter_bits bits that starts again at 0 when the
   gateway fires: both read off gateway_parallel.go on every run) behaves like the unbounded counter of the
   theorems above, over arrival sequences of ANY length, for every gateway with fewer than 2^bits incoming flows. *)
Theorem C03_counter_of_the_source_is_exact : forall N M arr, 1 <= N ->
  (BinNat.N.of_nat N < BinNat.N.pow 2 src_join_counter_bits)%N ->
  pgw_run_w src_join_counter_bits src_join_counter_resets N M pgw_init arr = pgw_run N M pgw_init arr.
Proof. intros N M arr HN Hb. apply (pgw_run_w_exact src_join_counter_bits N M HN Hb arr pgw_init). simpl. lia. Qed.
Print Assumptions C03_counter_of_the_source_is_exact.

(* ... which is not so for a counter that runs on and is looked at modulo the number of incoming flows once it is
   narrow: with 8 bits a join of three releases on its 256th arrival. *)
Theorem C03_running_narrow_counter_refuted : exists N M arr,
  snd (pgw_run_w 8 false N M pgw_init arr) <> snd (pgw_run N M pgw_init arr).
Proof.
  exists 3, 1, (seq 0 256). intro H. apply narrow_running_counter_differs. rewrite H. reflexivity.
Qed.
Print Assumptions C03_running_narrow_counter_refuted.

Example C03_nonvacuous :
  snd (pgw_run 3 2 pgw_init [10; 11; 12; 20; 21; 22; 30]) =
  [[]; []; [(10, Some (0, 1)); (11, Some (1, 1)); (12, None)];
   []; []; [(20, Some (0, 1)); (21, Some (1, 1)); (22, None)]; []].
Proof. vm_compute. reflexivity. Qed.
