(** C13 — timers never fire early and fire exactly as often as their definition says.
    Model: Model/Timer.v (dateTimeTimer, recurringTimer over the mock clock).  A firing log is the
    list of clock values at which the timer delivered a value.  [log_ok lo iv e b F] says:
    the first firing is not before [lo], every firing is strictly before the end bound [e],
    consecutive firings are at least [iv] of clock time apart, and there are at most [b] firings. *)
From BV Require Import Model.Timer Proofs.TimerProofs.
Open Scope Z_scope.

(* Date / duration timer created at any clock value, under ANY sequence of clock jumps
   (forwards or backwards) and cancellation: never before [due], at most once. *)
Theorem C13_oneshot_log : forall due now0 ops,
  log_ok due 0 None (Some 1) (snd (run_from now0 (One due) ops)).
Proof.
  intros. apply run_from_rel; simpl; auto.
  right. simpl. repeat split; auto. intros d Hd; inversion Hd; lia.
Qed.
Print Assumptions C13_oneshot_log.

Theorem C13_oneshot_at_most_once : forall due now0 ops,
  (length (snd (run_from now0 (One due) ops)) <= 1)%nat.
Proof.
  intros. pose proof (log_ok_length _ _ _ _ _ (C13_oneshot_log due now0 ops)). lia.
Qed.
Print Assumptions C13_oneshot_at_most_once.

(* ... and it does fire, exactly once, at the first advance that reaches the due time. *)
Theorem C13_oneshot_fires : forall due pre T post,
  Forall (fun o => match o with Advance x => x < due | Cancel => False end) pre -> due <= T ->
  snd (run (One due) (pre ++ Advance T :: post)) = [T].
Proof. exact one_fires. Qed.
Print Assumptions C13_oneshot_fires.

(* Cycle timer R<reps>/<start>/<interval>[/<end>] (reps < 0 = unbounded), interval > 0, created at
   any clock value, under ANY sequence of clock jumps and cancellation: first firing not before
   start+interval, firings at least one interval apart, all strictly before the end bound, and
   never more than reps firings. *)
Theorem C13_cycle_log : forall start iv e reps now0 ops, 0 < iv ->
  log_ok (start + iv) iv e (if 0 <=? reps then Some reps else None)
         (snd (run_from now0 (CycA start iv e reps) ops)).
Proof.
  intros. apply run_from_rel; simpl; auto.
  right. simpl. repeat split; auto. intros d Hd; inversion Hd; lia.
Qed.
Print Assumptions C13_cycle_log.

Theorem C13_cycle_at_most_n : forall start iv e n now0 ops, 0 < iv ->
  (length (snd (run_from now0 (CycA start iv e (Z.of_nat n)) ops)) <= n)%nat.
Proof.
  intros. pose proof (C13_cycle_log start iv e (Z.of_nat n) now0 ops H) as L.
  replace (0 <=? Z.of_nat n) with true in L by (symmetry; apply Z.leb_le; lia).
  apply log_ok_length in L; lia.
Qed.
Print Assumptions C13_cycle_at_most_n.

(* Exactly n: stepping the clock one interval at a time fires n times and then the timer closes. *)
Theorem C13_cycle_exactly_n : forall iv, 0 < iv -> forall n t reps, reps = Z.of_nat n ->
  fst (run (fst (settle fuel0 t (CycB t iv None reps))) (ticks t iv n)) = Closed /\
  length (snd (run (fst (settle fuel0 t (CycB t iv None reps))) (ticks t iv n))) = n.
Proof. exact cyc_exact. Qed.
Print Assumptions C13_cycle_exactly_n.

(* An armed cycle timer whose clock reaches the due time before the end bound fires at once. *)
Theorem C13_cycle_fires_when_due : forall t iv e reps T,
  0 < iv -> reps <> 0 -> ended e T = false -> t + iv <= T ->
  settle fuel0 T (CycB t iv e reps) =
  (if decr reps =? 0 then Closed else CycB T iv e (decr reps), [T]).
Proof. exact cyc_settle_fire. Qed.
Print Assumptions C13_cycle_fires_when_due.

(* After its last firing (closed) or after cancellation a timer never fires again. *)
Theorem C13_silent_after : forall s ops, dead s -> dead (fst (run s ops)) /\ snd (run s ops) = [].
Proof. exact silent_after. Qed.
Print Assumptions C13_silent_after.

(* Model sanity: with a positive interval the goroutine blocks again after every clock jump
   (the fuel of [settle] is never exhausted). *)
Theorem C13_settles : forall now s, wf s -> blocked now (fst (settle fuel0 now s)).
Proof. exact settle_blocked. Qed.
Print Assumptions C13_settles.

Example C13_nonvacuous :
  run_from 0 (CycA 100 2 (Some 107) 3) [Advance 50; Advance 100; Advance 102; Advance 200] =
    (Closed, [102]) /\
  run_from 0 (CycA 100 2 None 3) [Advance 1000; Advance 1001; Advance 1002; Advance 1003; Advance 1004; Advance 2000] =
    (Closed, [1000; 1002; 1004]) /\
  run_from 0 (One 10) [Advance 9; Advance 10; Advance 11] = (Closed, [10]).
Proof. vm_compute. repeat split. Qed.

(* SEVERAL TIMERS ON ONE CLOCK — every Set of the mock clock serves exactly the pending timers whose due time has been
   reached and keeps exactly the others, whatever the order of registration and however far apart the due times lie *)
Theorem C13_clock_serves_exactly_the_due : forall pending T i,
  In i (fst (clock_set pending T)) <-> exists d, In (i, d) pending /\ d <= T.
Proof. exact clock_serves_exactly_the_due. Qed.
Print Assumptions C13_clock_serves_exactly_the_due.
Theorem C13_clock_keeps_the_rest : forall pending T i d,
  In (i, d) (snd (clock_set pending T)) <-> In (i, d) pending /\ T < d.
Proof. exact clock_keeps_the_rest. Qed.
Print Assumptions C13_clock_keeps_the_rest.
