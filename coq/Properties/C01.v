(** C01 — token flow conforms to BPMN semantics: every enabled activity runs exactly once.
    Model: Model/Blocks.v — the token game of block-structured programs (sequence, parallel,
    exclusive, inclusive with default, do-while loop, task with conditional outgoing flows, embedded
    sub-process, end events inside branches), variables written by the answers steering the conditions. *)
From BV Require Import Model.Blocks Model.Cohort Model.FlowLeave Model.SmallStep Proofs.BlocksProofs Proofs.TokenGameProofs Proofs.FlowLeaveProofs Proofs.SmallStepProofs.
From Coq Require Import Permutation.
Open Scope nat_scope.

(* NEVER SKIPPED WHEN ENABLED / NO DEADLOCK — every state of a run that is not complete (and is not
   a loop that needs no answer and whose condition stays true) has a pending request, or contains a
   parallel block one of whose branches was consumed by an end event (its join waits for ever: the only
   dead end of the game); programs in which no end event sits inside a parallel block never get there *)
Theorem C01_no_deadlock_but_ended_parallel_branch : forall r,
  wfr r -> nospin r -> complete r = false -> pending r = [] -> stuck_par r.
Proof. exact progress_or_stuck. Qed.
Print Assumptions C01_no_deadlock_but_ended_parallel_branch.
Theorem C01_no_deadlock : forall r, wfr r -> nospin r -> okR r -> complete r = false -> pending r <> [].
Proof. exact progress. Qed.
Print Assumptions C01_no_deadlock.
Theorem C01_reachable_states_wellformed : forall e b,
  wfr (start e b) /\ (endsafe b = true -> okR (start e b)) /\
  forall e' r t, (wfr r -> wfr (answer e' r t)) /\ (okR r -> okR (answer e' r t)).
Proof.
  intros e b. split; [apply wfr_start|]. split; [apply okR_start|].
  intros e' r t. split; [apply wfr_answer|apply okR_answer].
Qed.
Print Assumptions C01_reachable_states_wellformed.

(* EXACTLY AS OFTEN AS PRESCRIBED, IN EVERY ORDER, AND THE SAME END EVENTS — for data the answers do not
   change: any run that answers pending requests (in any order, any interleaving of parallel branches)
   until completion answers each task exactly as many times as the data prescribes — never twice for
   one token, never skipped —, reaches exactly the end events the data prescribes, and a token leaves
   the program (reaches its final end event) iff the data prescribes that *)
Theorem C01_every_order_same_requests_and_end_events : forall e b ts l n x,
  exec e b = Some (l, n, x) -> valid_run e (start e b) ts ->
  Permutation l ts /\ Permutation n (ends_start e b ++ run_ends e (start e b) ts) /\
  x = fin (final e (start e b) ts).
Proof. exact order_independent. Qed.
Print Assumptions C01_every_order_same_requests_and_end_events.

(* an answer to a task that is not pending changes nothing (no token moves without its answer) *)
Theorem C01_only_answers_move_tokens : forall e r t, wfr r -> ~ In t (pending r) ->
  answer e r t = r /\ ends_answer e r t = [].
Proof. intros e r t W N. split; [apply answer_not_pending|apply ends_answer_not_pending]; auto. Qed.
Print Assumptions C01_only_answers_move_tokens.

(* EVERY GOROUTINE SCHEDULE — Model/SmallStep.v moves one token past one node at a time, tokens of different branches
   in any interleaving; the game above moves all tokens at once, as far as they get. Nothing is lost: two different
   moves can always be completed to a common state (diamond), so whatever the schedule, once the tokens rest they are
   exactly where [start] / [answer] put them (the data does not change while tokens move: variables are written by
   task answers, and the driver answers when the instance is at rest) *)
Theorem C01_moves_commute : forall e s s1 s2, sstep e s s1 -> sstep e s s2 ->
  s1 = s2 \/ exists s3, sstep e s1 s3 /\ sstep e s2 s3.
Proof. intros e s s1 s2 A B. exact (diamond e s s1 A s2 B). Qed.
Print Assumptions C01_moves_commute.
Theorem C01_every_schedule_same_state_after_start : forall e b q, nospin (start e b) ->
  ssteps e (SAt b) q -> quiescent e q -> q = emb (start e b).
Proof. exact start_schedule_independent. Qed.
Print Assumptions C01_every_schedule_same_state_after_start.
Theorem C01_every_schedule_same_state_after_an_answer : forall e r t q, wfr r -> nospin (answer e r t) ->
  ssteps e (sanswer (emb r) t) q -> quiescent e q -> q = emb (answer e r t).
Proof. exact answer_schedule_independent. Qed.
Print Assumptions C01_every_schedule_same_state_after_an_answer.
Theorem C01_tokens_can_get_there_and_rest : forall e b, nospin (start e b) ->
  ssteps e (SAt b) (emb (start e b)) /\ quiescent e (emb (start e b)).
Proof. intros e b N. split; [apply start_reachable, N|apply emb_rests; [apply wfr_start|exact N]]. Qed.
Print Assumptions C01_tokens_can_get_there_and_rest.

(* sub-processes are transparent to the token game (C12) *)
Theorem C01_subprocess_transparent : forall b e ops, endfree b = true -> behaviour (flatten b) e ops = behaviour b e ops.
Proof. exact inline_equiv. Qed.
Print Assumptions C01_subprocess_transparent.

(* CONDITIONAL FLOWS LEAVING A NODE (flow.go) — for every list of conditions: every flow whose condition
   holds receives exactly one token, no other flow any; the node is never asked again for the same
   token (a task is not requested twice); the token ends there iff no condition holds *)
Theorem C01_conditional_flows_exactly_the_true_ones : forall conds,
  placed (leave false conds) = flowing conds /\ asks_again (leave false conds) = false /\
  NoDup (placed (leave false conds)) /\
  (forall i, In i (placed (leave false conds)) <-> nth_error conds i = Some true) /\
  (leave false conds = Ends <-> forall i, nth_error conds i <> Some true).
Proof. exact leave_places_exactly. Qed.
Print Assumptions C01_conditional_flows_exactly_the_true_ones.
Theorem C01_requested_once_refuted_before_fix :
  leave true [false; true] = Stays [1] /\ asks_again (leave true [false; true]) = true /\
  leave false [false; true] = Continues 1 [].
Proof. exact leave_refuted_first_only. Qed.
Print Assumptions C01_requested_once_refuted_before_fix.

(* OPEN FINDING C01-gateway-nested-in-inclusive, as a theorem about the engine's firing rule
   (Model/Cohort.v: an inclusive gateway fires when every live token tagged like the first arrived one
   has arrived): for the witness program the token game prescribes tasks 1, 2, 3 after the outer fork,
   but the inner fork may not fire — its cohort contains the sibling token — neither at once nor after
   task 3 is answered; the sibling then waits at the outer join: a deadlock.  The harness replays the
   witness on the engine on every run (KNOWN-FINDING line). *)
Theorem C01_conformance_refuted_for_gateways_nested_in_inclusive :
  let b := BIncl 0 1 (BIncl 0 1 (BTask 1) (BTask 2) BSkip) (BTask 3) BSkip in
  let e := [true; true; false; false] in
  pending (start e b) = [1; 2; 3] /\
  Cohort.may_fire Cohort.after_outer_fork 2 0 = false /\ Cohort.may_fire Cohort.after_T3 2 0 = false /\
  Cohort.may_fire Cohort.after_T3 4 1 = false.
Proof. exact nested_inclusive_refuted. Qed.
Print Assumptions C01_conformance_refuted_for_gateways_nested_in_inclusive.

Example C01_nonvacuous :
  let b := BSeq (BPar (BTask 1) (BSub (BIncl 0 1 (BSeq (BTask 2) (BEnd 8)) (BTask 3) (BTask 4)))) (BCond 5 2 (BTask 6) (BSeq (BTask 7) (BEnd 9))) in
  let e := [true; true; false; false] in
  exec e b = Some ([1; 2; 3; 5; 7], [8; 9], false) /\ valid_run e (start e b) [3; 1; 2; 5; 7] /\ valid_run e (start e b) [2; 3; 1; 5; 7]
  /\ run_ends e (start e b) [3; 1; 2; 5; 7] = [8; 9].
Proof. exact order_independent_nonvacuous. Qed.
