(** C07 — cancelling the context stops the instance and leaks nothing.
    Partial: what is proved is (1) the tracer's termination protocol and (2) that the census of
    blocking operations extracted from the current sources is covered; that every goroutine of a
    real instance actually exits is established by the leak harness (goroutine profile per case),
    not by proof — Go's runtime scheduling is outside the model. *)
From BV Require Import Model.Shutdown Proofs.ShutdownProofs Gen.Facts.
Open Scope nat_scope.

(* the tracer closes its subscribers' channels at most once, only after the cancellation, and never
   delivers to a closed channel; a late trace is dropped *)
Theorem C07_tracer_closes_once : forall s, treach s ->
  closes s <= 1 /\ (closes s = 1 -> cancelled s = true) /\ after_close s = 0.
Proof. exact close_once_nothing_after. Qed.
Print Assumptions C07_tracer_closes_once.

(* cancelled and every sender gone: the tracer can finish; sending never blocks *)
Theorem C07_tracer_terminates : forall s, treach s -> cancelled s = true -> senders s = 0 -> finished s = false ->
  exists l s', (l = TSpawnWaiter \/ l = TFinish) /\ tstep s l = Some s'.
Proof. exact shutdown_progress. Qed.
Print Assumptions C07_tracer_terminates.
Theorem C07_send_never_blocks : forall s, exists s', tstep s TSend = Some s'.
Proof. exact send_never_blocks. Qed.
Print Assumptions C07_send_never_blocks.

(* every select of the engine (root package, pkg/tracing) has an alternative that fires on
   cancellation or shutdown; every channel operation outside a select is a listed one (reply channel
   of capacity 1, node inbox, tracer handshake).  Gen/Facts.v is regenerated from the sources on
   every run: a new unguarded blocking operation makes this theorem fail to check. *)
Theorem C07_census_covered : census_covered blocking_ops = true.
Proof. exact census_is_covered. Qed.
Print Assumptions C07_census_covered.

(* ... and every channel such a listed answer is sent on was created with room for it (capacity >= 1 at every
   creation site of a reply channel in the current sources; there are more than 20 of them) *)
Theorem C07_reply_channels_have_room : replies_have_room chan_makes = true /\ 20 <= reply_count chan_makes.
Proof. split; [vm_compute; reflexivity | vm_compute; repeat constructor]. Qed.
Print Assumptions C07_reply_channels_have_room.

Theorem C07_send_blocked_refuted_before_fix :
  exists s, texec tinit [TRegister; TCancel; TSpawnWaiter; TSenderDone; TFinish] = Some s /\ tstep_pinned s TSend = None.
Proof. exact refuted_send_after_finish. Qed.
Print Assumptions C07_send_blocked_refuted_before_fix.

Example C07_nonvacuous :
  exists s, texec tinit [TRegister; TRegister; TSend; TCancel; TSend; TSenderDone; TSpawnWaiter; TSenderDone; TFinish; TSend] = Some s /\
    closes s = 1 /\ delivered s = 2 /\ dropped s = 1.
Proof. eexists. split; [vm_compute; reflexivity|]. vm_compute. auto. Qed.
