(** C12 — an embedded sub-process behaves like its content inlined; the parent continues once.
    Models: Model/Blocks.v (token game of block programs with sub-process wrappers) and
    Model/SubProc.v (the activation protocol of subprocess.go). *)
From BV Require Import Model.Blocks Model.SubProc Proofs.BlocksProofs Proofs.SubProcProofs Model.StartCount Proofs.StartCountProofs Gen.Facts.
From BV Require Model.EventTreeFlow Proofs.EventTreeFlowProofs.
Open Scope nat_scope.

(* INLINE — for every program, every initial data and every sequence of answers (with their
   writes): the pending requests after every answer, completion and the final variables are those of
   the program with the content of every sub-process spliced in place (programs without end events of
   their own: an end event inside a sub-process ends that sub-process only, see C12_inline_needs_endfree) ... *)
Theorem C12_inline : forall b e ops, endfree b = true -> behaviour (flatten b) e ops = behaviour b e ops.
Proof. exact inline_equiv. Qed.
Print Assumptions C12_inline.
(* ... in particular wrapping any block, anywhere (inside parallel branches, loops, other
   sub-processes), in any number of levels changes nothing *)
Theorem C12_wrap_anywhere : forall c n x e ops, endfree (plug c x) = true ->
  behaviour (plug c (wrap n x)) e ops = behaviour (plug c x) e ops.
Proof. exact wrap_anywhere. Qed.
Print Assumptions C12_wrap_anywhere.
Theorem C12_inline_needs_endfree :
  behaviour (BSeq (BSub (BEnd 1)) (BTask 2)) [] [] = ([[2]], false, []) /\
  behaviour (flatten (BSeq (BSub (BEnd 1)) (BTask 2))) [] [] = ([[]], true, []).
Proof. exact inline_needs_endfree. Qed.
Print Assumptions C12_inline_needs_endfree.

(* EXACTLY ONCE, NOT EARLY — in every reachable state of the repaired activation protocol, for any
   number of parent tokens entering (again and again, as in a loop) and any inner forking: every
   token that arrived is queued, in its activation, or has continued exactly once; none continued
   while inner tokens were alive; every activation ran the content *)
Theorem C12_continues_exactly_once : forall c s, spgood c -> spreach c s ->
  arrived s = conts s + queue s + busy s /\ early s = false /\ bodies s + pend_body s = conts s + busy s.
Proof. exact sp_exactly_once. Qed.
Print Assumptions C12_continues_exactly_once.
Theorem C12_idle_all_continued : forall c s, spgood c -> spreach c s -> cur s = None -> queue s = 0 ->
  conts s = arrived s /\ bodies s = arrived s.
Proof. exact sp_idle_all_continued. Qed.
Print Assumptions C12_idle_all_continued.

(* PROGRESS — the parent token leaves once the inner tokens are consumed; a waiting token begins
   when the sub-process is free *)
Theorem C12_progress : forall c s, spgood c -> spreach c s ->
  (cur s = None -> 1 <= queue s -> exists s', spstep c s PBegin = Some s') /\
  (forall a, cur s = Some a -> (entered_body a = true -> tokens a = 0) ->
     exists l s', (l = PStartFlows \/ l = PStartSeen \/ l = PCease \/ l = PContinue) /\ spstep c s l = Some s').
Proof. exact sp_progress. Qed.
Print Assumptions C12_progress.

(* The pinned snapshot: the parent token never left the sub-process (completion reported on the
   wrong tracer); a re-entered sub-process had no monitor; its start events did not flow again. *)
Theorem C12_continues_refuted_before_fix_outer_tracer :
  exists s, spexec sp_pinned_outer spinit [PEnter; PBegin; PStartFlows; PStartSeen; PDie; PCease] = Some s /\
    conts s = 0 /\ arrived s = 1 /\ stuck_for sp_pinned_outer s = true.
Proof. exact sp_refuted_outer. Qed.
Print Assumptions C12_continues_refuted_before_fix_outer_tracer.
Theorem C12_loop_refuted_before_fix_single_monitor :
  exists s, spexec sp_pinned_single spinit
    [PEnter; PBegin; PStartFlows; PStartSeen; PDie; PCease; PContinue; PEnter; PBegin; PStartFlows; PDie] = Some s /\
    conts s = 1 /\ arrived s = 2 /\ stuck_for sp_pinned_single s = true.
Proof. exact sp_refuted_single. Qed.
Print Assumptions C12_loop_refuted_before_fix_single_monitor.
Theorem C12_loop_refuted_before_fix_content_skipped :
  exists s, spexec sp_pinned_norearm spinit
    [PEnter; PBegin; PStartFlows; PStartSeen; PDie; PCease; PContinue; PEnter; PBegin; PStartFlows; PStartSeen; PCease; PContinue] = Some s /\
    conts s = 2 /\ bodies s = 1.
Proof. exact sp_refuted_norearm. Qed.
Print Assumptions C12_loop_refuted_before_fix_content_skipped.

(* not a defect of any committed code: a monitor that keeps what it saw of the start events across
   activations lets the parent continue before the re-entered content has even started *)
Theorem C12_not_early_refuted_with_stale_monitor_state :
  exists s, spexec sp_stale_seen spinit
    [PEnter; PBegin; PStartFlows; PStartSeen; PDie; PCease; PContinue; PEnter; PBegin; PCease; PContinue] = Some s /\
    conts s = 2 /\ bodies s = 1 /\ early s = true.
Proof. exact sp_refuted_stale_seen. Qed.
Print Assumptions C12_not_early_refuted_with_stale_monitor_state.

(* EVERY ACTIVATION WAITS FOR ITS OWN CONTENT TO START (Model/StartCount.v): the monitor of an activation counts the
   sub-process's start events that have fired in a list it makes afresh (the variant the sources show:
   src_monitor_accumulator_is_local) -- whatever the activations before it saw, it leaves its first phase exactly when
   every start event of the sub-process has fired in THIS activation ... *)
Theorem C12_every_activation_waits_for_its_own_starts : forall kk trs tr,
  phase_one_from (carried src_monitor_accumulator_is_local kk trs []) kk tr = all_fired kk tr.
Proof. exact every_activation_waits_for_its_own_starts. Qed.
Print Assumptions C12_every_activation_waits_for_its_own_starts.

(* ... with a list that survives the activation the second activation's monitor is through its first phase before any
   start event has fired (and may report the content complete before a token exists) *)
Theorem C12_own_starts_refuted_when_the_list_survives :
  phase_one_from (carried false 1 [[Own 0]] []) 1 [] = true /\ all_fired 1 [] = false.
Proof. exact refuted_accumulator_survives. Qed.
Print Assumptions C12_own_starts_refuted_when_the_list_survives.

(* TRANSPARENT TO EVENTS (Model/EventTreeFlow.v). Wrapping listeners in embedded sub-processes, to any depth, entered or
   not, changes nothing about a delivery: it blocks or returns, and leaves the listeners' inboxes, exactly as a delivery
   to the flat list of those listeners does -- for the sub-process of the sources, which forwards on the deliverer's
   goroutine (src_subprocess_forwards_directly). The refutation for a sub-process with an inbox of its own is
   C11_delivery_refuted_with_a_queueing_subprocess. *)
Theorem C12_a_sub_process_is_transparent_to_delivery : forall e t,
  EventTreeFlow.forwards_as (negb src_subprocess_forwards_directly) t ->
  option_map EventTreeFlow.leaves (EventTreeFlow.tdeliver e t) = Inbox.deliver_all true e (EventTreeFlow.leaves t).
Proof. exact EventTreeFlowProofs.delivery_through_subprocesses_is_flat. Qed.
Print Assumptions C12_a_sub_process_is_transparent_to_delivery.

Example C12_nonvacuous :
  behaviour (BLoop 3 (BSub (BSeq (BTask 1) (BSub (BPar (BTask 2) (BTask 3)))))) [false; false; false; false]
    [(1, [(3, true)]); (3, []); (2, []); (1, [(3, false)]); (2, []); (3, [])]
  = ([[1]; [2; 3]; [2]; [1]; [2; 3]; [3]; []], true, [false; false; false; false]).
Proof. exact inline_nonvacuous. Qed.
