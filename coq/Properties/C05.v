(** C05 — inclusive gateway: forks on all true conditions, joins only the activated branches.
    Model: Model/InclGw.v (fork choice; join with the tracker's lagging picture of live tokens);
    the spreading of the chosen flows over the parked tokens is C03's distribute. *)
From BV Require Import Model.InclGw Proofs.InclGwProofs Model.InclLag Proofs.InclLagProofs.
From BV Require Import Model.TokenIdentity Proofs.TokenIdentityProofs Gen.Facts.
Open Scope nat_scope.

(* FORK — exactly the non-default flows whose condition is true ... *)
Theorem C05_fork_true_conditions : forall conds dflt l, choose conds dflt = Some (l, false) ->
  l <> [] /\ forall i, In i l <-> nth_error conds i = Some true.
Proof. exact choose_true. Qed.
Print Assumptions C05_fork_true_conditions.
(* ... the default flow alone exactly when none is true; an error (and no token) when there is neither *)
Theorem C05_fork_default : forall conds, (forall i, nth_error conds i <> Some true) ->
  choose conds true = Some ([], true) /\ choose conds false = None.
Proof. exact choose_default. Qed.
Print Assumptions C05_fork_default.
Theorem C05_fork_default_only_then : forall conds dflt l, choose conds dflt = Some (l, true) ->
  l = [] /\ dflt = true /\ forall i, nth_error conds i <> Some true.
Proof. exact choose_default_only. Qed.
Print Assumptions C05_fork_default_only_then.
(* ... and every chosen flow receives exactly one token, however many tokens are parked *)
Theorem C05_fork_one_token_per_flow : forall n ch, 1 <= n ->
  concat (map flows_of (distribute n (ntokens ch))) = seq 0 (ntokens ch).
Proof. exact fork_tokens. Qed.
Print Assumptions C05_fork_one_token_per_flow.

(* JOIN — for every cohort size, every interleaving of arrivals, tokens ending elsewhere and tracker
   catch-up: at most one release per fork activation, and only when no token of the cohort is still on
   its way (never waiting for branches that were not activated: they have no token in the cohort) *)
Theorem C05_join_once_not_early : forall r n s, jreach r n s ->
  released s <= 1 /\ (released s = 1 -> forall j, j < n -> tok s j <> TRun).
Proof. exact join_once_not_early. Qed.
Print Assumptions C05_join_once_not_early.
(* ... and no later than when every token has arrived or ended and the tracker has caught up, which
   it always can *)
Theorem C05_join_not_late : forall n s, jreach true n s ->
  no_running (toks s) = true -> some_arrived (toks s) = true -> caught_up (toks s) (seen_end s) = true -> released s = 1.
Proof. exact join_not_late. Qed.
Print Assumptions C05_join_not_late.
Theorem C05_tracker_catches_up : forall r s i, nth_error (toks s) i = Some TEnd -> nth_error (seen_end s) i = Some false ->
  exists s', jstep r s (JTrack i) = Some s'.
Proof. exact track_enabled. Qed.
Print Assumptions C05_tracker_catches_up.

(* why the gateway must re-read the picture on tracker notifications (a seeded variant, not the code) *)
Theorem C05_not_late_refuted_without_refresh :
  exists s, jexec false (jinit 2) [JArrive 0; JEnd 1; JTrack 1] = Some s /\
    no_running (toks s) = true /\ some_arrived (toks s) = true /\ caught_up (toks s) (seen_end s) = true /\ released s = 0 /\
    forallb (fun l => match jstep false s l with Some _ => false | None => true end)
            [JArrive 0; JArrive 1; JEnd 0; JEnd 1; JTrack 0; JTrack 1] = true.
Proof. exact refuted_no_refresh. Qed.
Print Assumptions C05_not_late_refuted_without_refresh.

(* WHAT THE JOIN THEOREMS ABOVE ASSUME, made explicit (Model/InclLag.v): the tracker learns of a fork activation's tokens
   from the fork's trace, asynchronously. When it knows the whole activation before the first token reaches the join,
   the join lets exactly one token through, exactly when every token of the activation has arrived -- any number of
   tokens, any arrival order ... *)
Theorem C05_join_once_when_the_tracker_knows_the_fork : forall n s, 1 <= n -> lreach true n s ->
  lrel s <= 1 /\ (lrel s = 1 <-> all_arrived (ltoks s) = true).
Proof. exact informed_join_once. Qed.
Print Assumptions C05_join_once_when_the_tracker_knows_the_fork.

(* ... when it does not, it is FALSE of the engine as it is (open finding C05-join-picture-lags, reproduced on the
   implementation by the long loop at full speed): the first token reaches the join before the tracker has processed
   the fork's trace, the join takes it for the only one and lets it through, and the second one as well *)
Theorem C05_join_once_refuted_when_the_fork_is_not_yet_known :
  exists s, lexec (linit false 2) [LArr 0; LArr 1] = Some s /\ lrel s = 2.
Proof. exact refuted_uninformed. Qed.
Print Assumptions C05_join_once_refuted_when_the_fork_is_not_yet_known.

(* A BRANCH TOKEN KEEPS ITS IDENTITY THROUGH ACTIVITIES (Model/TokenIdentity.v). The join goes by the ids of the tokens
   the fork created. A token that leaves an activity with conditional outgoing flows takes the first flow that flows
   (the variant the sources show: src_token_continues_on_the_first_flow_that_flows, read off flow.Start on every run),
   so for every list of conditions: the flows that get a token are exactly the ones whose condition holds; whenever any
   flows, the arriving token [me] is among the tokens going on; and it goes on the first flow that flows (new tokens
   are numbered from [fresh] > me). *)
Theorem C05_a_branch_token_keeps_its_identity_through_activities : forall me fresh conds,
  let b := binding_of src_token_continues_on_the_first_flow_that_flows in
  map fst (leave_ids b me fresh conds) = flowing conds /\
  ((exists i, nth_error conds i = Some true) -> exists i, In (i, me) (leave_ids b me fresh conds)) /\
  (me < fresh -> forall f, In (f, me) (leave_ids b me fresh conds) -> hd_error (flowing conds) = Some f).
Proof. exact the_arriving_token_goes_on. Qed.
Print Assumptions C05_a_branch_token_keeps_its_identity_through_activities.

(* bound to the first flow LISTED, the token ends when that flow does not flow while a later one does, and a token the
   fork knows nothing of (5) arrives at the join in its place *)
Theorem C05_identity_refuted_when_bound_to_the_first_listed_flow :
  leave_ids FirstListedEnds 1 5 [false; true] = [(1, 5)] /\ leave_ids FirstThatFlows 1 5 [false; true] = [(1, 1)] /\
  leave_ids FirstListedEnds 1 5 [true; true] = leave_ids FirstThatFlows 1 5 [true; true].
Proof. exact refuted_when_bound_to_the_first_listed_flow. Qed.
Print Assumptions C05_identity_refuted_when_bound_to_the_first_listed_flow.

Example C05_identity_nonvacuous :
  leave_ids FirstThatFlows 3 7 [false; true; false; true; true] = [(1, 3); (3, 7); (4, 8)] /\
  leave_ids FirstThatFlows 3 7 [false; false] = [].
Proof. vm_compute. split; reflexivity. Qed.

Example C05_tracker_in_time_nonvacuous :
  (exists s, lexec (linit false 2) [LKnow 1; LArr 0; LArr 1] = Some s /\ lrel s = 1) /\
  (exists s, lexec (linit false 2) [LKnow 0; LKnow 1; LArr 1; LArr 0] = Some s /\ lrel s = 1).
Proof. exact catching_up_in_time. Qed.

Example C05_nonvacuous :
  exists s, jexec true (jinit 3) [JEnd 2; JArrive 0; JTrack 2; JArrive 1] = Some s /\ released s = 1 /\
    choose [true; false; true] true = Some ([0; 2], false) /\ choose [false; false] true = Some ([], true) /\ choose [false] false = None.
Proof. exact incl_nonvacuous. Qed.
