(** C04 — exclusive gateway routes each token to exactly one deterministic branch.
    Model: Model/XorGw.v (non-default list, token-side probe, gateway-side decision, probe protocol). *)
From BV Require Import Model.XorGw Proofs.XorGwProofs Model.Wiring Proofs.WiringProofs Gen.Facts.

(* A non-default flow is chosen only if it is the FIRST flow in the gateway's list order
   (default excluded) whose condition is true. *)
Theorem C04_first_true : forall conds dflt i, xor_choose conds dflt = Flow i -> dflt <> Some i ->
  i < length conds /\ nth i conds false = true /\
  forall j, j < i -> dflt <> Some j -> nth j conds false = false.
Proof. exact choose_flow. Qed.
Print Assumptions C04_first_true.

(* The default flow is taken only when no other condition is true (its own condition is ignored). *)
Theorem C04_default : forall conds d, xor_choose conds (Some d) = Flow d ->
  forall j, j < length conds -> j <> d -> nth j conds false = false.
Proof. exact choose_default. Qed.
Print Assumptions C04_default.

(* No flow is taken and the error is raised exactly when there is no default and nothing is true. *)
Theorem C04_error_iff : forall conds dflt, xor_choose conds dflt = Err <->
  dflt = None /\ forall j, j < length conds -> nth j conds false = false.
Proof. exact choose_err. Qed.
Print Assumptions C04_error_iff.

Theorem C04_total : forall conds dflt,
  (exists j, j < length conds /\ nth j conds false = true) \/ dflt <> None ->
  exists i, xor_choose conds dflt = Flow i.
Proof. exact choose_total. Qed.
Print Assumptions C04_total.

(* Independence: for ANY interleaving [ms] of the inbox messages of any number of tokens, what the
   gateway does for token t is what it would do on t's own messages alone. *)
Theorem C04_independent : forall nd dflt t ms tb tb', tb t = tb' t ->
  outs_of t (snd (run nd dflt tb ms)) = snd (run nd dflt tb' (msgs_of t ms)) /\
  fst (run nd dflt tb ms) t = fst (run nd dflt tb' (msgs_of t ms)) t.
Proof. exact projection. Qed.
Print Assumptions C04_independent.

(* One token's protocol (ask, report — rescheduled j times while it precedes the second ask —,
   ask, report) ends in exactly one decision, computed from its own report, and frees its slot. *)
Theorem C04_one_decision : forall nd dflt t r j tb, tb t = None ->
  outs_of t (snd (run nd dflt tb (Ask t :: repeat (Report t r) j ++ [Ask t; Report t r]))) =
  OProbe t :: repeat (ORequeue t r) j ++ [ODecide t (decide nd dflt r)]
  /\ fst (run nd dflt tb (Ask t :: repeat (Report t r) j ++ [Ask t; Report t r])) t = None.
Proof. exact single_token. Qed.
Print Assumptions C04_one_decision.

(* THE TABLE AS THE CODE KEYS IT (handle_k / run_k: the entry of a token is found under a key made from its id, a
   second request stores the channel of whoever made it). Keyed by the id itself -- the variant the sources show,
   src_probing_key_is_the_id: the table is a map[id.Id] indexed with the flow's id as it stands -- the gateway does, for
   every inbox sequence of any number of tokens, exactly what the model of the theorems above does ... *)
Theorem C04_table_keyed_by_the_id_is_exact : forall nd dflt ms,
  snd (run_k (if src_probing_key_is_the_id then (fun t => t) else (fun _ => 0)) nd dflt kempty ms) = snd (run nd dflt empty ms).
Proof.
  intros nd dflt ms. apply run_k_exact; [intros a b H; exact H|apply agree_empty].
Qed.
Print Assumptions C04_table_keyed_by_the_id_is_exact.

(* ... a key made from less than the whole id does not: token 2's request is taken for token 1's second one, token 1's
   report is answered to token 2, token 1 never hears of its decision and token 2 was never probed *)
Theorem C04_independent_refuted_with_a_coarse_key :
  snd (run_k (fun _ => 0) [0; 1] None kempty [Ask 1; Ask 2; Report 1 [1]]) = [OProbe 1; ODecide 2 (Flow 1)] /\
  snd (run [0; 1] None empty [Ask 1; Ask 2; Report 1 [1]]) = [OProbe 1; OProbe 2; ORequeue 1 [1]].
Proof. exact refuted_coarse_key. Qed.
Print Assumptions C04_independent_refuted_with_a_coarse_key.

(* "IN LIST ORDER" MEANS THE NODE'S OWN ORDER (Model/Wiring.v): a gateway's flows are the flows its <outgoing> references
   name, in the order of those references, whatever the order in which the <sequenceFlow> elements are declared -- the
   variant the sources show (src_flows_in_reference_order, read off flow_wiring.go sequenceFlows) ... *)
Theorem C04_flows_come_in_the_listed_order : forall refs decl l,
  resolve src_flows_in_reference_order refs decl = Some l -> l = refs.
Proof. exact listed_order_kept. Qed.
Print Assumptions C04_flows_come_in_the_listed_order.
(* ... collected while walking the declarations they come in the declarations' order *)
Theorem C04_listed_order_refuted_when_collected_in_declaration_order :
  resolve false [2; 1] [1; 2] = Some [1; 2] /\ resolve true [2; 1] [1; 2] = Some [2; 1].
Proof. exact refuted_declaration_order. Qed.
Print Assumptions C04_listed_order_refuted_when_collected_in_declaration_order.

(* THE ANSWER AS THE TOKEN READS IT: the gateway hands a token its decision in a slice that the token reads when it gets
   to run. With a slice of its own for every decision (the variant the sources show, src_answer_slice_is_fresh) a token
   reads what was decided for it last, whatever was decided for other tokens in between ... *)
Theorem C04_a_token_reads_its_own_decision : forall pre t d,
  decided pre t None = Some d -> In (t, d) (seen_ (arun src_answer_slice_is_fresh (pre ++ [ARead t]))).
Proof. intros pre t d H. exact (reads_own_decision _ pre t d eq_refl H). Qed.
Print Assumptions C04_a_token_reads_its_own_decision.
(* ... with one slice that is emptied and filled again: token 1 is told flow 0, token 2 is told flow 1 before token 1
   reads -- token 1 leaves on flow 1 *)
Theorem C04_own_decision_refuted_with_a_shared_slice :
  seen_ (arun false [ADecide 1 0; ADecide 2 1; ARead 1; ARead 2]) = [(2, 1); (1, 1)] /\
  seen_ (arun true [ADecide 1 0; ADecide 2 1; ARead 1; ARead 2]) = [(2, 1); (1, 0)].
Proof. exact refuted_shared_answer_slice. Qed.
Print Assumptions C04_own_decision_refuted_with_a_shared_slice.

Example C04_nonvacuous :
  xor_choose [false; true; true; true] (Some 1) = Flow 2 /\
  xor_choose [false; true; false] (Some 1) = Flow 1 /\
  xor_choose [false; false] None = Err /\
  outs_of 7 (snd (run [0;2] (Some 1) empty
     [Ask 7; Ask 8; Report 8 [1]; Report 7 []; Ask 8; Report 7 []; Ask 7; Report 8 [1]; Report 7 []])) =
  [OProbe 7; ORequeue 7 []; ORequeue 7 []; ODecide 7 (Flow 1)].
Proof. vm_compute. repeat split. Qed.
