(** C20 — generated identifiers never collide.
    Model: Model/Ids.v (serialised sno generator as wrapped by pkg/id, snapshot/restore, fallback). *)
From BV Require Import Model.Ids Proofs.IdsProofs Model.Partitions Proofs.PartitionsProofs Proofs.PartitionsIdsProofs Gen.Facts.
Open Scope Z_scope.

(* distinct field tuples have distinct byte encodings *)
Theorem C20_encode_inj : forall i j,
  0 <= part i < 2 ^ 16 -> 0 <= sq i < 2 ^ 16 -> 0 <= part j < 2 ^ 16 -> 0 <= sq j < 2 ^ 16 ->
  encode i = encode j -> i = j.
Proof. exact encode_inj. Qed.
Print Assumptions C20_encode_inj.

(* One generator, draws serialised (the wrapper's mutex): for EVERY sequence of clock readings —
   repeated values, jumps, regressions — all issued ids are pairwise distinct. *)
Theorem C20_single : forall p clock, NoDup (snd (draws (fresh_gen p) clock)).
Proof. exact single_unique. Qed.
Print Assumptions C20_single.

(* the same from any reachable state, together with everything issued before *)
Theorem C20_single_from : forall clock g L, Inv g L -> NoDup L ->
  NoDup (snd (draws g clock) ++ L) /\ Inv (fst (draws g clock)) (snd (draws g clock) ++ L).
Proof. exact draws_unique. Qed.
Print Assumptions C20_single_from.

(* several generators alive at once: distinct partitions never collide *)
Theorem C20_multi : forall c1 c2 g1 g2 i, gpart g1 <> gpart g2 ->
  In i (snd (draws g1 c1)) -> In i (snd (draws g2 c2)) -> False.
Proof. exact multi_disjoint. Qed.
Print Assumptions C20_multi.

(* SEVERAL GENERATORS OF ONE PROGRAM (Model/Partitions.v). C20_multi needs different partitions. A generator made without
   a snapshot gets the partition the library hands out next -- the engine never picks one (the variant the sources show:
   src_partition_comes_from_the_library, read off pkg/id/sno.go on every run) --, so whatever the program does (any
   number of generators made, their contexts ending at any time, the library's partitions running out: an error, no
   generator) no two generators that were made have the same partition ... *)
Close Scope Z_scope.
Theorem C20_generators_of_one_program_get_different_partitions : forall limit evs i j p q,
  nth_error (parts (prun (psource_of src_partition_comes_from_the_library) limit evs)) i = Some p ->
  nth_error (parts (prun (psource_of src_partition_comes_from_the_library) limit evs)) j = Some q -> i <> j -> p <> q.
Proof. exact two_generators_differ. Qed.
Print Assumptions C20_generators_of_one_program_get_different_partitions.
Open Scope Z_scope.

(* ... hence never issue the same id, whatever their clocks read *)
Theorem C20_generators_of_one_program_never_collide : forall limit evs i j p q g1 g2 c1 c2 x,
  nth_error (parts (prun (psource_of src_partition_comes_from_the_library) limit evs)) i = Some p ->
  nth_error (parts (prun (psource_of src_partition_comes_from_the_library) limit evs)) j = Some q -> i <> j ->
  gpart g1 = Z.of_nat p -> gpart g2 = Z.of_nat q ->
  In x (snd (draws g1 c1)) -> In x (snd (draws g2 c2)) -> False.
Proof. exact program_generators_never_collide. Qed.
Print Assumptions C20_generators_of_one_program_never_collide.

(* with partitions of ended generators handed out again, the third generator gets the partition of the first, which
   may still be drawn from *)
Theorem C20_partitions_refuted_when_recycled :
  parts (prun Recycling 8 [Make; Make; EndOf 0; Make]) = [0; 1; 0]%nat /\
  parts (prun Library 8 [Make; Make; EndOf 0; Make]) = [0; 1; 2]%nat.
Proof. exact refuted_with_recycled_partitions. Qed.
Print Assumptions C20_partitions_refuted_when_recycled.

(* snapshot at a clock value not before the last issued timestamp, restore, continue with a
   clock that does not run behind the snapshot: later output is disjoint from earlier output *)
Theorem C20_restore : forall g L now_s clock, Inv g L -> NoDup L -> hi g <= now_s ->
  Forall (fun r => now_s <= r) clock ->
  NoDup (snd (draws (snapshot g now_s) clock) ++ L).
Proof. exact restore_unique. Qed.
Print Assumptions C20_restore.

(* fallback generator: a strictly increasing counter behind a prefix *)
Theorem C20_fallback : forall p n, NoDup (fallback_ids p n).
Proof. exact fallback_unique. Qed.
Print Assumptions C20_fallback.
Theorem C20_fallback_multi : forall p q n m x, p <> q ->
  In x (fallback_ids p n) -> In x (fallback_ids q m) -> False.
Proof. exact fallback_disjoint. Qed.
Print Assumptions C20_fallback_multi.

(* The pinned snapshot drew from the library's generator WITHOUT serialisation; that code does
   issue duplicates: a two-caller schedule around the time-unit roll-over (replayed on the
   implementation with concurrent draws; repaired by the "fix:" commit in KNOWN_FINDINGS.txt). *)
Theorem C20_unserialised_refuted :
  has_dup (r_out (rrun {| r_hi := 10; r_seq := 7; r_out := [] |} idle idle race_schedule)) = true.
Proof. exact race_duplicates. Qed.
Print Assumptions C20_unserialised_refuted.

Example C20_nonvacuous :
  map (fun i => (ts i, tick i, sq i)) (snd (draws (fresh_gen 7) [5; 5; 5; 9; 3; 3; 4; 9; 10; 2; 12])) =
  [(5, false, 0); (5, false, 1); (5, false, 2); (9, false, 0); (3, true, 0); (3, true, 1); (4, true, 0);
   (9, true, 0); (10, true, 0); (12, true, 0)].
Proof. vm_compute. reflexivity. Qed.
