(** C09 — the trace stream is one total order, the same for all subscribers.
    Model: Model/Tracer.v (the broadcaster's request loop with swap-remove unsubscription). *)
From BV Require Import Model.Tracer Proofs.TracerProofs.

(* For EVERY history of subscribe / unsubscribe / trace requests (any number of subscribers
   joining and leaving at any time), every subscriber's log is exactly the sequence of traces
   taken while it was subscribed: nothing dropped, nothing duplicated, same order for all. *)
Theorem C09_same_order : forall cs s, wf_from [] cs = true ->
  log_of s (logs (run cs)) = spec_log s false cs.
Proof. exact run_spec. Qed.
Print Assumptions C09_same_order.

(* What a subscriber receives does not depend on the other subscribers' joining and leaving. *)
Theorem C09_undisturbed : forall s cs a, spec_log s a (only s cs) = spec_log s a cs.
Proof. exact spec_only. Qed.
Print Assumptions C09_undisturbed.

(* Subscribed once: the log is the contiguous slice of the global sequence between the
   subscription and the unsubscription ... *)
Theorem C09_slice : forall s pre mid post,
  (forall c, In c mid -> c <> Sub s /\ c <> Unsub s) ->
  (forall c, In c pre -> c <> Sub s) -> (forall c, In c post -> c <> Sub s) ->
  spec_log s false (pre ++ Sub s :: mid ++ Unsub s :: post) = traces mid.
Proof. exact spec_once. Qed.
Print Assumptions C09_slice.

(* ... hence passes the infix check the correspondence applies to observed logs. *)
Theorem C09_slice_infix : forall s pre mid post,
  (forall c, In c mid -> c <> Sub s /\ c <> Unsub s) ->
  (forall c, In c pre -> c <> Sub s) -> (forall c, In c post -> c <> Sub s) ->
  is_infix (spec_log s false (pre ++ Sub s :: mid ++ Unsub s :: post))
           (traces (pre ++ Sub s :: mid ++ Unsub s :: post)) = true.
Proof. exact slice_is_infix. Qed.
Print Assumptions C09_slice_infix.

Example C09_nonvacuous :
  let cs := [Sub 1; Tr 10; Sub 2; Tr 11; Sub 3; Tr 12; Unsub 1; Tr 13; Unsub 3; Tr 14; Sub 1; Tr 15] in
  wf_from [] cs = true /\
  log_of 1 (logs (run cs)) = [10; 11; 12; 15] /\ log_of 2 (logs (run cs)) = [11; 12; 13; 14; 15] /\
  log_of 3 (logs (run cs)) = [12; 13] /\ subs (run cs) = [2; 1].
Proof. vm_compute. repeat split. Qed.
