(** C09 — the trace stream is one total order, the same for all subscribers.
    Model: Model/Tracer.v (the broadcaster's request loop with swap-remove unsubscription). *)
From BV Require Import Model.Tracer Proofs.TracerProofs Model.TracerFlow Proofs.TracerFlowProofs Model.TracerEnd Proofs.TracerEndProofs Gen.Facts.

(* For EVERY history of subscribe / unsubscribe / trace requests (any number of subscribers
   joining and leaving at any time), every subscriber's log is exactly the sequence of traces
   taken while it was subscribed: nothing dropped, nothing duplicated, same order for all. *)
Theorem C09_same_order : forall cs s, wf_from [] cs = true ->
  log_of s (logs (run cs)) = spec_log s false cs.
Proof. exact run_spec. Qed.
Print Assumptions C09_same_order.

(* What a subscriber receives does not depend on the other subscribers' joining and leaving. *)
Theorem C09_undisturbed : forall s cs a, spec_log s a (only s cs) = spec_log s a cs.
Proof. exact spec_only. Qed.
Print Assumptions C09_undisturbed.

(* Subscribed once: the log is the contiguous slice of the global sequence between the
   subscription and the unsubscription ... *)
Theorem C09_slice : forall s pre mid post,
  (forall c, In c mid -> c <> Sub s /\ c <> Unsub s) ->
  (forall c, In c pre -> c <> Sub s) -> (forall c, In c post -> c <> Sub s) ->
  spec_log s false (pre ++ Sub s :: mid ++ Unsub s :: post) = traces mid.
Proof. exact spec_once. Qed.
Print Assumptions C09_slice.

(* ... hence passes the infix check the correspondence applies to observed logs. *)
Theorem C09_slice_infix : forall s pre mid post,
  (forall c, In c mid -> c <> Sub s /\ c <> Unsub s) ->
  (forall c, In c pre -> c <> Sub s) -> (forall c, In c post -> c <> Sub s) ->
  is_infix (spec_log s false (pre ++ Sub s :: mid ++ Unsub s :: post))
           (traces (pre ++ Sub s :: mid ++ Unsub s :: post)) = true.
Proof. exact slice_is_infix. Qed.
Print Assumptions C09_slice_infix.

(* NEVER DEADLOCKS (Model/TracerFlow.v: the broadcaster, the senders and the subscribers as goroutines with bounded
   buffers and the unbuffered acknowledgement of an unsubscription). As long as every subscriber reads or is
   unsubscribing -- and an unsubscribing one keeps emptying its own channel, the variant the sources show
   (src_unsubscribe_drains, read off tracer.Unsubscribe) -- the broadcaster is never stuck: whenever a trace is under
   way, an unsubscription is being acknowledged or a sender waits, one of the goroutines involved can make its next
   move. Any number of subscribers, any buffer capacity >= 1, any order of sends, reads and unsubscriptions. *)
Theorem C09_sending_and_leaving_never_deadlock : forall cap k s, 1 <= cap ->
  freach src_unsubscribe_drains cap k s -> nobody_stopped s -> busy s ->
  exists l s', internal_f l = true /\ fstep src_unsubscribe_drains cap s l = Some s'.
Proof. exact never_stuck. Qed.
Print Assumptions C09_sending_and_leaving_never_deadlock.

(* an unsubscribing subscriber that does not empty its channel: its buffer is full, the broadcaster is pushing the next
   trace to it and cannot take its unsubscription; nobody can move and every later sender waits for ever *)
Theorem C09_deadlock_refuted_when_a_leaving_subscriber_does_not_drain :
  exists s, fexec false 1 (finit 1) [FSendReq; FTake; FDeliver; FStartUnsub 0; FSendReq; FTake] = Some s /\
    nobody_stopped s /\ busy s /\ forall l, internal_f l = true -> fstep false 1 s l = None.
Proof. exact refuted_without_draining. Qed.
Print Assumptions C09_deadlock_refuted_when_a_leaving_subscriber_does_not_drain.

(* a subscriber that holds its subscription and stops reading (a goroutine that first waits for something else -- the
   mechanism of several seeded shutdown leaks): the broadcaster stands still behind its full buffer; only the other
   subscriber can still empty what it already has *)
Theorem C09_deadlock_refuted_with_a_subscriber_that_stopped_reading :
  exists s, fexec true 1 (finit 2) [FStop 1; FSendReq; FTake; FDeliver; FDeliver; FSendReq; FTake; FPop 0; FDeliver] = Some s /\
    busy s /\ forall l, internal_f l = true -> fstep true 1 s l = None \/ exists i, l = FPop i /\ i = 0.
Proof. exact refuted_with_a_stopped_subscriber. Qed.
Print Assumptions C09_deadlock_refuted_with_a_subscriber_that_stopped_reading.

(* UNTIL THE LAST SENDER IS DONE (Model/TracerEnd.v). Cancelling the tracer's context does not end the delivery: for
   every history of requests, cancellation and senders finishing, with any subscribers unready at any push, every
   subscriber's log is the sequence of traces taken while it was subscribed, up to the moment the context is cancelled
   AND the last registered sender is done. Stated for the push the sources show (src_push_waits_for_the_subscriber,
   read off tracer.run: a plain send the broadcaster waits in). *)
Theorem C09_delivery_goes_on_until_the_last_sender_is_done : forall n cs s,
  wf_from [] (live n false cs) = true ->
  log_of s (logs (core (erun (mode_of src_push_waits_for_the_subscriber) n cs))) = spec_log s false (live n false cs).
Proof. exact delivery_until_the_last_sender. Qed.
Print Assumptions C09_delivery_goes_on_until_the_last_sender_is_done.

(* a push that is abandoned once the context is cancelled: the slow subscriber 1 loses trace 8, the prompt one has it *)
Theorem C09_delivery_refuted_when_the_push_gives_up_on_cancellation :
  let cs := [ESub 0; ESub 1; ETr 7 [1]; ECancel; ETr 8 [1]; EDone] in
  wf_from [] (live 1 false cs) = true /\
  log_of 0 (logs (core (erun GivesUpOnCancel 1 cs))) = [7; 8] /\
  log_of 1 (logs (core (erun GivesUpOnCancel 1 cs))) = [7] /\
  spec_log 1 false (live 1 false cs) = [7; 8].
Proof. exact refuted_giving_up_on_cancel. Qed.
Print Assumptions C09_delivery_refuted_when_the_push_gives_up_on_cancellation.

(* a push that skips a subscriber whose buffer is full *)
Theorem C09_delivery_refuted_when_the_push_drops_for_an_unready_subscriber :
  let cs := [ESub 0; ESub 1; ETr 7 [1]; ETr 8 []] in
  wf_from [] (live 1 false cs) = true /\
  log_of 0 (logs (core (erun DropsWhenFull 1 cs))) = [7; 8] /\
  log_of 1 (logs (core (erun DropsWhenFull 1 cs))) = [8] /\
  spec_log 1 false (live 1 false cs) = [7; 8].
Proof. exact refuted_dropping_when_full. Qed.
Print Assumptions C09_delivery_refuted_when_the_push_drops_for_an_unready_subscriber.

Example C09_end_nonvacuous :
  let cs := [ESub 0; ETr 7 []; ECancel; ESub 1; ETr 8 [0; 1]; EDone; ETr 9 [1]; EUnsub 0; ETr 10 []; EDone; ETr 11 []; ESub 2] in
  let st := erun Waits 2 cs in
  wf_from [] (live 2 false cs) = true /\ ended st = true /\
  log_of 0 (logs (core st)) = [7; 8; 9] /\ log_of 1 (logs (core st)) = [8; 9; 10] /\ log_of 2 (logs (core st)) = [].
Proof. vm_compute. repeat split. Qed.

Example C09_flow_nonvacuous :
  exists s, fexec true 2 (finit 2) [FSendReq; FSendReq; FTake; FDeliver; FStartUnsub 1; FDeliver; FPop 1; FOffer 1; FAck 1; FTake; FDeliver; FPop 0; FPop 0] = Some s /\
    phase s = TIdle /\ pend s = 0 /\ map mode (subs_ s) = [SReading; SGone] /\ map fill (subs_ s) = [0; 0].
Proof. eexists. split; [vm_compute; reflexivity|]. vm_compute. auto. Qed.

Example C09_nonvacuous :
  let cs := [Sub 1; Tr 10; Sub 2; Tr 11; Sub 3; Tr 12; Unsub 1; Tr 13; Unsub 3; Tr 14; Sub 1; Tr 15] in
  wf_from [] cs = true /\
  log_of 1 (logs (run cs)) = [10; 11; 12; 15] /\ log_of 2 (logs (run cs)) = [11; 12; 13; 14; 15] /\
  log_of 3 (logs (run cs)) = [12; 13] /\ subs (run cs) = [2; 1].
Proof. vm_compute. repeat split. Qed.
