(** C19 — builder output is well-formed, and laid out without overlap.
    Models: Model/Builder.v (ProcessBuilder link/AddActivity/Out), Model/Layout.v (AutoLayout). *)
From BV Require Import Model.Builder Model.Layout Proofs.BuilderProofs Proofs.LayoutProofs.
From BV Require Gen.Facts.
From Coq Require Strings.String.
Open Scope nat_scope.

(* The builder's output is exactly the chain start -> a1 -> ... -> an -> end, for every sequence
   of AddActivity calls ([steps] = (flow id, node id) of each link, the end event included). *)
Theorem C19_chain : forall start steps,
  build start steps = {| nodes := chain_nodes start [] steps; flows := chain_flows start steps |}.
Proof. exact build_closed. Qed.
Print Assumptions C19_chain.

(* ids: the nodes carry exactly the given node ids, the flows the given flow ids (so they are
   unique iff the supplied / generated ids are) *)
Theorem C19_ids : forall start steps,
  map nid (nodes (build start steps)) = start :: map snd steps /\
  map fid (flows (build start steps)) = map fst steps.
Proof. intros. rewrite build_closed. simpl. split; [apply chain_node_ids|apply chain_flow_ids]. Qed.
Print Assumptions C19_ids.

(* both ends of every sequence flow exist and list it among their outgoing / incoming flows *)
Theorem C19_flow_ends : forall start steps g, In g (flows (build start steps)) ->
  exists s t, In s (nodes (build start steps)) /\ In t (nodes (build start steps)) /\
              nid s = fsrc g /\ nid t = ftgt g /\ In (fid g) (nout s) /\ In (fid g) (nin t).
Proof. intros start steps g. rewrite build_closed. simpl. apply chain_flow_ends. Qed.
Print Assumptions C19_flow_ends.

(* the start event has no incoming flow, the end event (last node) no outgoing flow *)
Theorem C19_start_end : forall start steps,
  nin (hd {| nid := 0; nin := [0]; nout := [] |} (nodes (build start steps))) = [] /\
  nout (last (nodes (build start steps)) {| nid := 0; nin := []; nout := [0] |}) = [].
Proof. intros. rewrite build_closed. simpl. split; [apply chain_first_in|apply chain_last_out]. Qed.
Print Assumptions C19_start_end.

(* layout: exactly one shape per flow node *)
Theorem C19_one_shape_per_node : forall c u sy n edges size,
  length (fst (layout_process c u sy n edges size)) = n.
Proof. exact one_shape_per_node. Qed.
Print Assumptions C19_one_shape_per_node.

(* layout: two nodes of one level never get the same row — for EVERY graph *)
Theorem C19_rows_injective : forall n edges u v,
  let lv := levels n edges in let rows := rows_of n edges lv in
  (u < n)%nat -> (v < n)%nat -> u <> v -> getl lv u = getl lv v ->
  (exists r, row_of rows u = Some r) /\ (exists r, row_of rows v = Some r) /\ row_of rows u <> row_of rows v.
Proof. exact rows_injective_per_level. Qed.
Print Assumptions C19_rows_injective.

(* layout: whenever the column gap is at least every node width and the row gap at least every
   node height, no two shapes of a process overlap — for EVERY graph and configuration *)
Theorem C19_no_overlap : forall c sy size n edges u v maxw maxh2,
  let lv := levels n edges in let rows := rows_of n edges lv in
  (u < n)%nat -> (v < n)%nat -> u <> v ->
  (forall w, (w < n)%nat -> (0 <= fst (size w) <= maxw /\ 0 <= snd (size w) <= maxh2)%Z) ->
  (maxw <= colGap c)%Z -> (2 * maxh2 <= rowGap c)%Z ->
  disjoint (shape c sy size lv rows u) (shape c sy size lv rows v).
Proof. exact shapes_disjoint. Qed.
Print Assumptions C19_no_overlap.

(* layout: every edge starts on the right border of its source shape and ends on the left border
   of its target shape (coordinates doubled) *)
Theorem C19_edge_ends : forall s t, (0 <= rh s)%Z -> (0 <= rh t)%Z ->
  on_right_border2 s (hd (0, 0)%Z (waypoints2 s t)) /\
  on_left_border2 t (last (waypoints2 s t) (0, 0)%Z) /\
  (length (waypoints2 s t) = 2 \/ length (waypoints2 s t) = 4)%nat.
Proof. exact waypoints_ends. Qed.
Print Assumptions C19_edge_ends.

(* the documented defaults (generated from schema/builder.go) satisfy the gap hypotheses for the
   generated node size table: re-checked whenever a constant or a size changes in the source *)
Theorem C19_defaults_ok :
  forallb (fun p => ((0 <=? fst (snd p)) && (fst (snd p) <=? Facts.autoLayoutColumnGap) &&
                     (0 <=? snd (snd p)) && (snd (snd p) <=? Facts.autoLayoutRowGap) &&
                     (snd (snd p) <=? Facts.autoLayoutProcessGap) && Z.even (snd (snd p)))%Z)
          ((String.EmptyString, Facts.node_size_default) :: Facts.node_size_table) = true.
Proof. vm_compute. reflexivity. Qed.
Print Assumptions C19_defaults_ok.

Example C19_nonvacuous :
  nodes (build 0 [(100, 1); (101, 2); (102, 3)]) =
  [{| nid := 0; nin := []; nout := [100] |}; {| nid := 1; nin := [100]; nout := [101] |};
   {| nid := 2; nin := [101]; nout := [102] |}; {| nid := 3; nin := [102]; nout := [] |}] /\
  levels 4 [(0,1); (0,2); (1,3); (2,3)] = [0; 1; 1; 2]%nat /\
  rows_of 4 [(0,1); (0,2); (1,3); (2,3)] [0; 1; 1; 2]%nat = [Some 0; Some 0; Some 1; Some 1]%nat.
Proof. vm_compute. repeat split. Qed.
