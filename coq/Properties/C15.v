(** C15 — XML round trip preserves the definitions model.
    Model: Model/Xml.v — the hand-written XML layer of schema/schema.go (namespace prefixes, root
    xmlns declarations, xsi:type of expressions, Go's prefix resolution, text trimming) over
    generic element trees.  The namespace table, the root declarations and the xsi:type literals
    are generated from the source on every run (Gen/Facts.v). *)
From BV Require Import Model.Xml Proofs.XmlProofs.
From BV Require Gen.Facts.

(* Obligations on the generated facts: every prefix written is declared on the root with the
   right namespace, the xsi prefix is declared with the namespace the parser tests for, and the
   parser tells the two expression kinds apart. *)
Theorem C15_facts_ok : facts_ok = true.
Proof. exact facts_hold. Qed.
Print Assumptions C15_facts_ok.

Open Scope string_scope.

(* Round trip of any document tree over the known namespaces: elements, ids and every other
   attribute, references, nesting, expression kind (formal / informal) and text are preserved;
   only surrounding whitespace of text changes. Holds for every trim function. *)
Theorem C15_roundtrip : forall trim t, known t = true ->
  (match t with T px _ _ _ _ _ _ => px = true end) ->
  dec [] ""%string (enc_root trim t) = norm trim t.
Proof. exact roundtrip_root. Qed.
Print Assumptions C15_roundtrip.

(* ... in particular a second round trip changes nothing more when trim is idempotent *)
Theorem C15_roundtrip_inner : forall trim dflt t, known t = true ->
  dec Facts.root_xmlns dflt (enc trim t) = norm trim t.
Proof. exact roundtrip_inner. Qed.
Print Assumptions C15_roundtrip_inner.

(* The pinned snapshot did not declare the xsi prefix: with that declaration removed the formal
   kind of an expression is lost (witness = one sequence flow with a formal condition). *)
Theorem C15_roundtrip_refuted_before_fix :
  let ds := filter (fun d => negb (String.eqb (fst d) (fst Facts.expr_type_attr))) Facts.root_xmlns in
  let t := T true "http://www.omg.org/spec/BPMN/20100524/MODEL" "definitions" [] None ""
             [T true "http://www.omg.org/spec/BPMN/20100524/MODEL" "conditionExpression" [] (Some true) "x > 1" []] in
  known t = true /\ dec [] ""%string (enc_root_with (fun s => s) ds t) <> norm (fun s => s) t.
Proof. split; [vm_compute; reflexivity|vm_compute; discriminate]. Qed.
Print Assumptions C15_roundtrip_refuted_before_fix.

Example C15_nonvacuous :
  let bpmn := "http://www.omg.org/spec/BPMN/20100524/MODEL" in
  let t := T true bpmn "definitions" [("id", "defs")] None ""
             [T true bpmn "process" [("id", "p"); ("isExecutable", "true")] None ""
                [T true bpmn "sequenceFlow" [("id", "f"); ("sourceRef", "a"); ("targetRef", "b")] None ""
                   [T true bpmn "conditionExpression" [] (Some true) "  x > 1 " []];
                 T true bpmn "lane" [("id", "l")] None "" [T false bpmn "flowNodeRef" [] None "a" []]]] in
  known t = true /\ dec [] ""%string (enc_root (fun s => s) t) = norm (fun s => s) t.
Proof. vm_compute. split; reflexivity. Qed.
