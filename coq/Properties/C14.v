(** C14 — (parallel-)multiple catch events account correctly over any history.
    Statements only; proofs are in Proofs/SatisfierProofs.v.
    Model: Model/Satisfier.v (tied to pkg/logic by the correspondence check). *)
From BV Require Import Model.Satisfier Proofs.SatisfierProofs.

(* A catch event that is not parallel-multiple, or has a single definition, fires on every
   matching event (and only on those), remembers nothing. *)
Theorem C14_multiple : forall par n cs h, (par = false \/ n = 1) ->
  fst (run_catch par n cs h) = cs /\
  snd (run_catch par n cs h) =
    map (fun e => match e with Some _ => (true, Some 0) | None => (false, None) end) h.
Proof. exact plain_fires. Qed.
Print Assumptions C14_multiple.

(* Parallel-multiple, n >= 2 definitions: over ANY history, never more firings than the
   least-matched definition has been matched. *)
Theorem C14_upper : forall n h i, 2 <= n -> valid_hist n h -> i < n ->
  fires (snd (run_catch true n [] h)) <= count i h.
Proof. exact par_upper. Qed.
Print Assumptions C14_upper.

(* ... and exactly k firings (and no partial set left over) whenever every definition
   has been matched exactly k times. *)
Theorem C14_balanced : forall n h k, 2 <= n -> valid_hist n h ->
  (forall i, i < n -> count i h = k) ->
  fires (snd (run_catch true n [] h)) = k /\ fst (run_catch true n [] h) = [].
Proof. exact par_balanced. Qed.
Print Assumptions C14_balanced.

(* An event matching no definition changes nothing (catch and throw satisfier) ... *)
Theorem C14_nomatch_inert : forall par n cs,
  satisfy_catch par n cs None = {| s_chains := cs; s_matched := false; s_chain := None |}
  /\ satisfy_throw n cs None = {| s_chains := cs; s_matched := false; s_chain := None |}.
Proof. exact nomatch_inert. Qed.
Print Assumptions C14_nomatch_inert.

(* ... wherever it is inserted in a history. *)
Theorem C14_nomatch_skip : forall par n cs h1 h2,
  fst (run_catch par n cs (h1 ++ None :: h2)) = fst (run_catch par n cs (h1 ++ h2)) /\
  fires (snd (run_catch par n cs (h1 ++ None :: h2))) = fires (snd (run_catch par n cs (h1 ++ h2))).
Proof. exact nomatch_skip. Qed.
Print Assumptions C14_nomatch_skip.

(* The throw-event counterpart is the same function as the parallel catch. *)
Theorem C14_throw_same : forall n cs h, run_throw n cs h = run_catch true n cs h.
Proof. exact run_throw_eq. Qed.
Print Assumptions C14_throw_same.

(* Non-vacuity: a balanced, non-trivial history meets the hypotheses and fires twice. *)
Example C14_nonvacuous :
  let h := [Some 0; Some 0; None; Some 2; Some 1; Some 1; Some 2] in
  valid_hist 3 h /\ (forall i, i < 3 -> count i h = 2) /\
  fires (snd (run_catch true 3 [] h)) = 2.
Proof.
  split; [repeat constructor|]. split; [|vm_compute; reflexivity].
  intros i Hi. destruct i as [|[|[|i]]]; try reflexivity; lia.
Qed.
