(** C18 — a process set reports completion only when every started process has completed, no message
    flow is lost, waits are repeatable, and there is one cease-process-set trace.
    Model: Model/ProcSet.v — watchers, wait group, run loop and closer of process_set.go as an LTS over
    any number of initial processes, any set of throwers, any schedule. *)
From BV Require Import Model.ProcSet Proofs.ProcSetProofs Gen.Facts.
Open Scope nat_scope.

(* SAFETY — in every reachable state of the repaired protocol in which WaitUntilComplete can return
   true: every process ever started (initial or instantiated by a message flow) has emitted its
   cease-flow trace, every throw has been forwarded, no forwarded throw is still queued, and every
   throw was acted on exactly once (instantiated or delivered). *)
Theorem C18_complete_means_all_done : forall c ts s, good c -> sreach c ts s -> closed s = true ->
  Forall (fun p => finished p = true /\ (thrown p = true -> fwd p = true)) (procs s) /\ mch s = 0 /\
  length (procs s) + delivered s = length ts + cnt thrown (procs s).
Proof. exact closed_means_complete. Qed.
Print Assumptions C18_complete_means_all_done.

(* ONE cease-process-set trace, emitted only after completion *)
Theorem C18_one_cease_set : forall c ts s, good c -> sreach c ts s -> ceases s <= 1 /\ (ceases s = 1 -> closed s = true).
Proof. exact one_cease_set. Qed.
Print Assumptions C18_one_cease_set.

(* REPEATABLE waits: however many waits are issued (sequentially or concurrently), the done channel
   is never closed twice *)
Theorem C18_waits_never_panic : forall c ts s, once_close c = true -> sreach c ts s -> panicked s = false.
Proof. exact never_panics. Qed.
Print Assumptions C18_waits_never_panic.

(* PROGRESS — with every started process completed and a wait in progress, the set's own goroutines
   can always take a step until the wait has completed and the cease-process-set trace is out:
   no schedule of process completions, watcher subscriptions and run-loop steps strands a waiter. *)
Theorem C18_progress : forall c ts s, good c -> sreach c ts s ->
  Forall (fun p => finished p = true) (procs s) -> (1 <= closers s \/ closed s = true) ->
  (closed s = true /\ ceases s = 1) \/ exists l s', internal l /\ sstep c s l = Some s'.
Proof. exact progress. Qed.
Print Assumptions C18_progress.

(* The pinned snapshot violated each clause; the witnesses are replayed on the implementation by the
   harness scenarios (repaired by 4a9a0a3, 6109ae0, a48f1c5). *)
Theorem C18_completion_refuted_before_fix_subscribe_late :
  exists s, sexec pinned_sub (sinit pinned_sub [false]) [SFinish 0; SWatchSub 0; SSpawnCloser] = Some s /\
    closed s = false /\ Forall (fun p => finished p = true) (procs s) /\
    forallb (fun l => match sstep pinned_sub s l with Some _ => false | None => true end) (all_labels 1) = true.
Proof. exact refuted_subscribe_late. Qed.
Print Assumptions C18_completion_refuted_before_fix_subscribe_late.

Theorem C18_repeatable_refuted_before_fix_double_close :
  exists s, sexec pinned_close (sinit pinned_close [false]) [SFinish 0; SWatchCease 0; SSpawnCloser; SSpawnCloser; SClose; SClose] = Some s /\
    panicked s = true.
Proof. exact refuted_double_close. Qed.
Print Assumptions C18_repeatable_refuted_before_fix_double_close.

Theorem C18_safety_refuted_before_fix_early_completion :
  exists s s', sexec pinned_throw (sinit pinned_throw [true]) [SThrow 0; SWatchThrow 0; SFinish 0; SWatchCease 0; SSpawnCloser; SClose] = Some s /\
    closed s = true /\ mch s = 1 /\
    sstep pinned_throw s SRunThrow = Some s' /\ closed s' = true /\ existsb (fun p => negb (finished p)) (procs s') = true.
Proof. exact refuted_early_completion. Qed.
Print Assumptions C18_safety_refuted_before_fix_early_completion.

(* "WAKES THE REFERENCED CATCH EVENT, EXACTLY ONCE PER THROW": the catch event announces that it listens, the set's watcher
   reads the announcement some time later, throws come whenever they come. Handed to the process directly -- the variant
   the sources show since /repo 656cb12 (src_wake_is_direct) -- every throw made while the catch event listens wakes it
   exactly once and no other throw wakes anything, for every order of announcements, readings and throws ... *)
Theorem C18_every_throw_at_a_listening_catch_event_wakes_it : forall ls,
  wwoken (wrun (negb src_wake_is_direct) ls) = wexpected false ls.
Proof. exact direct_wake_exact. Qed.
Print Assumptions C18_every_throw_at_a_listening_catch_event_wakes_it.

(* ... through a table that the watcher fills when it reads the announcement (the pinned code): the throw is handled
   before the reading, the message is lost although the catch event listens (reproduced on the implementation under
   load before the repair) *)
Theorem C18_wake_refuted_through_the_table :
  wwoken (wrun true [WListen; WThrow; WRegister]) = 0 /\ wexpected false [WListen; WThrow; WRegister] = 1 /\
  wwoken (wrun true [WListen; WRegister; WThrow]) = 1.
Proof. exact refuted_wake_through_the_table. Qed.
Print Assumptions C18_wake_refuted_through_the_table.

Example C18_nonvacuous :
  exists s, sexec fixedcfg (sinit fixedcfg [true; false])
    [SThrow 0; SWatchThrow 0; SFinish 1; SRunThrow; SFinish 0; SWatchCease 1; SSpawnCloser; SFinish 2; SWatchCease 0; SWatchCease 2; SClose; SRunDone] = Some s /\
    closed s = true /\ ceases s = 1 /\ length (procs s) = 3.
Proof. exact nonvacuous_run. Qed.
