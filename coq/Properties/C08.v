(** C08 — task requests: one effective answer, declared results stored, error modes kept.
    Model: Model/TaskAnswer.v (Do/process protocol, declared-only filtering, error-mode switch). *)
From BV Require Import Model.TaskAnswer Proofs.TaskAnswerProofs.
From BV Require Import Model.TokenNumbers Proofs.TokenNumbersProofs Gen.Facts.
Open Scope nat_scope.

(* FIRST WINS — for every number of callers and every interleaving of their done-checks and sends
   with process(): the answer that takes effect is the first one that was sent. *)
Theorem C08_first_wins : forall blocking sched v, got (drun blocking sched) = Some v ->
  hd_error (sent (drun blocking sched)) = Some v.
Proof. exact first_wins. Qed.
Print Assumptions C08_first_wins.

(* NON-BLOCKING (repaired code) — no caller is ever blocked, whatever the interleaving; a caller
   that passed the check returns at its send; a caller arriving after done returns at once and
   changes nothing. *)
Theorem C08_never_blocked : forall sched i, phase (drun false sched) i <> 3.
Proof. exact never_blocked. Qed.
Print Assumptions C08_never_blocked.
Theorem C08_send_returns : forall s i, phase s i = 1 -> phase (dstep false s (Snd i)) i = 2.
Proof. exact send_returns. Qed.
Print Assumptions C08_send_returns.
Theorem C08_late_caller_inert : forall blocking s i, dn s = true -> phase s i = 0 ->
  let s' := dstep blocking s (Chk i) in
  phase s' i = 2 /\ buf s' = buf s /\ got s' = got s /\ sent s' = sent s.
Proof. exact late_caller_inert. Qed.
Print Assumptions C08_late_caller_inert.

(* The pinned snapshot (blocking send): with three callers the third is blocked for ever.
   Witness replayed on the implementation; repaired by the "fix:" commit in KNOWN_FINDINGS.txt. *)
Theorem C08_nonblocking_refuted_before_fix : forall more,
  phase (fold_left (dstep true) more (drun true stuck_schedule)) 2 = 3.
Proof. exact blocked_forever. Qed.
Print Assumptions C08_nonblocking_refuted_before_fix.

(* DECLARED ONLY — a supplied result is stored iff its name is declared; undeclared names and
   unsupplied names leave every variable unchanged; a stored result is what later readers see. *)
Theorem C08_undeclared_ignored : forall (A : Type) declared (supplied vars : list (nat * A)) k,
  ~ In k declared -> read (store vars (apply_results declared supplied)) k = read vars k.
Proof. exact @undeclared_ignored. Qed.
Print Assumptions C08_undeclared_ignored.
Theorem C08_unsupplied_unchanged : forall (A : Type) declared (supplied vars : list (nat * A)) k,
  lookupn k supplied = None -> read (store vars (apply_results declared supplied)) k = read vars k.
Proof. exact @unsupplied_unchanged. Qed.
Print Assumptions C08_unsupplied_unchanged.
Theorem C08_declared_stored : forall (A : Type) declared (supplied vars : list (nat * A)) k v,
  In k declared -> lookupn k supplied = Some v ->
  read (store vars (apply_results declared supplied)) k = Some v.
Proof. exact @declared_stored. Qed.
Print Assumptions C08_declared_stored.

(* ERROR MODES — one error trace per failing answer; no handler / skip continue; exit stops the
   token; retry r re-requests at most r further times: r+1 failures stop the token, a success on
   attempt j <= r+1 continues after exactly j requests; -1 never gives up. *)
Open Scope Z_scope.
Theorem C08_modes_simple : forall rest k,
  token k (AOk :: rest) = (1%nat, 0%nat, Continues) /\
  token k (AErrNoHandler :: rest) = (1%nat, 1%nat, Continues) /\
  token k (AErrSkip :: rest) = (1%nat, 1%nat, Continues) /\
  token k (AErrExit :: rest) = (1%nat, 1%nat, Ended).
Proof. exact mode_simple. Qed.
Print Assumptions C08_modes_simple.
Theorem C08_retry_exhausted : forall r, 0 <= r -> forall n k, 0 <= k -> k + Z.of_nat n = r ->
  token k (repeat (AErrRetry r) (S n)) = (S n, S n, Ended).
Proof. exact retry_exhausted. Qed.
Print Assumptions C08_retry_exhausted.
Theorem C08_retry_success : forall r, 0 <= r -> forall j k, 0 <= k -> k + Z.of_nat j <= r ->
  token k (repeat (AErrRetry r) j ++ [AOk]) = (S j, j, Continues).
Proof. exact retry_success. Qed.
Print Assumptions C08_retry_success.
Theorem C08_retry_bound : forall r, 0 <= r -> forall answers k, 0 <= k <= r ->
  Forall (fun a => match a with AErrRetry r' => r' = r | _ => True end) answers ->
  Z.of_nat (fst (fst (token k answers))) <= r - k + 1.
Proof. exact retry_bound. Qed.
Print Assumptions C08_retry_bound.
Theorem C08_retry_unbounded : forall k, is_continue (-1) k = true.
Proof. exact retry_unbounded. Qed.
Print Assumptions C08_retry_unbounded.

(* THE ANSWER AS THE HOST GIVES IT (TaskAnswer.v section 4): an error or none, and possibly a handler channel. In the
   variant the sources show (src_handler_read_only_on_error) an answer without error is a success whatever handler comes
   along with it -- one request, no error trace, the token continues -- at any point of a retry history ... *)
Theorem C08_success_ignores_a_handler : forall h attempts rest,
  token attempts (interpret src_handler_read_only_on_error (false, h) :: rest) = (1%nat, 0%nat, Continues).
Proof. exact success_ignores_handler. Qed.
Print Assumptions C08_success_ignores_a_handler.
(* ... a handler obeyed whenever it is there stops the token of a successful answer ("exit" queued) or has the answered
   task requested again ("retry" queued) *)
Theorem C08_success_refuted_when_the_handler_is_always_obeyed :
  token 0 [interpret false (false, Some HExit)] = (1%nat, 1%nat, Ended) /\
  token 0 [interpret false (false, Some (HRetry 2)); interpret false (false, None)] = (2%nat, 1%nat, Continues).
Proof. exact refuted_handler_obeyed_on_success. Qed.
Print Assumptions C08_success_refuted_when_the_handler_is_always_obeyed.

Example C08_nonvacuous :
  token 0 [AErrRetry 2; AErrRetry 2; AOk] = (3%nat, 2%nat, Continues) /\
  token 0 [AErrRetry 2; AErrRetry 2; AErrRetry 2; AOk] = (3%nat, 3%nat, Ended) /\
  got (drun false [Chk 0; Chk 1; Chk 2; Snd 1; Rcv; Snd 0; Snd 2; Cls; Chk 3]) = Some 1%nat.
Proof. vm_compute. repeat split. Qed.

(* EACH ANSWER FINDS ITS OWN TOKEN (Model/TokenNumbers.v: the numbers the harness gives the tokens inside an activity):
   whatever the order in which tokens enter and leave, the tokens inside carry pairwise different numbers *)
Theorem C08_tokens_inside_have_distinct_numbers : forall p, NoDup (inside_ (hrun true p)).
Proof. exact numbers_distinct. Qed.
Print Assumptions C08_tokens_inside_have_distinct_numbers.
(* numbered by the count of tokens inside (a seeded change): two inside, the older leaves, a third enters — two tokens
   share a number, one answer goes to the wrong token and the other is lost *)
Theorem C08_distinct_numbers_refuted_when_numbered_by_count :
  inside_ (hrun false [HEnter; HEnter; HLeave 0%nat; HEnter]) = [2; 2]%nat /\ inside_ (hrun true [HEnter; HEnter; HLeave 0%nat; HEnter]) = [2; 3]%nat.
Proof. exact refuted_numbered_by_count. Qed.
Print Assumptions C08_distinct_numbers_refuted_when_numbered_by_count.
