From BV Require Export Model.Boundary.
From BV Require Import Corr.C03corr.

(* A sequentially driven history is replayed on the model: every operation runs to quiescence before
   the next one (the harness waits for the reactions), so a delivery is followed by the decisions of
   all listeners it reached.  Operations: 0 = a token enters the activity; 1 = the activity's task is
   answered (a no-op when the token was withdrawn: the answer comes too late); 2+e = event e is
   delivered; 100+e = event e and the answer are issued concurrently (either order is admissible).
   At the end the harness answers whatever is still pending (activating the activity first if it
   never was); those operations are part of the list. *)
Definition try (c : bcfg) (specs : list bspec) (s : bst) (l : blabel) : bst :=
  match bstep c specs s l with Some s' => s' | None => s end.
Definition fire_all (c : bcfg) (specs : list bspec) (s : bst) : bst :=
  fold_left (fun s i => try c specs s (BFire i)) (seq 0 (length specs)) s.
Definition event (c : bcfg) (specs : list bspec) (s : bst) (e : nat) : bst := fire_all c specs (try c specs s (BEvent e)).

Fixpoint replay (c : bcfg) (specs : list bspec) (ss : list bst) (ops : list nat) : list bst :=
  match ops with
  | [] => ss
  | o :: r =>
      let ss' :=
        if o =? 0 then map (fun s => try c specs s BEnter) ss
        else if o =? 1 then map (fun s => try c specs s BAnswer) ss
        else if o <? 100 then map (fun s => event c specs s (o - 2)) ss
        else flat_map (fun s => [try c specs (event c specs s (o - 100)) BAnswer; event c specs (try c specs s BAnswer) (o - 100)]) ss
      in replay c specs ss' r
  end.

Definition outcome_eqb (s : bst) (n : nat) (xs : list nat) : bool :=
  (normal s =? n) && list_eqb Nat.eqb (exc s) xs && list_eqb Bool.eqb (armed s) (all_false (length xs)) && (inside s =? 0).

(* case: boundary events (interrupting as 1/0, event), applied operations, observed requests of the
   normal-path task and of each exception-path task, instance completed *)
Definition case_ok (cs : list (nat * nat) * list nat * nat * list nat * nat) : bool :=
  let '(sp, ops, n, xs, completed) := cs in
  let specs := map (fun p => (negb (fst p =? 0), snd p)) sp in
  let finals := replay b_fixed specs [binit (length specs)] ops in
  existsb (fun s => outcome_eqb s n xs) finals && (completed =? 1).
Definition c10_mismatches := mism_from case_ok 0.
