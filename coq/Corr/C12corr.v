From BV Require Export Model.Blocks Model.SubProc.
From BV Require Import Corr.C03corr.

Fixpoint insert (x : nat) (l : list nat) : list nat :=
  match l with [] => [x] | y :: t => if x <=? y then x :: l else y :: insert x t end.
Definition sort (l : list nat) : list nat := fold_right insert [] l.
Definition nat_list_eqb := list_eqb Nat.eqb.

(* observed step: (task answered, writes, pending requests afterwards (sorted), end events reached by the step (sorted)) *)
Definition ostep := (nat * list (nat * bool) * list nat * list nat)%type.

Fixpoint replay (s : env * run) (steps : list ostep) : option (env * run) :=
  match steps with
  | [] => Some s
  | (t, ws, p, en) :: r =>
      (* only a pending task can be answered *)
      if existsb (Nat.eqb t) (pending (snd s)) then
        let s' := step s (t, ws) in
        if nat_list_eqb (sort (pending (snd s'))) p && nat_list_eqb (sort (step_ends s (t, ws))) en then replay s' r else None
      else None
  end.

(* activation protocol of one sub-process node: 0 = a parent token enters, 1 = the inner start event
   flows, 3 = the parent token continues *)
Fixpoint sp_replay (s : spst) (evs : list nat) : option spst :=
  match evs with
  | [] => Some s
  | 0 :: r => match spstep sp_fixed s PEnter with
              | Some s1 => sp_replay (match spstep sp_fixed s1 PBegin with Some s2 => s2 | None => s1 end) r
              | None => None end
  | 1 :: r => match spexec sp_fixed s [PStartFlows; PStartSeen] with Some s1 => sp_replay s1 r | None => None end
  | _ :: r => match spexec sp_fixed s [PDie; PCease; PContinue] with
              | Some s1 => sp_replay (match spstep sp_fixed s1 PBegin with Some s2 => s2 | None => s1 end) r
              | None => None end
  end.
Definition sp_ok (evs : list nat) : bool :=
  match sp_replay spinit evs with
  | Some s => (conts s =? arrived s) && (bodies s =? arrived s) && (queue s =? 0) && negb (early s)
              && match cur s with None => true | _ => false end
  | None => false
  end.

Definition bool_list_eqb := list_eqb Bool.eqb.

(* case: program, initial variables, (pending after start, end events reached at start), steps, final variables,
   whether the program's final end event was reached, per sub-process event lists *)
Definition case_ok (c : blk * list bool * (list nat * list nat) * list ostep * list bool * bool * list (list nat)) : bool :=
  let '(b, e0, (first, ends0), steps, efin, final_end, subs) := c in
  let s0 := (e0, start e0 b) in
  nat_list_eqb (sort (pending (snd s0))) first && nat_list_eqb (sort (ends_start e0 b)) ends0 &&
  match replay s0 steps with
  | Some (e, r) => complete r && Bool.eqb (fin r) final_end && bool_list_eqb e efin
  | None => false
  end && forallb sp_ok subs.
Definition c12_mismatches := mism_from case_ok 0.
