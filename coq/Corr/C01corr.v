(** C01 uses the same replay as C12 (Corr/C12corr.v): program, initial variables, pending after start,
    (task answered, writes, pending afterwards) per step, final variables — checked against the block
    token game of Model/Blocks.v. *)
From BV Require Export Corr.C12corr.
Definition c01_mismatches := c12_mismatches.

(* conditional flows leaving a task: (truth of the conditions as 1/0 in the order listed, tasks requested
   downstream (indices, sorted), times the source task was requested, instance completed) *)
From BV Require Export Model.FlowLeave.
From BV Require Import Corr.C03corr.
Definition leave_case_ok (c : list nat * list nat * nat * nat) : bool :=
  let '(cn, requested, nsrc, completed) := c in
  let o := leave false (map (fun x => negb (x =? 0)) cn) in
  list_eqb Nat.eqb (sort (placed o)) requested && (nsrc =? (if asks_again o then 2 else 1)) && (completed =? 1).
Definition c01_leave_mismatches := mism_from leave_case_ok 0.
