(** C01 uses the same replay as C12 (Corr/C12corr.v): program, initial variables, pending after start,
    (task answered, writes, pending afterwards) per step, final variables — checked against the block
    token game of Model/Blocks.v. *)
From BV Require Export Corr.C12corr.
Definition c01_mismatches := c12_mismatches.
