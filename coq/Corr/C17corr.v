From BV Require Export Model.Lockset.
From BV Require Import Corr.C03corr.
(* case: per run of a harness command under the race detector: race reports with engine frames, panics *)
Definition case_ok (c : nat * nat) : bool := (fst c =? 0) && (snd c =? 0).
Definition c17_mismatches := mism_from case_ok 0.
