From BV Require Import Model.XorGw Corr.C03corr.

(* case: (conds incl. the default's own condition value, dflt (length conds = none), k tokens,
          observed [chosen code; requests on chosen; requests elsewhere; gateway errors]) *)
Definition model_obs (conds : list nat) (d k : nat) : list nat :=
  let cb := map (fun c => negb (c =? 0)) conds in
  let dflt := if d <? length conds then Some d else None in
  match xor_choose cb dflt with
  | Flow i => [i; k; 0; 0]
  | Err => [length conds; 0; 0; k]
  end.

Definition case_ok (c : list nat * nat * nat * list nat) : bool :=
  let '(conds, d, k, obs) := c in list_eqb Nat.eqb (model_obs conds d k) obs.
Definition c04_mismatches := mism_from case_ok 0.
