From BV Require Export Model.Xml.
From BV Require Gen.Facts.

Definition ostr_eqb (a b : option string) : bool :=
  match a, b with Some x, Some y => String.eqb x y | None, None => true | _, _ => false end.
Definition rname_eqb (a b : rname) : bool := ostr_eqb (fst a) (fst b) && String.eqb (snd a) (snd b).
Definition attr_eqb (a b : rname * string) : bool := rname_eqb (fst a) (fst b) && String.eqb (snd a) (snd b).

(* attributes are compared as sets (their order is a detail of encoding/xml) *)
Definition attrs_eqb (l1 l2 : list (rname * string)) : bool :=
  Nat.eqb (List.length l1) (List.length l2) &&
  forallb (fun a => existsb (attr_eqb a) l2) l1 && forallb (fun a => existsb (attr_eqb a) l1) l2.

Fixpoint xml_eqb (a b : xml) {struct a} : bool :=
  match a, b with
  | X n1 a1 t1 k1, X n2 a2 t2 k2 =>
      rname_eqb n1 n2 && attrs_eqb a1 a2 && String.eqb t1 t2 &&
      (fix go (l m : list xml) : bool :=
         match l, m with [] , [] => true | x :: r, y :: s => xml_eqb x y && go r s | _, _ => false end) k1 k2
  end.

(* case: the real encoder's output for some definitions, as a raw token tree.  The model must
   (i) decode it to a tree over known namespaces and (ii) re-encode that tree to the same output. *)
Definition case_ok (x : xml) : bool :=
  let t := dec [] EmptyString x in
  known t && xml_eqb (enc_root (fun s => s) t) x.

Fixpoint mism_from (i : nat) (cs : list xml) : list nat :=
  match cs with
  | [] => []
  | c :: t => if case_ok c then mism_from (S i) t else i :: mism_from (S i) t
  end.
Definition c15_mismatches := mism_from 0.
