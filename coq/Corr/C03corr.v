(** Correspondence functions for C03. *)
From BV Require Import Model.ParGw.

Definition opt_pair_eqb (a b : option (nat * nat)) : bool :=
  match a, b with
  | None, None => true
  | Some (x, y), Some (u, v) => (x =? u) && (y =? v)
  | _, _ => false
  end.

Fixpoint list_eqb {A} (eqb : A -> A -> bool) (l1 l2 : list A) : bool :=
  match l1, l2 with
  | [], [] => true
  | a :: t1, b :: t2 => eqb a b && list_eqb eqb t1 t2
  | _, _ => false
  end.

(* kernel case: (n, m, observed result of the real distributeFlows) *)
Definition kcase_ok (c : nat * nat * list (option (nat * nat))) : bool :=
  let '(n, m, obs) := c in list_eqb opt_pair_eqb (distribute n m) obs.

Fixpoint mism_from {A} (ok : A -> bool) (i : nat) (cs : list A) : list nat :=
  match cs with
  | [] => []
  | c :: t => if ok c then mism_from ok (S i) t else i :: mism_from ok (S i) t
  end.
Definition c03_kernel_mismatches := mism_from kcase_ok 0.

(* engine case: (N, M, per activation: arrival order of the N tokens,
   per activation observed [downstream tasks requested exactly once; downstream requests in total;
   completions at the gateway]) *)
Definition none_count (l : list (option (nat * nat))) : nat :=
  length (filter (fun o => match o with None => true | _ => false end) l).

Definition model_activation (N M : nat) (arrivals : list nat) : list nat :=
  let outs := concat (snd (pgw_run N M pgw_init arrivals)) in
  let flows := concat (map (fun p => flows_of (snd p)) outs) in
  [ length (filter (fun j => count_occ Nat.eq_dec flows j =? 1) (seq 0 M));
    length flows;
    none_count (map snd outs) ].

Definition ecase_ok (c : nat * nat * list (list nat) * list (list nat)) : bool :=
  let '(N, M, orders, obs) := c in
  list_eqb (list_eqb Nat.eqb) (map (model_activation N M) orders) obs.
Definition c03_engine_mismatches := mism_from ecase_ok 0.
