From BV Require Export Model.InclGw.
From BV Require Import Corr.C03corr.

(* case: truth of the non-default conditions (1/0), default flow present, branches requested after the
   fork (the default branch has index k), error trace seen, per activated token: does its branch lead
   to the join, the order in which the tokens' tasks were answered, the number of requests after the
   join after each answer *)
Definition expected_tokens (conds : list bool) (dflt : bool) : option (list nat) :=
  match choose conds dflt with
  | Some (l, d) => Some (if d then [length conds] else l)
  | None => None
  end.

Fixpoint replay (s : jst) (tj : list nat) (order zs : list nat) : bool :=
  match order, zs with
  | [], [] => true
  | t :: r, z :: zr =>
      let l := if nth t tj 0 =? 0 then JEnd t else JArrive t in
      match jstep true s l with
      | Some s1 =>
          let s2 := match jstep true s1 (JTrack t) with Some s2 => s2 | None => s1 end in
          (released s2 =? z) && replay s2 tj r zr
      | None => false
      end
  | _, _ => false
  end.

Definition case_ok (c : list nat * nat * list nat * nat * list nat * list nat * list nat) : bool :=
  let '(cn, d, requested, err, tj, order, zs) := c in
  let conds := map (fun x => negb (x =? 0)) cn in
  match expected_tokens conds (negb (d =? 0)) with
  | Some toks => list_eqb Nat.eqb toks requested && (err =? 0) && (length tj =? length toks) &&
                 replay (jinit (length toks)) tj order zs
  | None => list_eqb Nat.eqb [] requested && (err =? 1)
  end.
Definition c05_mismatches := mism_from case_ok 0.
