From BV Require Export Model.Value.
Open Scope Z_scope.

Definition fl_eqb (a b : fl) : bool :=
  match a, b with
  | FInt x, FInt y => x =? y
  | FId x, FId y => N.eqb x y
  | FBad x, FBad y => N.eqb x y
  | _, _ => false
  end.
Definition str_eqb (a b : str) : bool :=
  match a, b with
  | SLit x, SLit y => N.eqb x y
  | SNum x, SNum y => x =? y
  | STrue, STrue | SFalse, SFalse => true
  | _, _ => false
  end.

Fixpoint cv_eqb (a b : cv) {struct a} : bool :=
  match a, b with
  | CInt x, CInt y => x =? y
  | CFlt x, CFlt y => fl_eqb x y
  | CStr x, CStr y => str_eqb x y
  | CEmptyStr, CEmptyStr => true
  | CBool x, CBool y => Bool.eqb x y
  | CNull, CNull => true
  | CArr l, CArr m =>
      (fix go (l m : list cv) : bool :=
         match l, m with [], [] => true | x :: r, y :: s => cv_eqb x y && go r s | _, _ => false end) l m
  | CObj l, CObj m =>
      (fix go (l m : list (N * cv)) : bool :=
         match l, m with [], [] => true
         | (k, x) :: r, (k', y) :: s => N.eqb k k' && cv_eqb x y && go r s | _, _ => false end) l m
  | _, _ => false
  end.

Definition ity_code (t : ity) : nat :=
  match t with TNone => 0 | TString => 1 | TInteger => 2 | TBoolean => 3 | TFloat => 4 | TArray => 5 | TObject => 6 end%nat.
Definition ity_of (n : nat) : ity :=
  match n with 1 => TString | 2 => TInteger | 3 => TBoolean | 4 => TFloat | 5 => TArray | 6 => TObject | _ => TNone end%nat.

(* case: (declared type code, value, observed item type code, observed canonical read-back) *)
Definition case_ok (c : nat * gv * nat * cv) : bool :=
  let '(d, v, ot, oc) := c in
  match roundtrip (ity_of d) v with
  | Some (t, c') => Nat.eqb (ity_code t) ot && cv_eqb c' oc
  | None => false
  end.

Fixpoint mism_from (i : nat) (cs : list (nat * gv * nat * cv)) : list nat :=
  match cs with
  | [] => []
  | c :: t => if case_ok c then mism_from (S i) t else i :: mism_from (S i) t
  end.
Definition c16_mismatches := mism_from 0%nat.

(* values across the boundary of embedded sub-processes (Model/Scopes.v): what the engine did as a list of operations
   (kind, scope, name, value) -- kind 0: a value stored from that scope (0 = the process, d = d levels of sub-process
   deep); kind 1: a read from that scope and what it gave. Replayed on the model with the locator wiring and the
   SetVariable of the sources: every read must give what the model reads. *)
From BV Require Import Model.Scopes Gen.Facts.
From Coq Require Import NArith.
Definition scase_ok (ops : list (N * N * N * N)) : bool :=
  let sh := src_subprocess_shares_the_locator in
  let ip := negb src_setvariable_replaces in
  snd (fold_left (fun (acc : (heap * list table) * bool) (op : N * N * N * N) =>
         let '(st, ok) := acc in
         let '(k, s, n, v) := op in
         if N.eqb k 0 then (swrite sh ip st (N.to_nat s, N.to_nat n, N.to_nat v), ok)
         else (st, ok && match sread sh st (N.to_nat s) (N.to_nat n) with
                         | Some x => Nat.eqb x (N.to_nat v)
                         | None => false
                         end))
       ops (([], [[]; []; []; []]), true)).
Fixpoint smism_from (i : nat) (cs : list (list (N * N * N * N))) : list nat :=
  match cs with
  | [] => []
  | c :: t => if scase_ok c then smism_from (S i) t else i :: smism_from (S i) t
  end.
Definition c16_scope_mismatches := smism_from 0%nat.
