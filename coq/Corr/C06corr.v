From BV Require Export Model.EventGw.
From BV Require Import Corr.C03corr.

Fixpoint dedup (l : list nat) : list nat :=
  match l with
  | [] => []
  | x :: r => x :: filter (fun y => negb (y =? x)) (dedup r)
  end.

(* replay of an observed run as a model path (repaired code): all events are delivered, the
   observed winner runs the transformer first, every other alternative whose event arrived loses
   the compare-and-swap, the winner notifies everybody, parked alternatives take their notice, the
   winner proceeds; late deliveries follow. *)
Definition replay_path (n : nat) (events : list nat) (w : nat) (late : list nat) : list glabel :=
  let others := filter (fun j => negb (j =? w)) (dedup events) in
  map Deliver events ++ [Cas w] ++ map Cas others ++ repeat Notify (n - 1) ++
  map TakeNotice (filter (fun j => negb (existsb (Nat.eqb j) (dedup events))) (seq 0 n)) ++ [Proceed] ++ map Deliver late.

(* observed: (n, delivered events, winner, late events, [branch requests; determinations; completed; requests after late deliveries]) *)
Definition case_ok (c : nat * list nat * nat * list nat * list nat) : bool :=
  let '(n, events, w, late, obs) := c in
  match gexec true (ginit n) (replay_path n events w late) with
  | Some s =>
      existsb (Nat.eqb w) events &&
      forallb (fun i => negb (is_open (aget s i))) (seq 0 n) &&
      (match aget s w with Continued => true | _ => false end) &&
      list_eqb Nat.eqb obs [conts s; 1; 1; conts s]
  | None => false
  end.
Definition c06_mismatches := mism_from case_ok 0.

(* the alternatives' tokens taking their termination channels in a chosen order (hook VerifEventGatewayLookups):
   (early: 1 = alternative j looked before the determination, observed: 1 = a notice was waiting for it) *)
From BV Require Export Model.TermChan.
Definition lookup_case_ok (c : list nat * list nat) : bool :=
  let '(early, obs) := c in
  match lookup_run false (map (fun x => negb (x =? 0)) early) with
  | Some w => list_eqb Bool.eqb w (map (fun x => negb (x =? 0)) obs)
  | None => false
  end.
Definition c06_lookup_mismatches := mism_from lookup_case_ok 0.
