From BV Require Export Model.ProcSet.
From BV Require Import Corr.C03corr.

(* An observed run of a process set is replayed as a path of the model (repaired configuration).
   Observations (kind, process index), in the order of the set's trace log with the harness's own
   actions marked in the same log:
     (0,_) a wait returned false        (1,_) a wait returned true
     (2,i) process i emitted the flow trace of a throw event whose message flow instantiates a waiting process
     (6,i) ... of a throw event whose message flow does not instantiate (wakes a catch event, or none)
     (3,i) process i emitted its cease-flow trace
     (4,_) a waiting process was instantiated     (5,_) the cease-process-set trace
     (7,_) barrier: the harness acted (answered a task) — everything it saw before has happened.
   Unobserved steps (watchers, closer) are taken as soon as enabled.  The trace log may deliver a
   process's last traces after WaitUntilComplete has already returned true, and the
   cease-process-set trace (sent on the set's tracer directly) before the processes' last traces
   (relayed), so a true wait or a cease-process-set trace that the model cannot justify yet is owed
   until the justifying traces arrive — but must be paid before the next barrier (the harness acting
   on a process that is still running) and before the end of the log. *)

Definition try (c : pcfg) (s : sst) (l : slabel) : sst := match sstep c s l with Some s' => s' | None => s end.

Definition saturate (c : pcfg) (s : sst) : sst :=
  let n := length (procs s) in
  let s1 := fold_left (fun s i => try c s (SWatchThrow i)) (seq 0 n) s in
  let s2 := fold_left (fun s i => try c s (SWatchCease i)) (seq 0 n) s1 in
  try c s2 SClose.

(* settle: take the unobserved steps, then pay what is owed if the model can justify it now *)
Definition settle (c : pcfg) (s : sst) (owed : bool) (owedc : nat) : sst * bool * nat :=
  let s1 := saturate c s in
  let owed' := owed && negb (closed s1) in
  match owedc with
  | S k => match sstep c s1 SRunDone with Some s2 => (s2, owed', k) | None => (s1, owed', owedc) end
  | 0 => (s1, owed', 0)
  end.

Fixpoint replay (c : pcfg) (s : sst) (owed : bool) (owedc : nat) (obs : list (nat * nat)) : option (sst * bool * nat) :=
  match obs with
  | [] => Some (s, owed, owedc)
  | (k, i) :: r =>
      let after s1 o oc := let '(s2, o2, oc2) := settle c s1 o oc in replay c s2 o2 oc2 r in
      match k with
      | 0 => let '(s1, o1, oc1) := settle c (try c s SSpawnCloser) owed owedc in
             if closed s1 then None else replay c s1 o1 oc1 r
      | 1 => after (try c s SSpawnCloser) true owedc
      | 2 => match sstep c s (SThrow i) with Some s1 => after s1 owed owedc | None => None end
      | 6 => match sexec c s [SThrow i; SWatchThrow i; SRunDeliver] with Some s1 => after s1 owed owedc | None => None end
      | 3 => match sstep c s (SFinish i) with Some s1 => after s1 owed owedc | None => None end
      | 4 => match sstep c (saturate c s) SRunThrow with Some s1 => after s1 owed owedc | None => None end
      | 5 => after s owed (S owedc)
      | _ => if owed || negb (owedc =? 0) then None else replay c s owed owedc r
      end
  end.

Definition case_ok (cs : list nat * list (nat * nat)) : bool :=
  let '(ts, obs) := cs in
  let c := fixedcfg in
  match replay c (sinit c (map (fun t => negb (t =? 0)) ts)) false 0 obs with
  | Some (s, owed, owedc) => negb owed && (owedc =? 0) && closed s && (ceases s =? 1) && forallb finished (procs s) && (mch s =? 0) && negb (panicked s)
  | None => false
  end.
Definition c18_mismatches := mism_from case_ok 0.
