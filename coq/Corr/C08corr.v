From BV Require Export Model.TaskAnswer.
From BV Require Import Corr.C03corr.

(* (a) Do histories: k callers all pass the done check, sends happen in [order]; process() takes the
   first answer somewhere in between. Observed: effective caller + 1 (0 = none), all returned. *)
Definition do_schedule (k : nat) (order : list nat) : list dop :=
  map Chk (seq 0 k) ++
  match order with
  | [] => []
  | p :: rest => Snd p :: Rcv :: map Snd rest ++ [Cls]
  end.

Definition do_ok (c : nat * list nat * nat * nat) : bool :=
  let '(k, order, eff1, returned) := c in
  let s := drun false (do_schedule k order) in
  (match got s with Some v => Nat.eqb (S v) eff1 | None => Nat.eqb eff1 0 end)
  && forallb (fun i => Nat.eqb (phase s i) 2) (seq 0 k) && Nat.eqb returned 1.
Definition c08_do_mismatches := mism_from do_ok 0.

(* (b) results: names 0 = r1, 1 = r2 (declared), 2 = x (undeclared) *)
Definition results_ok (c : list (nat * nat) * list (nat * nat) * list (nat * nat)) : bool :=
  let '(supplied, initial, observed) := c in
  let final := store initial (apply_results [0; 1] supplied) in
  forallb (fun k => match read final k, lookupn k observed with
                    | Some a, Some b => Nat.eqb a b
                    | None, None => true
                    | _, _ => false end) [0; 1; 2].
Definition c08_results_mismatches := mism_from results_ok 0.

(* (c) error modes *)
Definition dec_answer (a : nat) : answer :=
  match a with
  | 0 => AOk | 1 => AErrNoHandler | 2 => AErrSkip | 3 => AErrExit
  | 9 => AErrRetry (-1)
  | _ => AErrRetry (Z.of_nat (a - 10))
  end.
Definition out_code (o : outcome) : nat := match o with Continues => 0 | Ended => 1 | Waiting => 2 end.

Definition modes_ok (c : list nat * nat * nat * nat) : bool :=
  let '(h, req, errs, out) := c in
  let '(n, e, o) := token 0%Z (map dec_answer h) in
  Nat.eqb n req && Nat.eqb e errs && Nat.eqb (out_code o) out.
Definition c08_modes_mismatches := mism_from modes_ok 0.
