From BV Require Export Model.Timer.
Open Scope Z_scope.

Fixpoint zlist_eqb (a b : list Z) : bool :=
  match a, b with
  | [], [] => true
  | x :: r, y :: s => (x =? y) && zlist_eqb r s
  | _, _ => false
  end.

(* projected observable: the clock values at which the timer fired *)
Definition case_ok (c : (Z * tstate) * list op * list Z) : bool :=
  let '((now0, s), ops, obs) := c in zlist_eqb (snd (run_from now0 s ops)) obs.

Fixpoint mism_from (i : nat) (cs : list ((Z * tstate) * list op * list Z)) : list nat :=
  match cs with
  | [] => []
  | c :: t => if case_ok c then mism_from (S i) t else i :: mism_from (S i) t
  end.
Definition c13_mismatches := mism_from 0.

(* several timers pending on one mock clock: (due times in seconds, clock settings, timers served by each setting (indices, sorted)) *)
From BV Require Import Corr.C03corr.
Definition number {A} (l : list A) : list (nat * A) := combine (seq 0 (length l)) l.
Definition clock_case_ok (c : list Z * list Z * list (list Z)) : bool :=
  let '(dues, Ts, obs) := c in
  list_eqb zlist_eqb (map (map Z.of_nat) (clock_run (number dues) Ts)) obs.
Fixpoint clock_mism_from (i : nat) (cs : list (list Z * list Z * list (list Z))) : list nat :=
  match cs with
  | [] => []
  | c :: t => if clock_case_ok c then clock_mism_from (S i) t else i :: clock_mism_from (S i) t
  end.
Definition c13_clock_mismatches := clock_mism_from 0.
