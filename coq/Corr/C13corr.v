From BV Require Export Model.Timer.
Open Scope Z_scope.

Fixpoint zlist_eqb (a b : list Z) : bool :=
  match a, b with
  | [], [] => true
  | x :: r, y :: s => (x =? y) && zlist_eqb r s
  | _, _ => false
  end.

(* projected observable: the clock values at which the timer fired *)
Definition case_ok (c : (Z * tstate) * list op * list Z) : bool :=
  let '((now0, s), ops, obs) := c in zlist_eqb (snd (run_from now0 s ops)) obs.

Fixpoint mism_from (i : nat) (cs : list ((Z * tstate) * list op * list Z)) : list nat :=
  match cs with
  | [] => []
  | c :: t => if case_ok c then mism_from (S i) t else i :: mism_from (S i) t
  end.
Definition c13_mismatches := mism_from 0.
