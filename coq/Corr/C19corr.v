From BV Require Export Model.Builder Model.Layout.
From BV Require Import Corr.C03corr.
From Coq Require Import String.
Open Scope nat_scope.

Fixpoint list_eqb2 {A B} (eqb : A -> B -> bool) (l1 : list A) (l2 : list B) : bool :=
  match l1, l2 with
  | [], [] => true
  | a :: t1, b :: t2 => eqb a b && list_eqb2 eqb t1 t2
  | _, _ => false
  end.

(* ---- builder structure ---- *)
Definition node_eqb (a : pnode) (b : nat * list nat * list nat) : bool :=
  let '(i, ins, outs) := b in
  (nid a =? i) && list_eqb Nat.eqb (nin a) ins && list_eqb Nat.eqb (nout a) outs.
Definition flow_eqb (a : pflow) (b : nat * nat * nat) : bool :=
  let '(i, s, t) := b in (fid a =? i) && (fsrc a =? s) && (ftgt a =? t).

(* nodes are compared as listed in insertion order, flows in SequenceFlowField order *)
Definition bcase_ok (c : nat * list (nat * nat) * list (nat * list nat * list nat) * list (nat * nat * nat)) : bool :=
  let '(start, steps, onodes, oflows) := c in
  let p := build start steps in
  list_eqb2 node_eqb (nodes p) onodes && list_eqb2 flow_eqb (flows p) oflows.
Definition c19_builder_mismatches := mism_from bcase_ok 0.

(* ---- layout (unit = 1/2: every coordinate below is the real one times 2; waypoints times 4) ---- *)
Definition rect_eqb (r : rect) (o : Z * Z * Z * Z) : bool :=
  let '(x, y, w, h) := o in ((rx r =? x) && (ry r =? y) && (rw r =? w) && (rh r =? h))%Z.
Definition pt_eqb (p q : Z * Z) : bool := ((fst p =? fst q) && (snd p =? snd q))%Z.

Definition size2 (types : list string) (v : nat) : Z * Z :=
  let '(w, h) := size_of_type (nth v types EmptyString) in ((2 * w)%Z, h).

Definition lcase_ok
  (c : (Z * Z * Z * Z * Z) * list (nat * list (nat * nat) * list string)
       * list (list (Z * Z * Z * Z)) * list (list (list (Z * Z)))) : bool :=
  let '((sx, sy, cg, rg, pg), ps, oshapes, oedges) := c in
  let cf := {| startX := sx; startY := sy; colGap := cg; rowGap := rg; procGap := pg |} in
  let shapes := layout_all cf 2%Z sy (map (fun p => let '(n, e, ty) := p in (n, e, size2 ty)) ps) in
  list_eqb2 (list_eqb2 rect_eqb) shapes oshapes &&
  list_eqb2 (fun (pe : (nat * list (nat * nat) * list string) * list rect) (ow : list (list (Z * Z))) =>
              let '((n, e, ty), sh) := pe in
              list_eqb2 (fun (ed : nat * nat) (w : list (Z * Z)) =>
                          list_eqb pt_eqb (waypoints2 (nth (fst ed) sh {| rx := 0; ry := 0; rw := 0; rh := 0 |})
                                                      (nth (snd ed) sh {| rx := 0; ry := 0; rw := 0; rh := 0 |})) w)
                       (filter (fun ed => (fst ed <? n) && (snd ed <? n)) e) ow)
           (combine ps shapes) oedges.
Definition c19_layout_mismatches := mism_from lcase_ok 0.
