From BV Require Export Model.Inbox.
From BV Require Import Corr.C03corr.

(* case: per listener (pattern, message sequence: 0 = a token arrives (arm), e+1 = event e delivered,
   observed continuations, observed tokens still waiting) *)
Definition dec_msg (m : nat) : option nat := match m with 0 => None | S e => Some e end.

Definition listener_ok (c : nat * list nat * nat * nat) : bool :=
  let '(pat, msgs, oconts, owaiting) := c in
  let s := lrun pat (map dec_msg msgs) in
  Nat.eqb (conts s) oconts && Nat.eqb (waiting s) owaiting.

Definition case_ok (c : list (nat * list nat * nat * nat)) : bool := forallb listener_ok c.
Definition c11_mismatches := mism_from case_ok 0.
