From BV Require Export Model.Ids.
Open Scope Z_scope.

(* case: (sequence minimum of the generator state before the first observed id is unknown, so the
   acceptor starts from the first id): observed (ts, tick, seq) sequence of one generator drawn by
   one goroutine, in issue order.  ok = the sequence is a possible output of the model. *)
Definition start_from (first : Z * bool * Z) : gen :=
  let '(t, k, s) := first in
  {| hi := t; safe := 0; par := k; seq := s - 1; smin := 0; smax := 65535; gpart := 0 |}.

Definition seq_ok (l : list (Z * bool * Z)) : bool :=
  match l with
  | [] => true
  | f :: _ => match accepts_from (start_from f) l 0 with None => true | Some _ => false end
  end.

Fixpoint mism_from (i : nat) (cs : list (list (Z * bool * Z))) : list nat :=
  match cs with
  | [] => []
  | c :: t => if seq_ok c then mism_from (S i) t else i :: mism_from (S i) t
  end.
Definition c20_mismatches := mism_from 0%nat.
