From BV Require Export Model.Completion.
From BV Require Import Corr.C03corr.

(* An observed run is replayed as a path of the model (repaired configuration): start-up, then for
   every script event either a token ending (answer: the branch runs to its end event; the monitor
   finishes as soon as the last token is gone) or a WaitUntilComplete call with its observed result
   (true = helper takes the lock and signals; false = the caller timed out).  The run is accepted
   iff the whole path is enabled in the model and the cease-flow count agrees. *)
Definition cfg_fixed (kk : nat) : cfg := {| k := kk; sub_first := true; sigbuf := true |}.

Definition startup (kk : nat) : list label :=
  LCreate :: repeat LTrig kk ++ repeat LEmit kk ++ repeat LSee kk.

(* events: 2 = a token ends; 0 / 1 = a wait that returned false / true *)
Fixpoint replay (c : cfg) (s : st) (w : nat) (evs : list nat) : option st :=
  match evs with
  | [] => Some s
  | 2 :: r =>
      match step c s LDie with
      | Some s1 =>
          (* the monitor's wait-group wait returns when the last token is gone *)
          match step c s1 LWaitDone with
          | Some s2 => replay c s2 w r
          | None => replay c s1 w r
          end
      | None => None
      end
  | 1 :: r =>
      match exec c s [LCall w; LHelperLock w; LHelperSend w] with
      | Some s1 => if match wget s1 w with WTrue => true | _ => false end then replay c s1 (S w) r else None
      | None => None
      end
  | _ :: r =>
      match exec c s [LCall w; LTimeout w] with
      | Some s1 =>
          (* a wait that times out although the instance is complete is a liveness failure *)
          if match mon s with MDone => true | _ => false end then None else replay c s1 (S w) r
      | None => None
      end
  end.

Definition case_ok (c : nat * list nat * nat * nat) : bool :=
  let '(kk, evs, oceases, after) := c in
  match exec (cfg_fixed kk) (init (length evs)) (startup kk) with
  | Some s0 =>
      match replay (cfg_fixed kk) s0 0 evs with
      | Some s => Nat.eqb (ceases s) oceases && Nat.eqb after 0
      | None => false
      end
  | None => false
  end.
Definition c02_mismatches := mism_from case_ok 0.

(* the monitor's first phase against the start-event traces observed in the instance's stream: a case is
   (number of start events, the start-event traces seen so far as (0 = own | 1 = foreign, index), 1 if a wait issued
   when nothing moved any more said "complete") *)
From BV Require Import Model.StartCount.
Definition dec_src (p : nat * nat) : src := if fst p =? 0 then Own (snd p) else Foreign (snd p).
Definition start_case_ok (c : nat * list (nat * nat) * nat) : bool :=
  let '(kk, tr, verdict) := c in Bool.eqb (phase_one_done true kk (map dec_src tr)) (verdict =? 1).
Definition c02_start_mismatches := mism_from start_case_ok 0.
