From BV Require Export Model.Shutdown.
From BV Require Import Corr.C03corr.
(* case: per (program, cancellation point): tracer done and subscriber channel closed, goroutines of the
   instance left after 1.5 s, task requests with a live context after the cancel, WaitUntilComplete
   returned promptly.  The model: the tracer finishes (C07_tracer_terminates), nothing is left. *)
Definition case_ok (c : nat * nat * nat * nat) : bool :=
  let '(closed, nleft, late, prompt) := c in (closed =? 1) && (nleft =? 0) && (late =? 0) && (prompt =? 1).
Definition c07_mismatches := mism_from case_ok 0.
