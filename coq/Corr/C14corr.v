(** Correspondence function for C14: recompute each observed log with the model. *)
From BV Require Import Model.Satisfier.

Definition dec_event (n e : nat) : option nat := if e <? n then Some e else None.
(* projected observable: the matched flag of each step *)
Definition enc_step (p : bool * option nat) : nat := if fst p then 1 else 0.

Definition model_log (kind n : nat) (h : list nat) : list nat :=
  let hh := map (dec_event n) h in
  map enc_step (snd (match kind with
                     | 0 => run_catch false n [] hh
                     | 1 => run_catch true n [] hh
                     | _ => run_throw n [] hh
                     end)).

Definition case_ok (c : nat * nat * list nat * list nat) : bool :=
  let '(kind, n, h, obs) := c in
  if list_eq_dec Nat.eq_dec (model_log kind n h) obs then true else false.

Fixpoint mism_from (i : nat) (cs : list (nat * nat * list nat * list nat)) : list nat :=
  match cs with
  | [] => []
  | c :: t => if case_ok c then mism_from (S i) t else i :: mism_from (S i) t
  end.
Definition c14_mismatches := mism_from 0.
