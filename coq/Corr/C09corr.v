From BV Require Export Model.Tracer Model.TraceGrammar.

(* tracer case: reference log (a subscriber present from before the first send to the end) and,
   per other subscriber, (its log, traces it must have seen, traces it must not have seen) *)
From Coq Require Import NArith.
(* observed ids are written as binary numbers (N) and converted here: unary literals of this size
   would dominate the evaluation time *)
Definition tcase_ok (c : list N * list (list N * list N * list N)) : bool :=
  let '(ref0, others0) := c in
  let ref := map N.to_nat ref0 in
  let others := map (fun o => let '(a, b, d) := o in (map N.to_nat a, map N.to_nat b, map N.to_nat d)) others0 in
  prog_order [] ref && forallb (sub_ok ref) others.

Fixpoint mism_from {A} (ok : A -> bool) (i : nat) (cs : list A) : list nat :=
  match cs with
  | [] => []
  | c :: t => if ok c then mism_from ok (S i) t else i :: mism_from ok (S i) t
  end.
Definition c09_tracer_mismatches := mism_from tcase_ok 0.
Definition c09_grammar_mismatches := mism_from grammar_ok 0.

(* cancellation with senders still at work (Model/TracerEnd.v): (registered senders, traces the prompt subscriber had
   seen when the context was cancelled, log of the prompt subscriber 0, log of the slow unbuffered subscriber 1).
   The history: both subscribe, the traces in the order subscriber 0 saw them with the cancellation in between -- the
   slow subscriber never ready -- and then every sender done. The model with the push of the sources must end with
   exactly the two observed logs. *)
From BV Require Import Model.TracerEnd Gen.Facts.
Definition list_eqb (a b : list nat) : bool := is_prefix a b && is_prefix b a.
Definition ecase_ok (c : N * N * list N * list N) : bool :=
  let '(n0, at0, fast0, slow0) := c in
  let n := N.to_nat n0 in let at_ := N.to_nat at0 in
  let fast := map N.to_nat fast0 in let slow := map N.to_nat slow0 in
  let tr := map (fun t => ETr t [1]) fast in
  let cs := [ESub 0; ESub 1] ++ firstn at_ tr ++ [ECancel] ++ skipn at_ tr ++ repeat EDone n in
  let st := erun (mode_of src_push_waits_for_the_subscriber) n cs in
  ended st && list_eqb (log_of 0 (logs (core st))) fast && list_eqb (log_of 1 (logs (core st))) slow.
Definition c09_end_mismatches := mism_from ecase_ok 0.
