From BV Require Export Model.Tracer Model.TraceGrammar.

(* tracer case: reference log (a subscriber present from before the first send to the end) and,
   per other subscriber, (its log, traces it must have seen, traces it must not have seen) *)
From Coq Require Import NArith.
(* observed ids are written as binary numbers (N) and converted here: unary literals of this size
   would dominate the evaluation time *)
Definition tcase_ok (c : list N * list (list N * list N * list N)) : bool :=
  let '(ref0, others0) := c in
  let ref := map N.to_nat ref0 in
  let others := map (fun o => let '(a, b, d) := o in (map N.to_nat a, map N.to_nat b, map N.to_nat d)) others0 in
  prog_order [] ref && forallb (sub_ok ref) others.

Fixpoint mism_from {A} (ok : A -> bool) (i : nat) (cs : list A) : list nat :=
  match cs with
  | [] => []
  | c :: t => if ok c then mism_from ok (S i) t else i :: mism_from ok (S i) t
  end.
Definition c09_tracer_mismatches := mism_from tcase_ok 0.
Definition c09_grammar_mismatches := mism_from grammar_ok 0.
