Model/Satisfier.vo Model/Satisfier.glob Model/Satisfier.v.beautified Model/Satisfier.required_vo: Model/Satisfier.v 
Model/Satisfier.vio: Model/Satisfier.v 
Model/Satisfier.vos Model/Satisfier.vok Model/Satisfier.required_vos: Model/Satisfier.v 
Proofs/SatisfierProofs.vo Proofs/SatisfierProofs.glob Proofs/SatisfierProofs.v.beautified Proofs/SatisfierProofs.required_vo: Proofs/SatisfierProofs.v Model/Satisfier.vo
Proofs/SatisfierProofs.vio: Proofs/SatisfierProofs.v Model/Satisfier.vio
Proofs/SatisfierProofs.vos Proofs/SatisfierProofs.vok Proofs/SatisfierProofs.required_vos: Proofs/SatisfierProofs.v Model/Satisfier.vos
