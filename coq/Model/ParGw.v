(** Model of gateway.go distributeFlows and of the parallel gateway's node state
    (gateway_parallel.go flowWhenReady / run). *)
From Coq Require Export List Arith Bool Lia.
Export ListNotations.

(* What token i of n parked tokens receives when m outgoing flows are distributed:
   Some (start, len) = flowAction over outgoing[start .. start+len), None = completeAction. *)
Definition dist_one (n m i : nat) : option (nat * nat) :=
  let re := if S i =? n then m else S i in
  if re <=? m then (if re <=? i then None else Some (i, re - i)) else None.

Definition distribute (n m : nat) : list (option (nat * nat)) :=
  map (dist_one n m) (seq 0 n).

Definition flows_of (o : option (nat * nat)) : list nat :=
  match o with Some (s, l) => seq s l | None => [] end.

(* Node state: arrivals counted (not distinct incoming flows!), tokens parked in arrival order. *)
Record pgw := { cnt : nat; parked : list nat }.
Definition pgw_init : pgw := {| cnt := 0; parked := [] |}.

(* One nextActionMessage from token t. Output: the actions handed out by this step. *)
Definition pgw_step (N M : nat) (s : pgw) (t : nat) : pgw * list (nat * option (nat * nat)) :=
  let c := S (cnt s) in
  let p := parked s ++ [t] in
  if c =? N then (pgw_init, combine p (distribute (length p) M))
  else ({| cnt := c; parked := p |}, []).

Fixpoint pgw_run (N M : nat) (s : pgw) (arr : list nat)
  : pgw * list (list (nat * option (nat * nat))) :=
  match arr with
  | [] => (s, [])
  | t :: r => let '(s1, o) := pgw_step N M s t in
              let '(s2, os) := pgw_run N M s1 r in (s2, o :: os)
  end.

(* ---- the arrival counter as the code keeps it ----
   An integer field of [bits] bits (Gen/Facts.v src_join_counter_bits, read off struct parallelGateway) that either
   starts again at 0 when the gateway fires ([resets] = true, src_join_counter_resets) or runs on and is looked at
   modulo the number of incoming flows. The unbounded [pgw_step] above is what the property speaks about; the
   theorems C03_counter_of_the_source_is_exact / C03_running_narrow_counter_refuted relate the two. *)
From Coq Require Import NArith.

Definition wrap (bits : BinNums.N) (c : nat) : nat := BinNat.N.to_nat (BinNat.N.modulo (BinNat.N.of_nat c) (BinNat.N.pow 2 bits)).

Definition pgw_step_w (bits : BinNums.N) (resets : bool) (N M : nat) (s : pgw) (t : nat)
  : pgw * list (nat * option (nat * nat)) :=
  let c := wrap bits (S (cnt s)) in
  let p := parked s ++ [t] in
  if (if resets then c =? N else c mod N =? 0)
  then ({| cnt := if resets then 0 else c; parked := [] |}, combine p (distribute (length p) M))
  else ({| cnt := c; parked := p |}, []).

Fixpoint pgw_run_w (bits : BinNums.N) (resets : bool) (N M : nat) (s : pgw) (arr : list nat)
  : pgw * list (list (nat * option (nat * nat))) :=
  match arr with
  | [] => (s, [])
  | t :: r => let '(s1, o) := pgw_step_w bits resets N M s t in
              let '(s2, os) := pgw_run_w bits resets N M s1 r in (s2, o :: os)
  end.
