(** Model of the task request protocol (activity.go taskTrace.Do / process), of the declared-only
    filtering of results (ApplyTaskResult / ApplyTaskDataOutput) and of the error-mode switch of the
    flow loop (flow.go 314-352 with retry.go). *)
From Coq Require Export List ZArith Arith Bool Lia.
Export ListNotations.

(** * 1. Do / process.  [forward] is a one-slot buffer; [process] takes one answer, hands it to the
    engine, then closes [done].  A caller first looks at [done], then sends. *)
Inductive dop :=
| Chk (i : nat)      (* caller i evaluates the done check *)
| Snd (i : nat)      (* caller i performs its send on forward *)
| Rcv                (* process() receives from forward *)
| Cls.               (* process() closes done *)

(* caller phase: 0 = not started, 1 = passed the done check, 2 = returned, 3 = blocked in the send *)
Record dstate := {
  buf : option nat;          (* content of forward (value = caller id) *)
  got : option nat;          (* answer taken by process(): the effective one *)
  dn : bool;                 (* done closed *)
  phase : nat -> nat;
  sent : list nat            (* callers whose answer entered the buffer, in order *)
}.

Definition set_phase (f : nat -> nat) (i v : nat) : nat -> nat := fun j => if j =? i then v else f j.

Definition dinit : dstate := {| buf := None; got := None; dn := false; phase := fun _ => 0; sent := [] |}.

(* [blocking] = the pinned snapshot (send blocks while the slot is full);
   false = the repaired code (send gives up when the slot is full) *)
Definition dstep (blocking : bool) (s : dstate) (o : dop) : dstate :=
  match o with
  | Chk i =>
      if phase s i =? 0
      then {| buf := buf s; got := got s; dn := dn s;
              phase := set_phase (phase s) i (if dn s then 2 else 1); sent := sent s |}
      else s
  | Snd i =>
      if (phase s i =? 1) || (phase s i =? 3) then
        match buf s with
        | None => {| buf := Some i; got := got s; dn := dn s; phase := set_phase (phase s) i 2; sent := sent s ++ [i] |}
        | Some _ => if blocking
                    then {| buf := buf s; got := got s; dn := dn s; phase := set_phase (phase s) i 3; sent := sent s |}
                    else {| buf := buf s; got := got s; dn := dn s; phase := set_phase (phase s) i 2; sent := sent s |}
        end
      else s
  | Rcv =>
      match got s, buf s with
      | None, Some v => {| buf := None; got := Some v; dn := dn s; phase := phase s; sent := sent s |}
      | _, _ => s
      end
  | Cls =>
      match got s with
      | Some _ => {| buf := buf s; got := got s; dn := true; phase := phase s; sent := sent s |}
      | None => s
      end
  end.

Definition drun (blocking : bool) (sched : list dop) : dstate := fold_left (dstep blocking) sched dinit.

(** * 2. Declared-only filtering.  Names are numbers; a result set is an association list. *)
Fixpoint lookupn {A} (k : nat) (l : list (nat * A)) : option A :=
  match l with
  | [] => None
  | (a, b) :: r => if a =? k then Some b else lookupn k r
  end.

(* ApplyTaskResult: for each declared field, in declaration order, the supplied value if any *)
Definition apply_results {A} (declared : list nat) (supplied : list (nat * A)) : list (nat * A) :=
  flat_map (fun d => match lookupn d supplied with Some v => [(d, v)] | None => [] end) declared.

(* variables after the answer: SetVariable for each kept pair (later writes win) *)
Definition store {A} (vars : list (nat * A)) (kept : list (nat * A)) : list (nat * A) :=
  fold_left (fun vs p => p :: vs) kept vars.
Definition read {A} (vars : list (nat * A)) (k : nat) : option A := lookupn k vars.

(** * 3. Error modes.  One answer per request. *)
Inductive answer := AOk | AErrNoHandler | AErrSkip | AErrExit | AErrRetry (r : Z).
Inductive outcome := Continues | Ended | Waiting.   (* token goes on / token stops / request unanswered *)

(* retry.go: IsContinue / Step with limit set by Reset(handler.Retries) *)
Definition is_continue (limit attempts : Z) : bool := (limit =? -1)%Z || (attempts <? limit)%Z.

(* the token at the task: consumes one answer per request; returns (number of requests issued,
   number of error traces, outcome) *)
Fixpoint token (attempts : Z) (answers : list answer) : nat * nat * outcome :=
  match answers with
  | [] => (1, 0, Waiting)
  | a :: rest =>
      match a with
      | AOk => (1, 0, Continues)
      | AErrNoHandler | AErrSkip => (1, 1, Continues)
      | AErrExit => (1, 1, Ended)
      | AErrRetry r =>
          if is_continue r attempts
          then let '(n, e, o) := token (attempts + 1) rest in (S n, S e, o)
          else (1, 1, Ended)
      end
  end.

(** * 4. The answer as the host gives it: an error or none, and possibly a handler (a channel on which a mode is or is
    not queued).  [only_on_error] = the handler is looked at only when the answer carries an error (the sources:
    Gen/Facts.v src_handler_read_only_on_error); false = it is obeyed whenever it is there. *)
Inductive hmode := HSkip | HExit | HRetry (r : Z).
Definition by_mode (m : hmode) : answer :=
  match m with HSkip => AErrSkip | HExit => AErrExit | HRetry r => AErrRetry r end.
Definition interpret (only_on_error : bool) (a : bool * option hmode) : answer :=
  let '(err, h) := a in
  if only_on_error
  then (if err then match h with Some m => by_mode m | None => AErrNoHandler end else AOk)
  else match h with Some m => by_mode m | None => if err then AErrNoHandler else AOk end.
