(** Ownership / lockset discipline for C17.
    Part 1 — the discipline on facts extracted from the sources (Gen/Facts.v own_fields, own_accesses,
    harness/ownership.go): every field of a goroutine-owning struct type either synchronises itself
    (sync.*, atomic.*, channels, or never assigned outside the constructor), or is touched by its
    owner goroutine only, or every function touching it locks one and the same mutex of the struct.
    Part 2 — why the discipline excludes data races: in every trace that respects mutual exclusion,
    two accesses by different goroutines that both hold a common lock are ordered by happens-before
    (program order + "the n-th Unlock of a mutex happens before the m-th Lock returns, n < m": the Go
    memory model's rule for sync.Mutex). *)
From Coq Require Export List Arith Bool String Lia.
Export ListNotations.

(* ---------- part 1: the discipline on facts ---------- *)
Definition access := (string * string * bool * nat * string)%type.  (* field, function, write, class, lock *)
Definition a_field (a : access) : string := let '(f, _, _, _, _) := a in f.
Definition a_class (a : access) : nat := let '(_, _, _, c, _) := a in c.
Definition a_lock (a : access) : string := let '(_, _, _, _, l) := a in l.

Definition field_ok (accs : list access) (f : string) : bool :=
  let mine := filter (fun a => String.eqb (a_field a) f && negb (a_class a =? 0)) accs in
  forallb (fun a => a_class a =? 1) mine
  || match mine with
     | [] => true
     | a :: _ => negb (String.eqb (a_lock a) "") && forallb (fun b => String.eqb (a_lock b) (a_lock a)) mine
     end.
Definition ownership_ok (fields : list (string * bool)) (accs : list access) : bool :=
  forallb (fun p => snd p || field_ok accs (fst p)) fields.
Definition not_owned (fields : list (string * bool)) (accs : list access) : list string :=
  map fst (filter (fun p => negb (snd p || field_ok accs (fst p))) fields).

(* package-level maps: (variable, function, writes, takes the lock it needs: a write lock for writing, any lock for
   reading; init functions exempt) *)
Definition global_maps_ok (accs : list (string * string * bool * bool)) : bool :=
  forallb (fun a => let '(_, _, _, ok) := a in ok) accs.

(* local variables shared with function literals and modified once such a literal exists: (function.variable,
   context, writes, synchronised: the context locks, or the type synchronises itself, or the access is atomic) *)
Definition captured_ok (accs : list (string * string * bool * bool)) : bool :=
  forallb (fun a => let '(_, _, _, ok) := a in ok) accs.

(* the discipline speaks of THE owner goroutine of a value: every statement starting a run loop is kept from running
   twice for one value (class 0 sync.Once, 1 constructor, 2 entry point called once, 3 atomic compare-and-swap; 9 = not) *)
Definition single_owner_ok (starts : list (string * string * nat)) : bool :=
  forallb (fun a => let '(_, _, c) := a in c <? 9) starts.

(* ---------- part 2: traces ---------- *)
Inductive ev := Acq (t l : nat) | Rel (t l : nat) | Acc (t x : nat) (w : bool).
Definition thread (e : ev) : nat := match e with Acq t _ | Rel t _ | Acc t _ _ => t end.

Definition hstep (l : nat) (h : option nat) (e : ev) : option nat :=
  match e with
  | Acq t l' => if l' =? l then Some t else h
  | Rel t l' => if l' =? l then None else h
  | Acc _ _ _ => h
  end.
(* who holds lock l after the first n events *)
Definition holder (tr : list ev) (n l : nat) : option nat := fold_left (hstep l) (firstn n tr) None.

(* mutual exclusion: a lock is acquired only when free, released only by its holder *)
Definition wf (tr : list ev) : Prop :=
  forall n, (forall t l, nth_error tr n = Some (Acq t l) -> holder tr n l = None) /\
            (forall t l, nth_error tr n = Some (Rel t l) -> holder tr n l = Some t).

Inductive hb (tr : list ev) : nat -> nat -> Prop :=
| hb_po i j a b : i < j -> nth_error tr i = Some a -> nth_error tr j = Some b -> thread a = thread b -> hb tr i j
| hb_sync i j t t' l : i < j -> nth_error tr i = Some (Rel t l) -> nth_error tr j = Some (Acq t' l) -> hb tr i j
| hb_trans i j k : hb tr i j -> hb tr j k -> hb tr i k.

(* access number i is performed while its goroutine holds lock l *)
Definition holds (tr : list ev) (i l : nat) : Prop :=
  exists t x w, nth_error tr i = Some (Acc t x w) /\ holder tr i l = Some t.

(* a data race on variable x: two conflicting accesses of different goroutines, not ordered *)
Definition race (tr : list ev) (x : nat) : Prop :=
  exists i j t t' w w', i < j /\ nth_error tr i = Some (Acc t x w) /\ nth_error tr j = Some (Acc t' x w') /\
    t <> t' /\ (w = true \/ w' = true) /\ ~ hb tr i j.

(* package-level variables of the engine's packages that can hold state (Gen/Facts.v package_level_state, regenerated
   from the sources on every run): the ones that exist have been looked at, one by one --
     ..buildDefaultIDGenerator                        a function value, assigned where it is declared and never again
     pkg/event.WrappingDefinitionInstanceBuilder      a value of an empty struct type: no state
     pkg/expression.enginesLock / enginesMap          the registry of expression engines and its lock (global_maps_ok)
   -- and the discipline above (fields, captured locals, package-level maps) is complete only as long as there is no
   other: state shared by every instance in the OS process (a pool, a cache, a memo table, a free list) is where the
   instances of one program meet. A variable that is not on this list and is not of a type that synchronises itself
   (sync.Mutex, sync.Map, sync.Pool, the atomic types) is a new proof obligation. *)
Definition reviewed_package_state : list (string * string) :=
  [ ("..buildDefaultIDGenerator", "func");
    ("pkg/event.WrappingDefinitionInstanceBuilder", "value");
    ("pkg/expression.enginesLock", "sync");
    ("pkg/expression.enginesMap", "map") ]%string.
Definition package_state_ok (vars : list (string * string)) : bool :=
  forallb (fun v => String.eqb (snd v) "sync"      (* a sync / atomic type synchronises itself *)
                    || existsb (fun r => String.eqb (fst v) (fst r) && String.eqb (snd v) (snd r)) reviewed_package_state) vars.
