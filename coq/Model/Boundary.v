(** An activity with boundary events (activity.go harness): tokens enter and wait for the
    activity's answer; while a token is inside, every boundary event has a listener; an event
    makes the matching listeners leave for their exception flow, an interrupting one after asking
    the harness's run loop — the single arbiter — to withdraw the tokens inside.
    Flags select the code variant:
      withdraw_done  — listeners are withdrawn when the last token has left (repaired);
      cancel_pending — an interruption withdraws the tokens that wait for an answer (repaired);
      rearm          — a non-interrupting listener is replaced when it leaves (repaired);
      arbiter        — an interrupting event that comes after the last answer is refused (repaired). *)
From Coq Require Export List Arith Bool Lia.
Export ListNotations.

Record bcfg := { withdraw_done : bool; cancel_pending : bool; rearm : bool; arbiter : bool }.

(* static description of a boundary event: interrupting?, the event it listens for *)
Definition bspec := (bool * nat)%type.

Record bst := {
  inside : nat;            (* tokens waiting for the activity's answer *)
  armed : list bool;       (* per boundary event: a listener waits at it *)
  inflight : list nat;     (* per boundary event: listeners that got their event and have not yet taken their decision *)
  normal : nat;            (* tokens that left by the activity's normal flow *)
  exc : list nat;          (* per boundary event: tokens that continued on its exception flow *)
  withdrawn : nat;         (* tokens withdrawn by an interrupting boundary event *)
  entered : nat;
  matched : list nat       (* per boundary event: matching events delivered while its listener was waiting *)
}.

Inductive blabel := BEnter | BEvent (e : nat) | BFire (i : nat) | BAnswer.

Fixpoint upd {A} (l : list A) (i : nat) (x : A) : list A :=
  match l, i with
  | [], _ => []
  | _ :: t, 0 => x :: t
  | a :: t, S j => a :: upd t j x
  end.
Definition incr (l : list nat) (i : nat) : list nat := upd l i (S (nth i l 0)).
Definition decr (l : list nat) (i : nat) : list nat := upd l i (nth i l 0 - 1).

(* the listeners that a delivery of event e reaches: per boundary event (reached?, still armed afterwards?) *)
Fixpoint deliver (c : bcfg) (specs : list bspec) (e : nat) (arm : list bool) (infl mt : list nat) : list bool * list nat * list nat :=
  match specs, arm, infl, mt with
  | (intr, pat) :: ss, a :: ar, f :: fr, m :: mr =>
      let '(ar', fr', mr') := deliver c ss e ar fr mr in
      if a && (pat =? e)
      then ((if intr then false else rearm c) :: ar', S f :: fr', S m :: mr')
      else (a :: ar', f :: fr', m :: mr')
  | _, _, _, _ => (arm, infl, mt)
  end.

Definition all_false (n : nat) : list bool := repeat false n.
Definition all_true (n : nat) : list bool := repeat true n.

Definition bstep (c : bcfg) (specs : list bspec) (s : bst) (l : blabel) : option bst :=
  match l with
  | BEnter =>
      Some {| inside := S (inside s);
              armed := (if inside s =? 0 then all_true (length specs) else armed s);
              inflight := inflight s; normal := normal s; exc := exc s; withdrawn := withdrawn s;
              entered := S (entered s); matched := matched s |}
  | BEvent e =>
      if inside s =? 0 then Some s   (* the activity does not forward events while nobody waits in it *)
      else let '(ar, fr, mr) := deliver c specs e (armed s) (inflight s) (matched s) in
           Some {| inside := inside s; armed := ar; inflight := fr; normal := normal s; exc := exc s;
                   withdrawn := withdrawn s; entered := entered s; matched := mr |}
  | BFire i =>
      if 1 <=? nth i (inflight s) 0 then
        match nth_error specs i with
        | Some (true, _) =>
            if (1 <=? inside s) then
              if cancel_pending c then
                Some {| inside := 0; armed := all_false (length specs); inflight := decr (inflight s) i; normal := normal s;
                        exc := incr (exc s) i; withdrawn := withdrawn s + inside s; entered := entered s; matched := matched s |}
              else
                Some {| inside := inside s; armed := armed s; inflight := decr (inflight s) i; normal := normal s;
                        exc := incr (exc s) i; withdrawn := withdrawn s; entered := entered s; matched := matched s |}
            else
              Some {| inside := inside s; armed := armed s; inflight := decr (inflight s) i; normal := normal s;
                      exc := (if arbiter c then exc s else incr (exc s) i); withdrawn := withdrawn s; entered := entered s;
                      matched := matched s |}
        | Some (false, _) =>
            Some {| inside := inside s; armed := armed s; inflight := decr (inflight s) i; normal := normal s;
                    exc := incr (exc s) i; withdrawn := withdrawn s; entered := entered s; matched := matched s |}
        | None => None
        end
      else None
  | BAnswer =>
      if 1 <=? inside s then
        Some {| inside := inside s - 1;
                armed := (if (inside s =? 1) && withdraw_done c then all_false (length specs) else armed s);
                inflight := inflight s; normal := S (normal s); exc := exc s; withdrawn := withdrawn s;
                entered := entered s; matched := matched s |}
      else None
  end.

Definition binit (n : nat) : bst :=
  {| inside := 0; armed := all_false n; inflight := repeat 0 n; normal := 0; exc := repeat 0 n; withdrawn := 0;
     entered := 0; matched := repeat 0 n |}.

Fixpoint bexec (c : bcfg) (specs : list bspec) (s : bst) (p : list blabel) : option bst :=
  match p with
  | [] => Some s
  | l :: r => match bstep c specs s l with Some s' => bexec c specs s' r | None => None end
  end.
Definition breach (c : bcfg) (specs : list bspec) (s : bst) : Prop := exists p, bexec c specs (binit (length specs)) p = Some s.

Definition b_fixed : bcfg := {| withdraw_done := true; cancel_pending := true; rearm := true; arbiter := true |}.

(* exception tokens of the interrupting boundary events *)
Fixpoint intr_sum (specs : list bspec) (xs : list nat) : nat :=
  match specs, xs with
  | (true, _) :: ss, x :: r => x + intr_sum ss r
  | (false, _) :: ss, _ :: r => intr_sum ss r
  | _, _ => 0
  end.
