(** Model of schema/schema_item.go: Value.ValueFrom / ValueFor (NewValue = ValueFrom with no
    declared type).  Go values are abstracted to [gv]; strings are identifiers except for the
    special texts the code inspects; float64 values are [FInt z] (integral, exact), [FId n]
    (any other finite value, identified by its bits) or [FBad n] (NaN / infinities, which
    json.Marshal rejects). JSON text is abstracted to the tree it denotes. *)
From Coq Require Export List ZArith Bool Lia NArith.
Export ListNotations.
Open Scope Z_scope.

Inductive fl := FInt (z : Z) | FId (n : N) | FBad (n : N).
Inductive str := SLit (k : N) | SNum (z : Z) | STrue | SFalse.

Inductive gv :=
| VInt (z : Z)                    (* int, int8 .. int64 *)
| VUint (z : Z)                   (* uint, uint8 .. uint64 (0 <= z) *)
| VFloat (f : fl)                 (* float32 (widened) / float64 *)
| VStr (s : str) | VBool (b : bool)
| VNil                            (* untyped nil *)
| VNilPtr                         (* typed nil pointer *)
| VPtr (v : gv)
| VSlice (l : list gv)
| VMap (l : list (N * gv))        (* keys sorted, distinct *)
| VStruct (l : list (N * gv))
| VOther.                         (* chan, func, ... *)

Inductive ity := TNone | TString | TInteger | TBoolean | TFloat | TArray | TObject.

(* JSON documents *)
Inductive jv := JInt (z : Z) | JFlt (f : fl) | JStr (s : str) | JBool (b : bool) | JNull
              | JArr (l : list jv) | JObj (l : list (N * jv)).

(* canonical values read back *)
Inductive cv := CInt (z : Z) | CFlt (f : fl) | CStr (s : str) | CEmptyStr | CBool (b : bool) | CNull
              | CArr (l : list cv) | CObj (l : list (N * cv)).

Inductive payload := PEmpty | PInt (z : Z) | PFlt (f : fl) | PStr (s : str) | PBool (b : bool) | PJson (j : jv).
Inductive res := Ok (t : ity) (p : payload) | Panic.

(* ---- float64 rounding of an integer (round to nearest, ties to even, 53-bit significand) ---- *)
Definition r64_nonneg (a : Z) : Z :=
  if a <? 2 ^ 53 then a
  else let e := Z.log2 a - 52 in
       let q := a / 2 ^ e in let r := a mod 2 ^ e in let half := 2 ^ (e - 1) in
       let q' := if (half <? r) || ((r =? half) && Z.odd q) then q + 1 else q in
       q' * 2 ^ e.
Definition r64 (z : Z) : Z := if z <? 0 then - r64_nonneg (- z) else r64_nonneg z.

(* ---- json.Marshal (None = error) ---- *)
Fixpoint sequence {A} (l : list (option A)) : option (list A) :=
  match l with
  | [] => Some []
  | x :: r => match x, sequence r with Some a, Some b => Some (a :: b) | _, _ => None end
  end.

Fixpoint to_json (v : gv) : option jv :=
  match v with
  | VInt z => Some (JInt z)
  | VUint z => Some (JInt z)
  | VFloat (FBad _) => None
  | VFloat f => Some (JFlt f)
  | VStr s => Some (JStr s)
  | VBool b => Some (JBool b)
  | VNil | VNilPtr => Some JNull
  | VPtr x => to_json x
  | VSlice l => option_map JArr (sequence (map to_json l))
  | VMap l | VStruct l =>
      option_map JObj (sequence (map (fun p => option_map (pair (fst p)) (to_json (snd p))) l))
  | VOther => None
  end.

(* ---- json.Unmarshal into any: every number becomes a float64 ---- *)
Fixpoint decode (j : jv) : cv :=
  match j with
  | JInt z => CFlt (FInt (r64 z))
  | JFlt f => CFlt f
  | JStr s => CStr s
  | JBool b => CBool b
  | JNull => CNull
  | JArr l => CArr (map decode l)
  | JObj l => CObj (map (fun p => (fst p, decode (snd p))) l)
  end.

(* ---- ValueFrom.  [deref1] is the single rv.Elem() of the inferred-kind branch. ---- *)
Definition deref1 (v : gv) : gv := match v with VPtr x => x | VNilPtr => VNil | _ => v end.
Definition marshal_as (t : ity) (v : gv) : res :=
  match to_json v with Some j => Ok t (PJson j) | None => Ok t PEmpty end.

(* [uint_ok] = the repaired code (unsigned kinds use Uint()); false = the code as it was *)
Definition infer (uint_ok : bool) (keep : ity) (v : gv) : res :=
  match deref1 v with
  | VSlice _ => marshal_as TArray v
  | VMap _ | VStruct _ => marshal_as TObject v
  | VStr s => Ok TString (PStr s)
  | VBool b => Ok TBoolean (PBool b)
  | VInt z => Ok TInteger (PInt z)
  | VUint z => if uint_ok then Ok TInteger (PInt z) else Panic
  | VFloat f => Ok TFloat (PFlt f)
  | _ => Ok keep PEmpty
  end.

Definition is_seq (v : gv) := match v with VSlice _ => true | _ => false end.
Definition is_rec (v : gv) := match v with VMap _ | VStruct _ => true | _ => false end.

Definition value_from_gen (uint_ok nil_ok : bool) (declared : ity) (v : gv) : res :=
  match declared with
  | TString => match v with VStr s => Ok TString (PStr s) | _ => Ok TString PEmpty end
  | TInteger => match v with
                | VInt z | VUint z => Ok TInteger (PInt z)
                | VStr (SNum z) => if (- 2 ^ 63 <=? z) && (z <? 2 ^ 63) then Ok TInteger (PInt z) else Ok TInteger PEmpty
                | _ => Ok TInteger PEmpty
                end
  | TBoolean => match v with
                | VBool b => Ok TBoolean (PBool b)
                | VStr STrue => Ok TBoolean (PBool true)
                | VStr SFalse => Ok TBoolean (PBool false)
                | _ => Ok TBoolean PEmpty
                end
  | TFloat => match v with
              | VFloat f => Ok TFloat (PFlt f)      (* "%f": precision loss is outside this model, see DESIGN *)
              | VStr (SNum z) => Ok TFloat (PFlt (FInt (r64 z)))
              | _ => Ok TFloat PEmpty
              end
  | TArray => match v with
              | VNil => if nil_ok then Ok TArray PEmpty else Panic
              | _ => if is_seq v then marshal_as TArray v else Ok TArray PEmpty
              end
  | TObject => match v with
               | VNil => if nil_ok then Ok TObject PEmpty else Panic
               | _ => if is_rec (deref1 v) && negb (match v with VNilPtr => true | _ => false end)
                      then marshal_as TObject v else Ok TObject PEmpty
               end
  | TNone => infer uint_ok TNone v
  end.

Definition value_from := value_from_gen true true.       (* the code as repaired *)
Definition value_from_old := value_from_gen false false. (* the pinned snapshot *)

(* ---- ValueFor ---- *)
Definition value_for (t : ity) (p : payload) : cv :=
  match t with
  | TString => match p with PStr s => CStr s | _ => CEmptyStr end
  | TInteger => match p with PInt z => CInt z | _ => CInt 0 end
  | TBoolean => match p with PBool b => CBool b | _ => CBool false end
  | TFloat => match p with PFlt f => CFlt f | _ => CFlt (FInt 0) end
  | TArray => match p with PJson (JArr l) => CArr (map decode l) | _ => CArr [] end  (* nil slice == empty *)
  | TObject => match p with PJson (JObj l) => CObj (map (fun q => (fst q, decode (snd q))) l) | _ => CObj [] end
  | TNone => match p with PStr s => CStr s | _ => CEmptyStr end
  end.

Definition roundtrip (declared : ity) (v : gv) : option (ity * cv) :=
  match value_from declared v with Ok t p => Some (t, value_for t p) | Panic => None end.

(* ---- the canonical form a stored value is expected to come back as ---- *)
Fixpoint exact (v : gv) : cv :=      (* nested numbers as exact float64 of the same integer *)
  match v with
  | VInt z | VUint z => CFlt (FInt z)
  | VFloat f => CFlt f
  | VStr s => CStr s
  | VBool b => CBool b
  | VNil | VNilPtr | VOther => CNull
  | VPtr x => exact x
  | VSlice l => CArr (map exact l)
  | VMap l | VStruct l => CObj (map (fun p => (fst p, exact (snd p))) l)
  end.

(* every integer nested in v is exactly representable as a float64 *)
Fixpoint small (v : gv) : bool :=
  match v with
  | VInt z | VUint z => (- 2 ^ 53 <=? z) && (z <=? 2 ^ 53)
  | VPtr x => small x
  | VSlice l => forallb small l
  | VMap l | VStruct l => forallb (fun p => small (snd p)) l
  | _ => true
  end.

(* no NaN/Inf/chan/func inside (json.Marshal succeeds) *)
Fixpoint encodable (v : gv) : bool :=
  match v with
  | VFloat (FBad _) | VOther => false
  | VPtr x => encodable x
  | VSlice l => forallb encodable l
  | VMap l | VStruct l => forallb (fun p => encodable (snd p)) l
  | _ => true
  end.
