(** Model of process_set.go: per-process watchers (subscribe, forward throw events, end on the
    process's cease-flow trace), the set's wait group, the run loop (instantiates the target of a
    message flow, emits the cease-process-set trace when done), WaitUntilComplete's closer.
    Flags select the code variant:
      sub_first    — a watcher is subscribed before its process starts (repaired);
      once_close   — the closer goroutine is started once (repaired);
      add_on_throw — a forwarded throw is counted in the wait group until the run loop handled it (repaired). *)
From Coq Require Export List Arith Bool Lia.
Export ListNotations.

Record pcfg := { sub_first : bool; once_close : bool; add_on_throw : bool }.

Record pst := {
  hasthrow : bool;   (* the process contains a throw event that is the source of a message flow *)
  thrown : bool;     (* it has emitted the throw event's flow trace *)
  fwd : bool;        (* its watcher has forwarded that trace to the run loop *)
  finished : bool;   (* it has emitted its cease-flow trace *)
  wsub : bool;       (* its watcher is subscribed *)
  wmissed : bool;    (* the cease-flow trace was emitted before the watcher subscribed *)
  wdone : bool       (* its watcher has returned (wait group Done) *)
}.

Record sst := {
  procs : list pst;      (* every process started so far (initial executables, then instantiated ones) *)
  wg : nat;
  mch : nat;             (* throw messages queued for the run loop *)
  closed : bool;         (* the done channel is closed: WaitUntilComplete returns true *)
  closers : nat;         (* closer goroutines waiting on the wait group *)
  spawned : bool;        (* a closer has been started *)
  panicked : bool;       (* close of closed channel *)
  ceases : nat;          (* cease-process-set traces emitted *)
  delivered : nat;       (* forwarded throws the run loop handled without instantiating (no waiting target) *)
  runalive : bool
}.

Inductive slabel :=
| SWatchSub (i : nat) | SThrow (i : nat) | SFinish (i : nat) | SWatchThrow (i : nat) | SWatchCease (i : nat)
| SRunThrow | SRunDeliver | SSpawnCloser | SClose | SRunDone.

Fixpoint updp {A} (l : list A) (i : nat) (x : A) : list A :=
  match l, i with
  | [], _ => []
  | _ :: t, 0 => x :: t
  | a :: t, S j => a :: updp t j x
  end.

Definition set_procs (s : sst) (ps : list pst) (w m : nat) : sst :=
  {| procs := ps; wg := w; mch := m; closed := closed s; closers := closers s; spawned := spawned s;
     panicked := panicked s; ceases := ceases s; delivered := delivered s; runalive := runalive s |}.

Definition newproc (c : pcfg) : pst :=
  {| hasthrow := false; thrown := false; fwd := false; finished := false; wsub := sub_first c; wmissed := false; wdone := false |}.

Definition sstep (c : pcfg) (s : sst) (l : slabel) : option sst :=
  match l with
  | SWatchSub i =>
      match nth_error (procs s) i with
      | Some p => if wsub p then None
                  else Some (set_procs s (updp (procs s) i {| hasthrow := hasthrow p; thrown := thrown p; fwd := fwd p; finished := finished p;
                                                             wsub := true; wmissed := finished p; wdone := wdone p |}) (wg s) (mch s))
      | None => None
      end
  | SThrow i =>
      match nth_error (procs s) i with
      | Some p => if hasthrow p && negb (thrown p) && negb (finished p)
                  then Some (set_procs s (updp (procs s) i {| hasthrow := true; thrown := true; fwd := fwd p; finished := false;
                                                             wsub := wsub p; wmissed := wmissed p; wdone := wdone p |}) (wg s) (mch s))
                  else None
      | None => None
      end
  | SFinish i =>
      match nth_error (procs s) i with
      | Some p => if negb (finished p) && (negb (hasthrow p) || thrown p)
                  then Some (set_procs s (updp (procs s) i {| hasthrow := hasthrow p; thrown := thrown p; fwd := fwd p; finished := true;
                                                             wsub := wsub p; wmissed := wmissed p; wdone := wdone p |}) (wg s) (mch s))
                  else None
      | None => None
      end
  | SWatchThrow i =>
      match nth_error (procs s) i with
      | Some p => if wsub p && thrown p && negb (fwd p) && negb (wdone p)
                  then Some (set_procs s (updp (procs s) i {| hasthrow := hasthrow p; thrown := true; fwd := true; finished := finished p;
                                                             wsub := true; wmissed := wmissed p; wdone := false |})
                                       (if add_on_throw c then S (wg s) else wg s) (S (mch s)))
                  else None
      | None => None
      end
  | SWatchCease i =>
      match nth_error (procs s) i with
      | Some p => if wsub p && finished p && negb (wmissed p) && negb (wdone p) && (negb (thrown p) || fwd p) && (1 <=? wg s)
                  then Some (set_procs s (updp (procs s) i {| hasthrow := hasthrow p; thrown := thrown p; fwd := fwd p; finished := true;
                                                             wsub := true; wmissed := false; wdone := true |}) (wg s - 1) (mch s))
                  else None
      | None => None
      end
  | SRunThrow =>
      if runalive s && (1 <=? mch s)
      then Some (set_procs s (procs s ++ [newproc c]) (if add_on_throw c then wg s else S (wg s)) (mch s - 1))
      else None
  | SRunDeliver =>
      if runalive s && (1 <=? mch s) && implb (add_on_throw c) (1 <=? wg s)
      then Some {| procs := procs s; wg := (if add_on_throw c then wg s - 1 else wg s); mch := mch s - 1; closed := closed s;
                   closers := closers s; spawned := spawned s; panicked := panicked s; ceases := ceases s;
                   delivered := S (delivered s); runalive := runalive s |}
      else None
  | SSpawnCloser =>
      if once_close c && spawned s then None
      else Some {| procs := procs s; wg := wg s; mch := mch s; closed := closed s; closers := S (closers s); spawned := true;
                   panicked := panicked s; ceases := ceases s; delivered := delivered s; runalive := runalive s |}
  | SClose =>
      if (1 <=? closers s) && (wg s =? 0)
      then Some {| procs := procs s; wg := wg s; mch := mch s; closed := true; closers := closers s - 1; spawned := spawned s;
                   panicked := panicked s || closed s; ceases := ceases s; delivered := delivered s; runalive := runalive s |}
      else None
  | SRunDone =>
      if runalive s && closed s
      then Some {| procs := procs s; wg := wg s; mch := mch s; closed := true; closers := closers s; spawned := spawned s;
                   panicked := panicked s; ceases := S (ceases s); delivered := delivered s; runalive := false |}
      else None
  end.

(* StartAll has returned: every initial executable process is started, counted in the wait group,
   its watcher subscribed or (pinned snapshot) about to subscribe *)
Definition initproc (c : pcfg) (throws : bool) : pst :=
  {| hasthrow := throws; thrown := false; fwd := false; finished := false; wsub := sub_first c; wmissed := false; wdone := false |}.
Definition sinit (c : pcfg) (throwers : list bool) : sst :=
  {| procs := map (initproc c) throwers; wg := length throwers; mch := 0; closed := false; closers := 0; spawned := false;
     panicked := false; ceases := 0; delivered := 0; runalive := true |}.

Fixpoint sexec (c : pcfg) (s : sst) (p : list slabel) : option sst :=
  match p with
  | [] => Some s
  | l :: r => match sstep c s l with Some s' => sexec c s' r | None => None end
  end.
Definition sreach (c : pcfg) (throwers : list bool) (s : sst) : Prop := exists p, sexec c (sinit c throwers) p = Some s.

Definition alive (l : list pst) : nat := length (filter (fun p => negb (wdone p)) l).
Definition fixedcfg : pcfg := {| sub_first := true; once_close := true; add_on_throw := true |}.

(** * Waking a catch event over a message flow.  The catch event announces that it listens; the set's watcher reads the
    announcement some time later.
      via_table = false : a throw hands the target's events to the process that contains it; the catch event itself
                          says whether it listens (the sources since /repo 656cb12: Gen/Facts.v src_wake_is_direct);
      via_table = true  : the watcher enters the catch event into a table when it reads the announcement, a throw
                          looks the target up there (the pinned code). *)
Inductive wlabel := WListen | WRegister | WThrow.
Record wst := { wlistening : bool; wannounced : bool; wregistered : bool; wwoken : nat }.
Definition wstep (via_table : bool) (s : wst) (l : wlabel) : wst :=
  match l with
  | WListen => {| wlistening := true; wannounced := true; wregistered := wregistered s; wwoken := wwoken s |}
  | WRegister => if wannounced s
                 then {| wlistening := wlistening s; wannounced := false; wregistered := true; wwoken := wwoken s |}
                 else s
  | WThrow =>
      if via_table
      then (if wregistered s
            then {| wlistening := false; wannounced := wannounced s; wregistered := false;
                    wwoken := if wlistening s then S (wwoken s) else wwoken s |}
            else s)                                             (* no entry: the message is lost *)
      else {| wlistening := false; wannounced := wannounced s; wregistered := wregistered s;
              wwoken := if wlistening s then S (wwoken s) else wwoken s |}
  end.
Definition winit : wst := {| wlistening := false; wannounced := false; wregistered := false; wwoken := 0 |}.
Definition wrun (via_table : bool) (ls : list wlabel) : wst := fold_left (wstep via_table) ls winit.
(* what the property asks for: every throw made while the catch event listens wakes it, once *)
Fixpoint wexpected (listening : bool) (ls : list wlabel) : nat :=
  match ls with
  | [] => 0
  | WListen :: r => wexpected true r
  | WRegister :: r => wexpected listening r
  | WThrow :: r => (if listening then 1 else 0) + wexpected false r
  end.
