(** Model of pkg/tracing/tracer.go: the broadcaster goroutine handles one request at a time
    (subscribe, unsubscribe, trace); a trace is pushed to every current subscriber before the
    next request is taken.  A command history is the order in which the goroutine took them. *)
From Coq Require Export List Arith Bool Lia.
Export ListNotations.

Inductive cmd := Sub (s : nat) | Unsub (s : nat) | Tr (t : nat).

Record tstate := { subs : list nat; logs : list (nat * list nat) }.

Fixpoint log_of (s : nat) (l : list (nat * list nat)) : list nat :=
  match l with
  | [] => []
  | (k, v) :: r => if k =? s then v else log_of s r
  end.

Fixpoint append_log (s t : nat) (l : list (nat * list nat)) : list (nat * list nat) :=
  match l with
  | [] => [(s, [t])]
  | (k, v) :: r => if k =? s then (k, v ++ [t]) :: r else (k, v) :: append_log s t r
  end.

(* position of the first occurrence *)
Fixpoint index_of (s : nat) (l : list nat) : option nat :=
  match l with
  | [] => None
  | x :: r => if x =? s then Some 0 else option_map S (index_of s r)
  end.

(* subscribers[pos] = subscribers[last]; subscribers = subscribers[:last] *)
Fixpoint swap_remove (j : nat) (l : list nat) : list nat :=
  match l with
  | [] => []
  | c :: t =>
      match j with
      | 0 => match t with [] => [] | _ => last t c :: removelast t end
      | S j' => c :: swap_remove j' t
      end
  end.

Definition step (st : tstate) (c : cmd) : tstate :=
  match c with
  | Sub s => {| subs := subs st ++ [s]; logs := logs st |}
  | Unsub s => match index_of s (subs st) with
               | Some j => {| subs := swap_remove j (subs st); logs := logs st |}
               | None => st            (* not subscribed: no acknowledgement, nothing changes *)
               end
  | Tr t => {| subs := subs st; logs := fold_left (fun l s => append_log s t l) (subs st) (logs st) |}
  end.

Definition run (cs : list cmd) : tstate := fold_left step cs {| subs := []; logs := [] |}.

(* SPECIFICATION: what subscriber s must have received: the traces taken while it was subscribed *)
Fixpoint spec_log (s : nat) (active : bool) (cs : list cmd) : list nat :=
  match cs with
  | [] => []
  | Sub x :: r => spec_log s (if x =? s then true else active) r
  | Unsub x :: r => spec_log s (if x =? s then false else active) r
  | Tr t :: r => if active then t :: spec_log s active r else spec_log s active r
  end.

(* well-formed histories: a channel is subscribed only while it is not subscribed *)
Fixpoint wf_from (act : list nat) (cs : list cmd) : bool :=
  match cs with
  | [] => true
  | Sub x :: r => negb (existsb (Nat.eqb x) act) && wf_from (x :: act) r
  | Unsub x :: r => wf_from (filter (fun y => negb (y =? x)) act) r
  | Tr _ :: r => wf_from act r
  end.

(* ---- checks applied to observed logs (trace validation) ---- *)
Fixpoint is_prefix (a b : list nat) : bool :=
  match a, b with
  | [], _ => true
  | x :: r, y :: s => (x =? y) && is_prefix r s
  | _, _ => false
  end.
Fixpoint is_infix (a b : list nat) : bool :=
  is_prefix a b || match b with [] => false | _ :: s => is_infix a s end.

(* trace ids are sender * 64 + sequence number: each sender's traces appear in its program order *)
Fixpoint prog_order (seen : list (nat * nat)) (l : list nat) : bool :=
  match l with
  | [] => true
  | t :: r =>
      let snd_ := t / 64 in let k := t mod 64 in
      match find (fun p => fst p =? snd_) seen with
      | Some (_, last) => (last <? k) && prog_order ((snd_, k) :: seen) r
      | None => prog_order ((snd_, k) :: seen) r
      end
  end.

Definition sub_ok (ref : list nat) (obs : list nat * list nat * list nat) : bool :=
  let '(lg, must, mustnot) := obs in
  is_infix lg ref && forallb (fun t => existsb (Nat.eqb t) lg) must
  && forallb (fun t => negb (existsb (Nat.eqb t) lg)) mustnot.
