(** Model of schema/builder.go ProcessBuilder: NewProcessBuilder, AddActivity*, Out produce a chain
    start -> a1 -> ... -> an -> end.  Ids are natural numbers (the harness numbers the real ids
    by first occurrence). *)
From Coq Require Export List Arith Bool Lia.
Export ListNotations.

Record pnode := { nid : nat; nin : list nat; nout : list nat }.
Record pflow := { fid : nat; fsrc : nat; ftgt : nat }.
Record proc := { nodes : list pnode; flows : list pflow }.

(* [link]: a new flow [f] from the current node (last of the chain built so far) to node [n];
   both copies of the current node get the flow appended to their outgoing list, the new node
   gets it as incoming. *)
Fixpoint add_out (f : nat) (ns : list pnode) : list pnode :=
  match ns with
  | [] => []
  | [x] => [{| nid := nid x; nin := nin x; nout := nout x ++ [f] |}]
  | x :: r => x :: add_out f r
  end.

Definition link (p : proc) (f n : nat) : proc :=
  match last (map Some (nodes p)) None with
  | Some cur =>
      {| nodes := add_out f (nodes p) ++ [{| nid := n; nin := [f]; nout := [] |}];
         flows := flows p ++ [{| fid := f; fsrc := nid cur; ftgt := n |}] |}
  | None => p
  end.

Definition new_builder (start : nat) : proc :=
  {| nodes := [{| nid := start; nin := []; nout := [] |}]; flows := [] |}.

(* steps: (flow id, node id) for each AddActivity and for the end event of Out, in order *)
Fixpoint build_from (p : proc) (steps : list (nat * nat)) : proc :=
  match steps with
  | [] => p
  | (f, n) :: r => build_from (link p f n) r
  end.

Definition build (start : nat) (steps : list (nat * nat)) : proc := build_from (new_builder start) steps.

Definition find_node (p : proc) (i : nat) : option pnode :=
  find (fun x => nid x =? i) (nodes p).
