(** Executable model of pkg/logic/catch_event.go and throw_event.go (Satisfy).
    A chain is the bitset of one partially matched parallel-multiple set,
    represented as a list of booleans of length n (number of event definitions).
    An event is abstracted to [option nat]: the index of the FIRST event
    definition it matches (the Go loop breaks on the first match), or None. *)
From Coq Require Export List Arith Bool Lia.
Export ListNotations.

Definition chain := list bool.

Fixpoint setb (i : nat) (c : chain) : chain :=
  match c, i with
  | [], _ => []
  | _ :: t, 0 => true :: t
  | b :: t, S j => b :: setb j t
  end.

Definition testb (i : nat) (c : chain) : bool := nth i c false.
Definition allb (c : chain) : bool := forallb (fun b => b) c.
Definition fresh (n i : nat) : chain := setb i (repeat false n).

(* chains[j] = chains[len-1]; chains = chains[:len-1] *)
Fixpoint swap_remove (j : nat) (cs : list chain) : list chain :=
  match cs with
  | [] => []
  | c :: t =>
      match j with
      | 0 => match t with [] => [] | _ => last t c :: removelast t end
      | S j' => c :: swap_remove j' t
      end
  end.

(* index of first chain lacking bit i *)
Fixpoint find_lacking (i : nat) (cs : list chain) : option nat :=
  match cs with
  | [] => None
  | c :: t => if testb i c then option_map S (find_lacking i t) else Some 0
  end.

Fixpoint set_nth {A} (j : nat) (x : A) (l : list A) : list A :=
  match l, j with
  | [], _ => []
  | _ :: t, 0 => x :: t
  | a :: t, S j' => a :: set_nth j' x t
  end.

(* result of one Satisfy call: new chains, matched flag, chain index (Z-like: None = EventDidNotMatch) *)
Record sres := { s_chains : list chain; s_matched : bool; s_chain : option nat }.

(* parallel-multiple with n >= 2 definitions (catch) / any throw satisfier with n >= 2 *)
Definition satisfy_par (n : nat) (cs : list chain) (i : nat) : sres :=
  match cs with
  | [] => {| s_chains := [fresh n i]; s_matched := false; s_chain := Some 0 |}
  | _ =>
    match find_lacking i cs with
    | Some j =>
        let c' := setb i (nth j cs []) in
        if allb c'
        then {| s_chains := swap_remove j cs; s_matched := true; s_chain := Some j |}
        else {| s_chains := set_nth j c' cs; s_matched := false; s_chain := Some j |}
    | None => {| s_chains := cs ++ [fresh n i]; s_matched := false; s_chain := Some (length cs) |}
    end
  end.

(* The full dispatch of CatchEventSatisfier.Satisfy. [par] = ParallelMultiple(). *)
Definition satisfy_catch (par : bool) (n : nat) (cs : list chain) (ev : option nat) : sres :=
  match ev with
  | None => {| s_chains := cs; s_matched := false; s_chain := None |}
  | Some i =>
      if negb par || (n =? 1) then {| s_chains := cs; s_matched := true; s_chain := Some 0 |}
      else satisfy_par n cs i
  end.

(* ThrowEventSatisfier.Satisfy: same, but without the ParallelMultiple test. *)
Definition satisfy_throw (n : nat) (cs : list chain) (ev : option nat) : sres :=
  match ev with
  | None => {| s_chains := cs; s_matched := false; s_chain := None |}
  | Some i =>
      if n =? 1 then {| s_chains := cs; s_matched := true; s_chain := Some 0 |}
      else satisfy_par n cs i
  end.

(* Run a history; return final chains and the per-step (matched, chain index) log. *)
Fixpoint run_catch (par : bool) (n : nat) (cs : list chain) (h : list (option nat))
  : list chain * list (bool * option nat) :=
  match h with
  | [] => (cs, [])
  | e :: t =>
      let r := satisfy_catch par n cs e in
      let '(cs', log) := run_catch par n (s_chains r) t in
      (cs', (s_matched r, s_chain r) :: log)
  end.

Fixpoint run_throw (n : nat) (cs : list chain) (h : list (option nat))
  : list chain * list (bool * option nat) :=
  match h with
  | [] => (cs, [])
  | e :: t =>
      let r := satisfy_throw n cs e in
      let '(cs', log) := run_throw n (s_chains r) t in
      (cs', (s_matched r, s_chain r) :: log)
  end.

Definition fires (log : list (bool * option nat)) : nat :=
  length (filter (fun p => fst p) log).

(* number of events in h matching definition i *)
Definition count (i : nat) (h : list (option nat)) : nat :=
  length (filter (fun e => match e with Some j => j =? i | None => false end) h).

Definition valid_hist (n : nat) (h : list (option nat)) : Prop :=
  Forall (fun e => match e with Some i => i < n | None => True end) h.
