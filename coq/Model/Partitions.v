(** Where the partition of a new generator comes from (pkg/id/sno.go RestoreIdGenerator without a snapshot). The ids
    of two generators are told apart by the partition alone (Model/Ids.v, C20_multi), so what matters is that no two
    generators of one program get the same one:
      Library    the engine passes no snapshot and the library hands out the next partition of its counter, an error
                 once its [limit] partitions are used up (the sources: Gen/Facts.v src_partition_comes_from_the_library)
      Recycling  the engine keeps the partitions of generators whose context has ended and hands them out again
    A program is a sequence of events: a generator is made; the context of the k-th generator ends. *)
From Coq Require Export List Arith Bool Lia.
Export ListNotations.

Inductive psource := Library | Recycling.
Inductive pev := Make | EndOf (k : nat).

Record pst := { next : nat; free : list nat; parts : list nat }.   (* parts: partition of every generator made, in order *)
Definition p0 : pst := {| next := 0; free := []; parts := [] |}.

Definition pstep (m : psource) (limit : nat) (s : pst) (e : pev) : pst :=
  match e with
  | Make =>
      match m, free s with
      | Recycling, p :: r => {| next := next s; free := r; parts := parts s ++ [p] |}
      | _, _ => if next s <? limit
                then {| next := S (next s); free := free s; parts := parts s ++ [next s] |}
                else s                                 (* the library reports an error: no generator *)
      end
  | EndOf k =>
      match m, nth_error (parts s) k with
      | Recycling, Some p => {| next := next s; free := p :: free s; parts := parts s |}
      | _, _ => s
      end
  end.

Definition prun (m : psource) (limit : nat) (evs : list pev) : pst := fold_left (pstep m limit) evs p0.

Definition psource_of (from_library : bool) : psource := if from_library then Library else Recycling.
