(** The tracer as a flow of messages between goroutines (pkg/tracing/tracer.go run / Send / Unsubscribe), with the
    subscribers' bounded buffers: the broadcaster takes one request at a time; a trace is pushed to every current
    subscriber, one after the other, and a push waits while that subscriber's buffer is full; an unsubscription is
    acknowledged on an unbuffered channel.
      drains = true : a subscriber that is unsubscribing keeps emptying its own channel while it offers its request and
                      waits for the acknowledgement (the sources: Gen/Facts.v src_unsubscribe_drains);
      drains = false: it only offers the request and waits.
    A subscriber is Reading (takes traces whenever there are some), Unsubscribing (request not yet / already taken),
    Gone, or Stopped (holds its subscription, neither reads nor unsubscribes: a host that broke the contract, or a
    goroutine that waits for something else first). *)
From Coq Require Export List Arith Bool Lia.
Export ListNotations.

Inductive smode := SReading | SUnsub (taken : bool) | SGone | SStopped.
Record sub := { mode : smode; fill : nat; member : bool }.     (* member: in the broadcaster's list *)
Inductive tphase := TIdle | TDeliver (rest : list nat) | TAck (s : nat).
Record fstate := { phase : tphase; subs_ : list sub; pend : nat }.  (* pend: senders waiting in Send *)

Inductive flabel :=
| FSendReq            (* a sender calls Send (environment) *)
| FStartUnsub (s : nat)  (* subscriber s calls Unsubscribe (environment) *)
| FStop (s : nat)        (* subscriber s stops reading without unsubscribing (environment, breaks the contract) *)
| FTake               (* the broadcaster takes a trace from a sender *)
| FDeliver            (* ... pushes it to the next subscriber *)
| FPop (s : nat)      (* subscriber s takes a trace out of its buffer *)
| FOffer (s : nat)    (* the broadcaster takes s's unsubscription *)
| FAck (s : nat).     (* ... and s receives the acknowledgement *)

Fixpoint fupd {A} (l : list A) (i : nat) (x : A) : list A :=
  match l, i with
  | [], _ => []
  | _ :: t, 0 => x :: t
  | a :: t, S j => a :: fupd t j x
  end.
Definition members (l : list sub) : list nat :=
  map fst (filter (fun p => member (snd p)) (combine (seq 0 (length l)) l)).
Definition after (rest : list nat) : tphase := match rest with [] => TIdle | _ => TDeliver rest end.

Definition fstep (drains : bool) (cap : nat) (s : fstate) (l : flabel) : option fstate :=
  match l with
  | FSendReq => Some {| phase := phase s; subs_ := subs_ s; pend := S (pend s) |}
  | FStartUnsub i =>
      match nth_error (subs_ s) i with
      | Some u => match mode u with
                  | SReading => Some {| phase := phase s; subs_ := fupd (subs_ s) i {| mode := SUnsub false; fill := fill u; member := member u |}; pend := pend s |}
                  | _ => None
                  end
      | None => None
      end
  | FStop i =>
      match nth_error (subs_ s) i with
      | Some u => match mode u with
                  | SReading => Some {| phase := phase s; subs_ := fupd (subs_ s) i {| mode := SStopped; fill := fill u; member := member u |}; pend := pend s |}
                  | _ => None
                  end
      | None => None
      end
  | FTake =>
      match phase s, pend s with
      | TIdle, S p => Some {| phase := after (members (subs_ s)); subs_ := subs_ s; pend := p |}
      | _, _ => None
      end
  | FDeliver =>
      match phase s with
      | TDeliver (i :: rest) =>
          match nth_error (subs_ s) i with
          | Some u => if fill u <? cap
                      then Some {| phase := after rest; subs_ := fupd (subs_ s) i {| mode := mode u; fill := S (fill u); member := member u |}; pend := pend s |}
                      else None                    (* the push waits: the buffer is full *)
          | None => None
          end
      | _ => None
      end
  | FPop i =>
      match nth_error (subs_ s) i with
      | Some u =>
          match fill u with
          | S f => if (match mode u with SReading => true | SUnsub _ => drains | _ => false end)
                   then Some {| phase := phase s; subs_ := fupd (subs_ s) i {| mode := mode u; fill := f; member := member u |}; pend := pend s |}
                   else None
          | 0 => None
          end
      | None => None
      end
  | FOffer i =>
      match phase s, nth_error (subs_ s) i with
      | TIdle, Some u => match mode u with
                         | SUnsub false => Some {| phase := TAck i; subs_ := fupd (subs_ s) i {| mode := SUnsub true; fill := fill u; member := false |}; pend := pend s |}
                         | _ => None
                         end
      | _, _ => None
      end
  | FAck i =>
      match phase s, nth_error (subs_ s) i with
      | TAck j, Some u => if (i =? j) && (match mode u with SUnsub true => true | _ => false end)
                          then Some {| phase := TIdle; subs_ := fupd (subs_ s) i {| mode := SGone; fill := fill u; member := member u |}; pend := pend s |}
                          else None
      | _, _ => None
      end
  end.

Definition finit (k : nat) : fstate :=
  {| phase := TIdle; subs_ := repeat {| mode := SReading; fill := 0; member := true |} k; pend := 0 |}.
Fixpoint fexec (d : bool) (cap : nat) (s : fstate) (p : list flabel) : option fstate :=
  match p with
  | [] => Some s
  | l :: r => match fstep d cap s l with Some s' => fexec d cap s' r | None => None end
  end.
Definition freach (d : bool) (cap k : nat) (s : fstate) : Prop := exists p, fexec d cap (finit k) p = Some s.
Definition internal_f (l : flabel) : bool :=
  match l with FSendReq | FStartUnsub _ | FStop _ => false | _ => true end.
Definition nobody_stopped (s : fstate) : Prop := forall u, In u (subs_ s) -> mode u <> SStopped.
Definition busy (s : fstate) : Prop := phase s <> TIdle \/ 0 < pend s.
