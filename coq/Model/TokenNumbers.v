(** The activity harness numbers the tokens inside an activity (activity.go harness.run: node.seq, node.inside) so that
    each answer finds its own token: a token gets its number when it enters, keeps it, and is looked up by it when its
    answer arrives.
      from_counter = true : the number is a running counter (the code);
      from_counter = false: the number is the count of tokens inside plus one (a seeded change): after a token has
                            left, the next one gets the number of a token that is still inside. *)
From Coq Require Export List Arith Bool Lia.
Export ListNotations.

Record hst := { counter : nat; inside_ : list nat }.   (* numbers of the tokens inside, in order of entry *)
Inductive hlabel := HEnter | HLeave (k : nat).          (* the k-th token inside (by position) leaves *)

Fixpoint remove_nth {A} (l : list A) (k : nat) : list A :=
  match l, k with
  | [], _ => []
  | _ :: t, 0 => t
  | a :: t, S j => a :: remove_nth t j
  end.

Definition hstep (from_counter : bool) (s : hst) (l : hlabel) : hst :=
  match l with
  | HEnter =>
      let n := if from_counter then S (counter s) else S (length (inside_ s)) in
      {| counter := S (counter s); inside_ := inside_ s ++ [n] |}
  | HLeave k => {| counter := counter s; inside_ := remove_nth (inside_ s) k |}
  end.
Definition hinit : hst := {| counter := 0; inside_ := [] |}.
Definition hrun (f : bool) (p : list hlabel) : hst := fold_left (hstep f) p hinit.

(* ---- over the whole life of the activity ----
   The answer of a token that an interrupting boundary event has withdrawn may arrive much later; it is recognised as
   stale only because its number is no longer among those inside. So a number must never be issued twice, not only
   never be held by two tokens at once.
     set_back = false : the counter only ever counts up (the sources: Gen/Facts.v src_token_counter_never_set_back);
     set_back = true  : it starts again at 0 whenever a token enters an empty activity. *)
Record hst2 := { counter2 : nat; inside2 : list nat; issued2 : list nat }.

Definition hstep2 (set_back : bool) (s : hst2) (l : hlabel) : hst2 :=
  match l with
  | HEnter =>
      let c := if set_back && (match inside2 s with [] => true | _ => false end) then 0 else counter2 s in
      {| counter2 := S c; inside2 := inside2 s ++ [S c]; issued2 := issued2 s ++ [S c] |}
  | HLeave k => {| counter2 := counter2 s; inside2 := remove_nth (inside2 s) k; issued2 := issued2 s |}
  end.
Definition hinit2 : hst2 := {| counter2 := 0; inside2 := []; issued2 := [] |}.
Definition hrun2 (f : bool) (p : list hlabel) : hst2 := fold_left (hstep2 f) p hinit2.
