(** The activity harness numbers the tokens inside an activity (activity.go harness.run: node.seq, node.inside) so that
    each answer finds its own token: a token gets its number when it enters, keeps it, and is looked up by it when its
    answer arrives.
      from_counter = true : the number is a running counter (the code);
      from_counter = false: the number is the count of tokens inside plus one (a seeded change): after a token has
                            left, the next one gets the number of a token that is still inside. *)
From Coq Require Export List Arith Bool Lia.
Export ListNotations.

Record hst := { counter : nat; inside_ : list nat }.   (* numbers of the tokens inside, in order of entry *)
Inductive hlabel := HEnter | HLeave (k : nat).          (* the k-th token inside (by position) leaves *)

Fixpoint remove_nth {A} (l : list A) (k : nat) : list A :=
  match l, k with
  | [], _ => []
  | _ :: t, 0 => t
  | a :: t, S j => a :: remove_nth t j
  end.

Definition hstep (from_counter : bool) (s : hst) (l : hlabel) : hst :=
  match l with
  | HEnter =>
      let n := if from_counter then S (counter s) else S (length (inside_ s)) in
      {| counter := S (counter s); inside_ := inside_ s ++ [n] |}
  | HLeave k => {| counter := counter s; inside_ := remove_nth (inside_ s) k |}
  end.
Definition hinit : hst := {| counter := 0; inside_ := [] |}.
Definition hrun (f : bool) (p : list hlabel) : hst := fold_left (hstep f) p hinit.
