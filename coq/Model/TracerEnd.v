(** The end of a tracer's life (pkg/tracing/tracer.go, run): cancelling the context does not end the delivery. The
    broadcaster goes on taking requests until the last registered sender is done, and only then closes the subscribers'
    channels. What a push does with a subscriber that is not ready to receive is the decision modelled here:
      Waits            a plain send: the broadcaster waits for the subscriber (the sources: Gen/Facts.v
                       src_push_waits_for_the_subscriber)
      GivesUpOnCancel  the send is abandoned once the context is cancelled
      DropsWhenFull    the send is abandoned whenever the subscriber is not ready
    A history lists the requests in the order the broadcaster took them; a trace request carries the subscribers that
    were not ready when it was pushed (the schedule's choice). *)
From BV Require Export Model.Tracer.

Inductive push := Waits | GivesUpOnCancel | DropsWhenFull.

Inductive ecmd :=
| ESub (s : nat) | EUnsub (s : nat)
| ETr (t : nat) (unready : list nat)
| ECancel          (* the context is cancelled *)
| EDone.           (* a registered sender is done *)

Record estate := { core : tstate; cancelled : bool; senders : nat; ended : bool }.

Definition einit (n : nat) : estate := {| core := {| subs := []; logs := [] |}; cancelled := false; senders := n; ended := false |}.

Definition receivers (m : push) (cn : bool) (unready : list nat) (l : list nat) : list nat :=
  let ready := filter (fun s => negb (existsb (Nat.eqb s) unready)) l in
  match m with
  | Waits => l
  | GivesUpOnCancel => if cn then ready else l
  | DropsWhenFull => ready
  end.

Definition estep (m : push) (st : estate) (c : ecmd) : estate :=
  if ended st then st else       (* the channels are closed, the goroutine has returned *)
  match c with
  | ESub s => {| core := step (core st) (Sub s); cancelled := cancelled st; senders := senders st; ended := false |}
  | EUnsub s => {| core := step (core st) (Unsub s); cancelled := cancelled st; senders := senders st; ended := false |}
  | ETr t unready =>
      {| core := {| subs := subs (core st);
                    logs := fold_left (fun l s => append_log s t l) (receivers m (cancelled st) unready (subs (core st))) (logs (core st)) |};
         cancelled := cancelled st; senders := senders st; ended := false |}
  | ECancel => {| core := core st; cancelled := true; senders := senders st; ended := senders st =? 0 |}
  | EDone => {| core := core st; cancelled := cancelled st; senders := pred (senders st);
                ended := cancelled st && (pred (senders st) =? 0) |}
  end.

Definition erun (m : push) (n : nat) (cs : list ecmd) : estate := fold_left (estep m) cs (einit n).

(* SPECIFICATION: the requests that count -- everything up to the moment the context is cancelled AND the last
   registered sender is done -- as a history of the plain request loop (Model/Tracer.v), whatever was or was not ready *)
Fixpoint live (sn : nat) (cn : bool) (cs : list ecmd) : list cmd :=
  match cs with
  | [] => []
  | ESub s :: r => Sub s :: live sn cn r
  | EUnsub s :: r => Unsub s :: live sn cn r
  | ETr t _ :: r => Tr t :: live sn cn r
  | ECancel :: r => if sn =? 0 then [] else live sn true r
  | EDone :: r => if cn && (pred sn =? 0) then [] else live (pred sn) cn r
  end.

Definition mode_of (waits : bool) : push := if waits then Waits else DropsWhenFull.
