(** The termination-channel table of the event-based gateway (gateway_event_based.go + flow.termination).
    Model/EventGw.v assumes that a parked alternative holds its termination channel; here is the protocol
    by which it gets it.  Every alternative's token looks its channel up — by sequence-flow id, in a table
    the gateway made — each time it enters its select; the token that wins the determination puts a notice
    into the (one-element) channel of every other alternative.  When does a token look?  Whenever the
    scheduler runs it: possibly only after the winner is through.
      swap = true : the winner replaces the table by an empty one before notifying (the code as found):
                    a token that looks afterwards finds no channel;
      swap = false: the table is never replaced (repaired code). *)
From Coq Require Export List Arith Bool Lia.
Export ListNotations.

Inductive tok :=
| NotYet      (* forked, has not reached its select yet *)
| Holding     (* in its select, holding its channel *)
| Deaf        (* in its select with a nil channel: can only be woken by its own event *)
| Noticed.    (* received the withdrawal notice *)

Record tst := {
  toks : list tok;
  box : list bool;          (* a notice is buffered in the channel of alternative j *)
  table_live : bool;        (* the table still holds the channels *)
  winner : option nat
}.

Inductive tlabel :=
| Look (j : nat)            (* alternative j enters its select and looks its channel up *)
| Determine (i : nat)       (* alternative i wins: (swap: replaces the table,) notifies all the others *)
| Recv (j : nat).           (* alternative j, holding its channel, receives the notice *)

Fixpoint tupd {A} (l : list A) (i : nat) (x : A) : list A :=
  match l, i with
  | [], _ => []
  | _ :: t, 0 => x :: t
  | a :: t, S j => a :: tupd t j x
  end.
Definition tget (s : tst) (j : nat) : tok := nth j (toks s) Noticed.

Definition tstep (swap : bool) (s : tst) (l : tlabel) : option tst :=
  match l with
  | Look j =>
      match tget s j with
      | NotYet => if j <? length (toks s) then
                    Some {| toks := tupd (toks s) j (if table_live s then Holding else Deaf);
                            box := box s; table_live := table_live s; winner := winner s |}
                  else None
      | _ => None
      end
  | Determine i =>
      match winner s with
      | None => if i <? length (toks s) then
                  Some {| toks := toks s;
                          box := map (fun j => negb (j =? i)) (seq 0 (length (toks s)));
                          table_live := negb swap; winner := Some i |}
                else None
      | Some _ => None
      end
  | Recv j =>
      match tget s j, nth j (box s) false with
      | Holding, true => Some {| toks := tupd (toks s) j Noticed; box := tupd (box s) j false;
                                 table_live := table_live s; winner := winner s |}
      | _, _ => None
      end
  end.

Definition tinit (n : nat) : tst := {| toks := repeat NotYet n; box := repeat false n; table_live := true; winner := None |}.
Fixpoint texec (swap : bool) (s : tst) (p : list tlabel) : option tst :=
  match p with
  | [] => Some s
  | l :: r => match tstep swap s l with Some s' => texec swap s' r | None => None end
  end.
Definition treach (swap : bool) (n : nat) (s : tst) : Prop := exists p, texec swap (tinit n) p = Some s.

(* executable replay for the correspondence: alternative 0 wins; alternative j > 0 looks before the determination iff
   early j; afterwards every alternative that can receives; result: who was noticed *)
Definition looks_first (early : list bool) : list tlabel :=
  map Look (filter (fun j => nth j early false) (seq 1 (length early - 1))).
Definition looks_late (early : list bool) : list tlabel :=
  map Look (filter (fun j => negb (nth j early false)) (seq 1 (length early - 1))).
Definition recv_all (s : tst) : tst :=
  fold_left (fun s j => match tstep false s (Recv j) with Some s' => s' | None => s end) (seq 0 (length (toks s))) s.
Definition lookup_run (swap : bool) (early : list bool) : option (list bool) :=
  match texec swap (tinit (length early)) (looks_first early ++ [Determine 0] ++ looks_late early) with
  | Some s => Some (map (fun t => match t with Noticed => true | _ => false end) (toks (recv_all s)))
  | None => None
  end.
