(** Causality grammar of the engine's trace stream (flow.go emission order), as an executable
    checker applied to observed streams:
    - a FlowTrace announcing additional flows precedes the NewFlowTrace of each of them;
    - at every point a node has been left at most as often as it has been visited;
    - a flow's TerminationTrace / CancellationFlowTrace is the last trace carrying its id. *)
From Coq Require Export List Arith Bool.
Export ListNotations.

Inductive ev :=
| ENew (f : nat)                      (* NewFlowTrace *)
| EVisit (n : nat) | ELeave (n : nat)
| EFlow (cont : nat) (ann : list nat) (* FlowTrace: id of the continuing token, announced new ids *)
| ETerm (f : nat)                     (* TerminationTrace / CancellationFlowTrace *)
| EOther.

Definition mem (x : nat) (l : list nat) : bool := existsb (Nat.eqb x) l.
Definition count (x : nat) (l : list nat) : nat := length (filter (Nat.eqb x) l).

Record gst := { announced : list nat; started : list nat; dead : list nat; visits : list nat; leaves : list nat }.

(* returns None on the first violation (with a code), Some state otherwise *)
Definition gstep (g : gst) (e : ev) : gst + nat :=
  match e with
  | ENew f =>
      if mem f (dead g) then inr 1   (* new flow with the id of a terminated one *)
      else inl {| announced := announced g; started := f :: started g; dead := dead g; visits := visits g; leaves := leaves g |}
  | EVisit n => inl {| announced := announced g; started := started g; dead := dead g; visits := n :: visits g; leaves := leaves g |}
  | ELeave n =>
      if count n (leaves g) <? count n (visits g)
      then inl {| announced := announced g; started := started g; dead := dead g; visits := visits g; leaves := n :: leaves g |}
      else inr 2                     (* leave without a matching visit *)
  | EFlow c ann =>
      if mem c (dead g) then inr 3   (* flow trace of a terminated flow *)
      else if existsb (fun a => mem a (started g)) ann then inr 4   (* announced flow already started *)
      else inl {| announced := ann ++ announced g; started := started g; dead := dead g; visits := visits g; leaves := leaves g |}
  | ETerm f =>
      if mem f (dead g) then inr 5   (* terminated twice *)
      else inl {| announced := announced g; started := started g; dead := f :: dead g; visits := visits g; leaves := leaves g |}
  | EOther => inl g
  end.

Fixpoint grun (g : gst) (l : list ev) (i : nat) : option (nat * nat) :=   (* (index, code) of the first violation *)
  match l with
  | [] => None
  | e :: r => match gstep g e with inl g' => grun g' r (S i) | inr c => Some (i, c) end
  end.

Definition grammar_ok (l : list ev) : bool :=
  match grun {| announced := []; started := []; dead := []; visits := []; leaves := [] |} l 0 with
  | None => true | Some _ => false end.
