(** Model of event delivery to catch events (process.go ConsumeEvent -> event.ForwardEvent ->
    catchEvent.ConsumeEvent -> bounded inbox -> catchEvent.run).
    A listener's inbox is FIFO and carries both the arming requests of arriving tokens (None) and the
    delivered events (Some e), so what a listener does is a function of its message sequence. *)
From Coq Require Export List Arith Bool Lia.
Export ListNotations.

Record lstate := { armed : bool; waiting : nat; conts : nat }.
Definition l0 : lstate := {| armed := false; waiting := 0; conts := 0 |}.

(* catchEvent.run: one message; [pat] = the event the (single) definition matches *)
Definition lhandle (pat : nat) (s : lstate) (m : option nat) : lstate :=
  match m with
  | None => {| armed := true; waiting := S (waiting s); conts := conts s |}
  | Some e =>
      if armed s && (e =? pat)
      then {| armed := false; waiting := 0; conts := conts s + waiting s |}   (* release every waiting token *)
      else s
  end.
Definition lrun (pat : nat) (msgs : list (option nat)) : lstate := fold_left (lhandle pat) msgs l0.

Definition arms (msgs : list (option nat)) : nat := length (filter (fun m => match m with None => true | _ => false end) msgs).

(* messages after the last event matching [pat] *)
Fixpoint after_last (pat : nat) (msgs : list (option nat)) (acc : list (option nat)) : list (option nat) :=
  match msgs with
  | [] => acc
  | Some e :: r => if e =? pat then after_last pat r [] else after_last pat r (acc ++ [Some e])
  | None :: r => after_last pat r (acc ++ [None])
  end.

(** Delivery as a transition system: listeners with bounded inboxes.
    drop_idle = true: a listener whose goroutine is not running drops the event (repaired code);
    false: the event is queued in its inbox although nobody drains it (pinned snapshot). *)
Record lnode := { running : bool; cap : nat; inbox : list (option nat); pat_ : nat; st_ : lstate }.

Inductive dlabel := DArm (l : nat) | DDeliver (e : nat) | DProcess (l : nat).

Fixpoint updl {A} (l : list A) (i : nat) (x : A) : list A :=
  match l, i with
  | [], _ => []
  | _ :: t, 0 => x :: t
  | a :: t, S j => a :: updl t j x
  end.

Definition has_room (n : lnode) : bool := length (inbox n) <? cap n.

Definition deliver_to (drop_idle : bool) (e : nat) (n : lnode) : option lnode :=
  if running n then
    if has_room n then Some {| running := true; cap := cap n; inbox := inbox n ++ [Some e]; pat_ := pat_ n; st_ := st_ n |} else None
  else if drop_idle then Some n
  else if has_room n then Some {| running := false; cap := cap n; inbox := inbox n ++ [Some e]; pat_ := pat_ n; st_ := st_ n |} else None.

Fixpoint deliver_all (drop_idle : bool) (e : nat) (ns : list lnode) : option (list lnode) :=
  match ns with
  | [] => Some []
  | n :: r => match deliver_to drop_idle e n, deliver_all drop_idle e r with
              | Some n', Some r' => Some (n' :: r')
              | _, _ => None
              end
  end.

Definition dstep (drop_idle : bool) (ns : list lnode) (l : dlabel) : option (list lnode) :=
  match l with
  | DDeliver e => deliver_all drop_idle e ns
  | DArm i =>
      match nth_error ns i with
      | Some n => if has_room n
                  then Some (updl ns i {| running := true; cap := cap n; inbox := inbox n ++ [None]; pat_ := pat_ n; st_ := st_ n |})
                  else None
      | None => None
      end
  | DProcess i =>
      match nth_error ns i with
      | Some n =>
          if running n then
            match inbox n with
            | m :: r => Some (updl ns i {| running := true; cap := cap n; inbox := r; pat_ := pat_ n; st_ := lhandle (pat_ n) (st_ n) m |})
            | [] => None
            end
          else None
      | None => None
      end
  end.

Definition occupancy (ns : list lnode) : nat :=
  fold_right (fun n acc => (if running n then length (inbox n) else 0) + acc) 0 ns.
