(** Shutdown of an instance (C07).
    1. The tracer's termination protocol (pkg/tracing/tracer.go) as an LTS: registered senders, the
       cancellation, the goroutine that waits for the senders, the single close of the subscribers.
    2. The census of the engine's blocking channel operations, regenerated from the sources on every
       run (Gen/Facts.v blocking_ops, harness/census.go): every select has an alternative that fires
       on cancellation or shutdown; every operation outside a select is listed below with the reason
       it cannot block for ever.  An operation that is in the sources and not here (or a select that
       lost its alternative) breaks C07_census_covered. *)
From Coq Require Export List Arith Bool String Lia.
Export ListNotations.

Inductive why :=
| Reply           (* send on a reply channel created with capacity 1 for exactly one answer *)
| TracerInternal  (* handshakes of the tracer's own loop: the peer is waiting in SubscribeChannel/Unsubscribe, the
                     termination message has one sender and one receiver; delivery to a subscriber relies on the
                     subscriber reading (documented contract of Subscribe) *)
| Other.          (* WaitUntilComplete's signal is buffered(1).  (The receive of an activity's Cancel() answer was listed here
                     until round 8 with the reason "the run loop answers every cancel message": false once the run loop has
                     ended -- /repo cd79c3c made that receive a select with the cancellation as alternative.  Likewise the
                     sends into an event node's inbox (ConsumeEvent / reset) were listed as "drained by the run loop, dropped
                     once its running flag is off": between the loop's last receive and the flag's reset the inbox fills and
                     the sender stays for ever -- since /repo 223e3af they are selects watching a channel the node closes when its goroutine ends.) *)

Definition allowed : list (string * why) := [
  ("activity.go|*harness.run|send|m.response <- out#1"%string, Reply);
  ("activity.go|*harness.run|send|out <- m.rsp#1"%string, Reply);
  ("activity.go|*harness.run|send|m.reply <- false#1"%string, Reply);
  ("activity.go|*harness.run|send|out <- noAction{}#1"%string, Reply);
  ("activity.go|*harness.run|send|m.reply <- true#1"%string, Reply);
  ("activity.go|*taskTrace.process|send|t.response <- *rsp#1"%string, Reply);
  ("activity.go|*taskTrace.process|send|t.response <- *rsp#2"%string, Reply);
  ("activity.go|*taskTrace.process|send|t.response <- rsp#1"%string, Reply);
  ("event_catch.go|*catchEvent.run|send|actionChan <- flowAction{sequenceFlows: allSequenceFlows(&evt.outgoing)}#1"%string, Reply);
  ("event_catch.go|*catchEvent.run|send|m.response <- flowAction{sequenceFlows: allSequenceFlows(&evt.outgoing)}#1"%string, Reply);
  ("event_catch.go|*catchEvent.run|send|actionChan <- noAction{}#1"%string, Reply);
  ("event_end.go|*endEvent.run|send|m.response <- completeAction{}#1"%string, Reply);
  ("event_end.go|*endEvent.run|send|m.response <- completeAction{}#2"%string, Reply);
  ("event_start.go|*startEvent.run|send|m.response <- flowAction{sequenceFlows: allSequenceFlows(&evt.outgoing)}#1"%string, Reply);
  ("event_start.go|*startEvent.run|send|m.response <- completeAction{}#1"%string, Reply);
  ("event_throw.go|*throwEvent.run|send|m.response <- flowAction{sequenceFlows: allSequenceFlows(&evt.outgoing)}#1"%string, Reply);
  ("event_throw.go|*throwEvent.run|send|m.response <- completeAction{}#1"%string, Reply);
  ("gateway.go|distributeFlows|send|action <- completeAction{}#1"%string, Reply);
  ("gateway.go|distributeFlows|send|action <- flowAction{ sequenceFlows: sequenceFlows[i:rangeEnd], unconditionalFlows: indice#1"%string, Reply);
  ("gateway.go|distributeFlows|send|action <- completeAction{}#2"%string, Reply);
  ("gateway_event_based.go|*eventBasedGateway.run|send|ch <- true#1"%string, Reply);
  ("gateway_event_based.go|*eventBasedGateway.run|send|m.response <- action#1"%string, Reply);
  ("gateway_exclusive.go|*exclusiveGateway.run|send|*response <- flowAction{ sequenceFlows: []*SequenceFlow{gw.defaultSequenceFlow}, unconditi#1"%string, Reply);
  ("gateway_exclusive.go|*exclusiveGateway.run|send|*response <- flowAction{ sequenceFlows: sfs, unconditionalFlows: []int{0}, }#1"%string, Reply);
  ("gateway_exclusive.go|*exclusiveGateway.run|send|m.response <- probeAction{ sequenceFlows: gw.nonDefaultSequenceFlows, probeReport: func(in#1"%string, Reply);
  ("gateway_inclusive.go|*inclusiveGateway.trySync|send|gw.activated.response <- probeAction{ sequenceFlows: gw.nonDefaultSequenceFlows, probeRepo#1"%string, Reply);
  ("pkg/tracing/tracer.go|*tracer.run|send|sch.ok <- struct{}{}#1"%string, TracerInternal);
  ("pkg/tracing/tracer.go|*tracer.run|send|unsch.ok <- struct{}{}#1"%string, TracerInternal);
  ("pkg/tracing/tracer.go|*tracer.run|send|subscriber <- trace#1"%string, TracerInternal);
  ("pkg/tracing/tracer.go|*tracer.run|send|t.terminate <- struct{}{}#1"%string, TracerInternal);
  ("pkg/tracing/tracer.go|*tracer.SubscribeChannel|recv|<-okCh#1"%string, TracerInternal);
  ("process.go|*Process.WaitUntilComplete|send|signal <- true#1"%string, Other);
  ("subprocess.go|*subProcess.run|send|m.response <- false#1"%string, Reply);
  ("subprocess.go|*subProcess.run|send|m.response <- true#1"%string, Reply);
  ("subprocess.go|*subProcess.run|send|m.response <- action#1"%string, Reply);
  ("subprocess.go|*subProcess.Cancel|send|response <- true#1"%string, Reply);
  ("task_generic.go|*genericTask.run|send|m.response <- true#1"%string, Reply);
  ("task_generic.go|*genericTask.run|send|m.response <- noAction{}#1"%string, Reply);
  ("task_generic.go|*genericTask.run|send|m.response <- flowAction{ response: rsp, sequenceFlows: allSequenceFlows(&task.outgoing), #1"%string, Reply);
  ("task_generic.go|*genericTask.Cancel|send|response <- true#1"%string, Reply)
].

Definition is_allowed (k : string) : bool := existsb (fun p => String.eqb (fst p) k) allowed.
Definition census_covered (ops : list (string * bool)) : bool := forallb (fun o => snd o || is_allowed (fst o)) ops.
Definition uncovered (ops : list (string * bool)) : list string := map fst (filter (fun o => negb (snd o || is_allowed (fst o))) ops).

(* The reason [Reply] rests on the channel having room for its one answer: every creation of a channel that is
   answered on outside a select (Gen/Facts.v chan_makes, regenerated from the sources: what the new channel is
   assigned to, its capacity) has a capacity of at least 1. *)
Definition reply_names : list string :=
  ["response"; "reply"; "out"; "forward"; "terminationChannels"; "signal"; "okCh"]%string.
Definition is_reply (m : string * string * nat) : bool := existsb (String.eqb (snd (fst m))) reply_names.
Definition replies_have_room (ms : list (string * string * nat)) : bool :=
  forallb (fun m => negb (is_reply m) || (1 <=? snd m)) ms.
Definition reply_count (ms : list (string * string * nat)) : nat := List.length (filter is_reply ms).
Definition cramped (ms : list (string * string * nat)) : list string :=
  map (fun m => fst (fst m)) (filter (fun m => is_reply m && (snd m <? 1)) ms).

(* a goroutine as the list of its blocking points (true = has an alternative that fires on cancellation or
   is a listed non-blocking operation): it can always leave a point it is blocked at once the context is cancelled *)
Definition exits_on_cancel (points : list bool) : bool := forallb (fun b => b) points.

(* ---------- the tracer's termination protocol ---------- *)
Record tst := {
  senders : nat;        (* registered senders that have not called Done *)
  cancelled : bool;
  waiter : bool;        (* the goroutine waiting for the senders has been started *)
  finished : bool;      (* the tracer's loop has returned: subscribers closed, Done() closed *)
  closes : nat;         (* times the subscriber channels were closed *)
  delivered : nat;      (* traces handed to the subscribers *)
  dropped : nat;        (* traces sent after the tracer finished *)
  after_close : nat     (* traces delivered to subscribers after their channels were closed (a panic) *)
}.
Inductive tlabel := TRegister | TSenderDone | TSend | TCancel | TSpawnWaiter | TFinish.

Definition tstep (s : tst) (l : tlabel) : option tst :=
  match l with
  | TRegister => Some {| senders := S (senders s); cancelled := cancelled s; waiter := waiter s; finished := finished s;
                         closes := closes s; delivered := delivered s; dropped := dropped s; after_close := after_close s |}
  | TSenderDone => if 1 <=? senders s
                   then Some {| senders := senders s - 1; cancelled := cancelled s; waiter := waiter s; finished := finished s;
                                closes := closes s; delivered := delivered s; dropped := dropped s; after_close := after_close s |}
                   else None
  | TSend => if finished s
             then Some {| senders := senders s; cancelled := cancelled s; waiter := waiter s; finished := true;
                          closes := closes s; delivered := delivered s; dropped := S (dropped s); after_close := after_close s |}
             else Some {| senders := senders s; cancelled := cancelled s; waiter := waiter s; finished := false;
                          closes := closes s; delivered := S (delivered s); dropped := dropped s;
                          after_close := after_close s + (if 1 <=? closes s then 1 else 0) |}
  | TCancel => Some {| senders := senders s; cancelled := true; waiter := waiter s; finished := finished s;
                       closes := closes s; delivered := delivered s; dropped := dropped s; after_close := after_close s |}
  | TSpawnWaiter => if cancelled s && negb (waiter s)
                    then Some {| senders := senders s; cancelled := true; waiter := true; finished := finished s;
                                 closes := closes s; delivered := delivered s; dropped := dropped s; after_close := after_close s |}
                    else None
  | TFinish => if waiter s && (senders s =? 0) && negb (finished s)
               then Some {| senders := 0; cancelled := cancelled s; waiter := true; finished := true;
                            closes := S (closes s); delivered := delivered s; dropped := dropped s; after_close := after_close s |}
               else None
  end.
Definition tinit : tst := {| senders := 0; cancelled := false; waiter := false; finished := false; closes := 0; delivered := 0; dropped := 0; after_close := 0 |}.
Fixpoint texec (s : tst) (p : list tlabel) : option tst :=
  match p with [] => Some s | l :: r => match tstep s l with Some s' => texec s' r | None => None end end.
Definition treach (s : tst) : Prop := exists p, texec tinit p = Some s.
