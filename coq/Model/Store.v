(** Variables as the locator keeps them (pkg/data/impl.go FlowDataLocator): a table from names to POINTERS to stored
    values. Snapshots (CloneVariables), merged locators (Merge) and a caller's own *schema.Value handed in through an
    option all share those pointers with the locator. What keeps them apart is the way SetVariable writes:
      in_place = false : a fresh value is stored and the name is pointed at it (the sources: Gen/Facts.v
                         src_setvariable_replaces) -- cells are never overwritten;
      in_place = true  : a name that is bound already has its cell overwritten. *)
From Coq Require Export List Arith Bool Lia.
Export ListNotations.

Definition heap := list nat.                 (* cell -> stored value *)
Definition table := list (nat * nat).        (* name -> cell, most recent binding first *)

Fixpoint lookup (t : table) (n : nat) : option nat :=
  match t with
  | [] => None
  | (m, l) :: r => if m =? n then Some l else lookup r n
  end.

Definition read (h : heap) (t : table) (n : nat) : option nat :=
  match lookup t n with Some l => nth_error h l | None => None end.

Fixpoint poke (h : heap) (l v : nat) : heap :=
  match h, l with
  | [], _ => []
  | _ :: r, 0 => v :: r
  | x :: r, S k => x :: poke r k v
  end.

(* one SetVariable of the locator whose table is [t] *)
Definition set_var (in_place : bool) (h : heap) (t : table) (n v : nat) : heap * table :=
  match (if in_place then lookup t n else None) with
  | Some l => (poke h l v, t)
  | None => (h ++ [v], (n, length h) :: t)
  end.

(* any number of locators over one heap (an instance's locator, a merged copy, a second instance made from the same
   option ...): a write names the locator it goes to *)
Fixpoint set_nth (ts : list table) (i : nat) (t : table) : list table :=
  match ts, i with
  | [], _ => []
  | _ :: r, 0 => t :: r
  | x :: r, S k => x :: set_nth r k t
  end.

Definition write (in_place : bool) (s : heap * list table) (w : nat * nat * nat) : heap * list table :=
  let '(i, n, v) := w in
  match nth_error (snd s) i with
  | Some t => let '(h', t') := set_var in_place (fst s) t n v in (h', set_nth (snd s) i t')
  | None => s
  end.

Definition writes (in_place : bool) (s : heap * list table) (ws : list (nat * nat * nat)) : heap * list table :=
  fold_left (write in_place) ws s.

(* a table is well-formed over a heap when every cell it names exists *)
Definition wf (h : heap) (t : table) : Prop := forall n l, lookup t n = Some l -> l < length h.
