(** Arming the boundary events of an activity (activity.go harness.run / arm / ConsumeEvent).  When the first token
    enters, the run loop puts a listener at every boundary event, one after the other; each listener announces
    itself (ActiveListeningTrace) as soon as it waits.  Events reach the boundary events through the harness, which
    forwards them only while its [active] flag is set.  A host may deliver an event the moment it sees a listener's
    announcement — while the other listeners are still being armed.
      active_first = true : the flag is set before the arming starts (the code);
      active_first = false: after it (a seeded change): the event falls into the gap. *)
From Coq Require Export List Arith Bool Lia.
Export ListNotations.

Record ast := {
  announced : nat;        (* listeners 0 .. announced-1 wait at their boundary event and have said so *)
  active : bool;
  got : list nat;         (* per listener: events forwarded to it *)
  dropped : nat           (* events for an announced listener that the harness did not forward *)
}.
Inductive alabel := ASetActive | AArm | ADeliver (i : nat).

Fixpoint aupd (l : list nat) (i : nat) : list nat :=
  match l, i with
  | [], _ => []
  | x :: t, 0 => S x :: t
  | x :: t, S j => x :: aupd t j
  end.

Definition astep (active_first : bool) (n : nat) (s : ast) (l : alabel) : option ast :=
  match l with
  | ASetActive =>
      if negb (active s) && (if active_first then announced s =? 0 else announced s =? n)
      then Some {| announced := announced s; active := true; got := got s; dropped := dropped s |} else None
  | AArm =>
      if (announced s <? n) && (implb active_first (active s))
      then Some {| announced := S (announced s); active := active s; got := got s; dropped := dropped s |} else None
  | ADeliver i =>
      if i <? announced s
      then Some (if active s
                 then {| announced := announced s; active := true; got := aupd (got s) i; dropped := dropped s |}
                 else {| announced := announced s; active := false; got := got s; dropped := S (dropped s) |})
      else None
  end.
Definition ainit (n : nat) : ast := {| announced := 0; active := false; got := repeat 0 n; dropped := 0 |}.
Fixpoint aexec (f : bool) (n : nat) (s : ast) (p : list alabel) : option ast :=
  match p with [] => Some s | l :: r => match astep f n s l with Some s' => aexec f n s' r | None => None end end.
Definition areach (f : bool) (n : nat) (s : ast) : Prop := exists p, aexec f n (ainit n) p = Some s.
