(** Model of the hand-written XML layer of schema/schema.go on top of encoding/xml:
    PreMarshal's namespace-prefix rewriting and root xmlns declarations, AnExpression's xsi:type
    on marshal and its namespace-sensitive test on unmarshal, Go's name resolution of prefixes
    (declared prefix -> URL, UNDECLARED prefix -> the prefix itself), text trimming.
    The per-element field lists of the generated schema are not modelled (trees are generic). *)
From Coq Require Export List String Bool.
From BV Require Gen.Facts.
Export ListNotations.

(* raw XML as the tokenizer sees it: names are (prefix, local) *)
Definition rname := (option string * string)%type.
Inductive xml := X (n : rname) (attrs : list (rname * string)) (text : string) (kids : list xml).

(* a document element as the typed layer holds it: namespace URL, local name, plain attributes,
   expression kind (Some true = formal, Some false = informal, None = not an expression) *)
Inductive tree := T (px : bool) (ns local : string) (attrs : list (string * string)) (xt : option bool)
                    (text : string) (kids : list tree).
(* px = true: the element type goes through PreMarshal (written as prefix:local);
   px = false: a plain string-valued child (e.g. flowNodeRef), which encoding/xml writes without a
   prefix but with a default-namespace declaration xmlns="..." of its own *)

Fixpoint lookup (k : string) (l : list (string * string)) : option string :=
  match l with
  | [] => None
  | (a, b) :: r => if String.eqb a k then Some b else lookup k r
  end.

Section Codec.
Variable trim : string -> string.     (* strings.TrimSpace *)

(* ---- marshal ---- *)
Definition prefix_of (ns : string) : option string := lookup ns Facts.ns_prefix_table.

Definition type_attr (xt : option bool) : list (rname * string) :=
  match xt with
  | None => []
  | Some f => [((Some (fst Facts.expr_type_attr), snd Facts.expr_type_attr),
                if f then Facts.expr_type_formal else Facts.expr_type_informal)]
  end.

Fixpoint enc (t : tree) : xml :=
  match t with
  | T px ns local attrs xt text kids =>
      X (if px then prefix_of ns else None, local)   (* known namespace: Space dropped, Local = prefix:local *)
        ((if px then [] else [((None, "xmlns"%string), ns)]) ++
         map (fun a => ((None, fst a), snd a)) attrs ++ type_attr xt)
        (trim text) (map enc kids)
  end.

Definition decl_attrs (ds : list (string * string)) : list (rname * string) :=
  map (fun d => ((Some "xmlns"%string, fst d), snd d)) ds.
Definition root_decl_attrs : list (rname * string) := decl_attrs Facts.root_xmlns.

Definition enc_root_with (ds : list (string * string)) (t : tree) : xml :=
  match enc t with X n attrs text kids => X n (attrs ++ decl_attrs ds) text kids end.
Definition enc_root (t : tree) : xml := enc_root_with Facts.root_xmlns t.

(* ---- unmarshal ---- *)
Definition decls_of (attrs : list (rname * string)) : list (string * string) :=
  flat_map (fun a => match fst a with (Some "xmlns"%string, p) => [(p, snd a)] | _ => [] end) attrs.

(* Go: a declared prefix is translated to its URL, an undeclared one is left as it is *)
Definition resolve (decls : list (string * string)) (p : string) : string :=
  match lookup p decls with Some u => u | None => p end.

Fixpoint ends_with (suffix s : string) : bool :=
  String.eqb suffix s || match s with EmptyString => false | String _ r => ends_with suffix r end.
Definition is_formal (v : string) : bool :=
  String.eqb v Facts.expr_type_formal || ends_with (String.append ":"%string Facts.expr_type_formal) v.

Definition plain_attrs (attrs : list (rname * string)) : list (string * string) :=
  flat_map (fun a => match fst a with
                     | (None, k) => if String.eqb k "xmlns"%string then [] else [(k, snd a)]
                     | _ => [] end) attrs.

(* default namespace declared on this element, else inherited *)
Definition default_ns (dflt : string) (attrs : list (rname * string)) : string :=
  match filter (fun a => match fst a with (None, k) => String.eqb k "xmlns"%string | _ => false end) attrs with
  | a :: _ => snd a
  | [] => dflt
  end.

Definition is_type_attr (decls : list (string * string)) (a : rname * string) : bool :=
  match fst a with
  | (Some p, k) => negb (String.eqb p "xmlns"%string) &&
                   String.eqb (resolve decls p) Facts.expr_type_ns &&
                   String.eqb k Facts.expr_type_local
  | _ => false
  end.

Definition xt_of (decls : list (string * string)) (attrs : list (rname * string)) : option bool :=
  match filter (is_type_attr decls) attrs with
  | a :: _ => Some (is_formal (snd a))
  | [] => None
  end.

Fixpoint dec (decls : list (string * string)) (dflt : string) (x : xml) : tree :=
  match x with
  | X (p, local) attrs text kids =>
      let decls' := decls_of attrs ++ decls in
      let dflt' := default_ns dflt attrs in
      T (match p with Some _ => true | None => false end)
        (match p with Some q => resolve decls' q | None => dflt' end) local
        (plain_attrs attrs) (xt_of decls' attrs) text (map (dec decls' dflt') kids)
  end.

(* what a round trip is allowed to change: surrounding whitespace of text *)
Fixpoint norm (t : tree) : tree :=
  match t with T px ns local attrs xt text kids => T px ns local attrs xt (trim text) (map norm kids) end.

(* every element lives in a namespace PreMarshal knows *)
Fixpoint known (t : tree) : bool :=
  match t with
  | T px ns _ attrs _ _ kids =>
      (if px then match prefix_of ns with Some _ => true | None => false end
       else match kids with [] => true | _ => false end)    (* unprefixed elements are leaves *)
      && forallb (fun a => negb (String.eqb (fst a) "xmlns"%string)) attrs
      && forallb known kids
  end.
End Codec.
