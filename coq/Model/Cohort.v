(** How the engine's inclusive gateway decides when to fire (gateway_inclusive.go + flowTracker), as
    opposed to the token game of Model/Blocks.v: every live token carries the tag of the node that
    created it (overwritten only when it passes an inclusive gateway); a gateway at which a token has
    arrived fires when every live token with the same tag as the first arrived one has arrived too.
    This model is only used to state the open finding C01-gateway-nested-in-inclusive as a theorem. *)
From Coq Require Export List Arith Bool Lia.
Export ListNotations.

(* a token: where it is (a node number) and its tag; node 0 = gone (consumed / ended) *)
Record tok := { at_node : nat; tag : nat }.
Definition live (t : tok) : bool := negb (at_node t =? 0).

(* the gateway g may fire for the token number i waiting at it: all live tokens of i's cohort are at g *)
Definition may_fire (ts : list tok) (g i : nat) : bool :=
  match nth_error ts i with
  | Some ti => (at_node ti =? g) &&
               forallb (fun t => negb (live t) || negb (tag t =? tag ti) || (at_node t =? g)) ts
  | None => false
  end.

(* The witness program  BIncl v0 v1 (BIncl v0 v1 (BTask 1) (BTask 2) BSkip) (BTask 3) BSkip  with v0 = v1 = true,
   nodes: 1 = outer fork IF1, 2 = inner fork IF2, 3 = T3, 4 = outer join, 5 = T1, 6 = T2, 7 = inner join.
   After the outer fork: token 0 (continuing) goes to the inner fork, token 1 (new) to T3; both carry tag 1. *)
Definition after_outer_fork : list tok := [ {| at_node := 2; tag := 1 |}; {| at_node := 3; tag := 1 |} ].
(* answering T3 moves token 1 to the outer join, where it waits *)
Definition after_T3 : list tok := [ {| at_node := 2; tag := 1 |}; {| at_node := 4; tag := 1 |} ].
