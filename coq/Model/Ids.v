(** Model of identifier generation: pkg/id/sno.go (wrapper around muyo/sno, New serialised by a
    mutex) and pkg/id/fallback.go.  An id is (timestamp, tick, meta, partition, sequence); time is
    the clock reading in sno time units (4 ms). *)
From Coq Require Export List ZArith Bool Lia.
Export ListNotations.
Open Scope Z_scope.

Record sid := { ts : Z; tick : bool; part : Z; sq : Z }.

(* 10-byte layout: ts(39) tick(1) meta(8) partition(16) sequence(16); meta is always 0 here *)
Definition encode (i : sid) : Z :=
  (((ts i * 2 + (if tick i then 1 else 0)) * 2 ^ 8 + 0) * 2 ^ 16 + part i) * 2 ^ 16 + sq i.

Record gen := { hi : Z; safe : Z; par : bool; seq : Z; smin : Z; smax : Z; gpart : Z }.

(* one serialised call of New reading the clock value [now]: None = the call blocks (sequence pool
   exhausted for this time unit, or clock regressed behind the safe point) until the clock moves *)
Definition gen_new (g : gen) (now : Z) : option (gen * sid) :=
  let mk (g' : gen) := Some (g', {| ts := hi g'; tick := par g'; part := gpart g'; sq := seq g' |}) in
  if now =? hi g then
    if seq g + 1 <=? smax g
    then mk {| hi := hi g; safe := safe g; par := par g; seq := seq g + 1; smin := smin g; smax := smax g; gpart := gpart g |}
    else None
  else if hi g <? now then
    mk {| hi := now; safe := safe g; par := par g; seq := smin g; smin := smin g; smax := smax g; gpart := gpart g |}
  else if safe g <? now then
    mk {| hi := now; safe := hi g; par := negb (par g); seq := smin g; smin := smin g; smax := smax g; gpart := gpart g |}
  else None.

Fixpoint draws (g : gen) (clock : list Z) : gen * list sid :=
  match clock with
  | [] => (g, [])
  | now :: r => match gen_new g now with
                | Some (g', i) => let '(g'', l) := draws g' r in (g'', i :: l)
                | None => draws g r
                end
  end.

Definition fresh_gen (p : Z) : gen :=
  {| hi := 0; safe := 0; par := false; seq := 0; smin := 0; smax := 65535; gpart := p |}.

(* snapshot at clock value [now] and restoration (pkg/id Snapshot / RestoreIdGenerator) *)
Definition snapshot (g : gen) (now : Z) : gen :=
  {| hi := hi g; safe := safe g; par := par g; seq := if now =? hi g then seq g else smin g;
     smin := smin g; smax := smax g; gpart := gpart g |}.

(* acceptor used by the correspondence: is the observed id sequence of ONE generator drawn by ONE
   goroutine a possible output (for some clock readings)?  Returns the first offending index. *)
Fixpoint accepts_from (g : gen) (l : list (Z * bool * Z)) (i : nat) : option nat :=
  match l with
  | [] => None
  | (t, k, s) :: r =>
      match gen_new g t with
      | Some (g', id) =>
          if (ts id =? t) && Bool.eqb (tick id) k && (sq id =? s) then accepts_from g' r (S i) else Some i
      | None => Some i
      end
  end.

(* ---- the unserialised library code (pinned snapshot): two callers interleave at the marked
   points of sno.Generator.New.  Thread program counter: 0 = before load, 1 = loaded wallHi and the
   clock (equal branch decided), 2 = won the CAS on wallHi, about to reset the sequence. *)
Record thr := { pc : nat; t_hi : Z; t_now : Z }.
Record rgen := { r_hi : Z; r_seq : Z; r_out : list (Z * Z) }.

Definition rstep (now : Z) (g : rgen) (th : thr) : rgen * thr :=
  match pc th with
  | O => (g, {| pc := 1; t_hi := r_hi g; t_now := now |})
  | 1%nat =>
      if t_now th =? t_hi th then
        ({| r_hi := r_hi g; r_seq := r_seq g + 1; r_out := r_out g ++ [(t_now th, r_seq g + 1)] |},
         {| pc := 0; t_hi := 0; t_now := 0 |})
      else if (t_hi th <? t_now th) && (r_hi g =? t_hi th) then
        ({| r_hi := t_now th; r_seq := r_seq g; r_out := r_out g |}, {| pc := 2; t_hi := t_hi th; t_now := t_now th |})
      else (g, {| pc := 0; t_hi := 0; t_now := 0 |})
  | _ =>
      ({| r_hi := r_hi g; r_seq := 0; r_out := r_out g ++ [(t_now th, 0)] |}, {| pc := 0; t_hi := 0; t_now := 0 |})
  end.

(* schedule: which of the two threads moves, and the clock value it would read *)
Fixpoint rrun (g : rgen) (a b : thr) (sched : list (bool * Z)) : rgen :=
  match sched with
  | [] => g
  | (false, now) :: r => let '(g', a') := rstep now g a in rrun g' a' b r
  | (true, now) :: r => let '(g', b') := rstep now g b in rrun g' a b' r
  end.

(* fallback generator: (prefix, counter) *)
Definition fallback_ids (prefix : Z) (n : nat) : list (Z * Z) :=
  map (fun k => (prefix, Z.of_nat k + 1)) (List.seq 0 n).
