(** The order of a node's flows (flow_wiring.go sequenceFlows). A node lists the ids of its outgoing flows (<outgoing>
    references, [refs]); the <sequenceFlow> elements themselves are declared somewhere in the container in an order of
    their own ([decl]). Every gateway decides "in list order": the order of [refs].
      by_reference = true : the i-th resolved flow is the flow the i-th reference names (the sources: Gen/Facts.v
                            src_flows_in_reference_order);
      by_reference = false: the container is walked once and the flows a node refers to are collected as they come. *)
From Coq Require Export List Arith Bool Lia.
Export ListNotations.

Definition declared (decl : list nat) (r : nat) : bool := existsb (Nat.eqb r) decl.
Definition resolve (by_reference : bool) (refs decl : list nat) : option (list nat) :=
  if forallb (declared decl) refs
  then Some (if by_reference then refs else filter (fun d => existsb (Nat.eqb d) refs) decl)
  else None.                                  (* a reference to a flow that does not exist: the node cannot be built *)
