(** A catch event as the function of its message sequence that event_catch.go implements (catchEvent.run): tokens arrive
    and wait ([CArm]), matching events are delivered ([CEvent]), a boundary event's host withdraws it when the activity
    is left ([CReset]).  persistent = a non-interrupting boundary event: it keeps listening after an event, and an event
    that finds the listener away (it is on its exception flow, its successor not yet in place) is owed to the successor.
      reset_always = true : a reset forgets what is owed (the code);
      reset_always = false: only when somebody waits (a seeded change). *)
From Coq Require Export List Arith Bool Lia.
Export ListNotations.

Record cst := {
  c_activated : bool;
  c_waiting : nat;      (* tokens waiting at the event *)
  c_owed : nat;         (* events that found nobody waiting (persistent listeners only) *)
  c_conts : nat;        (* continuations: tokens that left on the outgoing flows *)
  c_withdrawn : nat     (* tokens sent away by a reset *)
}.
Inductive cmsg := CArm | CEvent | CReset.

Definition cstep (persistent reset_always : bool) (s : cst) (m : cmsg) : cst :=
  match m with
  | CEvent =>
      if c_activated s then
        {| c_activated := persistent;
           c_waiting := 0;
           c_owed := if persistent && (c_waiting s =? 0) then S (c_owed s) else c_owed s;
           c_conts := c_conts s + c_waiting s; c_withdrawn := c_withdrawn s |}
      else s
  | CArm =>
      match c_owed s with
      | S o => {| c_activated := true; c_waiting := c_waiting s; c_owed := o; c_conts := S (c_conts s); c_withdrawn := c_withdrawn s |}
      | 0 => {| c_activated := true; c_waiting := S (c_waiting s); c_owed := 0; c_conts := c_conts s; c_withdrawn := c_withdrawn s |}
      end
  | CReset =>
      if reset_always || negb (c_waiting s =? 0)
      then {| c_activated := false; c_waiting := 0; c_owed := 0; c_conts := c_conts s; c_withdrawn := c_withdrawn s + c_waiting s |}
      else {| c_activated := false; c_waiting := 0; c_owed := c_owed s; c_conts := c_conts s; c_withdrawn := c_withdrawn s |}
  end.
Definition cinit : cst := {| c_activated := false; c_waiting := 0; c_owed := 0; c_conts := 0; c_withdrawn := 0 |}.
Definition crun (p r : bool) (ms : list cmsg) : cst := fold_left (cstep p r) ms cinit.
Definition count_msg (m : cmsg) (ms : list cmsg) : nat :=
  length (filter (fun x => match x, m with CArm, CArm | CEvent, CEvent | CReset, CReset => true | _, _ => false end) ms).
