(** Inclusive gateway (gateway_inclusive.go).
    Fork: the non-default outgoing flows whose condition holds, else the default flow alone, else an
    error; the chosen flows are spread over the parked tokens by distributeFlows (Model/ParGw.v).
    Join: the gateway keeps, through a trace subscriber (flowTracker), a picture of the live tokens
    of the cohort of the first token that arrives; it releases when every token of that picture has
    arrived.  The picture lags: a token that ended elsewhere is still in it until the tracker has
    processed its termination trace; the gateway re-reads the picture on every tracker notification.
    Flag [refresh] = the gateway re-reads the picture on notifications (as the code does). *)
From BV Require Export Model.ParGw.

(* ---------- fork ---------- *)
(* conds: truth of the condition of every non-default flow; dflt: is there a default flow.
   Result: Some (indices of chosen non-default flows, default taken?) or None = error trace *)
Definition positions (conds : list bool) : list nat :=
  map fst (filter snd (combine (seq 0 (length conds)) conds)).
Definition choose (conds : list bool) (dflt : bool) : option (list nat * bool) :=
  match positions conds with
  | [] => if dflt then Some ([], true) else None
  | l => Some (l, false)
  end.
Definition ntokens (ch : list nat * bool) : nat := length (fst ch) + (if snd ch then 1 else 0).

(* ---------- join ---------- *)
Inductive tstate := TRun | TArr | TEnd.
Record jst := {
  toks : list tstate;        (* the tokens of the fork activation (the cohort), as they really are *)
  seen_end : list bool;      (* the tracker has processed token i's termination trace *)
  activated : bool;          (* a first token has arrived *)
  awaiting : list nat;       (* the picture taken at the last look: tokens believed alive *)
  released : nat;            (* times the gateway let a token continue *)
  synced : bool
}.
Inductive jlabel := JArrive (i : nat) | JEnd (i : nat) | JTrack (i : nat).

Fixpoint upd {A} (l : list A) (i : nat) (x : A) : list A :=
  match l, i with
  | [], _ => []
  | _ :: t, 0 => x :: t
  | a :: t, S j => a :: upd t j x
  end.

Definition picture (seen : list bool) : list nat :=
  map fst (filter (fun p => negb (snd p)) (combine (seq 0 (length seen)) seen)).
Definition arrived_all (toks : list tstate) (aw : list nat) : bool :=
  forallb (fun j => match nth j toks TRun with TArr => true | _ => false end) aw.

Definition try_sync (s : jst) : jst :=
  if negb (synced s) && activated s && arrived_all (toks s) (awaiting s)
  then {| toks := toks s; seen_end := seen_end s; activated := true; awaiting := awaiting s; released := S (released s); synced := true |}
  else s.

Definition jstep (refresh : bool) (s : jst) (l : jlabel) : option jst :=
  match l with
  | JArrive i =>
      match nth_error (toks s) i with
      | Some TRun =>
          let tk := upd (toks s) i TArr in
          Some (try_sync {| toks := tk; seen_end := seen_end s; activated := true;
                            awaiting := (if activated s then awaiting s else picture (seen_end s));
                            released := released s; synced := synced s |})
      | _ => None
      end
  | JEnd i =>
      match nth_error (toks s) i with
      | Some TRun => Some {| toks := upd (toks s) i TEnd; seen_end := seen_end s; activated := activated s;
                             awaiting := awaiting s; released := released s; synced := synced s |}
      | _ => None
      end
  | JTrack i =>
      match nth_error (toks s) i, nth_error (seen_end s) i with
      | Some TEnd, Some false =>
          let se := upd (seen_end s) i true in
          Some (try_sync {| toks := toks s; seen_end := se; activated := activated s;
                            awaiting := (if refresh && activated s && negb (synced s) then picture se else awaiting s);
                            released := released s; synced := synced s |})
      | _, _ => None
      end
  end.

Definition jinit (n : nat) : jst :=
  {| toks := repeat TRun n; seen_end := repeat false n; activated := false; awaiting := []; released := 0; synced := false |}.
Fixpoint jexec (refresh : bool) (s : jst) (p : list jlabel) : option jst :=
  match p with
  | [] => Some s
  | l :: r => match jstep refresh s l with Some s' => jexec refresh s' r | None => None end
  end.
Definition jreach (refresh : bool) (n : nat) (s : jst) : Prop := exists p, jexec refresh (jinit n) p = Some s.

Definition no_running (tk : list tstate) : bool := forallb (fun t => match t with TRun => false | _ => true end) tk.
Definition some_arrived (tk : list tstate) : bool := existsb (fun t => match t with TArr => true | _ => false end) tk.
Fixpoint caught_up (tk : list tstate) (se : list bool) : bool :=
  match tk, se with
  | TEnd :: t, b :: r => b && caught_up t r
  | _ :: t, _ :: r => caught_up t r
  | _, _ => true
  end.
