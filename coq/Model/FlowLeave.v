(** How a token leaves a node whose outgoing sequence flows carry conditions (flow.go, the flowAction
    branch): the flows are tried in the order listed; the token continues on the first one that flows,
    every further one that flows forks a new token; if none flows the token ends there.
    [first_only] = the pinned variant: the token was bound to the first flow listed — when that one did
    not flow while another did, the token stayed at the node and asked it for its next action again. *)
From Coq Require Export List Arith Bool Lia.
Export ListNotations.

Inductive outcome :=
| Continues (i : nat) (forks : list nat)   (* the token takes flow i, new tokens take the flows in forks *)
| Ends                                    (* no flow flows: termination *)
| Stays (forks : list nat).               (* pinned variant only: the token stays and the node is asked again *)

Definition flowing (conds : list bool) : list nat :=
  map fst (filter snd (combine (seq 0 (length conds)) conds)).

Definition leave (first_only : bool) (conds : list bool) : outcome :=
  match flowing conds with
  | [] => Ends
  | i :: rest =>
      if first_only then (if i =? 0 then Continues 0 rest else Stays (i :: rest))
      else Continues i rest
  end.

(* tokens placed on outgoing flows by the outcome *)
Definition placed (o : outcome) : list nat :=
  match o with Continues i f => i :: f | Ends => [] | Stays f => f end.
Definition asks_again (o : outcome) : bool := match o with Stays _ => true | _ => false end.
