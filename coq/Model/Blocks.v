(** Block-structured process programs and their token game (shared by C01 and C12).
    A program is compiled by the harness (harness/blocks.go) to BPMN: BSeq = sequence flow, BPar =
    parallel fork/join, BIf = exclusive split on a boolean variable with a default flow and a merge,
    BLoop = merge; body; exclusive split back to the merge while the variable is true, BSub = embedded
    sub-process with one start and one end event, BIncl = inclusive fork/join, BCond = a task with
    conditional outgoing flows, BEnd k = an end event of its own (the token that reaches it is consumed
    there; what follows in the sequence is not executed by it).  The state of a run is the tree of
    places where tokens wait for a task answer. *)
From Coq Require Export List Arith Bool Lia.
Export ListNotations.

Inductive blk :=
| BSkip | BTask (t : nat) | BSeq (a b : blk) | BPar (a b : blk) | BIf (v : nat) (a b : blk)
| BLoop (v : nat) (body : blk) | BSub (b : blk)
| BIncl (v1 v2 : nat) (a b d : blk)     (* inclusive fork: a if v1, b if v2, both if both, d (default) if neither; inclusive join *)
| BCond (t : nat) (v : nat) (a b : blk)  (* task t whose outgoing flows are conditional: to a if v, to b if not v; exclusive merge *)
| BEnd (k : nat).                        (* end event k *)

Definition env := list bool.
Definition getv (e : env) (v : nat) : bool := nth v e false.
Fixpoint setv (e : env) (v : nat) (x : bool) : env :=
  match e, v with
  | [], _ => []
  | _ :: t, 0 => x :: t
  | a :: t, S k => a :: setv t k x
  end.
Definition apply_writes (e : env) (ws : list (nat * bool)) : env := fold_left (fun e w => setv e (fst w) (snd w)) ws e.

Inductive run :=
| RDone
| RSpin                                   (* a loop whose body needs no answer and whose condition stays true *)
| RTask (t : nat)                         (* a token waits for the answer of task t *)
| RSeq (r : run) (rest : blk)
| RPar (r1 r2 : run)
| RLoop (r : run) (v : nat) (body : blk)
| RSub (r : run)
| REnded                                  (* the token was consumed by an end event (or: this inclusive branch was not activated) *)
| RIncl (r1 r2 : run).                    (* the two branches of an inclusive block, up to its join *)

(* [fin]: the block is finished and one token leaves it;  [ended]: the block is finished and no token
   leaves it (all its tokens were consumed by end events inside).  A parallel join with a branch that
   ended never releases (neither holds: such programs are excluded by [endsafe]); an inclusive join
   releases one token once every activated branch has arrived or ended elsewhere and at least one has
   arrived; a sub-process is finished when no token is left inside, and its parent token continues
   whichever end events they took. *)
Fixpoint ended (r : run) : bool :=
  match r with REnded => true | RIncl a b => ended a && ended b | _ => false end.
Fixpoint fin (r : run) : bool :=
  match r with
  | RDone => true
  | RPar a b => fin a && fin b
  | RSub r => fin r || ended r
  | RIncl a b => (fin a || ended a) && (fin b || ended b) && (fin a || fin b)
  | _ => false
  end.
Definition complete (r : run) : bool := fin r || ended r.

Fixpoint start (e : env) (b : blk) : run :=
  match b with
  | BSkip => RDone
  | BTask t => RTask t
  | BSeq a b => let r := start e a in if fin r then start e b else if ended r then REnded else RSeq r b
  | BPar a b => RPar (start e a) (start e b)
  | BIf v a b => if getv e v then start e a else start e b
  | BLoop v body => let r := start e body in
                    if fin r then (if getv e v then RSpin else RDone) else if ended r then REnded else RLoop r v body
  | BSub b => RSub (start e b)
  | BIncl v1 v2 a b d =>
      if getv e v1 || getv e v2
      then RIncl (if getv e v1 then start e a else REnded) (if getv e v2 then start e b else REnded)
      else start e d
  | BCond t v a b => RSeq (RTask t) (BIf v a b)
  | BEnd _ => REnded
  end.

(* the token waiting at task t is answered; e is the environment after the answer's writes *)
Fixpoint answer (e : env) (r : run) (t : nat) : run :=
  match r with
  | RDone => RDone
  | RSpin => RSpin
  | RTask t' => if t =? t' then RDone else r
  | RSeq r1 rest => let r' := answer e r1 t in
                    if fin r' then start e rest else if ended r' then REnded else RSeq r' rest
  | RPar a b => RPar (answer e a t) (answer e b t)
  | RLoop r1 v body =>
      let r' := answer e r1 t in
      if fin r' then
        (if getv e v then (let r2 := start e body in
                           if fin r2 then RSpin else if ended r2 then REnded else RLoop r2 v body) else RDone)
      else if ended r' then REnded else RLoop r' v body
  | RSub r1 => RSub (answer e r1 t)
  | REnded => REnded
  | RIncl a b => RIncl (answer e a t) (answer e b t)
  end.

Fixpoint pending (r : run) : list nat :=
  match r with
  | RTask t => [t]
  | RSeq r _ | RLoop r _ _ | RSub r => pending r
  | RPar a b | RIncl a b => pending a ++ pending b
  | _ => []
  end.

(* the end events reached while a block is started / while an answer is processed (same recursion as
   [start] / [answer]) *)
Fixpoint ends_start (e : env) (b : blk) : list nat :=
  match b with
  | BSeq a b => ends_start e a ++ (if fin (start e a) then ends_start e b else [])
  | BPar a b => ends_start e a ++ ends_start e b
  | BIf v a b => if getv e v then ends_start e a else ends_start e b
  | BLoop v body => ends_start e body
  | BSub b => ends_start e b
  | BIncl v1 v2 a b d =>
      if getv e v1 || getv e v2
      then (if getv e v1 then ends_start e a else []) ++ (if getv e v2 then ends_start e b else [])
      else ends_start e d
  | BEnd k => [k]
  | _ => []
  end.
Fixpoint ends_answer (e : env) (r : run) (t : nat) : list nat :=
  match r with
  | RSeq r1 rest => ends_answer e r1 t ++ (if fin (answer e r1 t) then ends_start e rest else [])
  | RPar a b | RIncl a b => ends_answer e a t ++ ends_answer e b t
  | RLoop r1 v body =>
      ends_answer e r1 t ++ (if fin (answer e r1 t) && getv e v then ends_start e body else [])
  | RSub r1 => ends_answer e r1 t
  | _ => []
  end.

(* a run of the driver: (task answered, writes of the answer) *)
Definition op := (nat * list (nat * bool))%type.
Definition step (s : env * run) (o : op) : env * run :=
  let e' := apply_writes (fst s) (snd o) in (e', answer e' (snd s) (fst o)).
Definition step_ends (s : env * run) (o : op) : list nat :=
  ends_answer (apply_writes (fst s) (snd o)) (snd s) (fst o).

(* what an observer sees: the pending requests after start and after every answer, whether the
   instance is complete, the final variables *)
Fixpoint observe (s : env * run) (ops : list op) : list (list nat) * bool * env :=
  match ops with
  | [] => ([pending (snd s)], complete (snd s), fst s)
  | o :: r => let '(ps, f, e) := observe (step s o) r in (pending (snd s) :: ps, f, e)
  end.
Definition behaviour (b : blk) (e : env) (ops : list op) := observe (e, start e b) ops.
(* ... and the end events reached, per step *)
Fixpoint observe_ends (s : env * run) (ops : list op) : list (list nat) :=
  match ops with
  | [] => []
  | o :: r => step_ends s o :: observe_ends (step s o) r
  end.
Definition end_events (b : blk) (e : env) (ops : list op) := ends_start e b :: observe_ends (e, start e b) ops.

(* programs without end events of their own; programs in which no end event sits inside a parallel block
   (its join would wait for ever) *)
Fixpoint endfree (b : blk) : bool :=
  match b with
  | BEnd _ => false
  | BSeq a b | BPar a b | BIf _ a b | BCond _ _ a b => endfree a && endfree b
  | BLoop _ b | BSub b => endfree b
  | BIncl _ _ a b d => endfree a && endfree b && endfree d
  | _ => true
  end.
Fixpoint endsafe (b : blk) : bool :=
  match b with
  | BPar a b => endfree a && endfree b
  | BSeq a b | BIf _ a b | BCond _ _ a b => endsafe a && endsafe b
  | BLoop _ b | BSub b => endsafe b
  | BIncl _ _ a b d => endsafe a && endsafe b && endsafe d
  | _ => true
  end.

(* splicing the content of every sub-process in place (for programs without end events of their own:
   an end event inside a sub-process ends that sub-process only) *)
Fixpoint flatten (b : blk) : blk :=
  match b with
  | BSeq a b => BSeq (flatten a) (flatten b)
  | BPar a b => BPar (flatten a) (flatten b)
  | BIf v a b => BIf v (flatten a) (flatten b)
  | BLoop v body => BLoop v (flatten body)
  | BSub b => flatten b
  | BIncl v1 v2 a b d => BIncl v1 v2 (flatten a) (flatten b) (flatten d)
  | BCond t v a b => BCond t v (flatten a) (flatten b)
  | _ => b
  end.
Fixpoint flatR (r : run) : run :=
  match r with
  | RSeq r rest => RSeq (flatR r) (flatten rest)
  | RPar a b => RPar (flatR a) (flatR b)
  | RIncl a b => RIncl (flatR a) (flatR b)
  | RLoop r v body => RLoop (flatR r) v (flatten body)
  | RSub r => flatR r
  | _ => r
  end.
Fixpoint wrap (n : nat) (b : blk) : blk := match n with 0 => b | S k => BSub (wrap k b) end.
