(** Block-structured process programs and their token game (shared by C01 and C12).
    A program is compiled by the harness (harness/blocks.go) to BPMN: BSeq = sequence flow, BPar =
    parallel fork/join, BIf = exclusive split on a boolean variable with a default flow and a merge,
    BLoop = merge; body; exclusive split back to the merge while the variable is true, BSub = embedded
    sub-process with one start and one end event, BIncl = inclusive fork/join, BCond = a task with
    conditional outgoing flows.  The state of a run is the tree of places where
    tokens wait for a task answer. *)
From Coq Require Export List Arith Bool Lia.
Export ListNotations.

Inductive blk :=
| BSkip | BTask (t : nat) | BSeq (a b : blk) | BPar (a b : blk) | BIf (v : nat) (a b : blk)
| BLoop (v : nat) (body : blk) | BSub (b : blk)
| BIncl (v1 v2 : nat) (a b d : blk)     (* inclusive fork: a if v1, b if v2, both if both, d (default) if neither; inclusive join *)
| BCond (t : nat) (v : nat) (a b : blk). (* task t whose outgoing flows are conditional: to a if v, to b if not v; exclusive merge *)

Definition env := list bool.
Definition getv (e : env) (v : nat) : bool := nth v e false.
Fixpoint setv (e : env) (v : nat) (x : bool) : env :=
  match e, v with
  | [], _ => []
  | _ :: t, 0 => x :: t
  | a :: t, S k => a :: setv t k x
  end.
Definition apply_writes (e : env) (ws : list (nat * bool)) : env := fold_left (fun e w => setv e (fst w) (snd w)) ws e.

Inductive run :=
| RDone
| RSpin                                   (* a loop whose body needs no answer and whose condition stays true *)
| RTask (t : nat)                         (* a token waits for the answer of task t *)
| RSeq (r : run) (rest : blk)
| RPar (r1 r2 : run)
| RLoop (r : run) (v : nat) (body : blk)
| RSub (r : run).

Fixpoint fin (r : run) : bool :=
  match r with
  | RDone => true
  | RPar a b => fin a && fin b
  | RSub r => fin r
  | _ => false
  end.

Fixpoint start (e : env) (b : blk) : run :=
  match b with
  | BSkip => RDone
  | BTask t => RTask t
  | BSeq a b => let r := start e a in if fin r then start e b else RSeq r b
  | BPar a b => RPar (start e a) (start e b)
  | BIf v a b => if getv e v then start e a else start e b
  | BLoop v body => let r := start e body in
                    if fin r then (if getv e v then RSpin else RDone) else RLoop r v body
  | BSub b => RSub (start e b)
  | BIncl v1 v2 a b d =>
      if getv e v1 || getv e v2
      then RPar (if getv e v1 then start e a else RDone) (if getv e v2 then start e b else RDone)
      else start e d
  | BCond t v a b => RSeq (RTask t) (BIf v a b)
  end.

(* the token waiting at task t is answered; e is the environment after the answer's writes *)
Fixpoint answer (e : env) (r : run) (t : nat) : run :=
  match r with
  | RDone => RDone
  | RSpin => RSpin
  | RTask t' => if t =? t' then RDone else r
  | RSeq r1 rest => let r' := answer e r1 t in if fin r' then start e rest else RSeq r' rest
  | RPar a b => RPar (answer e a t) (answer e b t)
  | RLoop r1 v body =>
      let r' := answer e r1 t in
      if fin r' then
        (if getv e v then (let r2 := start e body in if fin r2 then RSpin else RLoop r2 v body) else RDone)
      else RLoop r' v body
  | RSub r1 => RSub (answer e r1 t)
  end.

Fixpoint pending (r : run) : list nat :=
  match r with
  | RTask t => [t]
  | RSeq r _ | RLoop r _ _ | RSub r => pending r
  | RPar a b => pending a ++ pending b
  | _ => []
  end.

(* a run of the driver: (task answered, writes of the answer) *)
Definition op := (nat * list (nat * bool))%type.
Definition step (s : env * run) (o : op) : env * run :=
  let e' := apply_writes (fst s) (snd o) in (e', answer e' (snd s) (fst o)).

(* what an observer sees: the pending requests after start and after every answer, whether the
   instance is complete, the final variables *)
Fixpoint observe (s : env * run) (ops : list op) : list (list nat) * bool * env :=
  match ops with
  | [] => ([pending (snd s)], fin (snd s), fst s)
  | o :: r => let '(ps, f, e) := observe (step s o) r in (pending (snd s) :: ps, f, e)
  end.
Definition behaviour (b : blk) (e : env) (ops : list op) := observe (e, start e b) ops.

(* splicing the content of every sub-process in place *)
Fixpoint flatten (b : blk) : blk :=
  match b with
  | BSeq a b => BSeq (flatten a) (flatten b)
  | BPar a b => BPar (flatten a) (flatten b)
  | BIf v a b => BIf v (flatten a) (flatten b)
  | BLoop v body => BLoop v (flatten body)
  | BSub b => flatten b
  | BIncl v1 v2 a b d => BIncl v1 v2 (flatten a) (flatten b) (flatten d)
  | BCond t v a b => BCond t v (flatten a) (flatten b)
  | _ => b
  end.
Fixpoint flatR (r : run) : run :=
  match r with
  | RSeq r rest => RSeq (flatR r) (flatten rest)
  | RPar a b => RPar (flatR a) (flatR b)
  | RLoop r v body => RLoop (flatR r) v (flatten body)
  | RSub r => flatR r
  | _ => r
  end.
Fixpoint wrap (n : nat) (b : blk) : blk := match n with 0 => b | S k => BSub (wrap k b) end.
