(** The first phase of the completion monitor (process.go / subprocess.go ceaseFlowMonitor): it reads the start-event
    traces that pass through the container's tracer until all of the container's k start events have fired.
    A trace names its start event: one of the container's own (Own i, i < k; a second start of the same event is
    reported too) or the inner start event of a sub-process (Foreign j) -- those pass through the same tracer.
      own_distinct = true  : the monitor counts the container's own start events, each once (the sources since
                             /repo 33ad8e4; the correspondence check replays observed traces against it);
      own_distinct = false : it counts every start-event trace it sees. *)
From Coq Require Export List Arith Bool Lia.
Export ListNotations.

Inductive src := Own (i : nat) | Foreign (j : nat).

Fixpoint mem (i : nat) (l : list nat) : bool :=
  match l with [] => false | x :: r => (x =? i) || mem i r end.

(* the start events counted so far, most recent first *)
Fixpoint counted (k : nat) (tr : list src) (acc : list nat) : list nat :=
  match tr with
  | [] => acc
  | Own i :: r => counted k r (if (i <? k) && negb (mem i acc) then i :: acc else acc)
  | Foreign _ :: r => counted k r acc
  end.

Definition phase_one_done (own_distinct : bool) (k : nat) (tr : list src) : bool :=
  if own_distinct then length (counted k tr []) =? k else k <=? length tr.

Definition fired (i : nat) (tr : list src) : bool :=
  existsb (fun s => match s with Own j => j =? i | Foreign _ => false end) tr.
Definition all_fired (k : nat) (tr : list src) : bool := forallb (fun i => fired i tr) (seq 0 k).

(* ---- one accumulator per activation ----
   A sub-process is entered again and again; each activation has a monitor of its own. The list of start events that
   have fired is either made afresh by every monitor ([fresh] = true: a variable of the monitor's closure, Gen/Facts.v
   src_monitor_accumulator_is_local) or kept by the sub-process across activations. *)
Definition phase_one_from (acc : list nat) (k : nat) (tr : list src) : bool := length (counted k tr acc) =? k.
(* the accumulator a monitor starts from in the a-th activation, the earlier activations having seen the traces trs *)
Fixpoint carried (fresh : bool) (k : nat) (trs : list (list src)) (acc : list nat) : list nat :=
  match trs with
  | [] => acc
  | tr :: r => carried fresh k r (if fresh then [] else counted k tr acc)
  end.
