(** Model of pkg/timer/timer.go (dateTimeTimer, recurringTimer) driven by pkg/clock/mock.go.
    Times are Z (nanoseconds). One clock operation (Set/Add to a new time [T]) is followed by
    the timer goroutine running until it blocks again ([settle]); the harness waits for exactly
    that quiescence (recording clock wrapper) before the next operation. *)
From Coq Require Export List ZArith Bool Lia.
Export ListNotations.
Open Scope Z_scope.

Inductive tstate :=
| One (due : Z)                                         (* date / duration timer, armed *)
| CycA (start interval : Z) (e : option Z) (reps : Z)   (* cycle: waiting for the start time *)
| CycB (t interval : Z) (e : option Z) (reps : Z)       (* cycle: in the loop, last delivered time t *)
| Closed                                                (* channel closed, goroutine gone *)
| Cancelled.                                            (* context cancelled *)

Definition ended (e : option Z) (now : Z) : bool :=
  match e with Some x => x <=? now | None => false end.

(* one internal step of the timer goroutine at clock value [now]; None = blocked.
   Result: new state and the firing (with the clock value delivered) if one happens. *)
Definition istep (now : Z) (s : tstate) : option (tstate * list Z) :=
  match s with
  | One due => if due <=? now then Some (Closed, [now]) else None
  | CycA start iv e reps => if start <=? now then Some (CycB start iv e reps, []) else None
  | CycB t iv e reps =>
      if reps =? 0 then Some (Closed, [])
      else if ended e now then Some (Closed, [])          (* endTimer ready (or both ready: same outcome) *)
      else if t + iv <=? now then
        Some (CycB now iv e (if 0 <? reps then reps - 1 else reps), [now])
      else None
  | Closed => None
  | Cancelled => None
  end.

Fixpoint settle (fuel : nat) (now : Z) (s : tstate) : tstate * list Z :=
  match fuel with
  | O => (s, [])
  | S f => match istep now s with
           | None => (s, [])
           | Some (s', fs) => let '(s'', fs') := settle f now s' in (s'', fs ++ fs')
           end
  end.

Definition fuel0 : nat := 4.

Inductive op := Advance (T : Z) | Cancel.

(* state of the run: timer state; log of firings (clock value at the firing) *)
Definition apply (s : tstate) (o : op) : tstate * list Z :=
  match o with
  | Advance T => settle fuel0 T s
  | Cancel => match s with Closed => (Closed, []) | _ => (Cancelled, []) end
  end.

Fixpoint run (s : tstate) (ops : list op) : tstate * list Z :=
  match ops with
  | [] => (s, [])
  | o :: r => let '(s1, f1) := apply s o in let '(s2, f2) := run s1 r in (s2, f1 ++ f2)
  end.

(* creation at clock value now0: the goroutine runs until it blocks *)
Definition start_timer (now0 : Z) (s : tstate) : tstate * list Z := settle fuel0 now0 s.

Definition run_from (now0 : Z) (s : tstate) (ops : list op) : tstate * list Z :=
  let '(s1, f1) := start_timer now0 s in let '(s2, f2) := run s1 ops in (s2, f1 ++ f2).

(* well-formed initial definitions *)
Definition wf (s : tstate) : Prop :=
  match s with
  | CycA _ iv _ _ => 0 < iv
  | CycB _ iv _ _ => 0 < iv
  | _ => True
  end.

(** the mock clock serving several pending timers (pkg/clock/mock.go lockedSet): every Set serves exactly the
    timers whose due time has been reached, whatever the order in which they were registered and however
    far apart their due times lie (no wrap-around: times are unbounded here; the implementation's time.Time
    covers years 1..9999, its UnixNano only 1678..2262) *)
Definition clock_set (pending : list (nat * Z)) (T : Z) : list nat * list (nat * Z) :=
  (map fst (filter (fun p => snd p <=? T) pending), filter (fun p => negb (snd p <=? T)) pending).
Fixpoint clock_run (pending : list (nat * Z)) (Ts : list Z) : list (list nat) :=
  match Ts with
  | [] => []
  | T :: r => let '(served, rest) := clock_set pending T in served :: clock_run rest r
  end.
