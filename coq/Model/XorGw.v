(** Model of gateway_exclusive.go: choice rule and the two-phase probe protocol. *)
From Coq Require Export List Arith Bool Lia.
Export ListNotations.

(** * Choice.  A gateway lists n outgoing flows; [conds] gives the truth value of each flow's
    condition under the current data (a flow without condition is [true]); [dflt] is the list
    position of the default flow, if any. *)
Inductive decision := Flow (i : nat) | Err.

(* gateway construction: nonDefaultSequenceFlows = outgoing minus the default, in list order *)
Definition non_default (n : nat) (dflt : option nat) : list nat :=
  filter (fun i => match dflt with Some d => negb (i =? d) | None => true end) (seq 0 n).

(* token side (flow.go probeAction): indices, into the non-default list, of the true conditions *)
Definition probe (conds : list bool) (nd : list nat) : list nat :=
  filter (fun k => nth (nth k nd 0) conds false) (seq 0 (length nd)).

(* gateway side: first reported index wins, else default, else error *)
Definition decide (nd : list nat) (dflt : option nat) (report : list nat) : decision :=
  match report with
  | k :: _ => Flow (nth k nd 0)
  | [] => match dflt with Some d => Flow d | None => Err end
  end.

Definition xor_choose (conds : list bool) (dflt : option nat) : decision :=
  let nd := non_default (length conds) dflt in decide nd dflt (probe conds nd).

(** * Probe protocol.  Messages in the gateway's inbox, the table keyed by token (flow id). *)
Inductive msg := Ask (t : nat) | Report (t : nat) (r : list nat).
Inductive entry := Asked | Ready.     (* probing[t] = nil | &response *)
Definition table := nat -> option entry.
Definition upd (tb : table) (t : nat) (e : option entry) : table :=
  fun x => if x =? t then e else tb x.

Inductive out :=
| OProbe (t : nat)                 (* probeAction sent to token t *)
| ODecide (t : nat) (d : decision) (* flowAction (or error trace when d = Err) for token t *)
| ORequeue (t : nat) (r : list nat)(* report rescheduled: goes back into the inbox later *)
| OBadState (t : nat).             (* InvalidStateError trace *)

Definition handle (nd : list nat) (dflt : option nat) (tb : table) (m : msg) : table * list out :=
  match m with
  | Ask t =>
      match tb t with
      | Some _ => (upd tb t (Some Ready), [])
      | None => (upd tb t (Some Asked), [OProbe t])
      end
  | Report t r =>
      match tb t with
      | Some Asked => (tb, [ORequeue t r])
      | Some Ready => (upd tb t None, [ODecide t (decide nd dflt r)])
      | None => (tb, [OBadState t])
      end
  end.

Fixpoint run (nd : list nat) (dflt : option nat) (tb : table) (ms : list msg) : table * list out :=
  match ms with
  | [] => (tb, [])
  | m :: r => let '(tb1, o) := handle nd dflt tb m in
              let '(tb2, os) := run nd dflt tb1 r in (tb2, o ++ os)
  end.

Definition msg_tok (m : msg) : nat := match m with Ask t => t | Report t _ => t end.
Definition out_tok (o : out) : nat :=
  match o with OProbe t => t | ODecide t _ => t | ORequeue t _ => t | OBadState t => t end.
Definition empty : table := fun _ => None.

(** * The table as the code keys it.  The gateway remembers a token between its two requests under a key made from
    the token's id; the entry of a second request holds the channel of whoever made it.  [key] = the identity when the
    table is keyed by the id itself (the sources: map[id.Id]..., Gen/Facts.v src_probing_key_is_the_id); a key built
    from less than the whole id maps different tokens to one entry. *)
Inductive kentry := KAsked | KReady (asker : nat).
Definition ktable := nat -> option kentry.
Definition kupd (tb : ktable) (k : nat) (e : option kentry) : ktable := fun x => if x =? k then e else tb x.

Definition handle_k (key : nat -> nat) (nd : list nat) (dflt : option nat) (tb : ktable) (m : msg) : ktable * list out :=
  match m with
  | Ask t =>
      match tb (key t) with
      | Some _ => (kupd tb (key t) (Some (KReady t)), [])
      | None => (kupd tb (key t) (Some KAsked), [OProbe t])
      end
  | Report t r =>
      match tb (key t) with
      | Some KAsked => (tb, [ORequeue t r])
      | Some (KReady a) => (kupd tb (key t) None, [ODecide a (decide nd dflt r)])
      | None => (tb, [OBadState t])
      end
  end.

Fixpoint run_k (key : nat -> nat) (nd : list nat) (dflt : option nat) (tb : ktable) (ms : list msg) : ktable * list out :=
  match ms with
  | [] => (tb, [])
  | m :: r => let '(tb1, o) := handle_k key nd dflt tb m in
              let '(tb2, os) := run_k key nd dflt tb1 r in (tb2, o ++ os)
  end.
Definition kempty : ktable := fun _ => None.

(* messages as the tokens really send them: a token reports only after it was probed, and asks again only once *)
Definition erase (e : option kentry) : option entry :=
  match e with None => None | Some KAsked => Some Asked | Some (KReady _) => Some Ready end.

(** * The answer as the token reads it.  The gateway hands a token its decision in a slice; the token reads the slice
    when it gets to run.  [fresh] = the slice is made anew for every decision (the sources: Gen/Facts.v
    src_answer_slice_is_fresh: it is a variable of the case that handles one report); false = one slice of the
    gateway's goroutine is emptied and filled again for every decision. *)
Inductive aop := ADecide (t : nat) (d : nat) | ARead (t : nat).
Record ast := { cells : list nat; owner : list (nat * nat); seen_ : list (nat * nat) }.  (* owner: token -> cell *)

Fixpoint poke_ (l : list nat) (i v : nat) : list nat :=
  match l, i with
  | [], _ => []
  | _ :: r, 0 => v :: r
  | x :: r, S k => x :: poke_ r k v
  end.
Fixpoint cell_of (o : list (nat * nat)) (t : nat) : option nat :=
  match o with [] => None | (a, c) :: r => if a =? t then Some c else cell_of r t end.

Definition astep (fresh : bool) (s : ast) (o : aop) : ast :=
  match o with
  | ADecide t d =>
      if fresh || (match cells s with [] => true | _ => false end)
      then {| cells := cells s ++ [d]; owner := (t, length (cells s)) :: owner s; seen_ := seen_ s |}
      else {| cells := poke_ (cells s) 0 d; owner := (t, 0) :: owner s; seen_ := seen_ s |}
  | ARead t =>
      match cell_of (owner s) t with
      | Some c => match nth_error (cells s) c with
                  | Some d => {| cells := cells s; owner := owner s; seen_ := (t, d) :: seen_ s |}
                  | None => s
                  end
      | None => s
      end
  end.
Definition arun (fresh : bool) (ops : list aop) : ast := fold_left (astep fresh) ops {| cells := []; owner := []; seen_ := [] |}.
(* what was decided for token t last, before position [ops] ends *)
Fixpoint decided (ops : list aop) (t : nat) (acc : option nat) : option nat :=
  match ops with
  | [] => acc
  | ADecide a d :: r => decided r t (if a =? t then Some d else acc)
  | ARead _ :: r => decided r t acc
  end.
