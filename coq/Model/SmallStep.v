(** Small-step token game of block programs: one token moves past one node at a time, tokens in different
    branches in any interleaving (the goroutine schedule).  Model/Blocks.v moves all tokens at once, as far as
    they get, after every answer ([start], [answer]); here is why that loses nothing: whatever the schedule, the
    tokens come to rest in the same places (Proofs/SmallStepProofs.v).  The data [e] does not change while the
    tokens move: variables are written by task answers only, and the driver answers when the instance is at rest. *)
From BV Require Export Model.Blocks.

Inductive srun :=
| SAt (b : blk)                          (* a token stands at the entry of block b *)
| SDone | SEnded | SSpinning
| STask (t : nat)
| SSeq (r : srun) (rest : blk)
| SPar (a b : srun)
| SIncl (a b : srun)
| SLoop (r : srun) (v : nat) (body : blk)
| SSub (r : srun).

Fixpoint sended (r : srun) : bool :=
  match r with SEnded => true | SIncl a b => sended a && sended b | _ => false end.
Fixpoint sfin (r : srun) : bool :=
  match r with
  | SDone => true
  | SPar a b => sfin a && sfin b
  | SSub r => sfin r || sended r
  | SIncl a b => (sfin a || sended a) && (sfin b || sended b) && (sfin a || sfin b)
  | _ => false
  end.

(* one move of one token *)
Inductive sstep (e : env) : srun -> srun -> Prop :=
| s_skip : sstep e (SAt BSkip) SDone
| s_task t : sstep e (SAt (BTask t)) (STask t)
| s_end k : sstep e (SAt (BEnd k)) SEnded
| s_seq a b : sstep e (SAt (BSeq a b)) (SSeq (SAt a) b)
| s_par a b : sstep e (SAt (BPar a b)) (SPar (SAt a) (SAt b))
| s_if v a b : sstep e (SAt (BIf v a b)) (SAt (if getv e v then a else b))
| s_loop v body : sstep e (SAt (BLoop v body)) (SLoop (SAt body) v body)
| s_sub b : sstep e (SAt (BSub b)) (SSub (SAt b))
| s_incl v1 v2 a b d : sstep e (SAt (BIncl v1 v2 a b d))
    (if getv e v1 || getv e v2
     then SIncl (if getv e v1 then SAt a else SEnded) (if getv e v2 then SAt b else SEnded)
     else SAt d)
| s_cond t v a b : sstep e (SAt (BCond t v a b)) (SSeq (STask t) (BIf v a b))
| s_seq_next r rest : sfin r = true -> sstep e (SSeq r rest) (SAt rest)
| s_seq_ended r rest : sended r = true -> sstep e (SSeq r rest) SEnded
| s_seq_in r r' rest : sstep e r r' -> sstep e (SSeq r rest) (SSeq r' rest)
| s_par_l a a' b : sstep e a a' -> sstep e (SPar a b) (SPar a' b)
| s_par_r a b b' : sstep e b b' -> sstep e (SPar a b) (SPar a b')
| s_incl_l a a' b : sstep e a a' -> sstep e (SIncl a b) (SIncl a' b)
| s_incl_r a b b' : sstep e b b' -> sstep e (SIncl a b) (SIncl a b')
| s_loop_again r v body : sfin r = true -> getv e v = true -> sstep e (SLoop r v body) (SLoop (SAt body) v body)
| s_loop_exit r v body : sfin r = true -> getv e v = false -> sstep e (SLoop r v body) SDone
| s_loop_ended r v body : sended r = true -> sstep e (SLoop r v body) SEnded
| s_loop_in r r' v body : sstep e r r' -> sstep e (SLoop r v body) (SLoop r' v body)
| s_sub_in r r' : sstep e r r' -> sstep e (SSub r) (SSub r').

Inductive ssteps (e : env) : srun -> srun -> Prop :=
| ss_refl r : ssteps e r r
| ss_step r r1 r2 : sstep e r r1 -> ssteps e r1 r2 -> ssteps e r r2.

Definition quiescent (e : env) (r : srun) : Prop := forall r', ~ sstep e r r'.

(* the states of Model/Blocks.v are the small-step states in which every token rests *)
Fixpoint emb (r : run) : srun :=
  match r with
  | RDone => SDone | RSpin => SSpinning | REnded => SEnded
  | RTask t => STask t
  | RSeq r rest => SSeq (emb r) rest
  | RPar a b => SPar (emb a) (emb b)
  | RIncl a b => SIncl (emb a) (emb b)
  | RLoop r v body => SLoop (emb r) v body
  | RSub r => SSub (emb r)
  end.

(* the answer of task t lets the token resting there go on *)
Fixpoint sanswer (r : srun) (t : nat) : srun :=
  match r with
  | STask t' => if t =? t' then SDone else r
  | SSeq r rest => SSeq (sanswer r t) rest
  | SPar a b => SPar (sanswer a t) (sanswer b t)
  | SIncl a b => SIncl (sanswer a t) (sanswer b t)
  | SLoop r v body => SLoop (sanswer r t) v body
  | SSub r => SSub (sanswer r t)
  | _ => r
  end.
