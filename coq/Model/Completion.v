(** Model of instance completion (process.go StartWith / ceaseFlowMonitor / WaitUntilComplete):
    k start events, an abstract pool of tokens guarded by the wait group, the completion monitor
    (subscribe, lock, count start-event traces, wait for the wait group, emit the cease-flow trace,
    unlock) and any number of WaitUntilComplete callers with their helper goroutines.
    Configuration flags select the code variant:
      sub_first = the monitor subscribes BEFORE the start event is triggered (repaired code);
      sigbuf    = the helper's signal channel is buffered (repaired code). *)
From Coq Require Export List Arith Bool Lia.
Export ListNotations.

Record cfg := { k : nat; sub_first : bool; sigbuf : bool }.

Inductive mphase := MNone | MCount | MWait | MDone.
Inductive wphase :=
| WIdle        (* not called yet *)
| WWait        (* caller waiting, helper contending for the lock *)
| WHeld        (* helper holds the lock, caller still waiting *)
| WTrue        (* caller returned true *)
| WGone        (* caller's context expired (returned false); helper still contending *)
| WGoneHeld    (* helper holds the lock, caller gone *)
| WGoneDone.   (* helper finished after the caller had gone *)

Inductive holder := HMon | HHelper (w : nat).

Record st := {
  trig : nat;       (* start events triggered (their flows exist) *)
  emitted : nat;    (* start flows that have broadcast their start trace *)
  missed : nat;     (* of those, broadcast before the monitor subscribed *)
  seen : nat;       (* start traces counted by the monitor *)
  tokens : nat;     (* live flows = wait group counter *)
  mon : mphase;
  lock : option holder;
  ws : list wphase;
  ceases : nat      (* cease-flow traces emitted *)
}.

Inductive label :=
| LCreate | LTrig | LEmit | LSee | LFork | LDie | LWaitDone
| LCall (w : nat) | LHelperLock (w : nat) | LHelperSend (w : nat) | LTimeout (w : nat).

Fixpoint upd {A} (l : list A) (i : nat) (x : A) : list A :=
  match l, i with
  | [], _ => []
  | _ :: t, 0 => x :: t
  | a :: t, S j => a :: upd t j x
  end.
Definition wget (s : st) (w : nat) : wphase := nth w (ws s) WIdle.

Definition set_ws (s : st) (w : nat) (p : wphase) (lk : option holder) : st :=
  {| trig := trig s; emitted := emitted s; missed := missed s; seen := seen s; tokens := tokens s;
     mon := mon s; lock := lk; ws := upd (ws s) w p; ceases := ceases s |}.

Definition is_free (l : option holder) : bool := match l with None => true | Some _ => false end.

Definition step (c : cfg) (s : st) (l : label) : option st :=
  match l with
  | LCreate =>
      match mon s, lock s with
      | MNone, None =>
          Some {| trig := trig s; emitted := emitted s; missed := missed s; seen := seen s; tokens := tokens s;
                  mon := (if k c =? 0 then MWait else MCount); lock := Some HMon; ws := ws s; ceases := ceases s |}
      | _, _ => None
      end
  | LTrig =>
      if (trig s <? k c) && (negb (sub_first c) || negb (match mon s with MNone => true | _ => false end))
      then Some {| trig := S (trig s); emitted := emitted s; missed := missed s; seen := seen s; tokens := S (tokens s);
                   mon := mon s; lock := lock s; ws := ws s; ceases := ceases s |}
      else None
  | LEmit =>
      if emitted s <? trig s
      then Some {| trig := trig s; emitted := S (emitted s);
                   missed := (match mon s with MNone => S (missed s) | _ => missed s end);
                   seen := seen s; tokens := tokens s; mon := mon s; lock := lock s; ws := ws s; ceases := ceases s |}
      else None
  | LSee =>
      match mon s with
      | MCount =>
          if seen s <? emitted s - missed s
          then Some {| trig := trig s; emitted := emitted s; missed := missed s; seen := S (seen s); tokens := tokens s;
                       mon := (if S (seen s) =? k c then MWait else MCount); lock := lock s; ws := ws s; ceases := ceases s |}
          else None
      | _ => None
      end
  | LFork =>
      if 1 <=? tokens s
      then Some {| trig := trig s; emitted := emitted s; missed := missed s; seen := seen s; tokens := S (tokens s);
                   mon := mon s; lock := lock s; ws := ws s; ceases := ceases s |}
      else None
  | LDie =>
      (* a start flow that has not yet announced itself is still alive *)
      if trig s - emitted s <? tokens s
      then Some {| trig := trig s; emitted := emitted s; missed := missed s; seen := seen s; tokens := tokens s - 1;
                   mon := mon s; lock := lock s; ws := ws s; ceases := ceases s |}
      else None
  | LWaitDone =>
      match mon s with
      | MWait =>
          if tokens s =? 0
          then Some {| trig := trig s; emitted := emitted s; missed := missed s; seen := seen s; tokens := tokens s;
                       mon := MDone; lock := None; ws := ws s; ceases := S (ceases s) |}
          else None
      | _ => None
      end
  | LCall w =>
      (* waits issued once the instance has been started *)
      match mon s, wget s w with
      | MNone, _ => None
      | _, WIdle => if w <? length (ws s) then Some (set_ws s w WWait (lock s)) else None
      | _, _ => None
      end
  | LHelperLock w =>
      if is_free (lock s) then
        match wget s w with
        | WWait => Some (set_ws s w WHeld (Some (HHelper w)))
        | WGone => Some (set_ws s w WGoneHeld (Some (HHelper w)))
        | _ => None
        end
      else None
  | LHelperSend w =>
      match wget s w with
      | WHeld => Some (set_ws s w WTrue None)
      | WGoneHeld => if sigbuf c then Some (set_ws s w WGoneDone None) else None
      | _ => None
      end
  | LTimeout w =>
      match wget s w with
      | WWait => Some (set_ws s w WGone (lock s))
      | WHeld => Some (set_ws s w WGoneHeld (lock s))
      | _ => None
      end
  end.

Definition init (nw : nat) : st :=
  {| trig := 0; emitted := 0; missed := 0; seen := 0; tokens := 0; mon := MNone; lock := None;
     ws := repeat WIdle nw; ceases := 0 |}.

(* run a path; None if some label is not enabled *)
Fixpoint exec (c : cfg) (s : st) (p : list label) : option st :=
  match p with
  | [] => Some s
  | l :: r => match step c s l with Some s' => exec c s' r | None => None end
  end.

Definition reach (c : cfg) (nw : nat) (s : st) : Prop := exists p, exec c (init nw) p = Some s.

Definition monitor_label (l : label) : bool := match l with LSee | LWaitDone => true | _ => false end.
Definition env_label (l : label) : bool := match l with LTrig | LEmit | LFork | LDie => true | _ => false end.
Definition quiescent (c : cfg) (s : st) : Prop := trig s = k c /\ emitted s = k c /\ tokens s = 0.
Definition measure (c : cfg) (s : st) : nat :=
  match mon s with MNone => k c + 2 | MCount => k c - seen s + 1 | MWait => 1 | MDone => 0 end.
