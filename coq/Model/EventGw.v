(** Model of the event-based gateway hand-off (gateway_event_based.go action transformer +
    flow.go token loop + event_catch.go): n alternative tokens parked at catch events, each with a
    termination channel; events arrive in any order and concurrently; the first alternative to run
    the transformer wins the compare-and-swap and notifies every other alternative.
      buffered = true : termination channels have a one-element buffer (repaired code);
      buffered = false: unbuffered (pinned snapshot): the notification needs the receiver to be
                        parked in its select. *)
From Coq Require Export List Arith Bool Lia.
Export ListNotations.

Inductive alt :=
| Parked          (* token in select: waits for its catch event or its termination channel *)
| Took            (* its event arrived: took the catch event's action, about to run the transformer *)
| Winner          (* won the CAS: is notifying the others, then continues *)
| Continued       (* its branch continued (exactly once) *)
| Lost            (* lost the CAS: completes without continuing *)
| Withdrawn.      (* received the termination notice: terminated without continuing *)

Record gst := {
  alts : list alt;
  first : bool;              (* the CAS flag *)
  tonotify : list nat;       (* alternatives the winner still has to notify *)
  boxes : list bool;         (* buffered mode: termination channel of alternative j holds a value *)
  conts : nat                (* how many branches continued *)
}.

Inductive glabel :=
| Deliver (i : nat)   (* the event of alternative i is delivered to its catch event *)
| Cas (i : nat)       (* alternative i runs the action transformer *)
| Notify              (* the winner sends on the next termination channel *)
| TakeNotice (j : nat)(* parked alternative j receives from its termination channel *)
| Proceed.            (* the winner, having notified everybody, continues along its branch *)

Fixpoint upd {A} (l : list A) (i : nat) (x : A) : list A :=
  match l, i with
  | [], _ => []
  | _ :: t, 0 => x :: t
  | a :: t, S j => a :: upd t j x
  end.
Definition aget (s : gst) (i : nat) : alt := nth i (alts s) Lost.

Definition gstep (buffered : bool) (s : gst) (l : glabel) : option gst :=
  match l with
  | Deliver i =>
      match aget s i with
      | Parked => if i <? length (alts s)
                  then Some {| alts := upd (alts s) i Took; first := first s; tonotify := tonotify s; boxes := boxes s; conts := conts s |}
                  else None
      | _ => Some s        (* the catch event is not awaited by a live token any more: no effect *)
      end
  | Cas i =>
      match aget s i with
      | Took =>
          if first s
          then Some {| alts := upd (alts s) i Lost; first := true; tonotify := tonotify s; boxes := boxes s; conts := conts s |}
          else Some {| alts := upd (alts s) i Winner; first := true;
                       tonotify := filter (fun j => negb (j =? i)) (seq 0 (length (alts s)));
                       boxes := boxes s; conts := conts s |}
      | _ => None
      end
  | Notify =>
      match tonotify s with
      | j :: rest =>
          if buffered
          then Some {| alts := alts s; first := first s; tonotify := rest; boxes := upd (boxes s) j true; conts := conts s |}
          else match aget s j with
               | Parked => Some {| alts := upd (alts s) j Withdrawn; first := first s; tonotify := rest; boxes := boxes s; conts := conts s |}
               | _ => None        (* rendez-vous with a token that is not in its select: blocks *)
               end
      | [] => None
      end
  | TakeNotice j =>
      match aget s j, nth j (boxes s) false with
      | Parked, true => Some {| alts := upd (alts s) j Withdrawn; first := first s; tonotify := tonotify s; boxes := upd (boxes s) j false; conts := conts s |}
      | _, _ => None
      end
  | Proceed =>
      match tonotify s with
      | [] =>
          match find (fun i => match aget s i with Winner => true | _ => false end) (seq 0 (length (alts s))) with
          | Some i => Some {| alts := upd (alts s) i Continued; first := first s; tonotify := []; boxes := boxes s; conts := S (conts s) |}
          | None => None
          end
      | _ => None
      end
  end.

Definition ginit (n : nat) : gst :=
  {| alts := repeat Parked n; first := false; tonotify := []; boxes := repeat false n; conts := 0 |}.

Fixpoint gexec (b : bool) (s : gst) (p : list glabel) : option gst :=
  match p with
  | [] => Some s
  | l :: r => match gstep b s l with Some s' => gexec b s' r | None => None end
  end.
Definition greach (b : bool) (n : nat) (s : gst) : Prop := exists p, gexec b (ginit n) p = Some s.

Definition count_alt (a : alt -> bool) (s : gst) : nat := length (filter a (alts s)).
Definition is_winner (a : alt) := match a with Winner | Continued => true | _ => false end.
Definition is_open (a : alt) := match a with Parked | Took | Winner => true | _ => false end.

(* ---- several activations of one gateway node at the same time ----
   Every token that arrives at the gateway is an activation of its own: its own alternatives, its own termination
   channels. The flag the compare-and-swap decides on is either the activation's own ([per_activation] = true: a
   variable of the case that handles the token's arrival, Gen/Facts.v src_determination_flag_per_activation) or one
   cell of the node that all activations share. A step names the activation it belongs to. *)
Record mst := { acts : list gst; nodeflag : bool }.

Definition set_first (g : gst) (f : bool) : gst :=
  {| alts := alts g; first := f; tonotify := tonotify g; boxes := boxes g; conts := conts g |}.

Definition mstep (per_activation buffered : bool) (s : mst) (al : nat * glabel) : option mst :=
  match nth_error (acts s) (fst al) with
  | None => None
  | Some g =>
      match gstep buffered (if per_activation then g else set_first g (nodeflag s)) (snd al) with
      | None => None
      | Some g' => Some {| acts := upd (acts s) (fst al) g';
                           nodeflag := if per_activation then nodeflag s else first g' |}
      end
  end.

Definition minit (k n : nat) : mst := {| acts := repeat (ginit n) k; nodeflag := false |}.

Fixpoint mexec (per b : bool) (s : mst) (p : list (nat * glabel)) : option mst :=
  match p with
  | [] => Some s
  | l :: r => match mstep per b s l with Some s' => mexec per b s' r | None => None end
  end.
Definition mreach (per b : bool) (k n : nat) (s : mst) : Prop := exists p, mexec per b (minit k n) p = Some s.
