(** The activation protocol of an embedded sub-process (subprocess.go): tokens of the parent enter,
    one activation at a time runs the inner flows, a completion monitor reports when the inner start
    event has flowed and every inner token is consumed, the parent's token then continues.
    Flags select the code variant:
      cease_inner — the monitor reports on the inner tracer, where the activation waits (repaired);
      per_act     — every activation has its own monitor (repaired);
      rearm       — the inner start events are re-armed for every activation (repaired);
      fresh_seen  — what a monitor has seen of the start events is per activation (as in the code; off =
                    a monitor that remembers the start events of an earlier activation). *)
From Coq Require Export List Arith Bool Lia.
Export ListNotations.

Record scfg := { cease_inner : bool; per_act : bool; rearm : bool; fresh_seen : bool }.

Record act := {
  tokens : nat;      (* inner tokens alive (the wait group of the inner flows) *)
  started : bool;    (* the monitor has seen the inner start event flow (or end at once) *)
  body : bool;       (* the start event flowed into the content (false: it completed the token at once) *)
  entered_body : bool; (* the start event's token has taken its decision *)
  mon : bool;        (* a monitor watches this activation *)
  ceased : bool      (* the cease-flow trace for this activation has been sent *)
}.

Record spst := {
  queue : nat;           (* parent tokens that have arrived and not yet begun their activation *)
  cur : option act;
  nth : nat;             (* activations begun so far *)
  conts : nat;           (* parent tokens that continued past the sub-process *)
  arrived : nat;         (* parent tokens that arrived *)
  bodies : nat;          (* activations whose content actually ran *)
  early : bool           (* a parent token continued while inner tokens were alive, or before the content was entered *)
}.

Inductive splabel := PEnter | PBegin | PStartFlows | PStartSeen | PFork | PDie | PCease | PContinue.

Definition with_cur (s : spst) (a : option act) : spst :=
  {| queue := queue s; cur := a; nth := nth s; conts := conts s; arrived := arrived s; bodies := bodies s; early := early s |}.

Definition spstep (c : scfg) (s : spst) (l : splabel) : option spst :=
  match l, cur s with
  | PEnter, _ => Some {| queue := S (queue s); cur := cur s; nth := nth s; conts := conts s; arrived := S (arrived s);
                         bodies := bodies s; early := early s |}
  | PBegin, None =>
      if 1 <=? queue s then
        Some {| queue := queue s - 1;
                cur := Some {| tokens := 0; started := negb (fresh_seen c) && negb (nth s =? 0); body := rearm c || (nth s =? 0); entered_body := false;
                               mon := per_act c || (nth s =? 0); ceased := false |};
                nth := S (nth s); conts := conts s; arrived := arrived s; bodies := bodies s; early := early s |}
      else None
  | PStartFlows, Some a =>
      (* the flow created at the start event registers in the wait group and either flows into the content
         or, the start event having flowed before, is completed at once *)
      if negb (entered_body a) then
        Some {| queue := queue s;
                cur := Some {| tokens := (if body a then S (tokens a) else tokens a); started := started a; body := body a;
                               entered_body := true; mon := mon a; ceased := ceased a |};
                nth := nth s; conts := conts s; arrived := arrived s;
                bodies := (if body a then S (bodies s) else bodies s); early := early s |}
      else None
  | PStartSeen, Some a =>
      if mon a && entered_body a && negb (started a) then
        Some (with_cur s (Some {| tokens := tokens a; started := true; body := body a; entered_body := true; mon := true; ceased := ceased a |}))
      else None
  | PFork, Some a =>
      if entered_body a && (1 <=? tokens a) then
        Some (with_cur s (Some {| tokens := S (tokens a); started := started a; body := body a; entered_body := true; mon := mon a; ceased := ceased a |}))
      else None
  | PDie, Some a =>
      if entered_body a && (1 <=? tokens a) then
        Some (with_cur s (Some {| tokens := tokens a - 1; started := started a; body := body a; entered_body := true; mon := mon a; ceased := ceased a |}))
      else None
  | PCease, Some a =>
      if mon a && started a && (tokens a =? 0) && negb (ceased a) then
        Some (with_cur s (Some {| tokens := 0; started := true; body := body a; entered_body := entered_body a; mon := true; ceased := true |}))
      else None
  | PContinue, Some a =>
      if ceased a && cease_inner c then
        Some {| queue := queue s; cur := None; nth := nth s; conts := S (conts s); arrived := arrived s; bodies := bodies s;
                early := early s || negb (tokens a =? 0) || negb (entered_body a) |}
      else None
  | _, _ => None
  end.

Definition spinit : spst := {| queue := 0; cur := None; nth := 0; conts := 0; arrived := 0; bodies := 0; early := false |}.

Fixpoint spexec (c : scfg) (s : spst) (p : list splabel) : option spst :=
  match p with
  | [] => Some s
  | l :: r => match spstep c s l with Some s' => spexec c s' r | None => None end
  end.
Definition spreach (c : scfg) (s : spst) : Prop := exists p, spexec c spinit p = Some s.

Definition sp_fixed : scfg := {| cease_inner := true; per_act := true; rearm := true; fresh_seen := true |}.
Definition busy (s : spst) : nat := match cur s with Some _ => 1 | None => 0 end.
