(** Delivery through the tree of event consumers, with the inboxes (subprocess.go subProcess.ConsumeEvent over
    Model/Inbox.v): a catch event is a listener with a bounded inbox that drops what reaches it while its goroutine is
    not running; what an embedded sub-process does with an event is the decision modelled here:
      queues = false  it forwards the event to the consumers registered with it, on the goroutine of whoever delivers
                      (the sources: Gen/Facts.v src_subprocess_forwards_directly)
      queues = true   it puts the event into its own bounded inbox, which its run loop empties -- once a token has
                      entered the sub-process. *)
From BV Require Export Model.Inbox.

Inductive tnode :=
| TCatch (n : lnode)
| TSub (queues entered : bool) (qcap qfill : nat) (kids : list tnode).

Fixpoint tdeliver (e : nat) (t : tnode) : option tnode :=
  match t with
  | TCatch n => option_map TCatch (deliver_to true e n)
  | TSub q en c f kids =>
      if q && negb en then (if f <? c then Some (TSub q en c (S f) kids) else None)
      else option_map (TSub q en c f)
             ((fix all (l : list tnode) : option (list tnode) :=
                 match l with
                 | [] => Some []
                 | k :: r => match tdeliver e k, all r with Some k', Some r' => Some (k' :: r') | _, _ => None end
                 end) kids)
  end.

Fixpoint tdeliver_all (e : nat) (l : list tnode) : option (list tnode) :=
  match l with
  | [] => Some []
  | k :: r => match tdeliver e k, tdeliver_all e r with Some k', Some r' => Some (k' :: r') | _, _ => None end
  end.

(* every sub-process of the tree decides as the flag says *)
Fixpoint forwards_as (q : bool) (t : tnode) : Prop :=
  match t with
  | TCatch _ => True
  | TSub q' _ _ _ kids => q' = q /\ (fix all (l : list tnode) : Prop := match l with [] => True | k :: r => forwards_as q k /\ all r end) kids
  end.
Fixpoint all_forward_as (q : bool) (l : list tnode) : Prop := match l with [] => True | k :: r => forwards_as q k /\ all_forward_as q r end.

(* every running listener of the tree has a free inbox slot *)
Fixpoint roomy (t : tnode) : Prop :=
  match t with
  | TCatch n => running n = true -> has_room n = true
  | TSub _ _ _ _ kids => (fix all (l : list tnode) : Prop := match l with [] => True | k :: r => roomy k /\ all r end) kids
  end.
Fixpoint all_roomy (l : list tnode) : Prop := match l with [] => True | k :: r => roomy k /\ all_roomy r end.

(* the listeners of the tree, left to right *)
Fixpoint leaves (t : tnode) : list lnode :=
  match t with
  | TCatch n => [n]
  | TSub _ _ _ _ kids => flat_map leaves kids
  end.
