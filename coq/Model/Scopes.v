(** One store per instance (subprocess.go newSubProcess hands the parent wiring's locator on to the nodes inside):
    the scopes of an instance -- the process and its embedded sub-processes, however deep -- number 0, 1, 2 ...;
    scope s reads and writes through the locator [loc_of shared s]:
      shared = true   every scope uses the locator of scope 0 (the sources: Gen/Facts.v src_subprocess_shares_the_locator)
      shared = false  every scope has a locator of its own (made as a merged copy when the instance is built)
    over the heap-and-tables model of Model/Store.v. *)
From BV Require Export Model.Store.

Definition loc_of (shared : bool) (s : nat) : nat := if shared then 0 else s.

Definition swrite (shared in_place : bool) (st : heap * list table) (w : nat * nat * nat) : heap * list table :=
  let '(s, n, v) := w in write in_place st (loc_of shared s, n, v).

Definition swrites (shared in_place : bool) (st : heap * list table) (ws : list (nat * nat * nat)) : heap * list table :=
  fold_left (swrite shared in_place) ws st.

Definition sread (shared : bool) (st : heap * list table) (s n : nat) : option nat :=
  match nth_error (snd st) (loc_of shared s) with
  | Some t => read (fst st) t n
  | None => None
  end.

(* the locator of scope 0 exists and names existing cells only *)
Definition wf0 (st : heap * list table) : Prop := exists t0, nth_error (snd st) 0 = Some t0 /\ wf (fst st) t0.
