(** How an event handed to an instance finds the catch events (process.go / subprocess.go / activity.go ConsumeEvent +
    RegisterEventConsumer): consumers form a tree — the process forwards to the nodes registered with it, an embedded
    sub-process forwards to the nodes registered with *it* — and an event reaches a node only through every level above.
      registered = true : the sub-process registers with its parent when it is built (repaired code);
      registered = false: it does not (the code as found): nothing inside a sub-process ever hears of an event. *)
From Coq Require Export List Arith Bool Lia.
Export ListNotations.

Inductive enode :=
| ECatch (id : nat)
| ESub (registered : bool) (kids : list enode).

Fixpoint reached (n : enode) : list nat :=
  match n with
  | ECatch id => [id]
  | ESub r kids => if r then flat_map reached kids else []
  end.
Fixpoint catches (n : enode) : list nat :=
  match n with
  | ECatch id => [id]
  | ESub _ kids => flat_map catches kids
  end.
(* every sub-process of the tree registers as the flag says *)
Fixpoint built_with (r : bool) (n : enode) : Prop :=
  match n with
  | ECatch _ => True
  | ESub r' kids => r' = r /\ (fix all (l : list enode) : Prop := match l with [] => True | k :: t => built_with r k /\ all t end) kids
  end.
Definition deliver (top : list enode) : list nat := flat_map reached top.
