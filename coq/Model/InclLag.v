(** The inclusive join and the tracker's knowledge of the fork (gateway_inclusive.go flowTracker).
    Model/InclGw.v assumes that when the first token of a fork activation reaches the join the tracker already knows
    every token of that activation (it only lags in noticing that a token has ENDED). The tracker learns of the
    tokens from the fork's trace, asynchronously; this model makes that step explicit:
      LKnow i : the tracker processes the creation of token i (and notifies the gateway, which looks again);
      LArr i  : token i arrives at the join.
    The join's picture at a look = the tokens the tracker knows that are not consumed yet, and the arriving token
    itself; it releases (consuming the waiting tokens) when every token of the picture waits at the join. *)
From Coq Require Export List Arith Bool Lia.
Export ListNotations.

Inductive ltok := LRun | LWait | LGone.
Record lst := {
  ltoks : list ltok;
  known : list bool;
  lact : bool;             (* an activation is open (a first token has arrived and was not released yet) *)
  lawait : list nat;       (* the picture taken at the last look *)
  lrel : nat               (* tokens the join has let through *)
}.
Inductive llabel := LKnow (i : nat) | LArr (i : nat).

Fixpoint lupd {A} (l : list A) (i : nat) (x : A) : list A :=
  match l, i with
  | [], _ => []
  | _ :: t, 0 => x :: t
  | a :: t, S j => a :: lupd t j x
  end.

Definition lpicture (tk : list ltok) (kn : list bool) : list nat :=
  filter (fun j => match nth j tk LGone with
                   | LGone => false
                   | LWait => true
                   | LRun => nth j kn false
                   end) (seq 0 (length tk)).
Definition all_wait (tk : list ltok) (aw : list nat) : bool :=
  forallb (fun j => match nth j tk LRun with LWait => true | _ => false end) aw.
Definition consume (tk : list ltok) : list ltok :=
  map (fun t => match t with LWait => LGone | x => x end) tk.

Definition ltry (s : lst) : lst :=
  if lact s && all_wait (ltoks s) (lawait s)
  then {| ltoks := consume (ltoks s); known := known s; lact := false; lawait := []; lrel := S (lrel s) |}
  else s.

Definition lstep (s : lst) (l : llabel) : option lst :=
  match l with
  | LArr i =>
      match nth_error (ltoks s) i with
      | Some LRun =>
          let tk := lupd (ltoks s) i LWait in
          Some (ltry {| ltoks := tk; known := known s; lact := true;
                        lawait := (if lact s then lawait s else lpicture tk (known s)); lrel := lrel s |})
      | _ => None
      end
  | LKnow i =>
      match nth_error (known s) i with
      | Some false =>
          let kn := lupd (known s) i true in
          Some (ltry {| ltoks := ltoks s; known := kn; lact := lact s;
                        lawait := (if lact s then lpicture (ltoks s) kn else lawait s); lrel := lrel s |})
      | _ => None
      end
  end.

(* [informed] = the tracker knows the whole fork activation before the first token reaches the join *)
Definition linit (informed : bool) (n : nat) : lst :=
  {| ltoks := repeat LRun n; known := repeat informed n; lact := false; lawait := []; lrel := 0 |}.
Fixpoint lexec (s : lst) (p : list llabel) : option lst :=
  match p with
  | [] => Some s
  | l :: r => match lstep s l with Some s' => lexec s' r | None => None end
  end.
Definition lreach (informed : bool) (n : nat) (s : lst) : Prop := exists p, lexec (linit informed n) p = Some s.
Definition all_arrived (tk : list ltok) : bool := forallb (fun t => match t with LRun => false | _ => true end) tk.
