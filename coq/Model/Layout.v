(** Model of schema/builder.go AutoLayout: levels by bounded relaxation, rows by first free
    slot, shapes, edge waypoints.  Nodes are indices 0..n-1 in FlowElements order; coordinates
    are integers in an arbitrary unit (the harness uses a unit in which every configured value
    and every half node height is integral; float64 is exact on those). *)
From Coq Require Export List Arith ZArith Bool Lia.
From Coq Require Strings.String.
From BV Require Gen.Facts.
Export ListNotations.

(* ---------- levels: computeFlowNodeLevels ---------- *)
Definition getl (l : list nat) (i : nat) : nat := nth i l 0.
Fixpoint setl (l : list nat) (i v : nat) : list nat :=
  match l, i with
  | [], _ => []
  | _ :: t, 0 => v :: t
  | a :: t, S j => a :: setl t j v
  end.

Definition relax_pass (n : nat) (edges : list (nat * nat)) (lv : list nat) : list nat * bool :=
  fold_left (fun (acc : list nat * bool) (e : nat * nat) =>
    let '(lv, upd) := acc in let '(s, t) := e in
    if (s <? n) && (t <? n) then
      if getl lv t <? S (getl lv s) then (setl lv t (S (getl lv s)), true) else (lv, upd)
    else (lv, upd)) edges (lv, false).

Fixpoint relax (iters n : nat) (edges : list (nat * nat)) (lv : list nat) : list nat :=
  match iters with
  | O => lv
  | S k => let '(lv', upd) := relax_pass n edges lv in
           if upd then relax k n edges lv' else lv'
  end.

Definition levels (n : nat) (edges : list (nat * nat)) : list nat := relax n n edges (repeat 0 n).

(* ---------- rows: computeFlowNodeRows ---------- *)
(* desired row = average of the rows of the predecessors already placed, as a fraction (total, count) *)
Definition desired (rows : list (option nat)) (edges : list (nat * nat)) (v : nat) : nat * nat :=
  fold_left (fun (acc : nat * nat) (e : nat * nat) =>
    let '(s, t) := e in
    if t =? v then match nth s rows None with Some r => (fst acc + r, S (snd acc)) | None => acc end
    else acc) edges (0, 0).

(* a/b < c/d for fractions with the convention x/0 = 0 *)
Definition frac_norm (p : nat * nat) : nat * nat := if snd p =? 0 then (0, 1) else p.
Definition frac_lt (p q : nat * nat) : bool :=
  let '(a, b) := frac_norm p in let '(c, d) := frac_norm q in a * d <? c * b.
Definition frac_eq (p q : nat * nat) : bool :=
  let '(a, b) := frac_norm p in let '(c, d) := frac_norm q in a * d =? c * b.
(* math.Round (half away from zero) of a non-negative fraction *)
Definition frac_round (p : nat * nat) : nat :=
  let '(a, b) := frac_norm p in (2 * a + b) / (2 * b).

(* stable insertion sort of the level's nodes by (desired, order) *)
Fixpoint insert_by (lt : nat -> nat -> bool) (x : nat) (l : list nat) : list nat :=
  match l with
  | [] => [x]
  | y :: r => if lt x y then x :: l else y :: insert_by lt x r
  end.
Definition sort_by (lt : nat -> nat -> bool) (l : list nat) : list nat :=
  fold_left (fun acc x => insert_by lt x acc) l [].

Fixpoint first_free (fuel : nat) (occ : list nat) (r : nat) : nat :=
  match fuel with
  | O => r
  | S k => if existsb (Nat.eqb r) occ then first_free k occ (S r) else r
  end.

Fixpoint updo (l : list (option nat)) (i : nat) (x : nat) : list (option nat) :=
  match l, i with
  | [], _ => []
  | _ :: t, 0 => Some x :: t
  | a :: t, S j => a :: updo t j x
  end.

(* place the (sorted) nodes of one level; occ = rows taken in this level so far *)
Fixpoint place (want : nat -> nat) (ns : list nat) (occ : list nat) (rows : list (option nat))
  : list (option nat) :=
  match ns with
  | [] => rows
  | v :: r => let row := first_free (S (length occ)) occ (want v) in
              place want r (row :: occ) (updo rows v row)
  end.

Definition level_nodes (lv : list nat) (n level : nat) : list nat :=
  filter (fun v => getl lv v =? level) (seq 0 n).

Definition rows_level (n : nat) (edges : list (nat * nat)) (lv : list nat)
           (rows : list (option nat)) (level : nat) : list (option nat) :=
  let lt := fun a b =>
    let da := desired rows edges a in let db := desired rows edges b in
    if frac_eq da db then a <? b else frac_lt da db in
  let ns := sort_by lt (level_nodes lv n level) in
  (* desiredRow is evaluated against the rows known when the level starts AND those placed
     earlier in this level; predecessors are always in lower levels for the graphs laid out
     here, so the level-start snapshot is used *)
  place (fun v => frac_round (desired rows edges v)) ns [] rows.

Definition max_list (l : list nat) : nat := fold_left Nat.max l 0.

Definition rows_of (n : nat) (edges : list (nat * nat)) (lv : list nat) : list (option nat) :=
  fold_left (rows_level n edges lv) (seq 0 (S (max_list (firstn n lv)))) (repeat None n).

(* ---------- geometry ---------- *)
Open Scope Z_scope.
Record cfg := { startX : Z; startY : Z; colGap : Z; rowGap : Z; procGap : Z }.
Record rect := { rx : Z; ry : Z; rw : Z; rh : Z }.

(* size of node v: (width, half height) *)
Definition shape (c : cfg) (sy : Z) (size : nat -> Z * Z) (lv : list nat) (rows : list (option nat)) (v : nat) : rect :=
  let '(w, h2) := size v in
  let row := match nth v rows None with Some r => r | None => O end in
  {| rx := startX c + Z.of_nat (getl lv v) * colGap c;
     ry := sy + Z.of_nat row * rowGap c - h2;
     rw := w; rh := 2 * h2 |}.

Definition min_process_height : Z := Facts.autoLayoutMinProcessHeight.   (* generated from schema/builder.go *)

(* node size by Go type name: flowNodeDefaultSize (table generated from the source) *)
Definition size_of_type (ty : String.string) : Z * Z :=
  match find (fun p => String.eqb (fst p) ty) Facts.node_size_table with
  | Some p => snd p
  | None => Facts.node_size_default
  end.

Definition layout_process (c : cfg) (unit_ : Z) (sy : Z) (n : nat) (edges : list (nat * nat))
           (size : nat -> Z * Z) : list rect * Z :=
  let lv := levels n edges in
  let rows := rows_of n edges lv in
  let shapes := map (shape c sy size lv rows) (seq 0 n) in
  let maxBottom := fold_left (fun m r => Z.max m (ry r + rh r)) shapes sy in
  let h := maxBottom - sy in
  (shapes, if Nat.eqb n 0 then min_process_height * unit_
           else if h <? min_process_height * unit_ then min_process_height * unit_ else h).

(* waypoints of an edge between two shapes: 2 points when the centres are level, else 4
   (the middle x is doubled to stay integral: points are given as (2x, 2y)) *)
Definition waypoints2 (s t : rect) : list (Z * Z) :=
  let sx := rx s + rw s in let sy := 2 * ry s + rh s in
  let ex := rx t in let ey := 2 * ry t + rh t in
  if sy =? ey then [(2 * sx, sy); (2 * ex, ey)]
  else [(2 * sx, sy); (sx + ex, sy); (sx + ex, ey); (2 * ex, ey)].

(* all processes of a definitions, stacked vertically *)
Fixpoint layout_all (c : cfg) (unit_ : Z) (sy : Z)
         (ps : list (nat * list (nat * nat) * (nat -> Z * Z))) : list (list rect) :=
  match ps with
  | [] => []
  | (n, edges, size) :: r =>
      let '(shapes, h) := layout_process c unit_ sy n edges size in
      shapes :: layout_all c unit_ (sy + h + procGap c) r
  end.
