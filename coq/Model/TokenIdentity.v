(** Which token goes on when a token leaves a node with conditional outgoing flows (flow.go, the flowAction branch,
    over Model/FlowLeave.v): new tokens get new ids; the arriving token keeps its id. Whether the arriving token is
    among those that go on is the decision modelled here:
      FirstThatFlows   it takes the first flow that flows, the further ones fork new tokens (the sources: Gen/Facts.v
                       src_token_continues_on_the_first_flow_that_flows)
      FirstListedEnds  it is bound to the first flow listed: when that one does not flow while others do, it ends and
                       every flow that flows gets a new token
    A token's id is what an inclusive join goes by: the tokens of one fork activation are the ones the fork created. *)
From BV Require Export Model.FlowLeave.

Inductive binding := FirstThatFlows | FirstListedEnds.

(* ids of the tokens on the outgoing flows: the arriving token is [me], new tokens are numbered from [fresh] *)
Fixpoint number_from (fresh : nat) (flows : list nat) : list (nat * nat) :=
  match flows with
  | [] => []
  | f :: r => (f, fresh) :: number_from (S fresh) r
  end.

Definition leave_ids (b : binding) (me fresh : nat) (conds : list bool) : list (nat * nat) :=
  match flowing conds with
  | [] => []
  | i :: rest =>
      match b with
      | FirstThatFlows => (i, me) :: number_from fresh rest
      | FirstListedEnds => if i =? 0 then (i, me) :: number_from fresh rest else number_from fresh (i :: rest)
      end
  end.

Definition binding_of (first_that_flows : bool) : binding := if first_that_flows then FirstThatFlows else FirstListedEnds.
