# Per-property configuration of ./check
TRUSTED_COMMON = [
    "Coq 8.16.1 kernel + coqc (vm_compute used for model evaluation and reflective lemmas; no native_compute)",
    "no axioms declared by this development; Print Assumptions output of every property theorem is recorded under coverage.assumptions",
    "correspondence harness (/verif/harness, Go): generators, drivers, observers, canonicalisation, direct oracles",
    "facts extractor (go/ast pass writing coq/Gen/Facts.v)",
    "the correspondence is differential testing: it shows agreement of model and /repo on the cases run, not equality",
]

PROPS = {
    "C14": {
        "cmd": "c14",
        "corr": ["Corr.C14corr"],
        "trusted": ["event matching (pkg/event MatchesEventInstance) is abstracted to 'index of the first matching definition'; bitset library modelled as list bool"],
        "assumes": ["an event is identified with the first definition it matches (the Go loop breaks at the first match)"],
    },
    "C03": {
        "cmd": "c03",
        "corr": ["Corr.C03corr"],
        "trusted": ["the node goroutine's handler is taken as atomic (one goroutine owns counter and parked list); channel hand-off to parked tokens is not modelled",
                    "engine-level loop program relies on exclusive gateways and variable writes behaving as in C04/C08"],
        "assumes": ["N >= 1 incoming flows"],
    },
    "C04": {
        "cmd": "c04",
        "corr": ["Corr.C04corr"],
        "trusted": ["condition evaluation (expr / xsel) is an oracle giving each flow's truth value; the gateway's inbox is modelled as the list of messages in processing order (any interleaving)",
                    "the reschedule goroutine is modelled as the same report re-appearing later in the message list"],
        "assumes": ["flow ids of concurrently live tokens are distinct (C20)"],
    },
    "C13": {
        "cmd": "c13",
        "corr": ["Corr.C13corr"],
        "trusted": ["iso8601 parsing (the model starts from parsed start/interval/end/repetitions)",
                    "each clock operation is followed by quiescence of the timer goroutine (the harness waits for it via a recording clock wrapper); a clock jump landing while a wake-up is in flight is not modelled",
                    "Go select between a ready end-timer and a ready timer is modelled as one outcome (both close the timer without firing)"],
        "assumes": ["interval > 0 (the code busy-loops for interval <= 0; excluded from the theorems' hypotheses)"],
    },
    "C19": {
        "cmd": "c19",
        "corr": ["Corr.C19corr"],
        "trusted": ["float64 arithmetic of the layout is modelled over Z in units of 1/2 (the correspondence grid uses values on which binary64 is exact)",
                    "freshness of RandBytes ids rests on time.Now changing between calls (the harness flags duplicates it observes)",
                    "for cyclic graphs the row heuristic is modelled with the level-start snapshot of predecessor rows; the correspondence uses acyclic graphs",
                    "XML round trip and engine run of the built definitions are checked on the implementation only (C15/C01 carry the models)"],
        "assumes": ["supplied preset ids are pairwise distinct and distinct from generated ones"],
    },
    "C16": {
        "cmd": "c16",
        "corr": ["Corr.C16corr"],
        "trusted": ["JSON text codecs (sonic) are abstracted to the tree they denote: decode(encode t) = t with every number read back as float64 (integers rounded to nearest-even 53 bits, modelled by r64)",
                    "strings are identifiers except the texts the code inspects (true/false/decimal numbers); float64 values are identified by their bits",
                    "declared float with a float dynamic value is formatted with %f by the code (lossy beyond 6 decimals); the model and the generator cover only floats that survive it (recorded in DESIGN.md, not claimed)"],
        "assumes": ["unsigned values are within the signed 64-bit range (the property's own range)"],
    },
    "C20": {
        "cmd": "c20",
        "corr": ["Corr.C20corr"],
        "trusted": ["muyo/sno is modelled by the state machine of its New (equal / forward / regression / blocked branches) as serialised by the wrapper's mutex; its partition allocator (process-global counter) is assumed to hand out distinct partitions",
                    "the 39-bit timestamp does not wrap (year 2079) and time.Now drives it; fallback prefixes are time derived: distinctness across generators is an assumption checked only by observation",
                    "real clock readings are not controlled: single-goroutine id sequences are validated by the model acceptor, concurrent draws by duplicate search"],
        "assumes": ["a restored generator replaces the original (both are not drawn from concurrently)"],
    },
    "C15": {
        "cmd": "c15",
        "corr": ["Corr.C15corr"],
        "trusted": ["encoding/xml itself (tokenizer, struct-tag driven field layout of the 150 generated element types) is not modelled: the model covers the hand-written layer of schema/schema.go over generic element trees; the generated per-element code is exercised by the round-trip oracle on documents covering every supported element",
                    "Go's rule 'an undeclared prefix resolves to itself' is modelled as read in encoding/xml"],
        "assumes": ["documents use only namespaces PreMarshal knows"],
    },
}
