#!/bin/bash
# Independent re-check of every compiled property module (and everything it depends on) with coqchk;
# prints the axioms the development relies on.  Run after `./check setup` (full build).  ~40 s.
cd "$(dirname "$0")/coq" || exit 2
mods=$(ls Properties/*.v | sed 's#/#.#; s#\.v$##; s#^#BV.#')
exec coqchk -silent -o -Q . BV $mods
