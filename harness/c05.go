package main

import (
	"errors"
	"github.com/olive-io/bpmn/v2/pkg/tracing"
	bpmn "github.com/olive-io/bpmn/v2"
	"fmt"
	"math/rand"
	"strings"
	"time"
)

func init() { commands["c05"] = runC05 }

// start -> I (inclusive) -[c<i>]-> A<i> -> (J | end<i>) ; optional default flow I -> D -> (J | endD) ; J (inclusive) -> Z -> end
func c05Prog(k int, dflt bool, toJoin []bool) *Prog {
	p := &Prog{}
	p.Node("start", "start")
	in := p.Node("incl", "I")
	p.Node("incl", "J")
	p.Node("task", "Z")
	p.Node("end", "end")
	p.Flow("start", "I", "")
	p.Flow("J", "Z", "")
	p.Flow("Z", "end", "")
	branch := func(i int, name, cond string) {
		p.Node("task", name)
		f := p.Flow("I", name, cond)
		if cond == "" {
			in.Default = f.ID
		}
		if toJoin[i] {
			p.Flow(name, "J", "")
		} else {
			e := "end_" + name
			p.Node("end", e)
			p.Flow(name, e, "")
		}
	}
	for i := 0; i < k; i++ {
		branch(i, fmt.Sprintf("A%d", i), fmt.Sprintf("c%d", i))
	}
	if dflt {
		branch(k, "D", "")
	}
	return p
}

func runC05(env *Env) {
	rep := &Report{Property: "C05",
		Rule: "inclusive fork with 1..4 conditional branches, with and without a default flow, every truth assignment; each branch is a task leading to the inclusive join or to an end event of its own (seeded mask); the activated tasks are answered in seeded permutations; observed: the tasks requested after the fork (or the error trace), the requests of the task after the join after every answer, completion; non-trivial = at least two activated branches of which one reaches the join; distinct by (k, default, assignment, mask, order)"}
	rng := rand.New(rand.NewSource(env.Seed))
	orders := 2
	if env.Thorough() {
		orders = 6
	}
	var items []string
	for k := 1; k <= 4; k++ {
		for _, dflt := range []bool{false, true} {
			nb := k
			if dflt {
				nb++
			}
			for assign := 0; assign < 1<<k; assign++ {
				if !env.Thorough() && k == 4 && assign%3 == 1 {
					continue
				}
				conds := make([]bool, k)
				vars := map[string]any{}
				for i := range conds {
					conds[i] = assign&(1<<i) != 0
					vars[fmt.Sprintf("c%d", i)] = conds[i]
				}
				// activated branches (direct oracle of the fork)
				var act []int
				for i, c := range conds {
					if c {
						act = append(act, i)
					}
				}
				if len(act) == 0 && dflt {
					act = []int{k}
				}
				for o := 0; o < orders; o++ {
					if rep.Saturated() {
						break
					}
					toJoin := make([]bool, nb)
					for i := range toJoin {
						toJoin[i] = rng.Intn(4) != 0
					}
					if o == 0 {
						for i := range toJoin {
							toJoin[i] = true
						}
					}
					perm := rng.Perm(len(act))
					cs := fmt.Sprintf("k=%d default=%v conds=%v toJoin=%v order=%v", k, dflt, conds, toJoin, perm)
					env.Current(cs)
					defs, err := ParseDefs(c05Prog(k, dflt, toJoin).XML(""))
					must(err)
					in, err := StartInst(defs, InstOpt{Vars: vars})
					must(err)
					name := func(b int) string {
						if b == k {
							return "D"
						}
						return fmt.Sprintf("A%d", b)
					}
					rep.Evaluations++
					rep.Count(fmt.Sprintf("k%d_act%d", k, len(act)))
					// fork: wait for the activated tasks (or the error trace), then a settle for surplus ones
					if len(act) == 0 {
						in.WaitUntil(tmoStep, func(l []Ev) bool { return countEv(l, "error", "*") > 0 })
					} else {
						in.WaitUntil(tmoStep, func(l []Ev) bool {
							for _, b := range act {
								if countEv(l, "task", name(b)) == 0 {
									return false
								}
							}
							return true
						})
					}
					time.Sleep(4 * time.Millisecond)
					log := in.Log()
					var requested []int
					for b := 0; b <= k; b++ {
						for c := countEv(log, "task", name(b)); c > 0; c-- {
							requested = append(requested, b)
						}
					}
					errs := countEv(log, "error", "*")
					if !intsEq(requested, act) {
						rep.Violate("C05-fork", cs, fmt.Sprintf("branches requested after the fork %v, expected %v; log: %s", requested, act, logString(log)))
					}
					if (len(act) == 0) != (errs > 0) {
						rep.Violate("C05-fork", cs, fmt.Sprintf("%d error traces with %d activated branches; log: %s", errs, len(act), logString(log)))
					}
					// join: answer in the chosen order
					nJoin := 0
					for _, b := range act {
						if toJoin[b] {
							nJoin++
						}
					}
					arrived, finished := 0, 0
					var zs []int
					for _, pi := range perm {
						b := act[pi]
						if !in.Answer(name(b), tmoStep) {
							rep.Violate("C05-fork", cs, "activated task "+name(b)+" cannot be answered")
							break
						}
						finished++
						if toJoin[b] {
							arrived++
						}
						mustZ := nJoin > 0 && finished == len(act)
						if mustZ {
							in.WaitUntil(tmoStep, func(l []Ev) bool { return countEv(l, "task", "Z") > 0 })
							time.Sleep(3 * time.Millisecond)
						} else {
							time.Sleep(12 * time.Millisecond)
						}
						z := countEv(in.Log(), "task", "Z")
						zs = append(zs, z)
						switch {
						case z > 1:
							rep.Violate("C05-join-once", cs, fmt.Sprintf("task after the join requested %d times; log: %s", z, logString(in.Log())))
						case z == 1 && arrived < nJoin:
							rep.Violate("C05-join-early", cs, fmt.Sprintf("join released after %d of %d activated branches leading to it had arrived; log: %s", arrived, nJoin, logString(in.Log())))
						case z == 0 && mustZ:
							rep.Violate("C05-join-late", cs, fmt.Sprintf("every token of the fork has arrived or ended, the join did not release; log: %s", logString(in.Log())))
						case z == 1 && nJoin == 0:
							rep.Violate("C05-join-early", cs, "join released although no activated branch leads to it")
						}
					}
					completed := 1
					if len(act) > 0 {
						if nJoin > 0 {
							in.Answer("Z", tmoStep)
						}
						if !in.WaitCease(tmoStep) {
							completed = 0
							rep.Violate("C05-completion", cs, "all tasks answered, instance did not complete; log: "+logString(in.Log()))
						}
					}
					in.Close()
					if len(act) >= 2 && nJoin >= 1 {
						rep.Nontrivial++
					}
					var tj []int
					for _, b := range act {
						tj = append(tj, b2i(toJoin[b]))
					}
					var cn []int
					for _, c := range conds {
						cn = append(cn, b2i(c))
					}
					items = append(items, fmt.Sprintf("(%s,%d,%s,%d,%s,%s,%s)", natList(cn), b2i(dflt), natList(requested), b2i(errs > 0), natList(tj), natList(perm), natList(zs)))
					_ = completed
					if len(rep.Samples) < 5 && len(act) >= 3 {
						rep.Sample(fmt.Sprintf("%s -> requested %v, requests after the join per answer %v", cs, requested, zs))
					}
				}
			}
		}
	}
	// the same fork/join activated again and again (a loop around the block): one release per fork activation,
	// every time (the join's and its tracker's picture must start afresh)
	loop := &Blk{Kind: "loop", ID: 3, N: 3, Kids: []*Blk{{Kind: "seq", Kids: []*Blk{{Kind: "task", ID: 1},
		{Kind: "incl", ID: 0, N: 1, Kids: []*Blk{{Kind: "task", ID: 2}, {Kind: "task", ID: 3}, {Kind: "skip"}}}, {Kind: "task", ID: 4}}}}}
	inLoop := map[int]int{}
	blkTasksInLoop(loop, false, inLoop, 0)
	for s := 0; s < 6 && !rep.Saturated(); s++ {
		sc := blkScript{seed: env.Seed*1000 + int64(s) + 7, inLoop: inLoop}
		cs := fmt.Sprintf("loop around an inclusive fork/join with both branches activated, 3 passes, script seed %d", sc.seed)
		env.Current(cs)
		ch, wr := sc.funcs()
		// even scripts: the conditions stay true in every pass; odd scripts: the first task of every pass sets them anew
		// (second branch only, then first only, then both: not a prefix of the listed flows in the first pass)
		patterns := [][2]int{{0, 1}, {1, 0}, {1, 1}}
		env0 := [4]bool{true, true, false, false}
		if s%2 == 1 {
			env0 = [4]bool{false, true, false, false}
		}
		o := RunBlk(loop, env0, ch, func(task, nth int) [4]int {
			w := wr(task, nth)
			w[0], w[1], w[2] = -1, -1, -1
			if s%2 == 1 && task == 4 && nth <= len(patterns)-1 { // the last task of a pass decides the next pass
				w[0], w[1] = patterns[nth][0], patterns[nth][1]
			}
			return w
		}, 60)
		rep.Evaluations++
		rep.Nontrivial++
		rep.Count("loop_reentry")
		if o.problem != "" {
			key := "C05-join-late"
			if strings.Contains(o.problem, "pending requests") && !strings.Contains(o.problem, "pending requests []") {
				key = "C05-join-once"
			}
			rep.Violate(key, cs, o.problem+"; log: "+logString(o.log))
		}
	}
	// the fork reached again after an activation that found neither a true condition nor a default flow (error trace):
	// the next token is decided on its own — it forks on the conditions true by then, or is reported again
	for _, second := range [][2]bool{{true, true}, {true, false}, {false, true}, {false, false}} {
		if rep.Saturated() {
			break
		}
		cs := fmt.Sprintf("inclusive fork without default reached twice: first with no true condition, then with conditions %v", second)
		env.Current(cs)
		p := &Prog{}
		p.Node("start", "start")
		p.Node("par", "P")
		p.Flow("start", "P", "")
		p.Node("incl", "F")
		for _, t := range []string{"T1", "T2"} {
			p.Node("task", t)
			p.Flow("P", t, "")
			p.Flow(t, "F", "")
		}
		for i, b := range []string{"A", "B"} {
			p.Node("task", b)
			p.Node("end", "e"+b)
			p.Flow("F", b, fmt.Sprintf("c%d", i))
			p.Flow(b, "e"+b, "")
		}
		defs, err := ParseDefs(p.XML(""))
		must(err)
		in, err := StartInst(defs, InstOpt{Vars: map[string]any{"c0": false, "c1": false}})
		must(err)
		rep.Evaluations++
		rep.Nontrivial++
		rep.Count("fork_after_failed_activation")
		fail := func(msg string) { rep.Violate("C05-fork", cs, msg+"; log: "+logString(in.Log())) }
		if !in.WaitUntil(tmoStep, func(l []Ev) bool { return countEv(l, "task", "T1") >= 1 && countEv(l, "task", "T2") >= 1 }) {
			fail("T1 and T2 were not both requested")
			in.Close()
			continue
		}
		in.Answer("T1", tmoStep)
		if !in.WaitUntil(tmoStep, func(l []Ev) bool { return countEv(l, "error", "*") >= 1 }) {
			fail("first token: no true condition, no default flow, but no error trace")
			in.Close()
			continue
		}
		in.P.Locator().SetVariable("c0", second[0])
		in.P.Locator().SetVariable("c1", second[1])
		in.Answer("T2", tmoStep)
		wantA, wantB, wantErr := b2i(second[0]), b2i(second[1]), 1
		if !second[0] && !second[1] {
			wantErr = 2
		}
		in.WaitUntil(tmoStep, func(l []Ev) bool {
			return countEv(l, "task", "A") >= wantA && countEv(l, "task", "B") >= wantB && countEv(l, "error", "*") >= wantErr
		})
		time.Sleep(5 * time.Millisecond)
		l := in.Log()
		if countEv(l, "task", "A") != wantA || countEv(l, "task", "B") != wantB || countEv(l, "error", "*") != wantErr {
			fail(fmt.Sprintf("second token: requested A %d times (expected %d), B %d times (expected %d), error traces %d (expected %d)",
				countEv(l, "task", "A"), wantA, countEv(l, "task", "B"), wantB, countEv(l, "error", "*"), wantErr))
		}
		in.Close()
	}
	// a token of the fork that ends elsewhere because an interrupting boundary event takes it out of a branch task:
	// the join must not go on waiting for it (both orders: the other branch arrives before / after the interruption)
	for _, eventFirst := range []bool{true, false} {
		if rep.Saturated() {
			break
		}
		cs := fmt.Sprintf("inclusive fork into {H with an interrupting boundary event leading to an end event, T}, both activated; interruption before the other branch arrives: %v", eventFirst)
		env.Current(cs)
		p := &Prog{}
		p.Node("start", "start")
		p.Node("incl", "IF")
		p.Flow("start", "IF", "")
		p.Node("task", "H")
		p.Node("task", "T")
		p.Node("incl", "IJ")
		p.Flow("IF", "H", "c0")
		p.Flow("IF", "T", "c1")
		p.Flow("H", "IJ", "")
		p.Flow("T", "IJ", "")
		p.Node("task", "Z")
		p.Node("end", "end")
		p.Flow("IJ", "Z", "")
		p.Flow("Z", "end", "")
		b := p.Node("boundary", "B0")
		b.Attrs = `attachedToRef="H" cancelActivity="true"`
		b.Inner = `<bpmn:signalEventDefinition id="bd0" signalRef="s0"/>`
		p.Node("end", "endX")
		p.Flow("B0", "endX", "")
		defs, err := ParseDefs(p.XML(`<bpmn:signal id="s0" name="s0"/>`))
		must(err)
		in, err := StartInst(defs, InstOpt{Vars: map[string]any{"c0": true, "c1": true}})
		must(err)
		rep.Evaluations++
		rep.Nontrivial++
		rep.Count("branch_token_withdrawn_by_boundary_event")
		fail := func(msg string) { rep.Violate("C05-join-late", cs, msg+"; log: "+logString(in.Log())) }
		ok := in.WaitUntil(tmoStep, func(l []Ev) bool {
			return countEv(l, "task", "H") >= 1 && countEv(l, "task", "T") >= 1 && countEv(l, "listening", "B0") >= 1
		})
		if !ok {
			fail("H and T were not both requested with the boundary event listening")
			in.Close()
			continue
		}
		interrupt := func() {
			in.Signal("s0")
			in.WaitUntil(tmoStep, func(l []Ev) bool { return countEv(l, "visit", "endX") >= 1 })
		}
		if eventFirst {
			interrupt()
			in.Answer("T", tmoStep)
		} else {
			in.Answer("T", tmoStep)
			in.WaitUntil(tmoStep, func(l []Ev) bool { return countEv(l, "visit", "IJ") >= 1 })
			time.Sleep(5 * time.Millisecond)
			if z := countEv(in.Log(), "task", "Z"); z != 0 {
				fail(fmt.Sprintf("the join released %d tokens while the token in H can still arrive", z))
			}
			interrupt()
		}
		if !in.WaitUntil(tmoStep, func(l []Ev) bool { return countEv(l, "task", "Z") >= 1 }) {
			fail("every token of the fork has arrived or ended elsewhere, the join did not release")
			in.Close()
			continue
		}
		in.Answer("Z", tmoStep)
		if !in.WaitCease(tmoStep) {
			fail("all tasks answered, the instance did not complete")
		}
		if z := countEv(in.Log(), "task", "Z"); z != 1 {
			rep.Violate("C05-join-once", cs, fmt.Sprintf("task after the join requested %d times; log: %s", z, logString(in.Log())))
		}
		in.Close()
	}
	c05BranchThroughConditionalActivity(env, rep)
	c05EndElsewhereWhileBusy(env, rep, 6)
	c05LongLoop(env, rep)
	env.WriteCases(rep, "", "Corr.C05corr", "list nat * nat * list nat * nat * list nat * list nat * list nat", items, "c05_mismatches")
	env.WriteReport(rep)
}

// c05LongLoop: one instance goes round  X -> I1 (inclusive fork, two true conditions) -> A, B -> I2 (inclusive join) ->
// C -> D -> X  many times. Per round: C is requested exactly once, after A and B were answered. Paced (the driver
// waits 300 us before each answer) the same two gateway objects are activated 1300 times; at full speed the join's
// picture of the live tokens -- kept up to date asynchronously from the trace stream -- lags behind now and then and
// the join lets two tokens through for one fork activation (open finding C05-join-picture-lags).
func c05LongLoop(env *Env, rep *Report) {
	p := &Prog{}
	p.Node("start", "start")
	p.Node("xor", "X")
	p.Node("incl", "I1")
	p.Node("task", "A")
	p.Node("task", "B")
	p.Node("incl", "I2")
	c := p.Node("task", "C")
	c.Results = []string{"again"}
	d := p.Node("xor", "D")
	p.Node("end", "end")
	p.Flow("start", "X", "")
	p.Flow("X", "I1", "")
	p.Flow("I1", "A", "1 == 1")
	p.Flow("I1", "B", "2 == 2")
	p.Flow("A", "I2", "")
	p.Flow("B", "I2", "")
	p.Flow("I2", "C", "")
	p.Flow("C", "D", "")
	p.Flow("D", "X", "again")
	d.Default = p.Flow("D", "end", "").ID
	xmlText := p.XML("")
	type run struct {
		pace   time.Duration
		rounds int
	}
	runs := []run{{300 * time.Microsecond, 1300}, {0, 4000}}
	if env.Thorough() {
		runs = []run{{300 * time.Microsecond, 5000}, {0, 40000}}
	}
	for _, rn := range runs {
		cs := fmt.Sprintf("inclusive fork (2 true conditions) and join in a loop, %d rounds in one instance, %v before each answer", rn.rounds, rn.pace)
		env.Current(cs)
		type obs struct {
			node string
			task bpmn.TaskTrace
		}
		evs := make(chan obs, 256)
		defs, err := ParseDefs(xmlText)
		must(err)
		in, err := StartInst(defs, InstOpt{Vars: map[string]any{"again": false}, Raw: func(tr tracing.ITrace) {
			if t, ok := tr.(bpmn.TaskTrace); ok {
				evs <- obs{nodeId(t.GetActivity().Element()), t}
			}
		}})
		must(err)
		rep.Evaluations++
		rep.Nontrivial++
		rep.Count("long_loop")
		twice, firstTwice, stalled := 0, "", ""
	loop:
		for r := 1; r <= rn.rounds; r++ {
			done := map[string]bool{}
			for {
				var o obs
				select {
				case o = <-evs:
				case <-time.After(tmoStep):
					stalled = fmt.Sprintf("round %d: nothing requested for %v; answered in this round: %v", r, tmoStep, done)
					break loop
				}
				if o.node == "C" {
					complete := done["A"] && done["B"]
					if !complete {
						twice++
						if firstTwice == "" {
							firstTwice = fmt.Sprintf("round %d: C requested while answered = %v", r, done)
						}
					}
					o.task.Do(bpmn.DoWithResults(map[string]any{"again": complete && r < rn.rounds}))
					if complete {
						break
					}
					continue
				}
				if rn.pace > 0 {
					time.Sleep(rn.pace)
				}
				o.task.Do()
				done[o.node] = true
			}
		}
		if stalled != "" && rn.pace == 0 {
			rep.Violate("C05-join-picture-lags", cs, fmt.Sprintf("%s (%d surplus requests of C before)", stalled, twice))
		} else if stalled != "" {
			rep.Violate("C05-join", cs, stalled)
		} else if twice > 0 {
			rep.Violate("C05-join-picture-lags", cs, fmt.Sprintf("the join let a token through %d times without both branches of the round having arrived (a second token for one fork activation), first: %s", twice, firstTwice))
		} else if !in.WaitCease(tmoStep) {
			rep.Violate("C05-join", cs, "all rounds done, the instance did not complete")
		}
		in.Close()
	}
}

// c05EndElsewhereWhileBusy: an inclusive fork activates three branches; A and B deliver their tokens to the join, the
// third branch (task C) ends at an end event of its own -- while an unrelated parallel branch of the instance is busy
// (a task answered with an error and "retry" over and over: task, error and boundary traces in quick succession). The
// join releases once C's token is gone, however many other traces pass by at that moment.
func c05EndElsewhereWhileBusy(env *Env, rep *Report, rounds int) {
	p := &Prog{}
	p.Node("start", "start")
	p.Node("par", "P")
	p.Node("incl", "I1")
	p.Node("task", "A")
	p.Node("task", "B")
	p.Node("task", "C")
	p.Node("end", "endC")
	p.Node("incl", "I2")
	p.Node("task", "after")
	p.Node("end", "end")
	p.Node("task", "N")
	p.Node("end", "endN")
	p.Flow("start", "P", "")
	p.Flow("P", "I1", "")
	p.Flow("P", "N", "")
	p.Flow("N", "endN", "")
	p.Flow("I1", "A", "1 == 1")
	p.Flow("I1", "B", "2 == 2")
	p.Flow("I1", "C", "3 == 3")
	p.Flow("A", "I2", "")
	p.Flow("B", "I2", "")
	p.Flow("C", "endC", "")
	p.Flow("I2", "after", "")
	p.Flow("after", "end", "")
	xmlText := p.XML("")
	for r := 0; r < rounds && !rep.Saturated(); r++ {
		cs := fmt.Sprintf("inclusive fork with three branches, two reach the join, the third ends elsewhere while another branch of the instance is answered 'error, retry' over and over (round %d)", r)
		env.Current(cs)
		defs, err := ParseDefs(xmlText)
		must(err)
		in, err := StartInst(defs, InstOpt{})
		must(err)
		rep.Evaluations++
		rep.Nontrivial++
		rep.Count("end_elsewhere_while_busy")
		problem := ""
		if !in.Answer("A", tmoStep) || !in.Answer("B", tmoStep) {
			problem = "A or B not requested"
		}
		tc := in.WaitTask("C", tmoStep)
		if problem == "" && tc == nil {
			problem = "C not requested"
		}
		if problem == "" {
			if !in.WaitUntil(tmoStep, func(l []Ev) bool { return countEv(l, "incoming", "I2") >= 2 || countEv(l, "visit", "I2") >= 2 }) {
				problem = "the tokens of A and B did not reach the join"
			}
		}
		if problem == "" {
			time.Sleep(settle)
			if n := countEv(in.Log(), "task", "after"); n != 0 {
				problem = "the join released while the third branch's token was still alive"
			}
		}
		if problem == "" {
			stop := make(chan struct{})
			stormDone := make(chan struct{})
			go func() {
				defer close(stormDone)
				for {
					select {
					case <-stop:
						return
					default:
					}
					t := in.WaitTask("N", 50*time.Millisecond)
					if t == nil {
						continue
					}
					ch := make(chan bpmn.ErrHandler, 1)
					ch <- bpmn.ErrHandler{Mode: bpmn.RetryMode, Retries: -1}
					t.Do(bpmn.DoWithErrHandle(errors.New("busy"), ch))
				}
			}()
			time.Sleep(time.Duration(2+r) * time.Millisecond)
			tc.Do()
			time.Sleep(20 * time.Millisecond)
			close(stop)
			<-stormDone
			if !in.Answer("after", tmoStep) {
				problem = "every token of the fork has arrived or ended elsewhere: the join did not release"
			}
			for in.Answer("N", 100*time.Millisecond) {
			}
			if problem == "" && !in.WaitCease(tmoStep) {
				problem = "all tasks answered, the instance did not complete"
			}
		}
		if problem != "" {
			rep.Violate("C05-join", cs, problem+"; log (tail): "+tailStr(logString(in.Log()), 1500))
		}
		in.Close()
	}
}

func tailStr(s string, n int) string {
	if len(s) <= n {
		return s
	}
	return "..." + s[len(s)-n:]
}

// an activated branch passes through an activity with conditional outgoing flows, the first listed of which does not
// flow while a later one, leading to the join, does (and, variant, another one leads to an end event): the token that
// goes on from there is still a token of the fork activation — the join waits for the other activated branch and
// releases once
func c05BranchThroughConditionalActivity(env *Env, rep *Report) {
	for v := 0; v < 4 && !rep.Saturated(); v++ {
		firstFlows := v%2 == 1 // control: the first listed flow is the one that flows
		a2First := v < 2       // which branch is answered first
		cs := fmt.Sprintf("inclusive fork -> {A1 -> join, A2 -> [p (%v) -> endP | q (%v) -> join]} -> Z; %s answered first", firstFlows, !firstFlows, map[bool]string{true: "A2", false: "A1"}[a2First])
		env.Current(cs)
		p := &Prog{}
		p.Node("start", "start")
		p.Node("incl", "IF")
		p.Node("task", "A1")
		p.Node("task", "A2")
		p.Node("incl", "IJ")
		p.Node("task", "Z")
		p.Node("end", "end")
		p.Node("task", "P")
		p.Node("end", "endP")
		p.Flow("start", "IF", "")
		p.Flow("IF", "A1", "c0")
		p.Flow("IF", "A2", "c1")
		p.Flow("A1", "IJ", "")
		if firstFlows {
			p.Flow("A2", "IJ", "q")
			p.Flow("A2", "P", "p")
		} else {
			p.Flow("A2", "P", "p")
			p.Flow("A2", "IJ", "q")
		}
		p.Flow("P", "endP", "")
		p.Flow("IJ", "Z", "")
		p.Flow("Z", "end", "")
		defs, err := ParseDefs(p.XML(""))
		must(err)
		in, err := StartInst(defs, InstOpt{Vars: map[string]any{"c0": true, "c1": true, "p": false, "q": true}})
		must(err)
		rep.Evaluations++
		rep.Nontrivial++
		rep.Count("branch_through_conditional_activity")
		fail := func(key, msg string) { rep.Violate(key, cs, msg+"; log: "+logString(in.Log())) }
		if !in.WaitUntil(tmoStep, func(l []Ev) bool { return countEv(l, "task", "A1") >= 1 && countEv(l, "task", "A2") >= 1 }) {
			fail("C05-fork", "A1 and A2 were not both requested")
			in.Close()
			continue
		}
		first, second := "A2", "A1"
		if !a2First {
			first, second = "A1", "A2"
		}
		in.Answer(first, tmoStep)
		in.WaitUntil(tmoStep, func(l []Ev) bool { return countEv(l, "visit", "IJ") >= 1 })
		time.Sleep(15 * time.Millisecond)
		if z := countEv(in.Log(), "task", "Z"); z != 0 {
			fail("C05-join-early", fmt.Sprintf("the join released %d token(s) after %s alone was answered; %s is still pending", z, first, second))
		}
		in.Answer(second, tmoStep)
		if !in.WaitUntil(tmoStep, func(l []Ev) bool { return countEv(l, "task", "Z") >= 1 }) {
			fail("C05-join-late", "both activated branches have delivered, the join did not release")
			in.Close()
			continue
		}
		time.Sleep(15 * time.Millisecond)
		in.Answer("Z", tmoStep)
		in.WaitCease(tmoStep)
		if z := countEv(in.Log(), "task", "Z"); z != 1 {
			fail("C05-join-once", fmt.Sprintf("task after the join requested %d times", z))
		}
		if n := countEv(in.Log(), "task", "P"); n != 0 {
			fail("C05-fork", fmt.Sprintf("the task behind the flow whose condition is false was requested %d times", n))
		}
		in.Close()
	}
}
