package main

import (
	"fmt"
	"go/ast"
	"go/token"
	"os"
	"path/filepath"
	"sort"
	"strings"
)

// Ownership census (C17): for every struct type of the engine that has a goroutine of its own (a `run`
// method), every field and every place that touches it.
//   field class:  sync   — the field's type synchronises itself (sync.*, atomic.*, channels), or the field is never
//                          assigned outside the type's constructor (immutable once the goroutines exist)
//                 plain  — everything else: must be touched by one goroutine only
//   access class: ctor   — inside the constructor (before any goroutine of the node exists)
//                 owner  — inside `run` or a method only ever called from owner methods of the same type, and not inside
//                          a `go` statement or a function literal (which may run on another goroutine)
//                 foreign — anything else
// A plain field with a foreign access is reported.

type ownAccess struct {
	Type, Field, Func string
	Write             bool
	Class             string // ctor owner foreign
	Lock              string // a mutex field of the type that the enclosing function locks ("" if none)
}

type ownField struct {
	Type, Field, TypeText string
	Sync                  bool
}

func typeText(fset *token.FileSet, e ast.Expr) string { return nodeText(fset, e) }

// lockedByProtocol: functions that run while a mutex is held although they do not take it themselves.
//   FlowNodeMapping.RegisterElementToFlowNode — called only between NewLockedFlowNodeMapping (which returns with the
//   write lock taken) and Finalize (which releases it): the mapping is frozen before any reader can pass RLock.
var lockedByProtocol = map[string]string{
	"FlowNodeMapping.RegisterElementToFlowNode": "lock",
}

func selfSyncType(t string) bool {
	t = strings.TrimPrefix(t, "*")
	for _, p := range []string{"sync.", "atomic.", "chan ", "<-chan ", "chan<- "} {
		if strings.HasPrefix(t, p) {
			return true
		}
	}
	return false
}

func ownershipCensus(c *factsCtx) (fields []ownField, accs []ownAccess) {
	var files []string
	for _, pat := range []string{"*.go", "pkg/tracing/*.go", "pkg/data/*.go", "pkg/event/*.go"} {
		m, _ := filepath.Glob(filepath.Join(c.repo, pat))
		files = append(files, m...)
	}
	sort.Strings(files)
	var parsed []*ast.File
	for _, p := range files {
		if strings.HasSuffix(p, "_test.go") || verifOnly(p) {
			continue
		}
		rel, _ := filepath.Rel(c.repo, p)
		if f := c.parse(rel); f != nil {
			parsed = append(parsed, f)
		}
	}
	// struct types and their fields
	structs := map[string][]*ast.Field{}
	for _, f := range parsed {
		for _, d := range f.Decls {
			gd, ok := d.(*ast.GenDecl)
			if !ok || gd.Tok != token.TYPE {
				continue
			}
			for _, s := range gd.Specs {
				ts := s.(*ast.TypeSpec)
				if st, ok := ts.Type.(*ast.StructType); ok {
					structs[ts.Name.Name] = st.Fields.List
				}
			}
		}
	}
	// methods per type
	type meth struct {
		decl *ast.FuncDecl
		recv string
	}
	methods := map[string]map[string]meth{}
	var funcs []*ast.FuncDecl
	for _, f := range parsed {
		for _, d := range f.Decls {
			fd, ok := d.(*ast.FuncDecl)
			if !ok || fd.Body == nil {
				continue
			}
			funcs = append(funcs, fd)
			if fd.Recv != nil && len(fd.Recv.List) == 1 {
				tn := strings.TrimPrefix(nodeText(c.fset, fd.Recv.List[0].Type), "*")
				rn := ""
				if len(fd.Recv.List[0].Names) > 0 {
					rn = fd.Recv.List[0].Names[0].Name
				}
				if methods[tn] == nil {
					methods[tn] = map[string]meth{}
				}
				methods[tn][fd.Name.Name] = meth{fd, rn}
			}
		}
	}
	var owned []string
	for tn := range structs {
		_, hasRun := methods[tn]["run"]
		hasMutex := false
		for _, fl := range structs[tn] {
			t := typeText(c.fset, fl.Type)
			if t == "sync.Mutex" || t == "sync.RWMutex" {
				hasMutex = true
			}
		}
		// goroutine-owning types, and types that guard their state with a mutex of their own (no goroutine: every
		// method is "foreign", so every mutable field needs the common lock)
		if hasRun || hasMutex {
			owned = append(owned, tn)
		}
	}
	sort.Strings(owned)
	for _, tn := range owned {
		// owner methods: run, plus methods called (as recv.m()) only from owner methods, outside go/func literals
		calledFrom := map[string]map[string]bool{} // callee -> callers ("" marks a call from a go stmt / func literal / foreign context)
		for mn, m := range methods[tn] {
			var walk func(n ast.Node, foreign bool)
			walk = func(n ast.Node, foreign bool) {
				ast.Inspect(n, func(x ast.Node) bool {
					switch y := x.(type) {
					case *ast.GoStmt:
						walk(y.Call, true)
						return false
					case *ast.FuncLit:
						if !foreign {
							walk(y.Body, true)
							return false
						}
					case *ast.CallExpr:
						if se, ok := y.Fun.(*ast.SelectorExpr); ok {
							if id, ok := se.X.(*ast.Ident); ok && id.Name == m.recv && m.recv != "" {
								if _, isM := methods[tn][se.Sel.Name]; isM {
									if calledFrom[se.Sel.Name] == nil {
										calledFrom[se.Sel.Name] = map[string]bool{}
									}
									if foreign {
										calledFrom[se.Sel.Name][""] = true
									} else {
										calledFrom[se.Sel.Name][mn] = true
									}
								}
							}
						}
					}
					return true
				})
			}
			walk(m.decl.Body, false)
		}
		owner := map[string]bool{}
		if _, ok := methods[tn]["run"]; ok {
			owner["run"] = true
		}
		for changed := true; changed; {
			changed = false
			for mn := range methods[tn] {
				if owner[mn] || len(calledFrom[mn]) == 0 {
					continue
				}
				all := true
				for caller := range calledFrom[mn] {
					if !owner[caller] {
						all = false
					}
				}
				// exported methods and interface entry points are callable from anywhere
				if all && !ast.IsExported(mn) {
					owner[mn] = true
					changed = true
				}
			}
		}
		// constructor: functions named new<Type> (case-insensitive on the first letter)
		isCtor := func(fd *ast.FuncDecl) bool {
			return fd.Recv == nil && strings.EqualFold(fd.Name.Name, "new"+tn)
		}
		// accesses
		fieldNames := map[string]string{}
		for _, fl := range structs[tn] {
			for _, n := range fl.Names {
				fieldNames[n.Name] = typeText(c.fset, fl.Type)
			}
		}
		assignedOutsideCtor := map[string]bool{}
		lockOf := func(body ast.Node, recvName string) string {
			held := ""
			ast.Inspect(body, func(x ast.Node) bool {
				call, ok := x.(*ast.CallExpr)
				if !ok {
					return true
				}
				se, ok := call.Fun.(*ast.SelectorExpr)
				if !ok || (se.Sel.Name != "Lock" && se.Sel.Name != "RLock") {
					return true
				}
				inner, ok := se.X.(*ast.SelectorExpr)
				if !ok {
					return true
				}
				if id, ok := inner.X.(*ast.Ident); ok && id.Name == recvName {
					if t, isField := fieldNames[inner.Sel.Name]; isField && strings.HasPrefix(t, "sync.") {
						held = inner.Sel.Name
					}
				}
				return true
			})
			return held
		}
		record := func(fn string, class string, body ast.Node, recvName string, allIdents bool) {
			lock := ""
			if recvName != "" {
				lock = lockOf(body, recvName)
			}
			if l, ok := lockedByProtocol[fn]; ok {
				lock = l
			}
			var walk func(n ast.Node, cls string)
			walk = func(n ast.Node, cls string) {
				writes := map[ast.Node]bool{}
				ast.Inspect(n, func(x ast.Node) bool {
					switch y := x.(type) {
					case *ast.AssignStmt:
						for _, l := range y.Lhs {
							writes[l] = true
							if ix, ok := l.(*ast.IndexExpr); ok {
								writes[ix.X] = true
							}
						}
					case *ast.IncDecStmt:
						writes[y.X] = true
					case *ast.GoStmt:
						if cls == "owner" {
							// the arguments are evaluated by the spawning goroutine, the function runs on a new one
							for _, a := range y.Call.Args {
								walk(a, "owner")
							}
							walk(y.Call.Fun, "foreign")
							return false
						}
					case *ast.FuncLit:
						if cls == "owner" {
							walk(y.Body, "foreign")
							return false
						}
					case *ast.SelectorExpr:
						id, ok := y.X.(*ast.Ident)
						if !ok {
							return true
						}
						if _, isField := fieldNames[y.Sel.Name]; !isField {
							return true
						}
						if !(id.Name == recvName && recvName != "") && !allIdents {
							return true
						}
						if allIdents && id.Name != recvName {
							// in a constructor any variable of the type; elsewhere only the receiver
							if cls != "ctor" {
								return true
							}
						}
						w := writes[y]
						accs = append(accs, ownAccess{tn, y.Sel.Name, fn, w, cls, lock})
						if w && cls != "ctor" {
							assignedOutsideCtor[y.Sel.Name] = true
						}
					}
					return true
				})
			}
			walk(body, class)
		}
		for mn, m := range methods[tn] {
			cls := "foreign"
			if owner[mn] {
				cls = "owner"
			}
			record(tn+"."+mn, cls, m.decl.Body, m.recv, false)
		}
		for _, fd := range funcs {
			if isCtor(fd) {
				record(fd.Name.Name, "ctor", fd.Body, "", true)
			}
		}
		var names []string
		for n := range fieldNames {
			names = append(names, n)
		}
		sort.Strings(names)
		for _, n := range names {
			t := fieldNames[n]
			fields = append(fields, ownField{tn, n, t, selfSyncType(t) || !assignedOutsideCtor[n]})
		}
	}
	sort.Slice(accs, func(i, j int) bool {
		a, b := accs[i], accs[j]
		return a.Type+a.Field+a.Func < b.Type+b.Field+b.Func
	})
	return
}

// ownershipViolations applies the discipline: a plain field is fine if no foreign function touches it, or if every
// function outside the constructor that touches it locks one and the same mutex of the type.
func ownershipViolations(fields []ownField, accs []ownAccess) (out []string) {
	for _, f := range fields {
		if f.Sync {
			continue
		}
		foreign := false
		locks := map[string]bool{}
		var who []string
		for _, a := range accs {
			if a.Type != f.Type || a.Field != f.Field || a.Class == "ctor" {
				continue
			}
			if a.Class == "foreign" {
				foreign = true
				who = append(who, a.Func)
			}
			locks[a.Lock] = true
		}
		if foreign && !(len(locks) == 1 && !locks[""]) {
			out = append(out, fmt.Sprintf("%s.%s touched outside its goroutine by %v without one common lock", f.Type, f.Field, who))
		}
	}
	return
}

// globalMapCensus: package-level variables of map type in the engine's packages and the functions that touch
// them: a function writing one (index assignment, delete) must take a write lock (a call of Lock()), a function
// reading one a lock of either kind; init functions run before any goroutine exists and are exempt.
type globalMapAccess struct {
	Var, Func string
	Write, OK bool
}

func globalMapCensus(c *factsCtx) (out []globalMapAccess) {
	var dirs []string
	filepath.Walk(c.repo, func(p string, info os.FileInfo, err error) error {
		if err == nil && info.IsDir() {
			rel, _ := filepath.Rel(c.repo, p)
			if rel == "." || strings.HasPrefix(rel, "pkg") {
				dirs = append(dirs, rel)
			}
			if strings.HasPrefix(rel, ".git") || rel == "schema" || rel == "examples" || rel == "testdata" || rel == "model" {
				return filepath.SkipDir
			}
		}
		return nil
	})
	sort.Strings(dirs)
	for _, d := range dirs {
		files, _ := filepath.Glob(filepath.Join(c.repo, d, "*.go"))
		sort.Strings(files)
		var parsed []*ast.File
		for _, p := range files {
			if strings.HasSuffix(p, "_test.go") || verifOnly(p) {
				continue
			}
			rel, _ := filepath.Rel(c.repo, p)
			if f := c.parse(rel); f != nil {
				parsed = append(parsed, f)
			}
		}
		maps := map[string]bool{}
		for _, f := range parsed {
			for _, dcl := range f.Decls {
				gd, ok := dcl.(*ast.GenDecl)
				if !ok || gd.Tok != token.VAR {
					continue
				}
				for _, sp := range gd.Specs {
					vs := sp.(*ast.ValueSpec)
					isMap := false
					if _, ok := vs.Type.(*ast.MapType); ok {
						isMap = true
					}
					for _, v := range vs.Values {
						switch x := v.(type) {
						case *ast.CompositeLit:
							if _, ok := x.Type.(*ast.MapType); ok {
								isMap = true
							}
						case *ast.CallExpr:
							if id, ok := x.Fun.(*ast.Ident); ok && id.Name == "make" && len(x.Args) > 0 {
								if _, ok := x.Args[0].(*ast.MapType); ok {
									isMap = true
								}
							}
						}
					}
					if isMap {
						for _, n := range vs.Names {
							maps[n.Name] = true
						}
					}
				}
			}
		}
		if len(maps) == 0 {
			continue
		}
		for _, f := range parsed {
			for _, dcl := range f.Decls {
				fd, ok := dcl.(*ast.FuncDecl)
				if !ok || fd.Body == nil {
					continue
				}
				fn := fd.Name.Name
				if fd.Recv != nil && len(fd.Recv.List) > 0 {
					fn = nodeText(c.fset, fd.Recv.List[0].Type) + "." + fn
				}
				hasLock, hasRLock := false, false
				writes, reads := map[string]bool{}, map[string]bool{}
				shadow := map[string]bool{}
				ast.Inspect(fd.Body, func(x ast.Node) bool {
					switch y := x.(type) {
					case *ast.CallExpr:
						if se, ok := y.Fun.(*ast.SelectorExpr); ok {
							if se.Sel.Name == "Lock" {
								hasLock = true
							}
							if se.Sel.Name == "RLock" {
								hasRLock = true
							}
						}
						if id, ok := y.Fun.(*ast.Ident); ok && id.Name == "delete" && len(y.Args) > 0 {
							if m, ok := y.Args[0].(*ast.Ident); ok && maps[m.Name] {
								writes[m.Name] = true
							}
						}
					case *ast.AssignStmt:
						for _, l := range y.Lhs {
							if ix, ok := l.(*ast.IndexExpr); ok {
								if m, ok := ix.X.(*ast.Ident); ok && maps[m.Name] {
									writes[m.Name] = true
								}
							}
							if id, ok := l.(*ast.Ident); ok && y.Tok == token.DEFINE && maps[id.Name] {
								shadow[id.Name] = true
							}
						}
					case *ast.Ident:
						if maps[y.Name] {
							reads[y.Name] = true
						}
					}
					return true
				})
				for v := range reads {
					if shadow[v] {
						continue
					}
					w := writes[v]
					ok := fd.Name.Name == "init" || (w && hasLock) || (!w && (hasLock || hasRLock))
					out = append(out, globalMapAccess{d + "." + v, fn, w, ok})
				}
			}
		}
	}
	sort.Slice(out, func(i, j int) bool { return out[i].Var+out[i].Func < out[j].Var+out[j].Func })
	return
}

func init() {
	factGens = append(factGens, func(c *factsCtx) {
		gm := globalMapCensus(c)
		c.out.WriteString("(* package-level maps of the engine's packages and the functions touching them: (variable, function, writes, takes the lock it needs) *)\nDefinition global_map_accesses : list (string * string * bool * bool) := [\n")
		for i, a := range gm {
			sep := ";"
			if i+1 == len(gm) {
				sep = ""
			}
			fmt.Fprintf(&c.out, "  (%s, %s, %v, %v)%s\n", coqStr(a.Var), coqStr(a.Func), a.Write, a.OK, sep)
		}
		c.out.WriteString("].\n\n")
	})
	// facts for C17
	factGens = append(factGens, func(c *factsCtx) {
		fields, accs := ownershipCensus(c)
		if len(fields) < 50 {
			c.fail("ownership census: only %d fields found", len(fields))
			return
		}
		c.out.WriteString("(* fields of the engine's goroutine-owning struct types and the places that touch them (harness/ownership.go) *)\nDefinition own_fields : list (string * bool) := [\n")
		for i, f := range fields {
			sep := ";"
			if i+1 == len(fields) {
				sep = ""
			}
			fmt.Fprintf(&c.out, "  (%s, %v)%s\n", coqStr(f.Type+"."+f.Field), f.Sync, sep)
		}
		c.out.WriteString("].\n(* (field, function, write, class: 0 constructor / 1 owner goroutine / 2 other, mutex locked by the function) *)\nDefinition own_accesses : list (string * string * bool * nat * string) := [\n")
		for i, a := range accs {
			sep := ";"
			if i+1 == len(accs) {
				sep = ""
			}
			cls := map[string]int{"ctor": 0, "owner": 1, "foreign": 2}[a.Class]
			fmt.Fprintf(&c.out, "  (%s, %s, %v, %d, %s)%s\n", coqStr(a.Type+"."+a.Field), coqStr(a.Func), a.Write, cls, coqStr(a.Lock), sep)
		}
		c.out.WriteString("].\n\n")
	})
	commands["ownership"] = func(env *Env) {
		c := &factsCtx{repo: env.Repo, fset: token.NewFileSet()}
		fields, accs := ownershipCensus(c)
		for _, f := range fields {
			fmt.Printf("field %s.%s : %s sync=%v\n", f.Type, f.Field, f.TypeText, f.Sync)
		}
		bad := 0
		for _, v := range ownershipViolations(fields, accs) {
			fmt.Println("NOT OWNED, NOT LOCKED:", v)
			bad++
		}
		for _, a := range globalMapCensus(c) {
			fmt.Printf("global map %s in %s write=%v ok=%v\n", a.Var, a.Func, a.Write, a.OK)
			if !a.OK {
				bad++
			}
		}
		fmt.Fprintln(os.Stderr, len(fields), "fields,", len(accs), "accesses,", bad, "foreign accesses to plain fields")
	}
}

// packageStateCensus: every package-level variable of the engine's packages (root and pkg/**, non-test, without the
// verif hooks) that can hold state: maps, slices, channels, pointers, sync types, struct values, function values, and
// whatever a call other than errors.New / fmt.Errorf / reflect.TypeOf returns. Basic literals and error values are not
// listed. (variable, kind)
type packageVar struct{ Var, Kind string }

func packageStateCensus(c *factsCtx) (out []packageVar) {
	var dirs []string
	filepath.Walk(c.repo, func(p string, info os.FileInfo, err error) error {
		if err == nil && info.IsDir() {
			rel, _ := filepath.Rel(c.repo, p)
			if rel == "." || strings.HasPrefix(rel, "pkg") {
				dirs = append(dirs, rel)
			}
			if strings.HasPrefix(rel, ".git") || rel == "schema" || rel == "examples" || rel == "testdata" || rel == "model" {
				return filepath.SkipDir
			}
		}
		return nil
	})
	sort.Strings(dirs)
	kindOfType := func(t ast.Expr) string {
		switch x := t.(type) {
		case *ast.MapType:
			return "map"
		case *ast.ArrayType:
			return "slice"
		case *ast.ChanType:
			return "chan"
		case *ast.StarExpr:
			return "pointer"
		case *ast.StructType:
			return "struct"
		case *ast.FuncType:
			return "func"
		case *ast.SelectorExpr:
			if id, ok := x.X.(*ast.Ident); ok && (id.Name == "sync" || id.Name == "atomic") {
				return "sync"
			}
		}
		return ""
	}
	for _, d := range dirs {
		files, _ := filepath.Glob(filepath.Join(c.repo, d, "*.go"))
		sort.Strings(files)
		for _, p := range files {
			if strings.HasSuffix(p, "_test.go") || verifOnly(p) {
				continue
			}
			rel, _ := filepath.Rel(c.repo, p)
			f := c.parse(rel)
			if f == nil {
				continue
			}
			for _, dcl := range f.Decls {
				gd, ok := dcl.(*ast.GenDecl)
				if !ok || gd.Tok != token.VAR {
					continue
				}
				for _, sp := range gd.Specs {
					vs := sp.(*ast.ValueSpec)
					for i, n := range vs.Names {
						if n.Name == "_" {
							continue
						}
						kind := ""
						if vs.Type != nil {
							kind = kindOfType(vs.Type)
						}
						if kind == "" && i < len(vs.Values) {
							switch x := vs.Values[i].(type) {
							case *ast.CompositeLit:
								kind = kindOfType(x.Type)
								if kind == "" {
									kind = "value"
								}
							case *ast.UnaryExpr:
								if x.Op == token.AND {
									kind = "pointer"
								}
							case *ast.FuncLit:
								kind = "func"
							case *ast.CallExpr:
								fn := nodeText(c.fset, x.Fun)
								switch {
								case fn == "make" && len(x.Args) > 0:
									kind = kindOfType(x.Args[0])
								case fn == "errors.New" || fn == "fmt.Errorf" || strings.HasPrefix(fn, "reflect.TypeOf"):
								default:
									kind = "call"
								}
							}
						}
						if kind != "" {
							out = append(out, packageVar{d + "." + n.Name, kind})
						}
					}
				}
			}
		}
	}
	sort.Slice(out, func(i, j int) bool { return out[i].Var < out[j].Var })
	return
}

func init() {
	factGens = append(factGens, func(c *factsCtx) {
		pv := packageStateCensus(c)
		c.out.WriteString("(* package-level variables of the engine's packages that can hold state: (variable, kind) *)\nDefinition package_level_state : list (string * string) := [\n")
		for i, a := range pv {
			sep := ";"
			if i+1 == len(pv) {
				sep = ""
			}
			fmt.Fprintf(&c.out, "  (%s, %s)%s\n", coqStr(a.Var), coqStr(a.Kind), sep)
		}
		c.out.WriteString("].\n\n")
	})
}
