package main

import (
	"errors"
	"context"
	"fmt"
	"github.com/olive-io/bpmn/schema"
	"github.com/olive-io/bpmn/v2/pkg/tracing"
	"math/rand"
	"strings"
	"sync"
	"sync/atomic"
	"time"

	bpmn "github.com/olive-io/bpmn/v2"
)

func init() { commands["c03"] = runC03 }

func perms(n int) [][]int {
	if n == 0 {
		return [][]int{{}}
	}
	var out [][]int
	for _, p := range perms(n - 1) {
		for i := 0; i <= len(p); i++ {
			q := append(append(append([]int{}, p[:i]...), n-1), p[i:]...)
			out = append(out, q)
		}
	}
	return out
}

// start -> X(xor merge) -> F(par 1->N) -> T_i -> G(par N->M) -> U_j -> J(par M->1) -> L -> D(xor) -(again)-> X | end
// c03CondOut: put (false) conditions on the outgoing flows of the gateway under test
var c03CondOut bool

func c03Prog(N, M int) *Prog {
	p := &Prog{}
	p.Node("start", "start")
	p.Node("xor", "X")
	p.Node("par", "F")
	for i := 0; i < N; i++ {
		p.Node("task", fmt.Sprintf("T%d", i))
	}
	p.Node("par", "G")
	for j := 0; j < M; j++ {
		p.Node("task", fmt.Sprintf("U%d", j))
	}
	p.Node("par", "J")
	l := p.Node("task", "L")
	l.Results = []string{"again"}
	d := p.Node("xor", "D")
	p.Node("end", "end")
	p.Flow("start", "X", "")
	p.Flow("X", "F", "")
	for i := 0; i < N; i++ {
		p.Flow("F", fmt.Sprintf("T%d", i), "")
		p.Flow(fmt.Sprintf("T%d", i), "G", "")
	}
	for j := 0; j < M; j++ {
		// a parallel gateway does not evaluate conditions: every other outgoing flow carries one that is false
		// ("again" is false whenever the gateway fires for the last time, and a constant false otherwise)
		cond := ""
		if c03CondOut {
			// ... and what such a condition says or whether it can be evaluated at all does not matter either
			cond = []string{"1 == 2", "${legacy.expression}", "1 + 1", "no_such_variable > 3"}[j%4]
		}
		p.Flow("G", fmt.Sprintf("U%d", j), cond)
		p.Flow(fmt.Sprintf("U%d", j), "J", "")
	}
	p.Flow("J", "L", "")
	p.Flow("L", "D", "")
	p.Flow("D", "X", "again")
	d.Default = p.Flow("D", "end", "").ID
	return p
}

type c03Result struct {
	obs   [][]int // per activation [distinct U requested exactly once, total U requests, completions at G]
	early int     // downstream requests seen before the N-th upstream answer of their activation
	stuck string
	log   []Ev
}

func c03Run(N, M int, orders [][]int) c03Result {
	res := c03Result{}
	defs, err := ParseDefs(c03Prog(N, M).XML(""))
	must(err)
	in, err := StartInst(defs, InstOpt{Vars: map[string]any{"again": false}})
	must(err)
	defer in.Close()
	K := len(orders)
	for a, ord := range orders {
		for idx, ti := range ord {
			if !in.Answer(fmt.Sprintf("T%d", ti), tmoStep) {
				res.stuck = fmt.Sprintf("activation %d: no request for T%d", a, ti)
				res.log = in.Log()
				return res
			}
			want := a*N + idx + 1
			if !in.WaitUntil(tmoStep, func(l []Ev) bool { return countEv(l, "incoming", "G") >= want }) {
				res.stuck = fmt.Sprintf("activation %d: arrival %d not processed by the gateway", a, idx)
				res.log = in.Log()
				return res
			}
		}
		in.Mark("released", "G", fmt.Sprint(a))
		for j := 0; j < M; j++ {
			if !in.Answer(fmt.Sprintf("U%d", j), tmoStep) {
				res.stuck = fmt.Sprintf("activation %d: no request for U%d after the gateway", a, j)
				res.log = in.Log()
				return res
			}
		}
		t := in.WaitTask("L", tmoStep)
		if t == nil {
			res.stuck = fmt.Sprintf("activation %d: join after the gateway never released (L not requested)", a)
			res.log = in.Log()
			return res
		}
		// the surplus tokens' completion traces are emitted by their own goroutines: wait for the ones this
		// activation must produce before cutting the log here (under load they arrived one segment late)
		surplus := N - M
		if surplus < 0 {
			surplus = 0
		}
		wantComp := (a + 1) * surplus
		in.WaitUntil(tmoStep, func(l []Ev) bool { return countEv(l, "complete", "G") >= wantComp })
		in.Mark("answer", "L", "")
		t.Do(bpmn.DoWithResults(map[string]any{"again": a+1 < K}))
	}
	if !in.WaitCease(tmoStep) {
		res.stuck = "instance did not complete"
	}
	res.log = in.Log()
	// segment the log per activation (cut after each answer:L)
	act := 0
	nAns := 0
	uReq := make([]int, M)
	tot, comp := 0, 0
	flush := func() {
		once := 0
		for _, c := range uReq {
			if c == 1 {
				once++
			}
		}
		res.obs = append(res.obs, []int{once, tot, comp})
		uReq = make([]int, M)
		tot, comp, nAns = 0, 0, 0
		act++
	}
	for _, e := range res.log {
		switch {
		case e.K == "answer" && strings.HasPrefix(e.N, "T"):
			nAns++
		case e.K == "task" && strings.HasPrefix(e.N, "U"):
			var j int
			fmt.Sscanf(e.N, "U%d", &j)
			uReq[j]++
			tot++
			if nAns < N {
				res.early++
			}
		case e.K == "complete" && e.N == "G":
			comp++
		case e.K == "answer" && e.N == "L":
			flush()
		}
	}
	return res
}

func runC03(env *Env) {
	rep := &Report{Property: "C03",
		Rule: "kernel: real distributeFlows for all n in 1..Kn, m in 0..Km; engine: loop program start->X->fork->T_1..T_N->G(N->M)->U_1..U_M->join->L->xor(again), every N x M, every permutation of the order in which the N upstream tasks are answered, 1..3 activations; non-trivial = N>=2 or M>=2; distinct by (N,M,orders)"}
	// ---- kernel
	kn, km := 8, 8
	if env.Thorough() {
		kn, km = 24, 24
	}
	var kitems []string
	for n := 1; n <= kn; n++ {
		for m := 0; m <= km; m++ {
			sl, un := bpmn.VerifDistribute(n, m)
			rep.Evaluations++
			rep.Count("kernel")
			if n >= 2 || m >= 2 {
				rep.Nontrivial++
			}
			obs := []string{}
			// direct oracle: partition of 0..m-1, unconditional indices 0..len-1
			next := 0
			bad := ""
			for i, s := range sl {
				if s[1] == -1 {
					obs = append(obs, "None")
					continue
				}
				if s[0] < 0 {
					obs = append(obs, "Some (4999,4999)")
					bad = fmt.Sprintf("token %d: malformed action %v", i, s)
					continue
				}
				obs = append(obs, fmt.Sprintf("Some (%d,%d)", s[0], s[1]))
				if s[0] != next {
					bad = fmt.Sprintf("token %d got flows [%d,%d) but next undistributed flow is %d", i, s[0], s[0]+s[1], next)
				}
				next = s[0] + s[1]
				for k, u := range un[i] {
					if u != k {
						bad = fmt.Sprintf("token %d: unconditional indices %v are not 0..len-1", i, un[i])
					}
				}
				if len(un[i]) != s[1] {
					bad = fmt.Sprintf("token %d: %d flows but %d unconditional", i, s[1], len(un[i]))
				}
			}
			if len(sl) != n {
				bad = fmt.Sprintf("%d actions for %d parked tokens", len(sl), n)
			}
			if bad == "" && next != m {
				bad = fmt.Sprintf("flows [%d,%d) were given to nobody", next, m)
			}
			if bad != "" {
				rep.Violate("C03-distribution", fmt.Sprintf("distributeFlows n=%d m=%d -> %v", n, m, sl), bad)
			}
			kitems = append(kitems, fmt.Sprintf("(%d,%d,[%s])", n, m, strings.Join(obs, ";")))
		}
	}
	env.WriteCases(rep, "_kernel", "Corr.C03corr", "nat * nat * list (option (nat * nat))", kitems, "c03_kernel_mismatches")
	// ---- engine
	maxNM := 3
	acts := []int{1, 2}
	if env.Thorough() {
		maxNM = 4
		acts = []int{1, 2, 3}
	}
	rng := rand.New(rand.NewSource(env.Seed))
	var eitems []string
	for N := 1; N <= maxNM; N++ {
		ps := perms(N)
		for M := 1; M <= maxNM; M++ {
			for _, K := range acts {
				for _, first := range ps {
					if rep.Saturated() {
						break
					}
					orders := [][]int{first}
					for a := 1; a < K; a++ {
						orders = append(orders, ps[rng.Intn(len(ps))])
					}
					c03CondOut = rep.Evaluations%2 == 1 // every other run: false conditions on the gateway's outgoing flows
					env.Current(fmt.Sprintf("engine N=%d M=%d answer-orders=%v conditions-on-outgoing=%v", N, M, orders, c03CondOut))
					r := c03Run(N, M, orders)
					condNote := c03CondOut
					c03CondOut = false
					rep.Evaluations++
					rep.Count(fmt.Sprintf("engine_N%d_M%d_K%d", N, M, K))
					if N >= 2 || M >= 2 {
						rep.Nontrivial++
					}
					cs := fmt.Sprintf("engine N=%d M=%d answer-orders=%v conditions-on-outgoing=%v", N, M, orders, condNote)
					if r.stuck != "" {
						rep.Violate("C03-stuck", cs, r.stuck+" ; log: "+logString(r.log))
					}
					if r.early > 0 {
						rep.Violate("C03-early-release", cs, fmt.Sprintf("%d downstream requests before the N-th upstream answer; log: %s", r.early, logString(r.log)))
					}
					for a, o := range r.obs {
						if o[0] != M || o[1] != M {
							rep.Violate("C03-token-count", cs, fmt.Sprintf("activation %d: %d of %d outgoing flows got exactly one token, %d downstream requests", a, o[0], M, o[1]))
						}
					}
					ord := []string{}
					for _, o := range orders {
						ord = append(ord, natList(o))
					}
					ob := []string{}
					for _, o := range r.obs {
						ob = append(ob, natList(o))
					}
					eitems = append(eitems, fmt.Sprintf("(%d,%d,[%s],[%s])", N, M, strings.Join(ord, ";"), strings.Join(ob, ";")))
					if N >= 2 && M >= 2 && K >= 2 {
						rep.Sample(cs + " -> per activation [flows with exactly one token, downstream requests, completions at gateway] = " + fmt.Sprint(r.obs))
					}
				}
			}
		}
	}
	// a fork with one incoming flow activated twice back to back by two independent tokens (an upstream fork
	// feeding it through an exclusive merge): every activation releases one token per outgoing flow
	rounds := 15
	if env.Thorough() {
		rounds = 120
	}
	for r := 0; r < rounds && !rep.Saturated(); r++ {
		cs := fmt.Sprintf("fork (1 incoming, 2 outgoing) reached by two tokens back to back, round %d", r)
		env.Current(cs)
		p := &Prog{}
		p.Node("start", "start")
		p.Node("par", "F0")
		p.Node("task", "A")
		p.Node("task", "B")
		p.Node("task", "MT") // two incoming flows: an implicit merge, each token requests it
		p.Node("par", "G")
		p.Node("task", "U0")
		p.Node("task", "U1")
		p.Node("end", "end")
		p.Flow("start", "F0", "")
		p.Flow("F0", "A", "")
		p.Flow("F0", "B", "")
		p.Flow("A", "MT", "")
		p.Flow("B", "MT", "")
		p.Flow("MT", "G", "")
		p.Flow("G", "U0", "")
		p.Flow("G", "U1", "")
		p.Flow("U0", "end", "")
		p.Flow("U1", "end", "")
		defs, err := ParseDefs(p.XML(""))
		must(err)
		in, err := StartInst(defs, InstOpt{})
		must(err)
		// a slow second subscriber: every trace takes a little longer to hand out, as with a busy observer
		slow := in.P.Tracer().SubscribeChannel(make(chan tracing.ITrace))
		go func() {
			for range slow {
				time.Sleep(time.Duration(50+25*(r%5)) * time.Microsecond)
			}
		}()
		rep.Evaluations++
		rep.Nontrivial++
		rep.Count("fork_twice_back_to_back")
		in.Answer("A", tmoStep)
		in.Answer("B", tmoStep)
		in.WaitUntil(tmoStep, func(l []Ev) bool { return countEv(l, "task", "MT") >= 2 })
		m1, m2 := in.WaitTask("MT", tmoStep), in.WaitTask("MT", tmoStep)
		if m1 == nil || m2 == nil {
			rep.Violate("C03-release", cs, "the merging task was not requested twice; log: "+logString(in.Log()))
			in.Close()
			continue
		}
		go m1.Do()
		m2.Do()
		ok := in.WaitUntil(tmoStep, func(l []Ev) bool { return countEv(l, "task", "U0") >= 2 && countEv(l, "task", "U1") >= 2 })
		time.Sleep(5 * time.Millisecond)
		l := in.Log()
		u0, u1 := countEv(l, "task", "U0"), countEv(l, "task", "U1")
		if !ok || u0 != 2 || u1 != 2 {
			rep.Violate("C03-release", cs, fmt.Sprintf("two activations must release 2 tokens per outgoing flow: U0 requested %d times, U1 %d times; log: %s", u0, u1, logString(l)))
		} else {
			for i := 0; i < 2; i++ {
				in.Answer("U0", tmoStep)
				in.Answer("U1", tmoStep)
			}
			if !in.WaitCease(tmoStep) {
				rep.Violate("C03-release", cs, "every task answered, the instance did not complete; log: "+logString(in.Log()))
			}
		}
		in.Close()
	}
	// a partially supported model: one outgoing flow of the join leads to an element the engine does not execute (a
	// complex gateway). The token for that flow cannot be placed (an error is traced); the gateway goes on counting
	// arrivals correctly: its second activation waits for both tokens again
	for rnd := 0; rnd < 2 && !rep.Saturated(); rnd++ {
		cs := fmt.Sprintf("join 2->2 in a loop, one outgoing flow leads to a complex gateway (not executable) (round %d)", rnd)
		env.Current(cs)
		p := &Prog{}
		p.Node("start", "start")
		p.Node("xor", "X")
		p.Node("par", "F")
		p.Node("task", "T0")
		p.Node("task", "T1")
		p.Node("par", "G")
		p.Node("task", "U0")
		p.Node("complex", "CG")
		l := p.Node("task", "L")
		l.Results = []string{"again"}
		d := p.Node("xor", "D")
		p.Node("end", "end")
		p.Flow("start", "X", "")
		p.Flow("X", "F", "")
		p.Flow("F", "T0", "")
		p.Flow("F", "T1", "")
		p.Flow("T0", "G", "")
		p.Flow("T1", "G", "")
		p.Flow("G", "U0", "")
		p.Flow("G", "CG", "")
		p.Flow("U0", "L", "")
		p.Flow("L", "D", "")
		p.Flow("D", "X", "again")
		d.Default = p.Flow("D", "end", "").ID
		defs, err := ParseDefs(p.XML(""))
		if err != nil {
			rep.Notes = append(rep.Notes, "complex gateway scenario skipped: the document does not parse: "+err.Error())
			break
		}
		in, err := StartInst(defs, InstOpt{Vars: map[string]any{"again": false}})
		if err != nil {
			rep.Notes = append(rep.Notes, "complex gateway scenario skipped: no instance: "+err.Error())
			break
		}
		rep.Evaluations++
		rep.Nontrivial++
		rep.Count("unsupported_target")
		problem := ""
		for a := 0; a < 2 && problem == ""; a++ {
			if !in.Answer("T0", tmoStep) {
				problem = fmt.Sprintf("activation %d: T0 not requested", a)
				break
			}
			in.WaitUntil(tmoStep, func(l []Ev) bool { return countEv(l, "incoming", "G") >= 2*a+1 })
			time.Sleep(5 * time.Millisecond)
			if u := countEv(in.Log(), "task", "U0"); u != a {
				problem = fmt.Sprintf("activation %d: U0 requested %d times after one of two arrivals, expected %d", a, u, a)
				break
			}
			if !in.Answer("T1", tmoStep) {
				problem = fmt.Sprintf("activation %d: T1 not requested", a)
				break
			}
			if !in.WaitUntil(tmoStep, func(l []Ev) bool { return countEv(l, "task", "U0") >= a+1 }) {
				problem = fmt.Sprintf("activation %d: both tokens arrived, U0 not requested", a)
				break
			}
			in.Answer("U0", tmoStep)
			if !in.Answer("L", tmoStep, bpmn.DoWithResults(map[string]any{"again": a == 0})) {
				problem = fmt.Sprintf("activation %d: L not requested", a)
			}
		}
		if problem == "" {
			time.Sleep(5 * time.Millisecond)
			if u := countEv(in.Log(), "task", "U0"); u != 2 {
				problem = fmt.Sprintf("U0 requested %d times over two activations", u)
			}
		}
		if problem != "" {
			rep.Violate("C03-release", cs, problem+"; log: "+logString(in.Log()))
		}
		in.Close()
	}
	// two gateways that have both fired before are half full at the same time (two instances of one program, the
	// arrivals of their second activations interleaved): each gateway keeps its own parked tokens
	for rnd := 0; rnd < 3 && !rep.Saturated(); rnd++ {
		cs := fmt.Sprintf("two instances of the N=2, M=1 loop program, second activations interleaved a1 b1 a2 b2 (round %d)", rnd)
		env.Current(cs)
		defs, err := ParseDefs(c03Prog(2, 1).XML(""))
		must(err)
		var ins [2]*Inst
		for k := range ins {
			ins[k], err = StartInst(defs, InstOpt{Vars: map[string]any{"again": false}})
			must(err)
		}
		rep.Evaluations++
		rep.Nontrivial++
		rep.Count("two_gateways_half_full")
		problem := ""
		ans := func(k int, task string, opts ...bpmn.DoOption) {
			if problem == "" && !ins[k].Answer(task, tmoStep, opts...) {
				problem = fmt.Sprintf("instance %d: %s was not requested", k, task)
			}
		}
		for k := range ins { // first activation, one instance after the other
			ans(k, "T0")
			ans(k, "T1")
			ans(k, "U0")
			ans(k, "L", bpmn.DoWithResults(map[string]any{"again": true}))
		}
		arrive := func(k int, task string, want int) {
			ans(k, task)
			if problem == "" && !ins[k].WaitUntil(tmoStep, func(l []Ev) bool { return countEv(l, "incoming", "G") >= want }) {
				problem = fmt.Sprintf("instance %d: the arrival after %s was not processed by the gateway", k, task)
			}
		}
		arrive(0, "T0", 3)
		arrive(1, "T0", 3)
		arrive(0, "T1", 4)
		arrive(1, "T1", 4)
		for k := range ins {
			ans(k, "U0")
			ans(k, "L", bpmn.DoWithResults(map[string]any{"again": false}))
			if problem == "" && !ins[k].WaitCease(tmoStep) {
				problem = fmt.Sprintf("instance %d did not complete", k)
			}
		}
		for k := range ins {
			if u := countEv(ins[k].Log(), "task", "U0"); problem == "" && u != 2 {
				problem = fmt.Sprintf("instance %d: U0 requested %d times over two activations", k, u)
			}
		}
		if problem != "" {
			rep.Violate("C03-release", cs, problem+"; logs: "+logString(ins[0].Log())+" || "+logString(ins[1].Log()))
		}
		for k := range ins {
			ins[k].Close()
		}
	}
	// all N tokens arrive at the join at the same moment, at its very first activation (fork and join connected
	// directly), many fresh instances in parallel: exactly one token per outgoing flow, N visits, completion
	{
		const N, M = 4, 2
		instances := 8000
		if env.Thorough() {
			instances = 80000
		}
		p := &Prog{}
		p.Node("start", "start")
		p.Node("par", "fork")
		p.Node("par", "join")
		p.Flow("start", "fork", "")
		for i := 0; i < N; i++ {
			p.Flow("fork", "join", "")
		}
		for j := 0; j < M; j++ {
			p.Node("end", fmt.Sprintf("end%d", j))
			p.Flow("join", fmt.Sprintf("end%d", j), "")
		}
		defs, err := ParseDefs(p.XML(""))
		must(err)
		cs := fmt.Sprintf("fork 1->%d connected directly to a join %d->%d, %d fresh instances on 8 workers", N, N, M, instances)
		env.Current(cs)
		var mu sync.Mutex
		bad, firstBad := 0, ""
		var wg sync.WaitGroup
		next := int64(0)
		for w := 0; w < 8; w++ {
			wg.Add(1)
			go func() {
				defer wg.Done()
				for atomic.AddInt64(&next, 1) <= int64(instances) {
					if msg := c03Simultaneous(defs, N, M); msg != "" {
						mu.Lock()
						bad++
						if firstBad == "" {
							firstBad = msg
						}
						mu.Unlock()
					}
				}
			}()
		}
		wg.Wait()
		rep.Evaluations++
		rep.Nontrivial++
		rep.Count("simultaneous_arrivals")
		if bad > 0 {
			rep.Violate("C03-release", cs, fmt.Sprintf("%d of %d instances went wrong, e.g.: %s", bad, instances, firstBad))
		}
	}
	// overlapping activations: eight tokens reach a join with two incoming flows at the same moment (four on each
	// flow, through two merging exclusive gateways): four releases, every one of them answered, completion
	{
		p := &Prog{}
		p.Node("start", "start")
		p.Node("par", "P")
		p.Node("xor", "M1")
		p.Node("xor", "M2")
		p.Node("par", "G")
		p.Node("task", "U")
		p.Node("end", "end")
		p.Flow("start", "P", "")
		for i := 0; i < 8; i++ {
			p.Flow("P", []string{"M1", "M2"}[i%2], "")
		}
		p.Flow("M1", "G", "")
		p.Flow("M2", "G", "")
		p.Flow("G", "U", "")
		p.Flow("U", "end", "")
		xmlText := p.XML("")
		rounds := 60
		if env.Thorough() {
			rounds = 600
		}
		bad, first := 0, ""
		for r := 0; r < rounds; r++ {
			defs, err := ParseDefs(xmlText)
			must(err)
			in, err := StartInst(defs, InstOpt{})
			must(err)
			ok := in.WaitUntil(tmoStep/2, func(l []Ev) bool { return countEv(l, "task", "U") >= 4 })
			time.Sleep(2 * time.Millisecond)
			n := countEv(in.Log(), "task", "U")
			for in.Answer("U", 20*time.Millisecond) {
			}
			done := ok && n == 4 && in.WaitCease(tmoStep/2)
			if !done {
				bad++
				if first == "" {
					first = fmt.Sprintf("round %d: 8 tokens reached the join, it released %d (expected 4), completed %v; log (tail): %s", r, n, done, tailStr(logString(in.Log()), 800))
				}
			}
			in.Close()
			if bad >= 3 {
				break
			}
		}
		cs := fmt.Sprintf("eight tokens at once at a join with two incoming flows (overlapping activations), %d fresh instances", rounds)
		rep.Evaluations++
		rep.Nontrivial++
		rep.Count("overlapping_activations")
		if bad > 0 {
			rep.Violate("C03-release", cs, fmt.Sprintf("%d instances went wrong, first: %s", bad, first))
		}
	}
	// tokens split off by a fork start with a retry budget of their own: a task before the fork is answered "error,
	// retry once" and then without error; behind the fork a branch's task is answered the same way -- it is requested
	// again, and the join gets a token from every branch
	for vi, which := range []string{"b", "a", "b", "both"} {
		prepRetried := vi == 0 // (a token's retries are counted over its whole life: the token that goes on to branch a has used its one retry then)
		cs := fmt.Sprintf("task prep retried once: %v; fork; task %s retried once; join", prepRetried, which)
		env.Current(cs)
		p := &Prog{}
		p.Node("start", "start")
		p.Node("task", "prep")
		p.Node("par", "F")
		p.Node("task", "a")
		p.Node("task", "b")
		p.Node("par", "G")
		p.Node("task", "after")
		p.Node("end", "end")
		p.Flow("start", "prep", "")
		p.Flow("prep", "F", "")
		p.Flow("F", "a", "")
		p.Flow("F", "b", "")
		p.Flow("a", "G", "")
		p.Flow("b", "G", "")
		p.Flow("G", "after", "")
		p.Flow("after", "end", "")
		defs, err := ParseDefs(p.XML(""))
		must(err)
		in, err := StartInst(defs, InstOpt{})
		must(err)
		rep.Evaluations++
		rep.Nontrivial++
		rep.Count("retry_before_and_behind_a_fork")
		retryOnce := func(task string) bool {
			ch := make(chan bpmn.ErrHandler, 1)
			ch <- bpmn.ErrHandler{Mode: bpmn.RetryMode, Retries: 1}
			return in.Answer(task, tmoStep, bpmn.DoWithErrHandle(errors.New("once"), ch)) && in.Answer(task, tmoStep)
		}
		problem := ""
		if prepRetried && !retryOnce("prep") {
			problem = "prep answered 'error, retry once': it was not requested again"
		} else if !prepRetried && !in.Answer("prep", tmoStep) {
			problem = "prep not requested"
		}
		for _, t := range []string{"a", "b"} {
			if problem != "" {
				break
			}
			if which == t || which == "both" {
				if !retryOnce(t) {
					problem = "task " + t + " answered 'error, retry once' behind the fork: it was not requested again"
				}
			} else if !in.Answer(t, tmoStep) {
				problem = "task " + t + " not requested"
			}
		}
		if problem == "" && !in.Answer("after", tmoStep) {
			problem = "both branches answered: the join did not release"
		}
		if problem == "" && !in.WaitCease(tmoStep) {
			problem = "the instance did not complete"
		}
		if problem != "" {
			rep.Violate("C03-release", cs, problem+"; log: "+tailStr(logString(in.Log()), 1200))
		}
		in.Close()
	}
	// long histories of one gateway: the same join activated over and over
	{
		type ll struct{ n, m, iters int }
		runs := []ll{{3, 2, 130}, {5, 3, 70}}
		if env.Thorough() {
			runs = []ll{{3, 2, 23000}, {5, 3, 700}, {2, 1, 300}, {4, 3, 300}}
		}
		var wg sync.WaitGroup
		msgs := make([]string, len(runs))
		for i, r := range runs {
			wg.Add(1)
			go func(i int, r ll) {
				defer wg.Done()
				msgs[i] = c03LongLoop(r.n, r.m, r.iters)
			}(i, r)
		}
		wg.Wait()
		for i, r := range runs {
			cs := fmt.Sprintf("loop around a join %d->%d (and a join %d->1 behind it): %d activations one arrival at a time, then a single arrival", r.n, r.m, r.m, r.iters)
			rep.Evaluations++
			rep.Nontrivial++
			rep.Count("long_loop")
			if msgs[i] != "" {
				rep.Violate("C03-release", cs, msgs[i])
			}
		}
	}
	env.WriteCases(rep, "_engine", "Corr.C03corr", "nat * nat * list (list nat) * list (list nat)", eitems, "c03_engine_mismatches")
	rep.Exhaustive = true
	env.WriteReport(rep)
}

// c03Simultaneous runs one instance of the directly connected fork/join and returns what went wrong ("" if nothing)
func c03Simultaneous(defs *schema.Definitions, n, m int) string {
	ctx, cancel := context.WithCancel(context.Background())
	defer cancel()
	var procElem *schema.Process
	for i := range *defs.Processes() {
		procElem = &(*defs.Processes())[i]
	}
	inst, err := bpmn.NewProcess(procElem, defs, bpmn.WithContext(ctx), bpmn.WithIdGenerator(sharedGen))
	if err != nil {
		return "instantiate: " + err.Error()
	}
	traces := inst.Tracer().SubscribeChannel(make(chan tracing.ITrace, 256))
	if err = inst.StartAll(ctx); err != nil {
		return "start: " + err.Error()
	}
	visits := map[string]int{}
	released := 0
	completed := false
	deadline := time.After(3 * time.Second)
loop:
	for {
		select {
		case tr, ok := <-traces:
			if !ok {
				break loop
			}
			switch t := tracing.Unwrap(tr).(type) {
			case bpmn.VisitTrace:
				visits[nodeId(t.Node)]++
			case bpmn.FlowTrace:
				if nodeId(t.Source) == "join" {
					released += len(t.Flows)
				}
			case bpmn.ErrorTrace:
				return fmt.Sprintf("error trace: %v", t.Error)
			case bpmn.CeaseFlowTrace:
				completed = true
				break loop
			}
		case <-deadline:
			break loop
		}
	}
	var problems []string
	if !completed {
		problems = append(problems, "the instance did not complete within 3 s (a token is stuck at the join)")
	}
	if visits["join"] != n {
		problems = append(problems, fmt.Sprintf("join visited %d times, expected %d", visits["join"], n))
	}
	if released != m {
		problems = append(problems, fmt.Sprintf("%d tokens put on the join's outgoing flows, expected %d", released, m))
	}
	for j := 0; j < m; j++ {
		if v := visits[fmt.Sprintf("end%d", j)]; v != 1 {
			problems = append(problems, fmt.Sprintf("end%d visited %d times, expected once", j, v))
		}
	}
	return strings.Join(problems, "; ")
}

// c03LongLoop drives the loop program through `iters` activations of the N-way join G (and of the M-way join J behind
// it), one upstream answer at a time, the order rotating: after every answer the next thing the instance does must be
// the gateway's acknowledgement of that arrival, and only after the N-th one the M downstream requests. After the last
// activation one more single arrival must leave the gateway closed. Returns what went wrong ("" if nothing).
func c03LongLoop(N, M, iters int) string {
	type obs struct {
		kind, node string
		task       bpmn.TaskTrace
	}
	evs := make(chan obs, 256)
	defs, err := ParseDefs(c03Prog(N, M).XML(""))
	must(err)
	in, err := StartInst(defs, InstOpt{Vars: map[string]any{"again": false}, Raw: func(tr tracing.ITrace) {
		switch t := tr.(type) {
		case bpmn.TaskTrace:
			evs <- obs{"task", nodeId(t.GetActivity().Element()), t}
		case bpmn.IncomingFlowProcessedTrace:
			if n := nodeId(t.Node); n == "G" {
				evs <- obs{"incoming", n, nil}
			}
		}
	}})
	must(err)
	defer in.Close()
	next := func(d time.Duration) *obs {
		select {
		case o := <-evs:
			return &o
		case <-time.After(d):
			return nil
		}
	}
	tasks := func(n int, prefix string, where string) (map[string]bpmn.TaskTrace, string) {
		got := map[string]bpmn.TaskTrace{}
		for len(got) < n {
			o := next(tmoStep)
			if o == nil {
				return nil, fmt.Sprintf("%s: %d of %d requests of %s* arrived", where, len(got), n, prefix)
			}
			if o.kind != "task" || !strings.HasPrefix(o.node, prefix) || got[o.node] != nil {
				return nil, fmt.Sprintf("%s: expected the requests of %s0..%s%d, saw %s %s", where, prefix, prefix, n-1, o.kind, o.node)
			}
			got[o.node] = o.task
		}
		return got, ""
	}
	for it := 1; it <= iters+1; it++ {
		where := fmt.Sprintf("activation %d", it)
		ts, msg := tasks(N, "T", where)
		if msg != "" {
			return msg
		}
		for k := 0; k < N; k++ {
			t := fmt.Sprintf("T%d", (k+it)%N)
			if it == iters+1 && k == 1 {
				// one arrival only: the gateway stays closed
				if o := next(300 * time.Millisecond); o != nil {
					return fmt.Sprintf("%s: one of %d tokens arrived, then: %s %s", where, N, o.kind, o.node)
				}
			}
			ts[t].Do()
			if k == N-1 {
				break // the last arrival releases the tokens: its acknowledgement and their requests come in any order
			}
			o := next(tmoStep)
			if o == nil || o.kind != "incoming" {
				what := "nothing"
				if o != nil {
					what = o.kind + " " + o.node
				}
				return fmt.Sprintf("%s: after the answer of %s (arrival %d of %d) expected the gateway's acknowledgement, saw %s", where, t, k+1, N, what)
			}
		}
		us, acked := map[string]bpmn.TaskTrace{}, false
		for len(us) < M || !acked {
			o := next(tmoStep)
			switch {
			case o == nil:
				return fmt.Sprintf("%s: all %d tokens arrived; acknowledged %v, %d of %d downstream requests", where, N, acked, len(us), M)
			case o.kind == "incoming" && !acked:
				acked = true
			case o.kind == "task" && strings.HasPrefix(o.node, "U") && us[o.node] == nil:
				us[o.node] = o.task
			default:
				return fmt.Sprintf("%s: all %d tokens arrived, expected the acknowledgement and the requests of U0..U%d, saw %s %s", where, N, M-1, o.kind, o.node)
			}
		}
		for _, u := range us {
			u.Do()
		}
		l, msg := tasks(1, "L", where)
		if msg != "" {
			return msg
		}
		l["L"].Do(bpmn.DoWithResults(map[string]any{"again": it <= iters}))
	}
	if !in.WaitCease(tmoStep) {
		return "all tasks answered, the instance did not complete"
	}
	if o := next(50 * time.Millisecond); o != nil {
		return fmt.Sprintf("after the completion: %s %s", o.kind, o.node)
	}
	return ""
}
