package main

import (
	"fmt"
	"math/rand"
	"time"

	bpmn "github.com/olive-io/bpmn/v2"
	"github.com/olive-io/bpmn/v2/pkg/data"
)

func init() { commands["c01"] = runC01 }

func blkShape(b *Blk, parents string, out map[string]bool) {
	if b.Kind != "task" && b.Kind != "skip" && b.Kind != "seq" {
		out[parents+">"+b.Kind] = true
		parents = b.Kind
	}
	for _, k := range b.Kids {
		blkShape(k, parents, out)
	}
}

// gwInIncl: does an inclusive block contain another forking gateway block (parallel or inclusive)?
func hasKind(b *Blk, kind string) bool {
	if b.Kind == kind {
		return true
	}
	for _, k := range b.Kids {
		if hasKind(k, kind) {
			return true
		}
	}
	return false
}

func gwInIncl(b *Blk, inIncl bool) bool {
	if inIncl && (b.Kind == "par" || b.Kind == "incl") {
		return true
	}
	for _, k := range b.Kids {
		if gwInIncl(k, inIncl || b.Kind == "incl") {
			return true
		}
	}
	return false
}

func runC01(env *Env) {
	rep := &Report{Property: "C01",
		Rule: "seeded block programs over {sequence, parallel, exclusive, inclusive with default, do-while loop, task with conditional outgoing flows, embedded sub-process}, up to ~10 tasks, nesting up to 3, random initial variables, seeded answer orders and variable writes (every other run with slow flow creation); after every answer the set of pending requests must be the token game's; then completion, one end event, final variables; non-trivial = more than three answers; distinct by (program, variables, script seed)"}
	rng := rand.New(rand.NewSource(env.Seed + 77))
	nProg, nScripts := 30, 2
	if env.Thorough() {
		nProg, nScripts = 300, 4
	}
	fixed := []*Blk{
		{Kind: "ctask", ID: 1, N: 0, Kids: []*Blk{{Kind: "task", ID: 2}, {Kind: "task", ID: 3}}},
		{Kind: "incl", ID: 0, N: 1, Kids: []*Blk{{Kind: "task", ID: 1}, {Kind: "task", ID: 2}, {Kind: "task", ID: 3}}},
		{Kind: "par", Kids: []*Blk{{Kind: "if", ID: 0, Kids: []*Blk{{Kind: "task", ID: 1}, {Kind: "skip"}}}, {Kind: "incl", ID: 1, N: 2, Kids: []*Blk{{Kind: "task", ID: 2}, {Kind: "task", ID: 3}, {Kind: "task", ID: 4}}}}},
		// an exclusive split inside a loop, leaving by its default flow in every pass (run under v0 = false)
		{Kind: "loop", ID: 3, N: 3, Kids: []*Blk{{Kind: "seq", Kids: []*Blk{{Kind: "task", ID: 1}, {Kind: "if", ID: 0, Kids: []*Blk{{Kind: "task", ID: 2}, {Kind: "task", ID: 3}}}}}}},
		// an inclusive block entered again and again (its join must start afresh every time): run under v0 = v1 = true with several answer orders
		{Kind: "loop", ID: 3, N: 3, Kids: []*Blk{{Kind: "seq", Kids: []*Blk{{Kind: "task", ID: 1}, {Kind: "incl", ID: 0, N: 1, Kids: []*Blk{{Kind: "task", ID: 2}, {Kind: "task", ID: 3}, {Kind: "skip"}}}, {Kind: "task", ID: 4}}}}},
		// the known finding: a forking gateway nested in an inclusive block (kept last, run once each under the assignment that shows it)
		{Kind: "incl", ID: 0, N: 1, Kids: []*Blk{{Kind: "incl", ID: 0, N: 1, Kids: []*Blk{{Kind: "task", ID: 1}, {Kind: "task", ID: 2}, {Kind: "skip"}}}, {Kind: "task", ID: 3}, {Kind: "skip"}}},
	}
	nFinding := 1
	var items []string
	var progs []*Blk
	progs = append(progs, fixed...)
	for i := 0; i < nProg; i++ {
		g := &blkGen{rng: rng, full: true, ends: i%2 == 1}
		b := g.gen(4+rng.Intn(7), 3, true)
		if rng.Intn(3) == 0 {
			b = g.wrap(b, 1)
		}
		progs = append(progs, b)
	}
	for pi, prog := range progs {
		inLoop := map[int]int{}
		blkTasksInLoop(prog, false, inLoop, 0)
		shapes := map[string]bool{}
		blkShape(prog, "", shapes)
		ns := nScripts
		loopIncl := pi == len(fixed)-nFinding-1
		if loopIncl {
			ns = nScripts + 4
		}
		for s := 0; s < ns; s++ {
			if rep.Saturated() {
				break
			}
			var env0 [4]bool
			for i := 0; i < 3; i++ {
				env0[i] = rng.Intn(2) == 0
			}
			if pi < len(fixed) { // the fixed programs run under every interesting assignment
				env0[0], env0[1] = s%2 == 0, s/2%2 == 0
			}
			if loopIncl {
				env0[0], env0[1] = true, true
			}
			if pi >= len(fixed)-nFinding && pi < len(fixed) {
				if s > 0 {
					break
				}
				env0[0], env0[1] = true, true
			}
			sc := blkScript{seed: env.Seed*100000 + int64(pi)*100 + int64(s) + 50, inLoop: inLoop}
			cs := fmt.Sprintf("program %s, variables %v, script seed %d", prog, env0, sc.seed)
			var sched []bpmn.Option
			if s%2 == 1 {
				sched = append(sched, bpmn.WithIdGenerator(slowGen{time.Millisecond}))
				cs += ", slow flow creation"
			}
			env.Current(cs)
			ch, wr := sc.funcs()
			o := RunBlk(prog, env0, ch, wr, 80, sched...)
			rep.Evaluations++
			for sh := range shapes {
				rep.Count("nest" + sh)
			}
			if len(o.steps) > 3 {
				rep.Nontrivial++
			}
			if o.problem != "" {
				key := "C01-token-game"
				if gwInIncl(prog, false) {
					key = "C01-gateway-nested-in-inclusive"
				}
				rep.Violate(key, cs, o.problem+"; log: "+logString(o.log))
				continue
			}
			if ends := countEv(o.log, "complete", "end"); ends > 1 {
				rep.Violate("C01-end-events", cs, fmt.Sprintf("the final end event was reached %d times; log: %s", ends, logString(o.log)))
			}
			if hasKind(prog, "end") {
				rep.Count("end_events_in_branches")
			}
			if errs := countEv(o.log, "error", "*"); errs > 0 {
				rep.Violate("C01-token-game", cs, fmt.Sprintf("%d error traces; log: %s", errs, logString(o.log)))
			}
			items = append(items, o.CoqCase(prog, env0, "[]"))
			if len(rep.Samples) < 4 && len(o.steps) > 4 {
				rep.Sample(fmt.Sprintf("%s -> first pending %v, steps %s, completed %v", cs, o.first, o.CoqScript(), o.completed))
			}
		}
	}
	// a variable written by a token in a parallel branch steers a gateway another token reaches later (that token has
	// already evaluated a condition before): conditions are evaluated on the values at the time the token arrives
	for _, late := range []bool{true, false} {
		prog := &Blk{Kind: "par", Kids: []*Blk{
			{Kind: "seq", Kids: []*Blk{{Kind: "if", ID: 0, Kids: []*Blk{{Kind: "task", ID: 1}, {Kind: "task", ID: 2}}}, {Kind: "if", ID: 1, Kids: []*Blk{{Kind: "task", ID: 3}, {Kind: "task", ID: 4}}}}},
			{Kind: "task", ID: 5}}}
		env0 := [4]bool{true, !late, false, false}
		cs := fmt.Sprintf("program %s, variables %v, T5 answered first writing v1=%v, then T1", prog, env0, late)
		env.Current(cs)
		step := 0
		o := RunBlk(prog, env0, func(n int) int {
			step++
			if step == 1 {
				return n - 1
			}
			return 0
		},
			func(task, nth int) [4]int {
				if task == 5 {
					return [4]int{-1, b2i(late), -1, -1}
				}
				return [4]int{-1, -1, -1, -1}
			}, 20)
		rep.Evaluations++
		rep.Nontrivial++
		rep.Count("cross_branch_write")
		if o.problem != "" {
			rep.Violate("C01-token-game", cs, o.problem+"; log: "+logString(o.log))
		} else {
			items = append(items, o.CoqCase(prog, env0, "[]"))
		}
	}
	// the decision of an exclusive split is final: the variable turns false right after the gateway has read it once
	// (as the answer of a task in a parallel branch may do) — the token still leaves on the chosen flow, T1 is requested
	{
		prog := &Blk{Kind: "seq", Kids: []*Blk{{Kind: "if", ID: 0, Kids: []*Blk{{Kind: "task", ID: 1}, {Kind: "task", ID: 2}}}, {Kind: "task", ID: 3}}}
		env0 := [4]bool{true, false, false, false}
		cs := fmt.Sprintf("program %s, variables %v, v0 turns false right after the split has read it", prog, env0)
		env.Current(cs)
		base := data.NewFlowDataLocator()
		for i, v := range env0 {
			base.SetVariable(fmt.Sprintf("v%d", i), v)
		}
		fl := &flipLocator{IFlowDataLocator: base, after: 1, key: "v0"}
		o := RunBlk(prog, env0, func(n int) int { return 0 }, func(task, nth int) [4]int { return [4]int{-1, -1, -1, -1} }, 20, bpmn.WithLocator(fl))
		rep.Evaluations++
		rep.Nontrivial++
		rep.Count("decision_final")
		rep.Notes = append(rep.Notes, fmt.Sprintf("decision-final scenario: the variables were read %d times", fl.reads))
		if o.problem != "" {
			rep.Violate("C01-token-game", cs, o.problem+"; log: "+logString(o.log))
		}
	}
	// the instance ends with the variables the answered tasks wrote, also when many tasks are answered at once
	manyWritersAtOnce(env, rep, "C01-token-game", 6)
	// many tokens through one chain of nodes at the same time (more than a node's inbox holds): every token passes every
	// node exactly once — exclusive merge, exclusive split, parallel gateway with one way in and out, sub-process, task,
	// end event (no inclusive gateway in the chain: it would merge the tokens of one fork, the open finding's mechanism)
	for _, n := range []int{3, 12} {
		for _, v0 := range []bool{true, false} {
			if rep.Saturated() {
				break
			}
			cs := fmt.Sprintf("%d tokens through merge -> exclusive split -> parallel 1:1 -> sub-process -> task -> end, v0=%v", n, v0)
			env.Current(cs)
			p := &Prog{}
			p.Node("start", "start")
			p.Node("par", "F")
			p.Node("xor", "M")
			x := p.Node("xor", "X")
			p.Node("xor", "M2")
			p.Node("par", "P")
			sn := p.Node("sub", "S")
			sn.Sub = &Prog{nflow: 900}
			sn.Sub.Node("start", "ss")
			sn.Sub.Node("end", "se")
			sn.Sub.Flow("ss", "se", "")
			p.Node("task", "T")
			p.Node("end", "end")
			p.Flow("start", "F", "")
			for i := 0; i < n; i++ {
				p.Flow("F", "M", "")
			}
			p.Flow("M", "X", "")
			p.Flow("X", "M2", "v0")
			x.Default = p.Flow("X", "M2", "").ID
			p.Flow("M2", "P", "")
			p.Flow("P", "S", "")
			p.Flow("S", "T", "")
			p.Flow("T", "end", "")
			defs, err := ParseDefs(p.XML(""))
			must(err)
			in, err := StartInst(defs, InstOpt{Vars: map[string]any{"v0": v0}, Buf: 1024})
			must(err)
			rep.Evaluations++
			rep.Nontrivial++
			rep.Count("many_tokens_one_chain")
			answered := 0
			for answered < n && in.Answer("T", tmoStep) {
				answered++
			}
			done := in.WaitCease(tmoStep)
			l := in.Log()
			bad := ""
			if answered != n || !done {
				bad = fmt.Sprintf("%d of %d requests of T could be answered, instance completed: %v", answered, n, done)
			}
			for _, node := range []string{"M", "X", "M2", "P", "S", "T", "end"} {
				if v := countEv(l, "visit", node); v != n && bad == "" {
					bad = fmt.Sprintf("node %s was reached %d times, expected %d", node, v, n)
				}
			}
			if t := countEv(l, "task", "T"); t != n && bad == "" {
				bad = fmt.Sprintf("T was requested %d times, expected %d", t, n)
			}
			if e := countEv(l, "error", "*"); e > 0 && bad == "" {
				bad = fmt.Sprintf("%d error traces", e)
			}
			if bad != "" {
				rep.Violate("C01-token-game", cs, bad+"; log: "+logString(l))
			}
			in.Close()
		}
	}
	// a task with 1..4 conditional outgoing flows (each to a task and an end event of its own), every truth
	// assignment, two listing orders: exactly the true flows get a token, the task is requested once
	var litems []string
	for k := 1; k <= 4; k++ {
		for assign := 0; assign < 1<<k; assign++ {
			if rep.Saturated() {
				break
			}
			if !env.Thorough() && k == 4 && assign%2 == 1 {
				continue
			}
			p := &Prog{}
			p.Node("start", "start")
			p.Node("task", "T")
			p.Flow("start", "T", "")
			vars := map[string]any{}
			var cn []int
			for i := 0; i < k; i++ {
				x := fmt.Sprintf("X%d", i)
				p.Node("task", x)
				p.Node("end", "e"+x)
				p.Flow("T", x, fmt.Sprintf("c%d", i))
				p.Flow(x, "e"+x, "")
				v := assign&(1<<i) != 0
				vars[fmt.Sprintf("c%d", i)] = v
				cn = append(cn, b2i(v))
			}
			cs := fmt.Sprintf("task with %d conditional outgoing flows, conditions %v", k, cn)
			env.Current(cs)
			defs, err := ParseDefs(p.XML(""))
			must(err)
			in, err := StartInst(defs, InstOpt{Vars: vars})
			must(err)
			rep.Evaluations++
			rep.Count("conditional_flows")
			if !in.Answer("T", tmoStep) {
				rep.Violate("C01-token-game", cs, "the task was never requested")
				in.Close()
				continue
			}
			want := 0
			for _, c := range cn {
				want += c
			}
			in.WaitUntil(tmoStep, func(l []Ev) bool {
				n := 0
				for i := 0; i < k; i++ {
					n += countEv(l, "task", fmt.Sprintf("X%d", i))
				}
				return n >= want
			})
			time.Sleep(6 * time.Millisecond)
			log := in.Log()
			var requested []int
			for i := 0; i < k; i++ {
				for c := countEv(log, "task", fmt.Sprintf("X%d", i)); c > 0; c-- {
					requested = append(requested, i)
				}
			}
			nsrc := countEv(log, "task", "T")
			var wantReq []int
			for i, c := range cn {
				if c == 1 {
					wantReq = append(wantReq, i)
				}
			}
			if !intsEq(requested, wantReq) || nsrc != 1 {
				rep.Violate("C01-token-game", cs, fmt.Sprintf("downstream tasks requested %v (expected %v), the task itself requested %d times (expected once); log: %s", requested, wantReq, nsrc, logString(log)))
			}
			for _, i := range requested {
				in.Answer(fmt.Sprintf("X%d", i), time.Second)
			}
			completed := in.WaitCease(tmoStep)
			if !completed {
				rep.Violate("C01-end-events", cs, "every task answered, the instance did not complete; log: "+logString(in.Log()))
			}
			in.Close()
			litems = append(litems, fmt.Sprintf("(%s,%s,%d,%d)", natList(cn), natList(requested), nsrc, b2i(completed)))
		}
	}
	env.WriteCases(rep, "_leave", "Corr.C01corr", "list nat * list nat * nat * nat", litems, "c01_leave_mismatches")
	env.WriteCases(rep, "", "Corr.C01corr", blkCaseType, items, "c01_mismatches")
	env.WriteReport(rep)
}
