package main

import (
	"github.com/olive-io/bpmn/v2/pkg/timer"
	"math/rand"
	"bytes"
	"context"
	"fmt"
	"go/token"
	"os"
	"regexp"
	"runtime/pprof"
	"strings"
	"sync"
	"time"

	"github.com/olive-io/bpmn/schema"
	bpmn "github.com/olive-io/bpmn/v2"
	"github.com/olive-io/bpmn/v2/pkg/event"
	"github.com/olive-io/bpmn/v2/pkg/tracing"
)

func init() { commands["c07"] = runC07 }

type c07Prog struct {
	name  string
	xml   string
	vars  map[string]any
	auto  []string // tasks answered automatically as soon as requested
	event string   // a signal delivered once, right after start (may be "")
}

// realTimers: the instance is built with the timer event definitions of pkg/timer on the host clock
func (p c07Prog) realTimers() bool { return strings.Contains(p.name, "host clock") }

func c07Corpus() []c07Prog {
	var out []c07Prog
	mk := func(name string, p *Prog, extra string, vars map[string]any, auto []string, ev string) {
		out = append(out, c07Prog{name, p.XML(extra), vars, auto, ev})
	}
	sig := `<bpmn:signal id="s0" name="s0"/><bpmn:signal id="s1" name="s1"/>`
	{ // a task awaiting its answer
		p := &Prog{}
		p.Node("start", "start")
		p.Node("task", "A")
		p.Node("task", "B")
		p.Node("end", "end")
		p.Flow("start", "A", "")
		p.Flow("A", "B", "")
		p.Flow("B", "end", "")
		mk("sequence, second task pending", p, "", nil, []string{"A"}, "")
	}
	{ // a parallel join half full
		p := &Prog{}
		p.Node("start", "start")
		p.Node("par", "F")
		p.Node("task", "A")
		p.Node("task", "B")
		p.Node("par", "J")
		p.Node("task", "Z")
		p.Node("end", "end")
		p.Flow("start", "F", "")
		p.Flow("F", "A", "")
		p.Flow("F", "B", "")
		p.Flow("A", "J", "")
		p.Flow("B", "J", "")
		p.Flow("J", "Z", "")
		p.Flow("Z", "end", "")
		mk("parallel join half full", p, "", nil, []string{"A"}, "")
	}
	{ // conditions that cannot be compiled, the same text on several flows and evaluated by several tokens
		p := &Prog{}
		p.Node("start", "start")
		p.Node("par", "F")
		for i := 0; i < 2; i++ {
			x := p.Node("xor", fmt.Sprintf("X%d", i))
			p.Node("task", fmt.Sprintf("A%d", i))
			p.Flow("F", fmt.Sprintf("X%d", i), "")
			p.Flow(fmt.Sprintf("X%d", i), "end", "this is ( not an expression")
			p.Flow(fmt.Sprintf("X%d", i), "end", "this is ( not an expression")
			x.Default = p.Flow(fmt.Sprintf("X%d", i), fmt.Sprintf("A%d", i), "").ID
			p.Flow(fmt.Sprintf("A%d", i), "end", "")
		}
		p.Node("end", "end")
		p.Flow("start", "F", "")
		mk("conditions that do not compile, the same text on four flows", p, "", nil, nil, "")
	}
	{ // inclusive fork with an untaken branch, join waiting
		out = append(out, c07Prog{"inclusive join waiting, untaken branch", c05Prog(3, true, []bool{true, true, true, true}).XML(""),
			map[string]any{"c0": true, "c1": true, "c2": false}, []string{"A0"}, ""})
	}
	{ // exclusive gateway and loop
		b := &Blk{Kind: "loop", ID: 3, N: 3, Kids: []*Blk{{Kind: "seq", Kids: []*Blk{{Kind: "task", ID: 1}, {Kind: "if", ID: 0, Kids: []*Blk{{Kind: "task", ID: 2}, {Kind: "skip"}}}}}}}
		out = append(out, c07Prog{"loop with exclusive gateway", BlkProg(b).XML(""), map[string]any{"v0": true, "v1": false, "v2": false, "v3": true}, []string{"T1"}, ""})
	}
	{ // listening catch event, event-based gateway
		p, extra := c06Prog(2)
		out = append(out, c07Prog{"event-based gateway waiting", p.XML(extra), nil, nil, ""})
	}
	{ // intermediate catch event listening, then a task
		p := &Prog{}
		p.Node("start", "start")
		c11Catch(p, "C0", 0, false)
		p.Node("task", "A")
		p.Node("end", "end")
		p.Flow("start", "C0", "")
		p.Flow("C0", "A", "")
		p.Flow("A", "end", "")
		mk("catch event, event delivered, task pending", p, `<bpmn:signal id="e0" name="e0"/>`, nil, nil, "e0")
	}
	{ // sub-process running with an inner task, nested
		b := &Blk{Kind: "seq", Kids: []*Blk{{Kind: "task", ID: 1}, {Kind: "sub", Kids: []*Blk{{Kind: "sub", Kids: []*Blk{{Kind: "par", Kids: []*Blk{{Kind: "task", ID: 2}, {Kind: "task", ID: 3}}}}}}}}}
		out = append(out, c07Prog{"nested sub-process, inner tasks pending", BlkProg(b).XML(""), map[string]any{"v0": false, "v1": false, "v2": false, "v3": false}, []string{"T1", "T2"}, ""})
	}
	{ // boundary listeners armed
		sh := c10Shape{"", false, []bool{false, true}, []int{0, 1}, false}
		out = append(out, c07Prog{"task with boundary events, one fired", sh.prog().XML(sig), nil, []string{"P"}, "s0"})
	}
	{ // more tokens than an inbox holds converge on one task and one end event
		p := &Prog{}
		p.Node("start", "start")
		p.Node("par", "F")
		p.Node("xor", "M")
		p.Node("task", "A")
		p.Node("end", "end")
		p.Flow("start", "F", "")
		for i := 0; i < 12; i++ {
			p.Flow("F", "M", "")
		}
		p.Flow("M", "A", "")
		p.Flow("A", "end", "")
		mk("twelve tokens into one task and one end event", p, "", nil, []string{"A"}, "")
	}
	{ // two tokens headed for one sub-process: the second activation is queued behind the first when the cancel comes
		p := &Prog{}
		p.Node("start", "start")
		p.Node("par", "F")
		p.Node("task", "G")
		sn := p.Node("sub", "S")
		sn.Sub = &Prog{nflow: 700}
		sn.Sub.Node("start", "ss")
		sn.Sub.Node("task", "A")
		sn.Sub.Node("end", "se")
		sn.Sub.Flow("ss", "A", "")
		sn.Sub.Flow("A", "se", "")
		p.Node("task", "Z")
		p.Node("end", "end")
		p.Flow("start", "F", "")
		p.Flow("F", "S", "")
		p.Flow("F", "G", "")
		p.Flow("G", "S", "")
		p.Flow("S", "Z", "")
		p.Flow("Z", "end", "")
		mk("two tokens headed for one sub-process, the second queued", p, "", nil, []string{"G"}, "")
	}
	{ // a sub-process that cannot start (no start event inside): error trace, the token stays at the sub-process
		p := &Prog{}
		p.Node("start", "start")
		p.Node("task", "A")
		n := p.Node("sub", "S")
		n.Sub = &Prog{nflow: 1000}
		n.Sub.Node("task", "X")
		p.Node("end", "end")
		p.Flow("start", "A", "")
		p.Flow("A", "S", "")
		p.Flow("S", "end", "")
		mk("sub-process without a start event", p, "", nil, []string{"A"}, "")
	}
	{ // a process with two start events (StartAll starts a token at each)
		p := &Prog{}
		p.Node("start", "start")
		p.Node("start", "start2")
		p.Node("task", "A")
		p.Node("task", "B")
		p.Node("end", "end")
		p.Node("end", "end2")
		p.Flow("start", "A", "")
		p.Flow("A", "end", "")
		p.Flow("start2", "B", "")
		p.Flow("B", "end2", "")
		mk("two start events", p, "", nil, []string{"A"}, "")
	}
	{ // seeded block programs of the C01 generator (all block kinds, sub-processes, loops, end events inside branches):
		// tasks with an odd number are answered at once, the others stay pending
		rng := rand.New(rand.NewSource(7))
		for i := 0; i < 8; i++ {
			g := &blkGen{rng: rng, full: true, ends: i%2 == 1}
			b := g.gen(5+rng.Intn(6), 3, true)
			if i%3 == 0 {
				b = g.wrap(b, 1+rng.Intn(2))
			}
			var auto []string
			for t := 1; t <= g.ntask; t += 2 {
				auto = append(auto, fmt.Sprintf("T%d", t))
			}
			vars := map[string]any{"v3": false}
			for v := 0; v < 3; v++ {
				vars[fmt.Sprintf("v%d", v)] = rng.Intn(2) == 0
			}
			out = append(out, c07Prog{"block program " + b.Coq(), BlkProg(b).XML(""), vars, auto, ""})
		}
	}
	{ // timer catch event waiting
		p := &Prog{}
		p.Node("start", "start")
		c := p.Node("catch", "T")
		c.Inner = `<bpmn:timerEventDefinition id="td"><bpmn:timeDuration xsi:type="bpmn:tFormalExpression">PT1H</bpmn:timeDuration></bpmn:timerEventDefinition>`
		p.Node("task", "A")
		p.Node("end", "end")
		p.Flow("start", "T", "")
		p.Flow("T", "A", "")
		p.Flow("A", "end", "")
		mk("timer catch event waiting", p, "", nil, nil, "")
		out = append(out, c07Prog{"timer catch event waiting for a real timer (host clock, due in an hour)", p.XML(""), nil, nil, ""})
	}
	return out
}

// labelled goroutines of one case, from the goroutine profile
func c07Goroutines(label string) (n int, stacks string) {
	var buf bytes.Buffer
	pprof.Lookup("goroutine").WriteTo(&buf, 1)
	var keep []string
	for _, blk := range strings.Split(buf.String(), "\n\n") {
		if strings.Contains(blk, fmt.Sprintf("%q:%q", "case", label)) {
			var c int
			fmt.Sscanf(blk, "%d @", &c)
			n += c
			// first engine frame
			for _, l := range strings.Split(blk, "\n") {
				if strings.Contains(l, "olive-io/bpmn") {
					f := strings.Fields(l)
					keep = append(keep, fmt.Sprintf("%dx %s", c, f[len(f)-1]))
					break
				}
			}
		}
	}
	return n, strings.Join(keep, "; ")
}

type c07Obs struct {
	traces      int
	waitMs      int64
	tracerDone  bool
	chClosed    bool
	left        int
	leftStacks  string
	lateTasks   int // task requests received after the cancel whose context is not cancelled
	afterTasks  int // task requests received after the tracer was done (impossible) — kept for completeness
	totalTraces int
}

func c07Run(pr c07Prog, k int, label string) (o c07Obs) {
	defs, err := ParseDefs(pr.xml)
	must(err)
	var wg sync.WaitGroup
	wg.Add(1)
	pprof.Do(context.Background(), pprof.Labels("case", label), func(lctx context.Context) {
		go func() { // the instance and everything it spawns carry the label
			defer wg.Done()
			ctx, cancel := context.WithCancel(lctx)
			var procElem *schema.Process
			for i := range *defs.Processes() {
				procElem = &(*defs.Processes())[i]
			}
			opts := []bpmn.Option{bpmn.WithContext(ctx), bpmn.WithIdGenerator(sharedGen)}
			if pr.vars != nil {
				opts = append(opts, bpmn.WithVariables(pr.vars))
			}
			if pr.realTimers() {
				fan := event.NewFanOut()
				tr := tracing.NewTracer(ctx)
				b := event.DefinitionInstanceBuildingChain(timer.EventDefinitionInstanceBuilder(ctx, fan, tr))
				opts = append(opts, bpmn.WithTracer(tr), bpmn.WithProcessEventDefinitionInstanceBuilder(b), bpmn.WithEventEgress(fan), bpmn.WithEventIngress(fan))
			}
			p, err := bpmn.NewProcess(procElem, defs, opts...)
			must(err)
			ch := p.Tracer().SubscribeChannel(make(chan tracing.ITrace, 256))
			cancelled := make(chan struct{})
			var mu sync.Mutex
			var cancelAt time.Time
			closed := make(chan struct{})
			var once sync.Once
			doCancel := func(traces int) {
				once.Do(func() {
					mu.Lock()
					cancelAt = time.Now()
					o.traces = traces
					mu.Unlock()
					cancel()
					close(cancelled)
				})
			}
			auto := map[string]bool{}
			for _, a := range pr.auto {
				auto[a] = true
			}
			go func() { // the observer: counts traces, answers, cancels after k traces
				n := 0
				for tr := range ch {
					tr = tracing.Unwrap(tr)
					n++
					mu.Lock()
					o.totalTraces = n
					mu.Unlock()
					if tt, ok := tr.(bpmn.TaskTrace); ok {
						select {
						case <-cancelled:
							mu.Lock()
							if time.Since(cancelAt) > 2*time.Millisecond && tt.Context().Err() == nil {
								o.lateTasks++
							}
							mu.Unlock()
						default:
							if auto[nodeId(tt.GetActivity().Element())] {
								tt.Do()
							}
						}
					}
					if n == k {
						doCancel(n)
					}
				}
				close(closed)
			}()
			if k == 0 {
				doCancel(0)
			}
			p.StartAll(ctx)
			if pr.event != "" {
				time.Sleep(2 * time.Millisecond)
				done := make(chan struct{})
				go func() { p.ConsumeEvent(event.NewSignalEvent(pr.event)); close(done) }()
				select {
				case <-done:
				case <-time.After(2 * time.Second):
				}
			}
			// if the instance goes quiet before k traces, cancel anyway (the point "after everything so far")
			select {
			case <-cancelled:
			case <-time.After(60 * time.Millisecond):
				mu.Lock()
				n := o.totalTraces
				mu.Unlock()
				doCancel(n)
			}
			t0 := time.Now()
			wctx, wc := context.WithTimeout(context.Background(), 2*time.Second)
			p.WaitUntilComplete(wctx)
			wc()
			o.waitMs = time.Since(t0).Milliseconds()
			select {
			case <-p.Tracer().Done():
				o.tracerDone = true
			case <-time.After(2 * time.Second):
			}
			select {
			case <-closed:
				o.chClosed = true
			case <-time.After(500 * time.Millisecond):
			}
		}()
	})
	wg.Wait()
	// every goroutine of the case must be gone (the profile is sampled a few times: exits take a moment)
	deadline := time.Now().Add(1500 * time.Millisecond)
	for {
		o.left, o.leftStacks = c07Goroutines(label)
		if o.left == 0 || time.Now().After(deadline) {
			break
		}
		time.Sleep(20 * time.Millisecond)
	}
	return
}

func runC07(env *Env) {
	rep := &Report{Property: "C07",
		Rule: "corpus of programs covering the node kinds (task pending, parallel join half full, inclusive join with an untaken branch, loop with exclusive gateway, event-based gateway, catch event, nested sub-process, boundary listeners, timer) x cancellation after k traces (k = 0, 1, 2, ... up to the instance going quiet; every k in thorough, every third in quick); after the cancel: WaitUntilComplete returns within 500 ms, the tracer is done and closes the subscriber channel, no goroutine carrying the case's pprof label is left after 1.5 s, no task request with a live context arrives later; non-trivial = cancelled while at least one task or listener was waiting (k >= 6); distinct by (program, k)"}
	stepK := 3
	if env.Thorough() {
		stepK = 1
	}
	var items []string
	for pi, pr := range c07Corpus() {
		maxK := 80
		for k := 0; k <= maxK; k += stepK {
			if rep.Saturated() {
				break
			}
			label := fmt.Sprintf("c07-%d-%d", pi, k)
			cs := fmt.Sprintf("program [%s], cancel after %d traces", pr.name, k)
			env.Current(cs)
			o := c07Run(pr, k, label)
			rep.Evaluations++
			rep.Count(pr.name)
			if k >= 6 {
				rep.Nontrivial++
			}
			if o.waitMs > 500 {
				rep.Violate("C07-wait", cs, fmt.Sprintf("WaitUntilComplete returned after %d ms", o.waitMs))
			}
			if !o.tracerDone || !o.chClosed {
				rep.Violate("C07-tracer", cs, fmt.Sprintf("tracer done=%v, subscriber channel closed=%v; goroutines left: %s", o.tracerDone, o.chClosed, o.leftStacks))
			}
			if o.left > 0 {
				rep.Violate("C07-leak", cs, fmt.Sprintf("%d goroutines of the instance still alive 1.5 s after the cancel: %s", o.left, o.leftStacks))
			}
			if o.lateTasks > 0 {
				rep.Violate("C07-late-task", cs, fmt.Sprintf("%d task requests with a live context after the cancel", o.lateTasks))
			}
			items = append(items, fmt.Sprintf("(%d,%d,%d,%d)", b2i(o.tracerDone && o.chClosed), o.left, o.lateTasks, b2i(o.waitMs <= 500)))
			if len(rep.Samples) < 5 && k%9 == 6 {
				rep.Sample(fmt.Sprintf("%s -> cancelled at trace %d, wait %d ms, tracer done %v, channel closed %v, goroutines left %d", cs, o.traces, o.waitMs, o.tracerDone, o.chClosed, o.left))
			}
			if o.traces < k && k > 0 { // the instance went quiet before k traces: larger k repeat this point
				break
			}
		}
	}
	// static side: every blocking operation of the current sources must be a guarded select or a listed one
	// (the same check Coq does on Gen/Facts.v; repeated here to name the offending operation)
	if src, err := os.ReadFile("coq/Model/Shutdown.v"); err == nil {
		allowed := map[string]bool{}
		for _, m := range regexp.MustCompile(`\("((?:[^"]|"")*)"%string, \w+\)`).FindAllStringSubmatch(string(src), -1) {
			allowed[strings.ReplaceAll(m[1], `""`, `"`)] = true
		}
		fc := &factsCtx{repo: env.Repo, fset: token.NewFileSet()}
		for _, op := range censusAll(fc) {
			if op.Kind != "select-guarded" && !allowed[op.Key()] {
				rep.Violate("C07-unguarded-op", "source census", "blocking operation without an alternative that fires on cancellation, not among the listed non-blocking ones: "+op.Key())
			}
		}
		rep.Notes = append(rep.Notes, fmt.Sprintf("census: %d listed non-blocking operations", len(allowed)))
	}
	env.WriteCases(rep, "", "Corr.C07corr", "nat * nat * nat * nat", items, "c07_mismatches")
	env.WriteReport(rep)
}
