package main

import (
	"github.com/olive-io/bpmn/schema"
	"context"
	"fmt"
	"math/rand"
	"strings"
	"sync"
	"sync/atomic"
	"time"

	bpmn "github.com/olive-io/bpmn/v2"
	"github.com/olive-io/bpmn/v2/pkg/tracing"
)

func init() { commands["c02"] = runC02 }

// k start events, each s_i -> T_i -> e_i
func c02Prog(k int) *Prog {
	p := &Prog{}
	for i := 0; i < k; i++ {
		p.Node("start", fmt.Sprintf("s%d", i))
		p.Node("task", fmt.Sprintf("T%d", i))
		p.Node("end", fmt.Sprintf("e%d", i))
		p.Flow(fmt.Sprintf("s%d", i), fmt.Sprintf("T%d", i), "")
		p.Flow(fmt.Sprintf("T%d", i), fmt.Sprintf("e%d", i), "")
	}
	return p
}

// tracer wrapper: once armed, RegisterSender waits until a trace has been broadcast (or 30 ms):
// if the completion monitor subscribed only after the start event was triggered, the start
// event's traces would then be gone before it listens.
type delayTracer struct {
	tracing.ITracer
	armed int32
	seen  int32
}

func (d *delayTracer) RegisterSender() tracing.ISenderHandle {
	if atomic.LoadInt32(&d.armed) == 1 {
		dl := time.Now().Add(30 * time.Millisecond)
		for atomic.LoadInt32(&d.seen) == 0 && time.Now().Before(dl) {
			time.Sleep(200 * time.Microsecond)
		}
	}
	return d.ITracer.RegisterSender()
}

type c02Obs struct {
	waits      [][2]int // (pending tasks at the call, result 0/1)
	events     []int    // script order: 2 = a task answered (its branch ends), 0/1 = wait result
	startOK    bool
	ceases     int
	afterCease int // flow-related traces after the cease trace
	note       string
}

const (
	c02Short = 40 * time.Millisecond
)

func c02Wait(in *Inst, d time.Duration) bool {
	ctx, cancel := context.WithTimeout(context.Background(), d)
	defer cancel()
	return in.P.WaitUntilComplete(ctx)
}

// script ops: "w" short wait, "W" long wait, "a<i>" answer task i, "c" three concurrent long waiters + one short
func c02Run(k int, script []string, forceWindow bool) c02Obs {
	return c02RunMode(k, script, forceWindow, false)
}

// concurrentStart: every start event is started with StartWith from its own goroutine, all released together
// c02EarlyWait: before the instance is started a wait with an expired and one with a short context are issued; their
// results are not judged (before the start the question is empty), but they must not change what later waits say
var c02EarlyWait bool

func c02RunMode(k int, script []string, forceWindow bool, concurrentStart bool) c02Obs {
	obs := c02Obs{}
	defs, err := ParseDefs(c02Prog(k).XML(""))
	must(err)
	var dt *delayTracer
	opts := InstOpt{NoStart: true}
	ctx0 := context.Background()
	if forceWindow {
		dt = &delayTracer{ITracer: tracing.NewTracer(ctx0)}
		opts.Opts = []bpmn.Option{bpmn.WithTracer(dt)}
		opts.ForeignTracer = true
		opts.Raw = func(t tracing.ITrace) {
			if _, ok := t.(bpmn.FlowTrace); ok {
				atomic.StoreInt32(&dt.seen, 1)
			}
		}
	}
	in, err := StartInst(defs, opts)
	must(err)
	defer in.Close()
	if dt != nil {
		atomic.StoreInt32(&dt.armed, 1)
	}
	if c02EarlyWait {
		expired, c1 := context.WithCancel(context.Background())
		c1()
		in.P.WaitUntilComplete(expired)
		short, c2 := context.WithTimeout(context.Background(), 5*time.Millisecond)
		in.P.WaitUntilComplete(short)
		c2()
	}
	started := make(chan error, 1)
	if concurrentStart {
		go func() {
			var wg sync.WaitGroup
			gate := make(chan struct{})
			var firstErr error
			var emu sync.Mutex
			ses := in.P.Element().StartEvents()
			for i := range *ses {
				wg.Add(1)
				go func(i int) {
					defer wg.Done()
					<-gate
					if err := in.P.StartWith(in.Ctx, &(*ses)[i]); err != nil {
						emu.Lock()
						firstErr = err
						emu.Unlock()
					}
				}(i)
			}
			close(gate)
			wg.Wait()
			started <- firstErr
		}()
	} else {
		go func() { started <- in.P.StartAll(in.Ctx) }()
	}
	select {
	case err := <-started:
		obs.startOK = err == nil
	case <-time.After(tmoStep):
		obs.note = "StartAll did not return"
		return obs
	}
	if dt != nil {
		atomic.StoreInt32(&dt.armed, 0)
	}
	pending := k
	// all k requests must show up
	if !in.WaitUntil(tmoStep, func(l []Ev) bool { return countEv(l, "task", "*") >= k }) {
		obs.note = fmt.Sprintf("only %d of %d start branches requested their task", countEv(in.Log(), "task", "*"), k)
		return obs
	}
	for _, op := range script {
		switch {
		case op == "w":
			r := c02Wait(in, c02Short)
			obs.waits = append(obs.waits, [2]int{pending, b2i(r)})
			obs.events = append(obs.events, b2i(r))
		case op == "W":
			d := tmoStep
			if pending > 0 {
				d = c02Short
			}
			r := c02Wait(in, d)
			obs.waits = append(obs.waits, [2]int{pending, b2i(r)})
			obs.events = append(obs.events, b2i(r))
		case op == "c":
			var wg sync.WaitGroup
			res := make([]int, 4)
			for j := 0; j < 4; j++ {
				wg.Add(1)
				go func(j int) {
					defer wg.Done()
					d := tmoStep
					if pending > 0 || j == 3 {
						d = c02Short
					}
					res[j] = b2i(c02Wait(in, d))
				}(j)
			}
			wg.Wait()
			for j := 0; j < 4; j++ {
				obs.waits = append(obs.waits, [2]int{pending, res[j]})
				obs.events = append(obs.events, res[j])
			}
		case strings.HasPrefix(op, "a"):
			var i int
			fmt.Sscanf(op, "a%d", &i)
			if in.Answer(fmt.Sprintf("T%d", i), tmoStep) {
				pending--
				obs.events = append(obs.events, 2)
				// the branch runs to its end event
				want := k - pending
				in.WaitUntil(tmoStep, func(l []Ev) bool { return countEv(l, "complete", "*") >= want })
			}
		}
	}
	if pending == 0 {
		in.WaitCease(tmoStep)
	}
	time.Sleep(settle)
	log := in.Log()
	seenCease := false
	for _, e := range log {
		if e.K == "cease" {
			obs.ceases++
			seenCease = true
			continue
		}
		if seenCease {
			switch e.K {
			case "visit", "leave", "flow", "term", "complete", "task", "newflow":
				obs.afterCease++
			}
		}
	}
	return obs
}

func b2i(b bool) int {
	if b {
		return 1
	}
	return 0
}

func runC02(env *Env) {
	rep := &Report{Property: "C02",
		Rule: "processes with 1..3 start events (each start -> task -> end): scripts interleaving task answers (every order for k<=3) with WaitUntilComplete calls (short-timeout waits while tasks are pending, repeated waits, waits after a timed-out one, 3 concurrent waiters plus one short one), and a tracer wrapper that delays RegisterSender until a trace has been broadcast (forces the start/subscription window); also C03 loop programs with waits between answers; non-trivial = more than one start event or more than one wait; distinct by script"}
	rng := rand.New(rand.NewSource(env.Seed))
	var items []string
	var run func(k int, script []string, force bool)
	concStart := false
	run = func(k int, script []string, force bool) {
		if rep.Saturated() {
			return
		}
		cs := fmt.Sprintf("k=%d start events, script=%v, forced-window=%v, concurrent-StartWith=%v, waits-before-the-start=%v", k, script, force, concStart, c02EarlyWait)
		env.Current(cs)
		o := c02RunMode(k, script, force, concStart)
		rep.Evaluations++
		rep.Count(fmt.Sprintf("k%d_force%v", k, force))
		if k > 1 || len(o.waits) > 1 {
			rep.Nontrivial++
		}
		if o.note != "" {
			rep.Violate("C02-start", cs, o.note)
			return
		}
		finalPending := k
		for _, op := range script {
			if strings.HasPrefix(op, "a") {
				finalPending--
			}
		}
		for i, w := range o.waits {
			if w[0] > 0 && w[1] == 1 {
				rep.Violate("C02-early-completion", cs, fmt.Sprintf("wait #%d returned true while %d task requests were unanswered", i, w[0]))
			}
		}
		// waits issued with a long timeout after the last token must return true: the script runner uses
		// the long timeout exactly when pending == 0 (except the 4th concurrent waiter, which is short but
		// still must succeed at once when the instance is already complete ... unless the lock is contended)
		for i, w := range o.waits {
			if w[0] == 0 && w[1] == 0 {
				rep.Violate("C02-no-completion", cs, fmt.Sprintf("wait #%d returned false although every token was gone (waits so far %v)", i, o.waits))
				break
			}
		}
		expC := 0
		if finalPending == 0 {
			expC = 1
		}
		if o.ceases != expC {
			rep.Violate("C02-cease", cs, fmt.Sprintf("%d cease-flow traces, expected %d", o.ceases, expC))
		}
		if o.afterCease > 0 {
			rep.Violate("C02-cease", cs, fmt.Sprintf("%d flow traces after the cease-flow trace", o.afterCease))
		}
		items = append(items, fmt.Sprintf("(%d,%s,%d,%d)", k, natList(o.events), o.ceases, o.afterCease))
		if k == 2 && len(o.waits) > 2 {
			rep.Sample(fmt.Sprintf("%s -> waits (pending,result)=%v ceases=%d", cs, o.waits, o.ceases))
		}
	}
	for k := 1; k <= 3; k++ {
		for _, ord := range perms(k) {
			// waits between all answers
			s := []string{"w"}
			for _, i := range ord {
				s = append(s, fmt.Sprintf("a%d", i), "W")
			}
			s = append(s, "W", "c")
			run(k, s, false)
			// concurrent waiters before the last answer, timed-out wait then repeated
			s2 := []string{}
			for j, i := range ord {
				if j == len(ord)-1 {
					s2 = append(s2, "c", "w")
				}
				s2 = append(s2, fmt.Sprintf("a%d", i))
			}
			s2 = append(s2, "W", "W")
			run(k, s2, false)
		}
		run(k, append(func() []string {
			s := []string{}
			for i := 0; i < k; i++ {
				s = append(s, fmt.Sprintf("a%d", i))
			}
			return s
		}(), "W"), true)
		run(k, []string{"w", "a0"}, true) // incomplete: no cease
	}
	// a fork whose continuing branch ends at once while the forked token is still being set up (slow id
	// generator): the instance must not be reported complete before the forked branch's task is answered
	for rep2 := 0; rep2 < 3 && !rep.Saturated(); rep2++ {
		cs := fmt.Sprintf("fork {end at once | task}, slow flow creation, repetition %d", rep2)
		env.Current(cs)
		p := &Prog{}
		p.Node("start", "start")
		p.Node("par", "F")
		p.Node("end", "e1")
		p.Node("task", "A")
		p.Node("end", "e2")
		p.Flow("start", "F", "")
		p.Flow("F", "e1", "")
		p.Flow("F", "A", "")
		p.Flow("A", "e2", "")
		defs, err := ParseDefs(p.XML(""))
		must(err)
		in, err := StartInst(defs, InstOpt{Opts: []bpmn.Option{bpmn.WithIdGenerator(slowGen{4 * time.Millisecond})}})
		must(err)
		rep.Evaluations++
		rep.Nontrivial++
		rep.Count("fork_end_at_once")
		early := c02Wait(in, 60*time.Millisecond)
		if early {
			rep.Violate("C02-early-completion", cs, "WaitUntilComplete returned true while the forked branch's task had not even been requested; log: "+logString(in.Log()))
		}
		if !in.Answer("A", tmoStep) {
			rep.Violate("C02-no-completion", cs, "the forked branch's task was never requested; log: "+logString(in.Log()))
		} else if !c02Wait(in, tmoStep) {
			rep.Violate("C02-no-completion", cs, "wait returned false although every token was gone; log: "+logString(in.Log()))
		}
		time.Sleep(settle)
		log := in.Log()
		ceases, after := 0, 0
		for _, e := range log {
			if e.K == "cease" {
				ceases++
			} else if ceases > 0 && (e.K == "flow" || e.K == "task" || e.K == "visit") {
				after++
			}
		}
		if ceases != 1 || after > 0 {
			rep.Violate("C02-cease", cs, fmt.Sprintf("%d cease-flow traces (expected 1), %d flow/visit/task traces after the first; log: %s", ceases, after, logString(log)))
		}
		in.Close()
	}
	// every start event started by its own goroutine through StartWith, with the forced window
	concStart = true
	for k := 2; k <= 3; k++ {
		for r := 0; r < 3; r++ {
			s := []string{}
			for i := 0; i < k; i++ {
				s = append(s, fmt.Sprintf("a%d", i))
			}
			run(k, append(s, "W"), true)
			run(k, append(s, "W"), false)
		}
	}
	concStart = false
	// waits issued before the instance is started (one on an expired context, one that times out) do not change
	// what the waits after the start say
	c02EarlyWait = true
	run(1, []string{"w", "w", "a0", "W", "W"}, false)
	run(2, []string{"w", "a0", "w", "a1", "W"}, false)
	run(2, []string{"w", "a1", "c", "a0", "W"}, true)
	c02EarlyWait = false
	// repetitions of the bare start/complete cycle: natural schedules of the start-up window
	reps := 60
	if env.Thorough() {
		reps = 1500
	}
	for i := 0; i < reps; i++ {
		k := 1 + rng.Intn(2)
		s := []string{}
		for j := 0; j < k; j++ {
			s = append(s, fmt.Sprintf("a%d", j))
		}
		run(k, append(s, "W"), false)
	}
	// completion is not reported while a token is still inside a sub-process that another token has already left
	// (two tokens in one sub-process at overlapping times: the activations' monitors must not see each other's end)
	twoTokensOneSubProcess(env, rep, "C02-early-completion", 8)
	c02SharedTracer(env, rep, 4)
	sitems := c02PartialStarts(env, rep)
	env.WriteCases(rep, "_starts", "Corr.C02corr", "nat * list (nat * nat) * nat", sitems, "c02_start_mismatches")
	env.WriteCases(rep, "", "Corr.C02corr", "nat * list nat * nat * nat", items, "c02_mismatches")
	env.WriteReport(rep)
}

// c02SharedTracer: two instances on ONE tracer (an application-wide tracer given with WithTracer). Instance A has two
// start events that are fired one at a time; while only the first has fired and its token is gone, instance B starts,
// runs and completes. A is not complete before its second start event has fired and that token is consumed, and it
// emits exactly one cease-flow trace.
func c02SharedTracer(env *Env, rep *Report, rounds int) {
	for r := 0; r < rounds && !rep.Saturated(); r++ {
		cs := fmt.Sprintf("two instances on one shared tracer; A's two start events fired one at a time, B runs in between (round %d)", r)
		env.Current(cs)
		ctx, cancel := context.WithCancel(context.Background())
		tr := tracing.NewTracer(ctx)
		defsA, err := ParseDefs(c02Prog(2).XML(""))
		must(err)
		pb := &Prog{}
		pb.Node("start", "bs")
		pb.Node("task", "BT")
		pb.Node("end", "be")
		pb.Flow("bs", "BT", "")
		pb.Flow("BT", "be", "")
		defsB, err := ParseDefs(pb.XML(""))
		must(err)
		mk := func(defs *schema.Definitions) *bpmn.Process {
			var pe *schema.Process
			for i := range *defs.Processes() {
				pe = &(*defs.Processes())[i]
			}
			p, err := bpmn.NewProcess(pe, defs, bpmn.WithContext(ctx), bpmn.WithTracer(tr), bpmn.WithIdGenerator(sharedGen))
			must(err)
			return p
		}
		A, B := mk(defsA), mk(defsB)
		// one observer of the shared tracer: task requests by node id, cease-flow traces by instance
		var mu sync.Mutex
		tasks := map[string]bpmn.TaskTrace{}
		ceases := map[string]int{}
		ch := tr.SubscribeChannel(make(chan tracing.ITrace, 256))
		go func() {
			for t := range ch {
				inst := ""
				if it, ok := t.(bpmn.InstanceTrace); ok {
					inst = it.InstanceId.String()
				}
				switch x := tracing.Unwrap(t).(type) {
				case bpmn.TaskTrace:
					mu.Lock()
					tasks[nodeId(x.GetActivity().Element())] = x
					mu.Unlock()
				case bpmn.CeaseFlowTrace:
					mu.Lock()
					ceases[inst]++
					mu.Unlock()
				}
			}
		}()
		answer := func(node string) bool {
			dl := time.Now().Add(tmoStep)
			for time.Now().Before(dl) {
				mu.Lock()
				t, ok := tasks[node]
				delete(tasks, node)
				mu.Unlock()
				if ok {
					t.Do()
					return true
				}
				time.Sleep(200 * time.Microsecond)
			}
			return false
		}
		complete := func(p *bpmn.Process, d time.Duration) bool {
			c, cc := context.WithTimeout(context.Background(), d)
			defer cc()
			return p.WaitUntilComplete(c)
		}
		rep.Evaluations++
		rep.Nontrivial++
		rep.Count("shared_tracer")
		fail := func(key, msg string) { rep.Violate(key, cs, msg) }
		ses := A.Element().StartEvents()
		ok := true
		if err := A.StartWith(ctx, &(*ses)[0]); err != nil || !answer("T0") {
			fail("C02-start", "A: first start event / its task did not run")
			ok = false
		}
		if ok {
			time.Sleep(5 * time.Millisecond)
			if err := B.StartAll(ctx); err != nil || !answer("BT") || !complete(B, tmoStep) {
				fail("C02-no-completion", "B (one start event, one task) did not complete on the shared tracer")
				ok = false
			}
		}
		if ok {
			if complete(A, 150*time.Millisecond) {
				fail("C02-early-completion", "A reported completion although its second start event has not fired (another instance on the same tracer started and completed meanwhile)")
				ok = false
			}
		}
		if ok {
			if err := A.StartWith(ctx, &(*ses)[1]); err != nil || !answer("T1") || !complete(A, tmoStep) {
				fail("C02-no-completion", "A did not complete after its second start event fired and its task was answered")
				ok = false
			}
		}
		if ok {
			time.Sleep(5 * time.Millisecond)
			mu.Lock()
			n := 0
			for _, c := range ceases {
				n += c
			}
			mu.Unlock()
			if n != 2 {
				fail("C02-cease", fmt.Sprintf("%d cease-flow traces for two instances, expected one each", n))
			}
		}
		cancel()
	}
}

// c02PartialStarts: processes with 2..3 start events, each leading straight to an end event, into a sub-process or
// into a sub-process that contains another one; the start events are started one at a time with StartWith (some of
// them twice, some never). After every start the driver waits until nothing moves any more and asks: complete is
// reported if and only if every start event of the process has fired by then -- the inner start events of the
// sub-processes, whose traces pass through the same stream, and repeated starts do not count. Every answer is also
// replayed against the model of the monitor's first phase (Model/StartCount.v).
func c02PartialStarts(env *Env, rep *Report) (items []string) {
	type sc struct {
		shapes []int // per start event: 0 = end event, 1 = sub-process, 2 = sub-process in a sub-process
		starts []int
	}
	scs := []sc{
		{[]int{1, 0}, []int{0, 1}}, {[]int{1, 0}, []int{0, 0, 1}}, {[]int{0, 1}, []int{0, 0, 1}}, {[]int{2, 0}, []int{0, 1}},
		{[]int{1, 1}, []int{1, 1, 0}}, {[]int{0, 0}, []int{1, 1, 0}}, {[]int{2, 1, 0}, []int{0, 1, 2}}, {[]int{1, 2, 0}, []int{1, 0, 0, 2}},
		{[]int{0, 0, 2}, []int{2, 2, 1, 0}}, {[]int{1, 0, 1}, []int{2, 0, 1}},
		{[]int{0, 0, 0}, []int{0, 1, 0, 2}}, {[]int{1, 0, 0}, []int{2, 0, 2, 0, 1}}, {[]int{0, 1, 0}, []int{1, 2, 1, 2, 1, 0}},
	}
	for si, c := range scs {
		if rep.Saturated() {
			break
		}
		k := len(c.shapes)
		p := &Prog{}
		for i, sh := range c.shapes {
			a := fmt.Sprintf("A%d", i)
			p.Node("start", a)
			prev := a
			if sh >= 1 {
				h := p.Node("sub", fmt.Sprintf("S%d", i))
				h.Sub = &Prog{nflow: 500 + 50*i}
				h.Sub.Node("start", fmt.Sprintf("ss%d", i))
				in := fmt.Sprintf("ss%d", i)
				if sh == 2 {
					n := h.Sub.Node("sub", fmt.Sprintf("N%d", i))
					n.Sub = &Prog{nflow: 800 + 50*i}
					n.Sub.Node("start", fmt.Sprintf("ns%d", i))
					n.Sub.Node("end", fmt.Sprintf("ne%d", i))
					n.Sub.Flow(fmt.Sprintf("ns%d", i), fmt.Sprintf("ne%d", i), "")
					h.Sub.Flow(in, fmt.Sprintf("N%d", i), "")
					in = fmt.Sprintf("N%d", i)
				}
				h.Sub.Node("end", fmt.Sprintf("se%d", i))
				h.Sub.Flow(in, fmt.Sprintf("se%d", i), "")
				p.Flow(prev, fmt.Sprintf("S%d", i), "")
				prev = fmt.Sprintf("S%d", i)
			}
			p.Node("end", fmt.Sprintf("end%d", i))
			p.Flow(prev, fmt.Sprintf("end%d", i), "")
		}
		defs, err := ParseDefs(p.XML(""))
		must(err)
		in, err := StartInst(defs, InstOpt{NoStart: true})
		must(err)
		started := map[int]bool{}
		for step, a := range c.starts {
			cs := fmt.Sprintf("process %d: %d start events (0 = to an end event, 1 = into a sub-process, 2 = into a sub-process in a sub-process: %v), started one at a time: %v", si, k, c.shapes, c.starts[:step+1])
			env.Current(cs)
			el, found := defs.FindBy(schema.ExactId(fmt.Sprintf("A%d", a)))
			if !found {
				break
			}
			must(in.P.StartWith(in.Ctx, el.(schema.FlowNodeInterface)))
			started[a] = true
			// until nothing moves any more
			for quiet, last := 0, -1; quiet < 5; {
				time.Sleep(8 * time.Millisecond)
				if n := len(in.Log()); n == last {
					quiet++
				} else {
					quiet, last = 0, n
				}
			}
			all := len(started) == k
			d := 250 * time.Millisecond
			if all {
				d = tmoStep
			}
			verdict := c02Wait(in, d)
			rep.Evaluations++
			rep.Nontrivial++
			rep.Count("partial_starts")
			var tr []string
			for _, e := range in.Log() {
				if (e.K == "flow" || e.K == "term") && len(e.N) > 1 {
					var i int
					switch {
					case e.N[0] == 'A':
						fmt.Sscanf(e.N[1:], "%d", &i)
						tr = append(tr, fmt.Sprintf("(0,%d)", i))
					case strings.HasPrefix(e.N, "ss") || strings.HasPrefix(e.N, "ns"):
						fmt.Sscanf(e.N[2:], "%d", &i)
						tr = append(tr, fmt.Sprintf("(1,%d)", i))
					}
				}
			}
			items = append(items, fmt.Sprintf("(%d,[%s],%d)", k, strings.Join(tr, ";"), b2i(verdict)))
			if verdict != all {
				rep.Violate(map[bool]string{true: "C02-early-completion", false: "C02-no-completion"}[verdict], cs,
					fmt.Sprintf("nothing moves any more, %d of %d start events have fired: WaitUntilComplete = %v; log: %s", len(started), k, verdict, logString(in.Log())))
			}
			if verdict {
				break
			}
		}
		in.Close()
	}
	return
}
