package main

import (
	"context"
	"fmt"
	"math/rand"
	"runtime"
	"sort"
	"strings"
	"time"

	"github.com/olive-io/bpmn/schema"
	bpmn "github.com/olive-io/bpmn/v2"
	"github.com/olive-io/bpmn/v2/pkg/clock"
	"github.com/olive-io/bpmn/v2/pkg/event"
	"github.com/olive-io/bpmn/v2/pkg/timer"
	"github.com/olive-io/bpmn/v2/pkg/tracing"
)

func init() { commands["c13"] = runC13 }

// recording clock: every Until call is reported, which gives a sleep-free quiescence test
type recClock struct {
	*clock.Mock
	calls chan time.Time
}

func (c *recClock) Until(t time.Time) <-chan time.Time {
	ch := c.Mock.Until(t)
	c.calls <- t
	return ch
}

var c13Base = time.Date(2030, 1, 1, 0, 0, 0, 0, time.UTC)

func c13T(sec int) time.Time { return c13Base.Add(time.Duration(sec) * time.Second) }

// timer definition: kind 0 = date(due), 1 = duration(due relative to creation), 2 = cycle
type c13Def struct {
	kind           int
	due            int // kind 0/1: absolute seconds
	start, iv, end int // cycle; start < 0: none (=creation time); end < 0: none
	reps           int // -1 unbounded
	now0           int
	endAsStartEnd  bool // form R/start/end (interval = end-start)
}

func (d c13Def) expr() (schema.TimerEventDefinition, string) {
	def := schema.DefaultTimerEventDefinition()
	e := schema.AnExpression{}
	fe := schema.DefaultFormalExpression()
	var s string
	ts := func(sec int) string { return c13T(sec).Format("2006-01-02T15:04:05Z") }
	switch d.kind {
	case 0:
		s = ts(d.due)
	case 1:
		s = fmt.Sprintf("PT%dS", d.due-d.now0)
	case 2:
		r := "R"
		if d.reps >= 0 {
			r = fmt.Sprintf("R%d", d.reps)
		}
		switch {
		case d.start >= 0 && d.end >= 0 && d.endAsStartEnd:
			s = fmt.Sprintf("%s/%s/%s", r, ts(d.start), ts(d.end))
		case d.start >= 0:
			s = fmt.Sprintf("%s/%s/PT%dS", r, ts(d.start), d.iv)
		case d.end >= 0:
			s = fmt.Sprintf("%s/PT%dS/%s", r, d.iv, ts(d.end))
		default:
			s = fmt.Sprintf("%s/PT%dS", r, d.iv)
		}
	}
	fe.SetTextPayload(s)
	e.Expression = &fe
	switch d.kind {
	case 0:
		def.SetTimeDate(&e)
	case 1:
		def.SetTimeDuration(&e)
	case 2:
		def.SetTimeCycle(&e)
	}
	return def, s
}

type c13Out struct {
	fires  []int // clock value (seconds) at which each firing was delivered to the consumer
	closed bool
	stuck  string
	late   int // firings observed after cancellation
}

// ops: >= 0 : Set clock to that second; -1 : cancel
func c13Run(d c13Def, ops []int) c13Out {
	out := c13Out{}
	base := runtime.NumGoroutine()
	mock := clock.NewMockAt(c13T(d.now0))
	rc := &recClock{Mock: mock, calls: make(chan time.Time, 1024)}
	ctx, cancel := context.WithCancel(context.Background())
	defer cancel()
	def, _ := d.expr()
	ch, err := timer.New(ctx, rc, def)
	if err != nil {
		out.stuck = "timer.New: " + err.Error()
		return out
	}
	now := d.now0
	hasEnd := d.kind == 2 && d.end >= 0 && !(d.start >= 0 && d.endAsStartEnd && false)
	armLen := func(first bool) int {
		if d.kind != 2 || first {
			return 1
		}
		if hasEnd {
			return 2
		}
		return 1
	}
	var armed []time.Time
	first := true
	need := armLen(true)
	cancelled := false
	settleLoop := func() {
		for !out.closed {
			select {
			case v, ok := <-ch:
				if !ok {
					out.closed = true
					return
				}
				_ = v
				out.fires = append(out.fires, now)
			case t := <-rc.calls:
				armed = append(armed, t)
				need--
				if need == 0 {
					ready := false
					for _, a := range armed {
						if !a.After(c13T(now)) {
							ready = true
						}
					}
					armed = nil
					if first {
						first = false
					}
					if !ready {
						// blocked: remember what it waits for
						return
					}
					if d.kind != 2 {
						need = 1 << 30 // one-shot: fires, closes
					} else {
						need = armLen(false)
					}
				}
			case <-time.After(tmoStep):
				out.stuck = fmt.Sprintf("timer goroutine neither re-armed, fired nor closed at t=%d", now)
				return
			}
		}
	}
	// what the blocked goroutine waits for
	var waiting []int
	recordWaiting := func() {
		waiting = nil
		// reconstruct from the definition: we only need to know whether a Set wakes it
	}
	_ = recordWaiting
	// track wake times ourselves: the goroutine blocks on the times of its last arm sequence
	lastArm := []time.Time{}
	wrapSettle := func() {
		// capture armed times of the final (blocking) arm sequence
		for !out.closed {
			select {
			case v, ok := <-ch:
				if !ok {
					out.closed = true
					return
				}
				_ = v
				out.fires = append(out.fires, now)
			case t := <-rc.calls:
				armed = append(armed, t)
				need--
				if need == 0 {
					ready := false
					for _, a := range armed {
						if !a.After(c13T(now)) {
							ready = true
						}
					}
					if first {
						first = false
					}
					if !ready {
						lastArm = armed
						armed = nil
						return
					}
					armed = nil
					if d.kind != 2 {
						need = 1 << 30
					} else {
						need = armLen(false)
					}
				}
			case <-time.After(tmoStep):
				out.stuck = fmt.Sprintf("timer goroutine neither re-armed, fired nor closed at t=%d", now)
				return
			}
		}
	}
	_ = settleLoop
	_ = waiting
	wrapSettle()
	for _, o := range ops {
		if out.stuck != "" {
			break
		}
		if o == -1 {
			if !cancelled {
				cancelled = true
				cancel()
				// wait until the timer goroutines are gone (deterministic: nothing else runs here)
				dl := time.Now().Add(2 * time.Second)
				for runtime.NumGoroutine() > base && time.Now().Before(dl) {
					time.Sleep(200 * time.Microsecond)
				}
				// drain a close that the cancellation produced
				select {
				case _, ok := <-ch:
					if !ok {
						out.closed = true
					} else {
						out.late++
					}
				default:
				}
			}
			continue
		}
		now = o
		mock.Set(c13T(o))
		if cancelled || out.closed {
			continue
		}
		wake := false
		for _, a := range lastArm {
			if !a.After(c13T(now)) {
				wake = true
			}
		}
		if wake {
			lastArm = nil
			need = armLen(false)
			if d.kind != 2 {
				need = 1 << 30
			}
			wrapSettle()
		}
	}
	if cancelled {
		time.Sleep(2 * time.Millisecond)
		for {
			select {
			case _, ok := <-ch:
				if ok {
					out.late++
					continue
				}
				out.closed = true
			default:
			}
			break
		}
	}
	return out
}

// direct oracle: the property on the observed firing times
func c13Oracle(d c13Def, ops []int, o c13Out) string {
	if o.late > 0 {
		return fmt.Sprintf("%d firings after cancellation", o.late)
	}
	lo := d.due
	iv := 0
	bound := 1
	end := -1
	if d.kind == 2 {
		st := d.start
		if st < 0 {
			st = d.now0
		}
		iv = d.iv
		if d.start >= 0 && d.end >= 0 && d.endAsStartEnd {
			iv = d.end - d.start
		}
		lo = st + iv
		bound = d.reps
		end = d.end
	}
	for i, f := range o.fires {
		if f < lo {
			return fmt.Sprintf("firing %d at t=%d before its due time %d", i, f, lo)
		}
		if end >= 0 && f >= end {
			return fmt.Sprintf("firing %d at t=%d not before the end bound %d", i, f, end)
		}
		lo = f + iv
	}
	if bound >= 0 && len(o.fires) > bound {
		return fmt.Sprintf("%d firings, definition allows %d", len(o.fires), bound)
	}
	// one-shot must have fired once the clock reached the due time without cancellation before
	if d.kind != 2 {
		reached := d.now0 >= d.due
		for _, op := range ops {
			if op == -1 {
				break
			}
			if op >= d.due {
				reached = true
			}
		}
		if reached && len(o.fires) != 1 {
			return fmt.Sprintf("clock reached the due time %d but the timer fired %d times", d.due, len(o.fires))
		}
	}
	return ""
}

func (d c13Def) coq() string {
	if d.kind != 2 {
		return fmt.Sprintf("(%d, One %d)", d.now0, d.due)
	}
	st := d.start
	if st < 0 {
		st = d.now0
	}
	iv := d.iv
	if d.start >= 0 && d.end >= 0 && d.endAsStartEnd {
		iv = d.end - d.start
	}
	e := "None"
	if d.end >= 0 {
		e = fmt.Sprintf("(Some %d)", d.end)
	}
	return fmt.Sprintf("(%d, CycA %d %d %s (%d))", d.now0, st, iv, e, d.reps)
}

func c13Process(rep *Report) {
	// start -> A -> catch(timer PT60S) -> B -> end ; histories over {answer A, advance}
	p := &Prog{}
	p.Node("start", "start")
	p.Node("task", "A")
	c := p.Node("catch", "C")
	c.Inner = `<bpmn:timerEventDefinition id="td"><bpmn:timeDuration xsi:type="bpmn:tFormalExpression">PT60S</bpmn:timeDuration></bpmn:timerEventDefinition>`
	p.Node("task", "B")
	p.Node("end", "end")
	p.Flow("start", "A", "")
	p.Flow("A", "C", "")
	p.Flow("C", "B", "")
	p.Flow("B", "end", "")
	xmlText := p.XML("")
	// history: list of steps "a" (answer A and wait until the catch event listens), number = advance seconds
	hists := [][]string{{"a", "59", "60"}, {"a", "30", "300"}, {"a", "60", "120"}, {"61", "a", "200"}, {"a", "10", "20", "59"}}
	for _, h := range hists {
		defs, err := ParseDefs(xmlText)
		must(err)
		mock := clock.NewMockAt(c13T(0))
		ctx0 := clock.ToContext(context.Background(), mock)
		fan := event.NewFanOut()
		tr := tracing.NewTracer(ctx0)
		b := event.DefinitionInstanceBuildingChain(timer.EventDefinitionInstanceBuilder(ctx0, fan, tr))
		in, err := StartInst(defs, InstOpt{ForeignTracer: true, Opts: []bpmn.Option{bpmn.WithContext(ctx0), bpmn.WithTracer(tr),
			bpmn.WithProcessEventDefinitionInstanceBuilder(b), bpmn.WithEventEgress(fan), bpmn.WithEventIngress(fan)}})
		must(err)
		listening := false
		firedWhileListening := false
		for _, s := range h {
			if s == "a" {
				if !in.Answer("A", tmoStep) {
					rep.Violate("C13-process", fmt.Sprint(h), "A not requested")
				}
				in.WaitUntil(tmoStep, func(l []Ev) bool { return countEv(l, "listening", "C") > 0 })
				listening = true
				continue
			}
			var sec int
			fmt.Sscan(s, &sec)
			mock.Set(c13T(sec))
			if sec >= 60 && listening {
				firedWhileListening = true
			}
			if sec >= 60 {
				// give the timer event time to travel (goroutine hops); absence is checked at the end
				if listening && firedWhileListening {
					in.WaitUntil(tmoStep, func(l []Ev) bool { return countEv(l, "task", "B") > 0 })
				}
			}
		}
		time.Sleep(settle)
		nB := countEv(in.Log(), "task", "B")
		exp := 0
		if firedWhileListening {
			exp = 1
		}
		// one firing only ever (duration timer): the firing counts iff the catch event was listening
		// at that moment; a firing before arming is dropped.
		firstFire := -1
		listenAt := -1
		for i, s := range h {
			if s == "a" && listenAt < 0 {
				listenAt = i
			} else if s != "a" {
				var sec int
				fmt.Sscan(s, &sec)
				if sec >= 60 && firstFire < 0 {
					firstFire = i
				}
			}
		}
		exp = 0
		if firstFire >= 0 && listenAt >= 0 && listenAt < firstFire {
			exp = 1
		}
		rep.Evaluations++
		rep.Nontrivial++
		rep.Count("process_timer_catch")
		if nB != exp {
			rep.Violate("C13-process", "timer catch PT60S history="+strings.Join(h, ","), fmt.Sprintf("B requested %d times, expected %d; log: %s", nB, exp, logString(in.Log())))
		}
		in.Close()
	}
	// two instances made from the same definitions with the same timer builder at different clock times: each has
	// a timer of its own (due 60 s after its own creation)
	{
		cs := "two instances from one definitions value and one timer builder, created at T0 and T0+30s"
		defs, err := ParseDefs(xmlText)
		must(err)
		mock := clock.NewMockAt(c13T(0))
		ctx0 := clock.ToContext(context.Background(), mock)
		fan := event.NewFanOut()
		tr := tracing.NewTracer(ctx0)
		b := event.DefinitionInstanceBuildingChain(timer.EventDefinitionInstanceBuilder(ctx0, fan, tr))
		mk := func() *Inst {
			in, err := StartInst(defs, InstOpt{ForeignTracer: true, Opts: []bpmn.Option{bpmn.WithContext(ctx0), bpmn.WithTracer(tracing.NewTracer(ctx0)),
				bpmn.WithProcessEventDefinitionInstanceBuilder(b), bpmn.WithEventEgress(fan), bpmn.WithEventIngress(fan)}})
			must(err)
			return in
		}
		in1 := mk()
		mock.Set(c13T(30))
		in2 := mk()
		for _, in := range []*Inst{in1, in2} {
			in.Answer("A", tmoStep)
			in.WaitUntil(tmoStep, func(l []Ev) bool { return countEv(l, "listening", "C") > 0 })
		}
		mock.Set(c13T(60))
		in1.WaitUntil(tmoStep, func(l []Ev) bool { return countEv(l, "task", "B") > 0 })
		time.Sleep(settle)
		b1, b2 := countEv(in1.Log(), "task", "B"), countEv(in2.Log(), "task", "B")
		if b1 != 1 || b2 != 0 {
			rep.Violate("C13-process", cs, fmt.Sprintf("at T0+60s: first instance continued %d times (expected 1), second %d times (expected 0: its timer is due at T0+90s)", b1, b2))
		}
		mock.Set(c13T(90))
		in2.WaitUntil(tmoStep, func(l []Ev) bool { return countEv(l, "task", "B") > 0 })
		time.Sleep(settle)
		b1, b2 = countEv(in1.Log(), "task", "B"), countEv(in2.Log(), "task", "B")
		if b1 != 1 || b2 != 1 {
			rep.Violate("C13-process", cs, fmt.Sprintf("at T0+90s: first instance continued %d times, second %d times (expected 1 and 1)", b1, b2))
		}
		rep.Evaluations++
		rep.Nontrivial++
		rep.Count("process_timer_two_instances")
		in1.Close()
		in2.Close()
	}
}

func runC13(env *Env) {
	rep := &Report{Property: "C13",
		Rule: "timer definitions (date, duration, cycle R{0..3,unbounded} with/without start and end, 3 syntactic forms) x clock operation sequences drawn from the grid {just before, at, just after, far beyond each due/end time, backwards} with cancellation at each step; quiescence by a recording clock wrapper; non-trivial = at least one firing or a cancellation; distinct by (definition, ops)"}
	rng := rand.New(rand.NewSource(env.Seed))
	nCases := 350
	maxOps := 5
	if env.Thorough() {
		nCases = 4000
		maxOps = 7
	}
	var items []string
	seen := map[string]bool{}
	for len(items) < nCases {
		var d c13Def
		// timers are made at different clock times (the same definition text made at another time is another timer)
		base := 100 + 40*rng.Intn(3)
		d.now0 = base
		switch rng.Intn(5) {
		case 0:
			d.kind, d.due = 0, base+rng.Intn(20)-3
		case 1:
			d.kind, d.due = 1, base+1+rng.Intn(20)
		default:
			d.kind = 2
			d.reps = rng.Intn(5) - 1
			d.iv = 1 + rng.Intn(6)
			d.start, d.end = -1, -1
			if rng.Intn(2) == 0 {
				d.start = base + rng.Intn(12) - 2
			}
			if rng.Intn(3) == 0 {
				if d.start < 0 {
					d.end = base + 1 + rng.Intn(25)
				} else { // R/start/end form: the interval is end-start
					d.end = d.start + 1 + rng.Intn(8)
					d.endAsStartEnd = true
				}
			}
		}
		// grid of interesting instants
		grid := []int{}
		add := func(x int) {
			for _, dlt := range []int{-1, 0, 1} {
				if x+dlt >= 0 {
					grid = append(grid, x+dlt)
				}
			}
		}
		if d.kind != 2 {
			add(d.due)
		} else {
			st := d.start
			if st < 0 {
				st = d.now0
			}
			iv := d.iv
			if d.endAsStartEnd {
				iv = d.end - d.start
			}
			add(st)
			for k := 1; k <= 4; k++ {
				add(st + k*iv)
			}
			if d.end >= 0 {
				add(d.end)
			}
		}
		grid = append(grid, 1000, 2000, base-10)
		n := 1 + rng.Intn(maxOps)
		ops := []int{}
		cur := d.now0
		for i := 0; i < n; i++ {
			r := rng.Intn(12)
			switch {
			case r == 0:
				ops = append(ops, -1)
			case r <= 2:
				cur = grid[rng.Intn(len(grid))] // anywhere, possibly backwards
				ops = append(ops, cur)
			default:
				// mostly forward moves along the grid
				cands := []int{}
				for _, g := range grid {
					if g > cur {
						cands = append(cands, g)
					}
				}
				if len(cands) == 0 {
					cur = cur + 1 + rng.Intn(5)
				} else {
					cur = cands[rng.Intn(len(cands))]
					for _, g := range cands { // prefer near ones
						if g < cur && rng.Intn(2) == 0 {
							cur = g
						}
					}
				}
				ops = append(ops, cur)
			}
		}
		_, expr := d.expr()
		key := fmt.Sprint(expr, d.now0, ops)
		if seen[key] {
			continue
		}
		seen[key] = true
		env.Current("timer " + expr + " created at t=100, ops " + fmt.Sprint(ops))
		o := c13Run(d, ops)
		rep.Evaluations++
		rep.Count(fmt.Sprintf("kind%d_reps%d_end%v_fires%d", d.kind, d.reps, d.end >= 0, len(o.fires)))
		hasCancel := false
		for _, x := range ops {
			if x == -1 {
				hasCancel = true
			}
		}
		if len(o.fires) > 0 || hasCancel {
			rep.Nontrivial++
		}
		cs := fmt.Sprintf("timer %q created at t=%d, ops(set clock to second / -1=cancel)=%v", expr, d.now0, ops)
		if o.stuck != "" {
			rep.Violate("C13-stuck", cs, o.stuck)
		}
		if msg := c13Oracle(d, ops, o); msg != "" {
			rep.Violate("C13-firing", cs, msg+fmt.Sprintf(" (fired at %v)", o.fires))
		}
		opsC := []string{}
		for _, x := range ops {
			if x == -1 {
				opsC = append(opsC, "Cancel")
			} else {
				opsC = append(opsC, fmt.Sprintf("Advance %d", x))
			}
		}
		fz := []string{}
		for _, f := range o.fires {
			fz = append(fz, fmt.Sprint(f))
		}
		items = append(items, fmt.Sprintf("(%s, [%s], [%s])", d.coq(), strings.Join(opsC, ";"), strings.Join(fz, ";")))
		if len(o.fires) >= 2 {
			rep.Sample(cs + fmt.Sprintf(" -> fired at %v closed=%v", o.fires, o.closed))
		}
	}
	c13Process(rep)
	// several timers pending on one mock clock, due times near and far (up to the year 9999: a common "never" bound),
	// registered in any order: every setting of the clock serves exactly the timers whose due time has been reached
	var citems []string
	nClock := 60
	if env.Thorough() {
		nClock = 600
	}
	far := []int{7258118400 - 1, 9224318016, 10413792000, 253402300799} // 2199-12-31, 2262-04-12 (past the int64 nanosecond range), 2300-01-01, 9999-12-31 in Unix seconds
	for i := 0; i < nClock && !rep.Saturated(); i++ {
		n := 2 + rng.Intn(4)
		dues := make([]int, n)
		for j := range dues {
			if rng.Intn(3) == 0 {
				dues[j] = far[rng.Intn(len(far))]
			} else {
				dues[j] = 10 + 10*rng.Intn(12)
			}
		}
		var Ts []int
		now := 0
		for k := 0; k < 2+rng.Intn(4); k++ {
			switch rng.Intn(6) {
			case 0:
				now = far[rng.Intn(len(far))] + rng.Intn(3) - 1
			default:
				now += 5 * (1 + rng.Intn(8))
			}
			Ts = append(Ts, now)
		}
		sort.Ints(Ts)
		cs := fmt.Sprintf("mock clock with timers due at %v s (registered in this order), set to %v s", dues, Ts)
		env.Current(cs)
		mock := clock.NewMockAt(time.Unix(0, 0))
		chans := make([]<-chan time.Time, n)
		for j, d := range dues {
			chans[j] = mock.Until(time.Unix(int64(d), 0))
		}
		served := make([]bool, n)
		var obs []string
		bad := ""
		for _, T := range Ts {
			mock.Set(time.Unix(int64(T), 0))
			var now []int
			for j := range chans {
				select {
				case <-chans[j]:
					if served[j] {
						bad = fmt.Sprintf("timer %d served twice", j)
					}
					served[j] = true
					now = append(now, j)
					if dues[j] > T {
						bad = fmt.Sprintf("timer %d (due at %d s) served when the clock was set to %d s", j, dues[j], T)
					}
				default:
				}
			}
			for j := range chans {
				if !served[j] && dues[j] <= T {
					bad = fmt.Sprintf("timer %d (due at %d s) not served when the clock was set to %d s", j, dues[j], T)
				}
			}
			obs = append(obs, natList(now))
		}
		rep.Evaluations++
		rep.Nontrivial++
		rep.Count("clock_several_timers")
		if bad != "" {
			rep.Violate("C13-clock", cs, bad)
		}
		zl := func(l []int) string {
			var x []string
			for _, v := range l {
				x = append(x, fmt.Sprint(v))
			}
			return "[" + strings.Join(x, ";") + "]"
		}
		citems = append(citems, fmt.Sprintf("(%s,%s,[%s])", zl(dues), zl(Ts), strings.Join(obs, ";")))
	}
	env.WriteCases(rep, "_clock", "Corr.C13corr", "list Z * list Z * list (list Z)", citems, "c13_clock_mismatches", "Open Scope Z_scope.")
	env.WriteCases(rep, "", "Corr.C13corr", "(Z * tstate) * list op * list Z", items, "c13_mismatches", "Open Scope Z_scope.")
	env.WriteReport(rep)
}
