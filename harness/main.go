// Command bpmnverif drives /repo (olive-io/bpmn) for the correspondence checks of /verif.
// Each sub-command runs the implementation on a generated case set, evaluates the property's
// direct oracle on the results, and writes
//   <out>/<ID>_cases.v   the cases with the OBSERVED results as Coq terms (checked against the model by coqc)
//   <out>/<ID>_report.json  counts, samples, distribution, oracle violations
package main

import (
	"encoding/json"
	"flag"
	"fmt"
	"os"
	"path/filepath"
	"sort"
	"strings"
)

type Violation struct {
	Key    string `json:"key"`    // finding signature (scenario class)
	Case   string `json:"case"`   // concrete failing input / history
	Detail string `json:"detail"` // what was observed vs expected
}

type Report struct {
	Property     string         `json:"property"`
	Tier         string         `json:"tier"`
	Seed         int64          `json:"seed"`
	Evaluations  int            `json:"evaluations"`
	Nontrivial   int            `json:"distinct_nontrivial"`
	Rule         string         `json:"rule"`
	Samples      []string       `json:"samples"`
	Distribution map[string]int `json:"distribution"`
	Exhaustive   bool           `json:"exhaustive"`
	Violations   []Violation    `json:"violations"`
	Notes        []string       `json:"notes,omitempty"`
	CasesFiles   []string       `json:"cases_files"`
}

func (r *Report) Count(k string) {
	if r.Distribution == nil {
		r.Distribution = map[string]int{}
	}
	r.Distribution[k]++
}

func (r *Report) Sample(s string) {
	if len(r.Samples) < 8 {
		r.Samples = append(r.Samples, s)
	}
}

// Saturated reports that enough failing cases were collected (each stuck case costs a timeout).
func (r *Report) Saturated() bool { return len(r.Violations) >= 6 }

func (r *Report) Violate(key, c, detail string) {
	if len(r.Violations) < 50 {
		r.Violations = append(r.Violations, Violation{key, c, detail})
	}
}

type Env struct {
	Tier   string
	Seed   int64
	Out    string
	Replay string
	Repo   string
}

func (e *Env) Thorough() bool { return e.Tier == "thorough" }

// Current records the case about to run, so that a crash of the harness process (a panic inside
// an engine goroutine cannot be recovered) is attributed to a concrete input by ./check.
func (e *Env) Current(c string) {
	os.WriteFile(filepath.Join(e.Out, "current_case.txt"), []byte(c), 0o644)
}

func (e *Env) WriteReport(r *Report) {
	r.Tier, r.Seed = e.Tier, e.Seed
	closeWatch.Wait()
	sharedFindings.Lock()
	for _, v := range sharedFindings.list {
		r.Violate(r.Property+"-"+v.Key, v.Case, v.Detail)
	}
	sharedFindings.list = nil
	sharedFindings.Unlock()
	if r.Violations == nil {
		r.Violations = []Violation{}
	}
	b, _ := json.MarshalIndent(r, "", " ")
	must(os.WriteFile(filepath.Join(e.Out, r.Property+"_report.json"), b, 0o644))
}

// WriteCases writes a Coq file defining `cases` and printing the mismatches computed by
// the correspondence function `fn` of module `mod`.
func (e *Env) WriteCases(r *Report, suffix, mod, ty string, items []string, fn string, hdr ...string) {
	name := r.Property + "_cases" + suffix + ".v"
	var sb strings.Builder
	sb.WriteString("From BV Require Import " + mod + ".\nFrom Coq Require Import List ZArith String. Import ListNotations.\nOpen Scope nat_scope.\n")
	for _, h := range hdr {
		sb.WriteString(h + "\n")
	}
	sb.WriteString("Definition cases : list (" + ty + ") := [\n")
	for i, it := range items {
		sb.WriteString(it)
		if i+1 < len(items) {
			sb.WriteString(";\n")
		}
	}
	sb.WriteString("].\n")
	sb.WriteString("Definition M := Eval vm_compute in (List.length cases, " + fn + " cases).\nPrint M.\n")
	must(os.WriteFile(filepath.Join(e.Out, name), []byte(sb.String()), 0o644))
	r.CasesFiles = append(r.CasesFiles, name)
}

func must(err error) {
	if err != nil {
		fmt.Fprintln(os.Stderr, "bpmnverif:", err)
		os.Exit(2)
	}
}

func natList(xs []int) string {
	s := make([]string, len(xs))
	for i, x := range xs {
		s[i] = fmt.Sprint(x)
	}
	return "[" + strings.Join(s, ";") + "]"
}

var commands = map[string]func(*Env){}

func main() {
	if len(os.Args) < 2 {
		names := []string{}
		for k := range commands {
			names = append(names, k)
		}
		sort.Strings(names)
		fmt.Fprintln(os.Stderr, "usage: bpmnverif <cmd> [-tier quick|thorough] [-seed n] [-out dir]; cmds:", names)
		os.Exit(2)
	}
	cmd := os.Args[1]
	fs := flag.NewFlagSet(cmd, flag.ExitOnError)
	env := &Env{}
	fs.StringVar(&env.Tier, "tier", "quick", "")
	fs.Int64Var(&env.Seed, "seed", 1, "")
	fs.StringVar(&env.Out, "out", ".", "")
	fs.StringVar(&env.Replay, "replay", "", "")
	fs.StringVar(&env.Repo, "repo", "/repo", "")
	fs.Parse(os.Args[2:])
	f, ok := commands[cmd]
	if !ok {
		fmt.Fprintln(os.Stderr, "unknown command", cmd)
		os.Exit(2)
	}
	if cmd != "facts" {
		must(os.MkdirAll(env.Out, 0o755))
	}
	f(env)
}
