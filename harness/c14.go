package main

import (
	"sync/atomic"
	"github.com/olive-io/bpmn/v2/pkg/tracing"
	"fmt"
	bpmn "github.com/olive-io/bpmn/v2"
	"math/rand"
	"time"

	"github.com/olive-io/bpmn/schema"
	"github.com/olive-io/bpmn/v2/pkg/event"
	"github.com/olive-io/bpmn/v2/pkg/logic"
)

func init() { commands["c14"] = runC14 }

// definitions: the first n/2 are message definitions m<i>, the rest signal definitions s<i>
// (EventDefinitions() lists messages before signals, so definition index i is as numbered here).
func c14Defs(n int) (msgs []schema.MessageEventDefinition, sigs []schema.SignalEventDefinition) {
	for i := 0; i < n; i++ {
		name := schema.QName(fmt.Sprintf("d%d", i))
		if i < n/2 {
			d := schema.DefaultMessageEventDefinition()
			d.SetMessageRef(&name)
			if i%2 == 0 { // every other message definition names an operation: only a message for that operation matches it
				op := schema.QName(c14Op(i))
				d.OperationRefField = &op
			}
			msgs = append(msgs, d)
		} else {
			d := schema.DefaultSignalEventDefinition()
			d.SetSignalRef(&name)
			sigs = append(sigs, d)
		}
	}
	return
}

var c14Rot2 uint64

func c14Op(i int) string { return fmt.Sprintf("op%d", i) }

var c14Rot uint64 // the non-matching symbol is realised by a different event every time

func c14Event(n, i int) event.IEvent {
	if i >= n { // non-matching: another name, or a definition's name on an event of another kind
		first, last := "d0", fmt.Sprintf("d%d", n-1) // d0 is a message definition when n >= 2, d<n-1> a signal definition
		if n >= 2 { // d0 is a message definition that names an operation
			switch atomic.AddUint64(&c14Rot2, 1) % 5 {
			case 0:
				return event.NewMessageEvent(first, nil) // its message without any operation
			case 1:
				other := "another-operation"
				return event.NewMessageEvent(first, &other)
			}
		}
		switch atomic.AddUint64(&c14Rot, 1) % 8 {
		case 0:
			return event.NewSignalEvent("nomatch")
		case 1:
			return event.NewMessageEvent("nomatch", nil)
		case 2:
			if n >= 2 {
				return event.NewSignalEvent(first)
			}
			return event.NewSignalEvent("nomatch")
		case 3:
			return event.NewMessageEvent(last, nil)
		case 4:
			ev := event.MakeEscalationEvent(first)
			return &ev
		case 5:
			ev := event.MakeErrorEvent(last)
			return &ev
		case 6:
			ev := event.MakeEscalationEvent(last)
			return &ev
		default:
			return event.MakeNoneEvent()
		}
	}
	name := fmt.Sprintf("d%d", i)
	if i < n/2 {
		if i%2 == 0 {
			op := c14Op(i)
			return event.NewMessageEvent(name, &op)
		}
		return event.NewMessageEvent(name, nil)
	}
	return event.NewSignalEvent(name)
}

type satisfier interface {
	Satisfy(ev event.IEvent) (bool, int)
}

// kind: 0 = plain multiple catch, 1 = parallel-multiple catch, 2 = throw
func c14New(kind, n int) satisfier { return c14NewPair(kind, n)[0] }

// c14NewPair: two satisfiers made from ONE element (two instances of one parsed document each have a satisfier for
// the same catch or throw event)
func c14NewPair(kind, n int) [2]satisfier {
	msgs, sigs := c14Defs(n)
	if kind == 2 {
		te := schema.DefaultThrowEvent()
		te.SetMessageEventDefinitions(msgs)
		te.SetSignalEventDefinitions(sigs)
		return [2]satisfier{logic.NewThrowEventSatisfier(&te, event.WrappingDefinitionInstanceBuilder), logic.NewThrowEventSatisfier(&te, event.WrappingDefinitionInstanceBuilder)}
	}
	ce := schema.DefaultCatchEvent()
	ce.SetMessageEventDefinitions(msgs)
	ce.SetSignalEventDefinitions(sigs)
	par := kind == 1
	ce.SetParallelMultiple(&par)
	return [2]satisfier{logic.NewCatchEventSatisfier(&ce, event.WrappingDefinitionInstanceBuilder), logic.NewCatchEventSatisfier(&ce, event.WrappingDefinitionInstanceBuilder)}
}

// run one history; observed log code: 0 = did not match, 1+2*chain+matched otherwise
func c14Run(kind, n int, h []int) (log []int, fires int) {
	s := c14New(kind, n)
	for _, e := range h {
		m, c := s.Satisfy(c14Event(n, e))
		if c == logic.EventDidNotMatch {
			if m {
				log = append(log, 4999) // matched without a chain: never legal
			} else {
				log = append(log, 0)
			}
			continue
		}
		code := 1 + 2*c
		if m {
			code++
			fires++
		}
		log = append(log, code)
	}
	return
}

// skipBuilder: an event definition instance builder that has no instance for the skip-th definition it is asked for
// (as the timer builder has none for a message or signal definition): no event can ever be matched against it
type skipBuilder struct {
	calls, skip int
}

func (b *skipBuilder) NewEventDefinitionInstance(def schema.EventDefinitionInterface) (event.IDefinitionInstance, error) {
	k := b.calls
	b.calls++
	if k == b.skip {
		return nil, nil
	}
	return event.WrapEventDefinition(def), nil
}

// c14NewSkipping: like c14New for catch events, with a builder that cannot instantiate definition `skip`
func c14NewSkipping(kind, n, skip int) satisfier {
	msgs, sigs := c14Defs(n)
	ce := schema.DefaultCatchEvent()
	ce.SetMessageEventDefinitions(msgs)
	ce.SetSignalEventDefinitions(sigs)
	par := kind == 1
	ce.SetParallelMultiple(&par)
	return logic.NewCatchEventSatisfier(&ce, &skipBuilder{skip: skip})
}

// c14Step feeds one event to a satisfier; same log code as c14Run
func c14Step(s satisfier, n, e int) (code int, fired bool) {
	m, c := s.Satisfy(c14Event(n, e))
	if c == logic.EventDidNotMatch {
		if m {
			return 4999, false
		}
		return 0, false
	}
	code = 1 + 2*c
	if m {
		code++
	}
	return code, m
}

// two satisfiers of the same kind alive at once (two instances, or two catch events built from equal definitions),
// their histories interleaved: each must answer as if it were alone
func c14Interleaved(kind, n int, h1, h2 []int, rng *rand.Rand) (log1, log2 []int) {
	// every other pair is made from one element, the others from two
	s1, s2 := c14New(kind, n), c14New(kind, n)
	if rng.Intn(2) == 0 {
		pr := c14NewPair(kind, n)
		s1, s2 = pr[0], pr[1]
	}
	i, j := 0, 0
	for i < len(h1) || j < len(h2) {
		if j >= len(h2) || (i < len(h1) && rng.Intn(2) == 0) {
			c, _ := c14Step(s1, n, h1[i])
			log1 = append(log1, c)
			i++
		} else {
			c, _ := c14Step(s2, n, h2[j])
			log2 = append(log2, c)
			j++
		}
	}
	return
}

// direct oracle: the property's own statement evaluated on the implementation's answers
func c14Oracle(kind, n int, h []int, fires int) string {
	counts := make([]int, n)
	matching := 0
	for _, e := range h {
		if e < n {
			counts[e]++
			matching++
		}
	}
	if kind == 0 || n == 1 {
		if fires != matching {
			return fmt.Sprintf("plain/single: fired %d times on %d matching events", fires, matching)
		}
		return ""
	}
	mn, balanced := counts[0], true
	for _, c := range counts {
		if c < mn {
			mn = c
		}
		if c != counts[0] {
			balanced = false
		}
	}
	if fires > mn {
		return fmt.Sprintf("fired %d times but least-matched definition matched %d times", fires, mn)
	}
	if balanced && fires != counts[0] {
		return fmt.Sprintf("every definition matched %d times but fired %d times", counts[0], fires)
	}
	return ""
}

func runC14(env *Env) {
	rep := &Report{Property: "C14",
		Rule: "histories over n definitions + 1 non-matching symbol for kinds {plain multiple catch, parallel-multiple catch, throw}: exhaustive up to a length bound, then seeded random longer ones; non-trivial = parallel/throw kind with n>=2 and at least one firing or two chains alive; distinct by (kind,n,history)"}
	maxN, exLen, nRand, randLen := 4, 5, 400, 14
	if env.Thorough() {
		exLen, nRand, randLen = 7, 4000, 30
	}
	var items []string
	seen := map[string]bool{}
	do := func(kind, n int, h []int) {
		key := fmt.Sprint(kind, n, h)
		if seen[key] {
			return
		}
		seen[key] = true
		log, fires := c14Run(kind, n, h)
		rep.Evaluations++
		rep.Count(fmt.Sprintf("kind%d_n%d_len%d", kind, n, len(h)))
		maxChain := 0
		for _, c := range log {
			if c > 0 && (c-1)/2 > maxChain {
				maxChain = (c - 1) / 2
			}
		}
		if kind != 0 && n >= 2 && (fires > 0 || maxChain >= 1) {
			rep.Nontrivial++
		}
		if msg := c14Oracle(kind, n, h, fires); msg != "" {
			rep.Violate("C14-accounting", fmt.Sprintf("kind=%d n=%d history=%v", kind, n, h), msg)
		}
		// projected observable compared with the model: the matched flag of every step (the chain
		// index is bookkeeping the property does not speak about; it stays in the samples only)
		flags := make([]int, len(log))
		for i, c := range log {
			if c > 0 && c%2 == 0 {
				flags[i] = 1
			}
		}
		item := fmt.Sprintf("(%d,%d,%s,%s)", kind, n, natList(h), natList(flags))
		items = append(items, item)
		if kind != 0 && n >= 2 && len(h) >= 5 && fires > 0 && rep.Evaluations%97 == 0 {
			rep.Sample(fmt.Sprintf("kind=%d n=%d history=%v -> log=%v", kind, n, h, log))
		}
	}
	for kind := 0; kind <= 2; kind++ {
		for n := 1; n <= maxN; n++ {
			l := exLen
			if n == 4 && !env.Thorough() {
				l = exLen - 1
			}
			var rec func(h []int)
			rec = func(h []int) {
				do(kind, n, append([]int{}, h...))
				if len(h) == l {
					return
				}
				for e := 0; e <= n; e++ {
					rec(append(h, e))
				}
			}
			if kind == 0 && n > 2 { // plain multiple keeps no state: fewer shapes suffice
				l = 3
			}
			rec(nil)
		}
	}
	rng := rand.New(rand.NewSource(env.Seed))
	for i := 0; i < nRand; i++ {
		kind := 1 + rng.Intn(2)
		n := 2 + rng.Intn(maxN-1)
		ln := exLen + 1 + rng.Intn(randLen-exLen)
		h := make([]int, ln)
		// mostly-balanced generator: shuffled multiset with a few extra/non-matching events
		for j := range h {
			if rng.Intn(8) == 0 {
				h[j] = rng.Intn(n + 1)
			} else {
				h[j] = j % n
			}
		}
		rng.Shuffle(len(h), func(a, b int) { h[a], h[b] = h[b], h[a] })
		do(kind, n, h)
	}
	// several satisfiers alive at once
	flagsOf := func(log []int) []int {
		f := make([]int, len(log))
		for i, c := range log {
			if c > 0 && c%2 == 0 {
				f[i] = 1
			}
		}
		return f
	}
	nPairs := 150
	if env.Thorough() {
		nPairs = 1500
	}
	for i := 0; i < nPairs; i++ {
		kind := 1 + rng.Intn(2)
		n := 2 + rng.Intn(maxN-1)
		mk := func() []int {
			h := make([]int, 2+rng.Intn(8))
			for j := range h {
				if rng.Intn(8) == 0 {
					h[j] = rng.Intn(n + 1)
				} else {
					h[j] = rng.Intn(n)
				}
			}
			return h
		}
		h1, h2 := mk(), mk()
		l1, l2 := c14Interleaved(kind, n, h1, h2, rng)
		rep.Evaluations++
		rep.Nontrivial++
		rep.Count("two_satisfiers_interleaved")
		for k, pr := range [][2][]int{{h1, l1}, {h2, l2}} {
			alone, _ := c14Run(kind, n, pr[0])
			if !intsEq(flagsOf(alone), flagsOf(pr[1])) {
				rep.Violate("C14-accounting", fmt.Sprintf("kind=%d n=%d two satisfiers with interleaved histories %v and %v", kind, n, h1, h2),
					fmt.Sprintf("satisfier %d answered %v; alone, on the same history, it answers %v", k+1, flagsOf(pr[1]), flagsOf(alone)))
			}
			items = append(items, fmt.Sprintf("(%d,%d,%s,%s)", kind, n, natList(pr[0]), natList(flagsOf(pr[1]))))
		}
	}
	// a definition the builder cannot instantiate is a definition no event matches: a parallel-multiple catch event
	// with such a definition never fires, a plain multiple one fires on the others (the model is asked with the
	// events of that definition replaced by the non-matching symbol)
	nSkip := 120
	if env.Thorough() {
		nSkip = 1200
	}
	for i := 0; i < nSkip; i++ {
		kind := rng.Intn(2)
		n := 2 + rng.Intn(maxN-1)
		skip := rng.Intn(n)
		h := make([]int, 2+rng.Intn(8))
		for j := range h {
			h[j] = rng.Intn(n + 1)
		}
		cs := fmt.Sprintf("kind=%d n=%d, no instance for definition %d, history=%v", kind, n, skip, h)
		env.Current(cs)
		var log []int
		panicked := ""
		func() {
			defer func() {
				if r := recover(); r != nil {
					panicked = fmt.Sprint(r)
				}
			}()
			sat := c14NewSkipping(kind, n, skip)
			for _, e := range h {
				c, _ := c14Step(sat, n, e)
				log = append(log, c)
			}
		}()
		rep.Evaluations++
		rep.Nontrivial++
		rep.Count("definition_without_instance")
		if panicked != "" {
			rep.Violate("C14-accounting", cs, "panic: "+panicked)
			continue
		}
		h2 := make([]int, len(h))
		for j, e := range h {
			h2[j] = e
			if e == skip {
				h2[j] = n
			}
		}
		fl := flagsOf(log)
		fires := 0
		for _, f := range fl {
			fires += f
		}
		if kind == 1 && fires > 0 {
			rep.Violate("C14-accounting", cs, fmt.Sprintf("the parallel-multiple catch event fired %d times although one of its definitions can never be matched", fires))
		}
		items = append(items, fmt.Sprintf("(%d,%d,%s,%s)", kind, n, natList(h2), natList(fl)))
	}
	rep.Exhaustive = false
	// shard the cases file (vm_compute + parsing scale linearly; keep files moderate)
	const shard = 4000
	for i, k := 0, 0; i < len(items); i, k = i+shard, k+1 {
		j := i + shard
		if j > len(items) {
			j = len(items)
		}
		env.WriteCases(rep, fmt.Sprintf("_%d", k), "Corr.C14corr", "nat * nat * list nat * list nat", items[i:j], "c14_mismatches")
	}
	// engine level: a burst of events, longer than a catch event's inbox, with a slow trace subscriber: the node sees the
	// whole history — a parallel-multiple catch event {sA, sB} fires once after sA x 8, sB (every definition matched);
	// a plain multiple one fires on its first matching event after 8 non-matching ones
	for _, par := range []bool{true, false} {
		for r := 0; r < 6 && !rep.Saturated(); r++ {
			cs := fmt.Sprintf("catch event {sA, sB} parallelMultiple=%v, burst of 8 events then the deciding one, slow subscriber (round %d)", par, r)
			env.Current(cs)
			p := &Prog{}
			p.Node("start", "start")
			c := p.Node("catch", "C")
			c.Attrs = fmt.Sprintf(`parallelMultiple="%v"`, par)
			c.Inner = `<bpmn:signalEventDefinition id="dA" signalRef="sA"/><bpmn:signalEventDefinition id="dB" signalRef="sB"/>`
			if r%2 == 1 {
				// an id is optional on an event definition: every other round the definitions carry none
				c.Inner = `<bpmn:signalEventDefinition signalRef="sA"/><bpmn:signalEventDefinition signalRef="sB"/>`
				cs += ", definitions without id"
				env.Current(cs)
			}
			p.Node("task", "B0")
			p.Node("end", "end")
			p.Flow("start", "C", "")
			p.Flow("C", "B0", "")
			p.Flow("B0", "end", "")
			defs, err := ParseDefs(p.XML(`<bpmn:signal id="sA" name="sA"/><bpmn:signal id="sB" name="sB"/><bpmn:signal id="sN" name="sN"/>`))
			must(err)
			in, err := StartInst(defs, InstOpt{Buf: 1, Raw: func(tracing.ITrace) { time.Sleep(300 * time.Microsecond) }})
			must(err)
			rep.Evaluations++
			rep.Nontrivial++
			rep.Count("engine_burst")
			if !in.WaitUntil(tmoStep, func(l []Ev) bool { return countEv(l, "listening", "C") >= 1 }) {
				rep.Violate("C14-engine", cs, "the catch event never listened; log: "+logString(in.Log()))
				in.Close()
				continue
			}
			first, last := "sA", "sB"
			if !par {
				first, last = "sN", "sA"
				if r%4 >= 2 {
					last = "sB" // the second definition decides
				}
			}
			for i := 0; i < 8; i++ {
				in.Signal(first)
			}
			in.Signal(last)
			if !in.WaitUntil(tmoStep, func(l []Ev) bool { return countEv(l, "task", "B0") >= 1 }) {
				rep.Violate("C14-engine", cs, fmt.Sprintf("after %s x 8, %s the catch event did not fire; log: %s", first, last, logString(in.Log())))
			}
			time.Sleep(5 * time.Millisecond)
			if n := countEv(in.Log(), "task", "B0"); n > 1 {
				rep.Violate("C14-engine", cs, fmt.Sprintf("the catch event fired %d times; log: %s", n, logString(in.Log())))
			}
			in.Close()
		}
	}
	// engine level: a parallel-multiple catch event in a loop. An event delivered while no token listens (between
	// the firing and the token's return) must not count towards the next firing.
	for _, gap := range []string{"sB", "sA", ""} {
		if rep.Saturated() {
			break
		}
		cs := fmt.Sprintf("parallel-multiple catch event {sA, sB} in a loop; event delivered while nobody listens: %q", gap)
		env.Current(cs)
		p := &Prog{}
		p.Node("start", "start")
		p.Node("xor", "M")
		c := p.Node("catch", "C")
		c.Attrs = `parallelMultiple="true"`
		c.Inner = `<bpmn:signalEventDefinition id="dA" signalRef="sA"/><bpmn:signalEventDefinition id="dB" signalRef="sB"/>`
		b := p.Node("task", "B0")
		b.Results = []string{"again"}
		x := p.Node("xor", "X")
		p.Node("end", "end")
		p.Flow("start", "M", "")
		p.Flow("M", "C", "")
		p.Flow("C", "B0", "")
		p.Flow("B0", "X", "")
		p.Flow("X", "M", "again")
		x.Default = p.Flow("X", "end", "").ID
		defs, err := ParseDefs(p.XML(`<bpmn:signal id="sA" name="sA"/><bpmn:signal id="sB" name="sB"/>`))
		must(err)
		in, err := StartInst(defs, InstOpt{Vars: map[string]any{"again": true}})
		must(err)
		rep.Evaluations++
		rep.Nontrivial++
		rep.Count("engine_parallel_multiple_loop")
		fail := func(msg string) { rep.Violate("C14-engine", cs, msg+"; log: "+logString(in.Log())) }
		reqs := func() int { return countEv(in.Log(), "task", "B0") }
		ok := in.WaitUntil(tmoStep, func(l []Ev) bool { return countEv(l, "listening", "C") >= 1 })
		in.Signal("sA")
		in.Signal("sB")
		if !ok || !in.WaitUntil(tmoStep, func(l []Ev) bool { return countEv(l, "task", "B0") >= 1 }) {
			fail("round 1: both definitions matched, the catch event did not fire")
			in.Close()
			continue
		}
		if gap != "" {
			in.Signal(gap) // nobody listens: the token waits in B0
			time.Sleep(5 * time.Millisecond)
		}
		in.Answer("B0", tmoStep, bpmn.DoWithResults(map[string]any{"again": true}))
		if !in.WaitUntil(tmoStep, func(l []Ev) bool { return countEv(l, "listening", "C") >= 2 }) {
			fail("round 2: the catch event did not listen again")
			in.Close()
			continue
		}
		other := "sA"
		if gap == "sA" {
			other = "sB"
		}
		in.Signal(other) // one definition only: must not fire yet
		time.Sleep(25 * time.Millisecond)
		if reqs() != 1 {
			fail(fmt.Sprintf("round 2: fired after %s alone (an event delivered while nobody listened was counted)", other))
		}
		for _, s := range []string{"sA", "sB"} {
			if s != other {
				in.Signal(s)
			}
		}
		if !in.WaitUntil(tmoStep, func(l []Ev) bool { return countEv(l, "task", "B0") >= 2 }) {
			fail("round 2: both definitions matched while listening, the catch event did not fire")
		} else {
			in.Answer("B0", tmoStep, bpmn.DoWithResults(map[string]any{"again": false}))
			if !in.WaitCease(tmoStep) {
				fail("the instance did not complete")
			}
		}
		in.Close()
	}
	env.WriteReport(rep)
}
