package main

import (
	"context"
	"fmt"
	"math/rand"
	"runtime"
	"strings"
	"sync"
	"sync/atomic"
	"time"

	bpmn "github.com/olive-io/bpmn/v2"
	"github.com/olive-io/bpmn/v2/pkg/tracing"
)

func init() { commands["c09"] = runC09 }

type c09Trace struct{ id int }

func (t c09Trace) Unpack() any { return t.id }

type c09Sub struct {
	log                          []int
	subCall, subRet              int64
	unsubCall, unsubRet          int64
	buf                          int
	slow                         bool
	twice                        bool // unsubscribes a second time after it has left
	joinAfter, leaveAfter        int
}

// one scenario on a real tracer; returns reference log, other subscribers, per-trace send stamps
func c09Scenario(rng *rand.Rand, senders, perSender, nsubs int) (ref []int, subs []*c09Sub, sendStart, sendEnd map[int]int64, stuck string) {
	ctx, cancel := context.WithCancel(context.Background())
	tr := tracing.NewTracer(ctx)
	var clk int64
	tick := func() int64 { return atomic.AddInt64(&clk, 1) }
	total := senders * perSender
	// reference subscriber
	refCh := tr.SubscribeChannel(make(chan tracing.ITrace, 4))
	var refSeen int64
	refDone := make(chan struct{})
	go func() {
		defer close(refDone)
		for t := range refCh {
			if x, ok := t.(c09Trace); ok {
				ref = append(ref, x.id)
				atomic.AddInt64(&refSeen, 1)
			}
		}
	}()
	var mu sync.Mutex
	sendStart, sendEnd = map[int]int64{}, map[int]int64{}
	var wg sync.WaitGroup
	// other subscribers
	for i := 0; i < nsubs; i++ {
		s := &c09Sub{buf: []int{0, 1, 10}[rng.Intn(3)], slow: rng.Intn(3) == 0, twice: rng.Intn(3) == 0,
			joinAfter: rng.Intn(total), leaveAfter: 1 + rng.Intn(total/2+1)}
		subs = append(subs, s)
		wg.Add(1)
		go func(s *c09Sub) {
			defer wg.Done()
			for atomic.LoadInt64(&refSeen) < int64(s.joinAfter) {
				runtime.Gosched()
			}
			ch := make(chan tracing.ITrace, s.buf)
			s.subCall = tick()
			tr.SubscribeChannel(ch)
			s.subRet = tick()
			for len(s.log) < s.leaveAfter {
				select {
				case t, ok := <-ch:
					if !ok {
						return
					}
					if x, ok := t.(c09Trace); ok {
						s.log = append(s.log, x.id)
					}
					if s.slow {
						runtime.Gosched()
					}
				case <-time.After(20 * time.Millisecond):
					// no more traffic: leave
					goto leave
				}
			}
		leave:
			s.unsubCall = tick()
			// Unsubscribe drains the channel while asking for removal: traces drained there are
			// delivered traces too, so record them through a forwarding reader
			done := make(chan struct{})
			fwd := make(chan tracing.ITrace)
			_ = fwd
			tr.Unsubscribe(ch)
			close(done)
			s.unsubRet = tick()
			if s.twice {
				// a redundant second Unsubscribe (an explicit one plus a deferred one, say): returns, disturbs nobody
				tr.Unsubscribe(ch)
			}
		}(s)
	}
	// senders
	var swg sync.WaitGroup
	for k := 0; k < senders; k++ {
		swg.Add(1)
		h := tr.RegisterSender()
		lseed := rng.Int63()
		go func(k int) {
			defer swg.Done()
			defer h.Done()
			rng := rand.New(rand.NewSource(lseed)) // a generator of its own: the shared one is not safe for concurrent use
			for j := 1; j <= perSender; j++ {
				id := (k+1)*64 + j
				a := tick()
				tr.Send(c09Trace{id})
				b := tick()
				mu.Lock()
				sendStart[id], sendEnd[id] = a, b
				mu.Unlock()
				if rng.Intn(4) == 0 {
					runtime.Gosched()
				}
			}
		}(k)
	}
	fin := make(chan struct{})
	go func() { swg.Wait(); wg.Wait(); close(fin) }()
	select {
	case <-fin:
	case <-time.After(tmoStep):
		stuck = "senders / subscribers did not finish: deadlock in the tracer"
		cancel()
		return
	}
	cancel()
	select {
	case <-refDone:
	case <-time.After(tmoStep):
		stuck = "tracer did not terminate and close subscriber channels after cancel"
	}
	return
}

// cancellation while registered senders are still at work: the tracer goes on delivering until the last of them is
// done, to every subscriber alike: one that reads promptly through a large buffer and one that reads slowly through
// no buffer at all find the same complete sequence before their channels are closed
func c09AfterCancel(rng *rand.Rand, senders, perSender int) (fast, slow []int, at int, stuck string) {
	ctx, cancel := context.WithCancel(context.Background())
	defer cancel()
	tr := tracing.NewTracer(ctx)
	fastCh := tr.SubscribeChannel(make(chan tracing.ITrace, 256))
	slowCh := tr.SubscribeChannel(make(chan tracing.ITrace))
	var seen int64
	var wg sync.WaitGroup
	wg.Add(2)
	go func() {
		defer wg.Done()
		for t := range fastCh {
			if x, ok := t.(c09Trace); ok {
				fast = append(fast, x.id)
				atomic.AddInt64(&seen, 1)
			}
		}
	}()
	go func() {
		defer wg.Done()
		for t := range slowCh {
			if x, ok := t.(c09Trace); ok {
				slow = append(slow, x.id)
			}
			if len(slow)%4 == 0 {
				time.Sleep(20 * time.Microsecond)
			} else {
				runtime.Gosched()
			}
		}
	}()
	cancelAt := int64(1 + rng.Intn(senders*perSender/2))
	at = int(cancelAt)
	for k := 0; k < senders; k++ {
		h := tr.RegisterSender()
		go func(k int) {
			defer h.Done()
			for j := 1; j <= perSender; j++ {
				tr.Send(c09Trace{(k+1)*64 + j})
			}
		}(k)
	}
	go func() {
		for atomic.LoadInt64(&seen) < cancelAt {
			runtime.Gosched()
		}
		cancel()
	}()
	fin := make(chan struct{})
	go func() { wg.Wait(); close(fin) }()
	select {
	case <-fin:
	case <-time.After(tmoStep):
		stuck = "subscriber channels were not closed after cancellation and the last sender's Done"
	}
	return
}

func runC09(env *Env) {
	rep := &Report{Property: "C09",
		Rule: "tracer: 1..8 senders x up to 60 traces each, a reference subscriber from start to end, 1..4 further subscribers with buffer 0/1/10 joining after a seeded number of traces and leaving after a seeded number, some consuming slowly; each log must be a contiguous slice of the reference log containing every trace whose Send lay entirely inside its subscription and none whose Send lay entirely outside; engine: trace streams of C03/C04 programs checked against the causality grammar; non-trivial = at least 2 senders and one joining subscriber; distinct by seed"}
	rng := rand.New(rand.NewSource(env.Seed))
	n := 120
	if env.Thorough() {
		n = 1500
	}
	var items []string
	for i := 0; i < n && !rep.Saturated(); i++ {
		senders := 1 + rng.Intn(8)
		per := 5 + rng.Intn(56)
		nsubs := 1 + rng.Intn(4)
		cs := fmt.Sprintf("tracer scenario #%d: %d senders x %d traces, %d joining subscribers (seed %d)", i, senders, per, nsubs, env.Seed)
		env.Current(cs)
		ref, subs, st, en, stuck := c09Scenario(rng, senders, per, nsubs)
		rep.Evaluations++
		rep.Count(fmt.Sprintf("senders%d", senders))
		if senders >= 2 {
			rep.Nontrivial++
		}
		if stuck != "" {
			rep.Violate("C09-deadlock", cs, stuck)
			continue
		}
		if len(ref) != senders*per {
			rep.Violate("C09-reference", cs, fmt.Sprintf("reference subscriber saw %d of %d traces", len(ref), senders*per))
		}
		// direct oracle
		pos := map[int]int{}
		for p, id := range ref {
			pos[id] = p
		}
		others := []string{}
		for si, s := range subs {
			must, mustnot := []int{}, []int{}
			for id := range st {
				if st[id] > s.subRet && en[id] < s.unsubCall && len(s.log) < s.leaveAfter {
					// (a subscriber that left because it had seen enough may have left traces in its
					//  channel/drain: only subscribers that left on idle must have everything)
					must = append(must, id)
				}
				if en[id] < s.subCall || st[id] > s.unsubRet {
					mustnot = append(mustnot, id)
				}
			}
			// contiguity
			bad := ""
			for k := 1; k < len(s.log); k++ {
				if pos[s.log[k]] != pos[s.log[k-1]]+1 {
					bad = fmt.Sprintf("log of subscriber %d is not a contiguous slice of the reference order at position %d: %v", si, k, s.log)
					break
				}
			}
			have := map[int]bool{}
			for _, id := range s.log {
				have[id] = true
			}
			// Send returns when the broadcaster has TAKEN the trace; it pushes it to the subscribers afterwards. One
			// trace can therefore be on its way to a subscriber that calls Unsubscribe, and Unsubscribe empties the
			// subscriber's channel while it waits: the trace that directly follows the last one received may be lost
			// that way (one at most: the broadcaster handles one trace at a time and this subscriber was idle)
			{
				var missing []int
				for _, id := range must {
					if !have[id] {
						missing = append(missing, id)
					}
				}
				if len(missing) == 1 && (len(s.log) == 0 || pos[missing[0]] == pos[s.log[len(s.log)-1]]+1) {
					kept := must[:0]
					for _, id := range must {
						if id != missing[0] {
							kept = append(kept, id)
						}
					}
					must = kept
					rep.Count("in_flight_at_unsubscribe")
				}
			}
			for _, id := range must {
				if !have[id] {
					bad = fmt.Sprintf("subscriber %d (buffer %d) missed trace %d sent entirely inside its subscription; log %v", si, s.buf, id, s.log)
				}
			}
			for _, id := range mustnot {
				if have[id] {
					bad = fmt.Sprintf("subscriber %d received trace %d sent entirely outside its subscription", si, id)
				}
			}
			if bad != "" {
				rep.Violate("C09-subscriber-log", cs, bad)
			}
			others = append(others, fmt.Sprintf("(%s,%s,%s)", natList(s.log), natList(must), natList(mustnot)))
		}
		items = append(items, fmt.Sprintf("(%s,[%s])", natList(ref), strings.Join(others, ";")))
		if i < 3 {
			rep.Sample(fmt.Sprintf("%s -> reference log of %d traces, subscriber logs of lengths %v", cs, len(ref), func() []int {
				r := []int{}
				for _, s := range subs {
					r = append(r, len(s.log))
				}
				return r
			}()))
		}
	}
	// ---- cancellation with senders still at work
	var eitems []string
	na := 40
	if env.Thorough() {
		na = 400
	}
	for i := 0; i < na && !rep.Saturated(); i++ {
		senders := 1 + rng.Intn(3)
		per := 10 + rng.Intn(51)
		cs := fmt.Sprintf("cancellation with %d senders x %d traces still at work, a prompt and a slow unbuffered subscriber (seed %d, #%d)", senders, per, env.Seed, i)
		env.Current(cs)
		fast, slow, at, stuck := c09AfterCancel(rng, senders, per)
		rep.Evaluations++
		rep.Nontrivial++
		rep.Count("after_cancel")
		if stuck != "" {
			rep.Violate("C09-deadlock", cs, stuck)
			continue
		}
		if len(fast) != senders*per || len(slow) != senders*per {
			rep.Violate("C09-after-cancel", cs, fmt.Sprintf("%d traces sent by senders registered before the cancellation: the prompt subscriber received %d, the slow one %d", senders*per, len(fast), len(slow)))
			continue
		}
		for k := range fast {
			if fast[k] != slow[k] {
				rep.Violate("C09-after-cancel", cs, fmt.Sprintf("the two subscribers differ at position %d: %v / %v", k, fast, slow))
				break
			}
		}
		items = append(items, fmt.Sprintf("(%s,[(%s,%s,[])])", natList(fast), natList(slow), natList(slow)))
		eitems = append(eitems, fmt.Sprintf("(%d,%d,%s,%s)", senders, at, natList(fast), natList(slow)))
	}
	env.WriteCases(rep, "_end", "Corr.C09corr", "N * N * list N * list N", eitems, "c09_end_mismatches", "Open Scope N_scope.")
	// shard
	for i, k := 0, 0; i < len(items); i, k = i+200, k+1 {
		j := i + 200
		if j > len(items) {
			j = len(items)
		}
		env.WriteCases(rep, fmt.Sprintf("_tracer%d", k), "Corr.C09corr", "list N * list (list N * list N * list N)", items[i:j], "c09_tracer_mismatches", "Open Scope N_scope.")
	}
	// ---- causality grammar on engine trace streams
	var gitems []string
	type prog struct {
		name string
		p    *Prog
		vars map[string]any
		run  func(in *Inst)
	}
	progs := []prog{}
	for _, nm := range [][2]int{{2, 3}, {3, 2}, {3, 3}, {1, 4}} {
		N, M := nm[0], nm[1]
		progs = append(progs, prog{fmt.Sprintf("c03 N=%d M=%d", N, M), c03Prog(N, M), map[string]any{"again": false}, func(in *Inst) {
			for a := 0; a < 2; a++ {
				for i := 0; i < N; i++ {
					in.Answer(fmt.Sprintf("T%d", i), tmoStep)
				}
				for j := 0; j < M; j++ {
					in.Answer(fmt.Sprintf("U%d", j), tmoStep)
				}
				t := in.WaitTask("L", tmoStep)
				if t != nil {
					t.Do(bpmn.DoWithResults(map[string]any{"again": a == 0}))
				}
			}
			in.WaitCease(tmoStep)
		}})
	}
	progs = append(progs, prog{"c04 3 tokens", c04Prog([]int{0, 1, 1}, 0, 3, ""), map[string]any{"c0": false, "c1": true, "c2": true}, func(in *Inst) {
		for i := 0; i < 3; i++ {
			in.Answer(fmt.Sprintf("P%d", i), tmoStep)
		}
		for i := 0; i < 3; i++ {
			in.Answer("B1", tmoStep)
		}
		in.WaitCease(tmoStep)
	}})
	{ // one token forks at two nodes in succession
		p := &Prog{}
		p.Node("start", "start")
		p.Node("par", "F1")
		p.Flow("start", "F1", "")
		p.Node("task", "T")
		p.Flow("F1", "T", "")
		p.Node("end", "eA")
		p.Flow("F1", "eA", "")
		p.Node("par", "F2")
		p.Flow("T", "F2", "")
		for _, e := range []string{"eB", "eC"} {
			p.Node("end", e)
			p.Flow("F2", e, "")
		}
		progs = append(progs, prog{"a token forking twice", p, nil, func(in *Inst) {
			in.Answer("T", tmoStep)
			in.WaitCease(tmoStep)
		}})
	}
	{ // engine runs of C01: seeded block programs driven by a seeded script
		brng := rand.New(rand.NewSource(env.Seed + 909))
		nb := 6
		if env.Thorough() {
			nb = 30
		}
		for i := 0; i < nb; i++ {
			g := &blkGen{rng: brng, full: true, ends: i%2 == 1}
			b := g.gen(4+brng.Intn(6), 3, true)
			if i%3 == 0 {
				b = g.wrap(b, 1)
			}
			if gwInIncl(b, false) {
				continue
			}
			env0 := [4]bool{brng.Intn(2) == 0, brng.Intn(2) == 0, brng.Intn(2) == 0, false}
			inLoop := map[int]int{}
			blkTasksInLoop(b, false, inLoop, 0)
			sc := blkScript{seed: env.Seed*1000 + int64(i), inLoop: inLoop}
			vars := map[string]any{}
			for k, v := range env0 {
				vars[fmt.Sprintf("v%d", k)] = v
			}
			progs = append(progs, prog{"block program " + b.Coq(), BlkProg(b), vars, func(in *Inst) {
				ch, wr := sc.funcs()
				DriveBlk(in, b, env0, ch, wr, 60)
			}})
		}
	}
	reps := 3
	if env.Thorough() {
		reps = 30
	}
	for _, pg := range progs {
		for r := 0; r < reps; r++ {
			cs := "engine stream of " + pg.name
			env.Current(cs)
			defs, err := ParseDefs(pg.p.XML(""))
			must(err)
			// one renderer per subscriber: flows and nodes are numbered in the order of first appearance, so two
			// subscribers that see the same sequence render it identically
			type view struct {
				ids     map[string]int
				started map[int]bool
				evs     []string
			}
			render := func(v *view, t tracing.ITrace) {
				num := func(s string) int {
					if x, ok := v.ids[s]; ok {
						return x
					}
					v.ids[s] = len(v.ids) + 1
					return v.ids[s]
				}
				switch x := t.(type) {
				case bpmn.NewFlowTrace:
					f := num("f:" + x.FlowId.String())
					v.started[f] = true
					v.evs = append(v.evs, fmt.Sprintf("ENew %d", f))
				case bpmn.VisitTrace:
					v.evs = append(v.evs, fmt.Sprintf("EVisit %d", num("n:"+nodeId(x.Node))))
				case bpmn.LeaveTrace:
					v.evs = append(v.evs, fmt.Sprintf("ELeave %d", num("n:"+nodeId(x.Node))))
				case bpmn.FlowTrace:
					cont := 0
					ann := []int{}
					for _, s := range x.Flows {
						f := num("f:" + s.Id().String())
						if v.started[f] && cont == 0 {
							cont = f
						} else {
							ann = append(ann, f)
						}
					}
					v.evs = append(v.evs, fmt.Sprintf("EFlow %d %s", cont, natList(ann)))
				case bpmn.TerminationTrace:
					v.evs = append(v.evs, fmt.Sprintf("ETerm %d", num("f:"+x.FlowId.String())))
				case bpmn.CancellationFlowTrace:
					v.evs = append(v.evs, fmt.Sprintf("ETerm %d", num("f:"+x.FlowId.String())))
				}
			}
			prompt := &view{ids: map[string]int{}, started: map[int]bool{}}
			lagging := &view{ids: map[string]int{}, started: map[int]bool{}}
			var mu sync.Mutex
			in, err := StartInst(defs, InstOpt{Vars: pg.vars, NoStart: true, Raw: func(t tracing.ITrace) {
				mu.Lock()
				defer mu.Unlock()
				render(prompt, t)
			}})
			must(err)
			// a second subscriber that reads nothing until the run is over (a large buffer): it must find the same
			// sequence, trace for trace, as the subscriber that kept up
			late := in.P.Tracer().SubscribeChannel(make(chan tracing.ITrace, 1<<14))
			must(in.P.StartAll(in.Ctx))
			pg.run(in)
			time.Sleep(2 * time.Millisecond)
		drain:
			for {
				select {
				case t, ok := <-late:
					if !ok {
						break drain
					}
					render(lagging, tracing.Unwrap(t))
				default:
					break drain
				}
			}
			in.P.Tracer().Unsubscribe(late)
			mu.Lock()
			evs := append([]string{}, prompt.evs...)
			mu.Unlock()
			if k := len(lagging.evs); k < len(evs) {
				evs = evs[:k] // the prompt subscriber may have gone on receiving while the other was drained
			}
			same := len(lagging.evs) == len(evs)
			for i := 0; same && i < len(evs); i++ {
				same = evs[i] == lagging.evs[i]
			}
			if !same {
				rep.Violate("C09-same-sequence", cs, fmt.Sprintf("a subscriber that read the traces after the run found another sequence than the one that kept up: prompt %v, late %v", evs, lagging.evs))
			}
			gitems = append(gitems, "["+strings.Join(lagging.evs, ";")+"]")
			in.Close()
			time.Sleep(2 * time.Millisecond)
			mu.Lock()
			gitems = append(gitems, "["+strings.Join(prompt.evs, ";")+"]")
			n := len(prompt.evs)
			mu.Unlock()
			rep.Evaluations++
			rep.Nontrivial++
			rep.Count("engine_streams")
			if r == 0 {
				rep.Sample(fmt.Sprintf("%s: %d grammar events", cs, n))
			}
		}
	}
	env.WriteCases(rep, "_grammar", "Corr.C09corr", "list ev", gitems, "c09_grammar_mismatches")
	env.WriteReport(rep)
}
