module bpmnverif

go 1.22

require (
	github.com/olive-io/bpmn/schema v1.8.0
	github.com/olive-io/bpmn/v2 v2.0.0
)

require (
	github.com/ChrisTrenkamp/xsel v0.9.16 // indirect
	github.com/Chronokeeper/anyxml v0.0.0-20160530174208-54457d8e98c6 // indirect
	github.com/bits-and-blooms/bitset v1.24.4 // indirect
	github.com/bytedance/gopkg v0.1.3 // indirect
	github.com/bytedance/sonic v1.15.0 // indirect
	github.com/bytedance/sonic/loader v0.5.0 // indirect
	github.com/cloudwego/base64x v0.1.6 // indirect
	github.com/expr-lang/expr v1.17.8 // indirect
	github.com/goccmack/goutil v1.2.3 // indirect
	github.com/hashicorp/errwrap v1.0.0 // indirect
	github.com/hashicorp/go-multierror v1.1.1 // indirect
	github.com/klauspost/cpuid/v2 v2.2.10 // indirect
	github.com/muyo/sno v1.2.1 // indirect
	github.com/pkg/errors v0.9.1 // indirect
	github.com/qri-io/iso8601 v0.1.0 // indirect
	github.com/tidwall/gjson v1.18.0 // indirect
	github.com/tidwall/match v1.1.1 // indirect
	github.com/tidwall/pretty v1.2.0 // indirect
	github.com/tidwall/sjson v1.2.5 // indirect
	github.com/twitchyliquid64/golang-asm v0.15.1 // indirect
	golang.org/x/arch v0.14.0 // indirect
	golang.org/x/net v0.24.0 // indirect
	golang.org/x/sys v0.30.0 // indirect
	golang.org/x/text v0.14.0 // indirect
)

replace github.com/olive-io/bpmn/v2 => /repo

replace github.com/olive-io/bpmn/schema => /repo/schema
