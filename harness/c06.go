package main

import (
	"github.com/olive-io/bpmn/v2/pkg/tracing"
	"sync/atomic"
	"github.com/olive-io/bpmn/v2/pkg/event"
	"fmt"
	"strings"
	"sync"
	"time"

	"github.com/olive-io/bpmn/schema"
	bpmn "github.com/olive-io/bpmn/v2"
)

func init() { commands["c06"] = runC06 }

// start -> EG (event-based gateway) -> catch_i (signal sig_i) -> B_i -> end
func c06Prog(n int) (*Prog, string) {
	p := &Prog{}
	p.Node("start", "start")
	p.Node("ebg", "EG")
	p.Node("end", "end")
	p.Flow("start", "EG", "")
	extra := ""
	for i := 0; i < n; i++ {
		c := p.Node("catch", fmt.Sprintf("C%d", i))
		c.Inner = fmt.Sprintf(`<bpmn:signalEventDefinition id="sd%d" signalRef="sig%d"/>`, i, i)
		p.Node("task", fmt.Sprintf("B%d", i))
		p.Flow("EG", fmt.Sprintf("C%d", i), "")
		p.Flow(fmt.Sprintf("C%d", i), fmt.Sprintf("B%d", i), "")
		p.Flow(fmt.Sprintf("B%d", i), "end", "")
		extra += fmt.Sprintf(`<bpmn:signal id="sig%d" name="sig%d"/>`, i, i)
	}
	return p, extra
}

type c06Obs struct {
	winner     int
	requests   int
	dets       int
	completed  int
	afterLate  int
	ended      int // alternatives that ended at their catch event with a termination trace
	cancelled  int // ... with a cancellation trace (none before the instance is closed)
	blocked    string
	log        []Ev
}

func c06Deliver(in *Inst, name string) bool {
	done := make(chan struct{})
	go func() { in.Signal(name); close(done) }()
	select {
	case <-done:
		return true
	case <-time.After(2 * time.Second):
		return false
	}
}

func c06Run(n int, events []int, concurrent bool, late []int) c06Obs {
	o := c06Obs{winner: -1}
	p, extra := c06Prog(n)
	defs, err := ParseDefs(p.XML(extra))
	must(err)
	in, err := StartInst(defs, InstOpt{})
	must(err)
	defer in.Close()
	if !in.WaitUntil(tmoStep, func(l []Ev) bool { return countEv(l, "listening", "*") >= n }) {
		o.blocked = "alternatives never started listening"
		o.log = in.Log()
		return o
	}
	if concurrent {
		var wg sync.WaitGroup
		start := make(chan struct{})
		var mu sync.Mutex
		for _, e := range events {
			wg.Add(1)
			go func(e int) {
				defer wg.Done()
				<-start
				if !c06Deliver(in, fmt.Sprintf("sig%d", e)) {
					mu.Lock()
					o.blocked = fmt.Sprintf("ConsumeEvent(sig%d) did not return", e)
					mu.Unlock()
				}
			}(e)
		}
		close(start)
		wg.Wait()
	} else {
		for _, e := range events {
			if !c06Deliver(in, fmt.Sprintf("sig%d", e)) {
				o.blocked = fmt.Sprintf("ConsumeEvent(sig%d) did not return", e)
			}
		}
	}
	breq := func(l []Ev) int {
		c := 0
		for _, e := range l {
			if e.K == "task" && strings.HasPrefix(e.N, "B") {
				c++
			}
		}
		return c
	}
	in.WaitUntil(tmoStep, func(l []Ev) bool { return breq(l) >= 1 })
	time.Sleep(settle)
	l := in.Log()
	o.requests = breq(l)
	for _, e := range l {
		if e.K == "task" && strings.HasPrefix(e.N, "B") && o.winner < 0 {
			fmt.Sscanf(e.N, "B%d", &o.winner)
		}
		if e.K == "determination" {
			o.dets++
		}
	}
	for i := 0; i < n; i++ {
		for in.Answer(fmt.Sprintf("B%d", i), time.Millisecond) {
		}
	}
	if in.WaitCease(tmoStep) {
		o.completed = 1
	}
	for _, e := range late {
		if !c06Deliver(in, fmt.Sprintf("sig%d", e)) {
			o.blocked = fmt.Sprintf("late ConsumeEvent(sig%d) did not return", e)
		}
	}
	time.Sleep(settle)
	o.afterLate = breq(in.Log())
	o.log = in.Log()
	for _, e := range o.log {
		if strings.HasPrefix(e.N, "C") && e.K == "term" {
			o.ended++
		}
		if strings.HasPrefix(e.N, "C") && e.K == "cancelflow" {
			o.cancelled++
		}
	}
	return o
}

func runC06(env *Env) {
	rep := &Report{Property: "C06",
		Rule: "event-based gateway with 2..3 alternatives (signal catch events); every non-empty sequence of the competing events up to length L delivered sequentially back to back and concurrently from goroutines released together; afterwards each event is delivered once more (late delivery); repeated to vary the schedule between the winner's determination and the losers' withdrawal; non-trivial = at least two events delivered; distinct by (n, sequence, mode, repetition)"}
	L, reps := 3, 4
	if env.Thorough() {
		L, reps = 4, 25
	}
	var items []string
	for n := 2; n <= 3; n++ {
		var seqs [][]int
		var rec func(h []int)
		rec = func(h []int) {
			if len(h) > 0 {
				seqs = append(seqs, append([]int{}, h...))
			}
			if len(h) == L {
				return
			}
			for e := 0; e < n; e++ {
				rec(append(h, e))
			}
		}
		rec(nil)
		for _, sq := range seqs {
			for _, conc := range []bool{false, true} {
				for r := 0; r < reps; r++ {
					if rep.Saturated() || (len(sq) == 1 && (conc || r > 0)) {
						continue
					}
					late := []int{}
					for e := 0; e < n; e++ {
						late = append(late, e)
					}
					cs := fmt.Sprintf("n=%d alternatives, events=%v, concurrent=%v, late=%v", n, sq, conc, late)
					env.Current(cs)
					o := c06Run(n, sq, conc, late)
					rep.Evaluations++
					rep.Count(fmt.Sprintf("n%d_len%d_conc%v", n, len(sq), conc))
					if len(sq) >= 2 {
						rep.Nontrivial++
					}
					if o.blocked != "" {
						rep.Violate("C06-delivery-blocks", cs, o.blocked+"; log: "+logString(o.log))
					}
					inSeq := false
					for _, e := range sq {
						if e == o.winner {
							inSeq = true
						}
					}
					if o.requests != 1 || o.dets != 1 || !inSeq {
						rep.Violate("C06-one-winner", cs, fmt.Sprintf("branch requests=%d determinations=%d winner=%d; log: %s", o.requests, o.dets, o.winner, logString(o.log)))
					}
					if o.completed != 1 {
						rep.Violate("C06-completes", cs, "instance did not complete; log: "+logString(o.log))
					}
					if o.completed == 1 && (o.ended != n-1 || o.cancelled != 0) {
						rep.Violate("C06-withdrawal", cs, fmt.Sprintf("%d of the %d other alternatives ended at their catch event with a termination trace, %d with a cancellation trace (the instance was not cancelled); log: %s", o.ended, n-1, o.cancelled, logString(o.log)))
					}
					if o.afterLate != o.requests {
						rep.Violate("C06-late-event", cs, fmt.Sprintf("late deliveries caused %d further branch requests", o.afterLate-o.requests))
					}
					w := o.winner
					if w < 0 {
						w = 0
					}
					items = append(items, fmt.Sprintf("(%d,%s,%d,%s,%s)", n, natList(sq), w, natList(late), natList([]int{o.requests, o.dets, o.completed, o.afterLate})))
					if len(sq) == 3 && conc && r == 0 {
						rep.Sample(fmt.Sprintf("%s -> winner %d, %d branch request(s), completed=%d", cs, o.winner, o.requests, o.completed))
					}
				}
			}
		}
	}
	// behind the gateway the alternatives meet again in an inclusive join: the winner's token passes it (the withdrawn
	// alternatives are gone for the join too), whichever alternative wins
	for w := 0; w < 3 && !rep.Saturated(); w++ {
		cs := fmt.Sprintf("3 alternatives meeting in an inclusive join, alternative %d wins", w)
		env.Current(cs)
		p := &Prog{}
		p.Node("start", "start")
		p.Node("ebg", "EG")
		p.Node("incl", "IJ")
		p.Node("task", "N")
		p.Node("end", "end")
		p.Flow("start", "EG", "")
		extra := ""
		for i := 0; i < 3; i++ {
			c := p.Node("catch", fmt.Sprintf("C%d", i))
			c.Inner = fmt.Sprintf(`<bpmn:signalEventDefinition id="sd%d" signalRef="sig%d"/>`, i, i)
			p.Flow("EG", fmt.Sprintf("C%d", i), "")
			p.Flow(fmt.Sprintf("C%d", i), "IJ", "")
			extra += fmt.Sprintf(`<bpmn:signal id="sig%d" name="sig%d"/>`, i, i)
		}
		p.Flow("IJ", "N", "")
		p.Flow("N", "end", "")
		defs, err := ParseDefs(p.XML(extra))
		must(err)
		in, err := StartInst(defs, InstOpt{})
		must(err)
		rep.Evaluations++
		rep.Nontrivial++
		rep.Count("inclusive_join_behind")
		if !in.WaitUntil(tmoStep, func(l []Ev) bool { return countEv(l, "listening", "*") >= 3 }) {
			rep.Violate("C06-completes", cs, "alternatives never started listening; log: "+logString(in.Log()))
			in.Close()
			continue
		}
		c06Deliver(in, fmt.Sprintf("sig%d", w))
		if !in.Answer("N", tmoStep) {
			rep.Violate("C06-completes", cs, "the winner's token did not get past the inclusive join (N not requested); log: "+logString(in.Log()))
		} else if !in.WaitCease(tmoStep) {
			rep.Violate("C06-completes", cs, "instance did not complete; log: "+logString(in.Log()))
		} else if n := countEv(in.Log(), "task", "N"); n != 1 {
			rep.Violate("C06-one-winner", cs, fmt.Sprintf("N requested %d times; log: %s", n, logString(in.Log())))
		}
		in.Close()
	}
	// two gateways waiting for the same message one after the other ("escalating wait"): g1 {signal remind | message pay};
	// remind wins and leads to g2 {message pay | signal stop}; pay is delivered: g2's alternative wins — the withdrawn
	// alternative of g1, which listened for the same message, has no effect. Many instances (a goroutine race decides
	// who sees the message first).
	{
		p := &Prog{}
		p.Node("start", "start")
		p.Node("ebg", "G1")
		p.Node("ebg", "G2")
		p.Node("end", "endPaid1")
		p.Node("end", "endPaid2")
		p.Node("end", "endStop")
		c := p.Node("catch", "R1")
		c.Inner = `<bpmn:signalEventDefinition id="r1d" signalRef="remind"/>`
		c = p.Node("catch", "P1")
		c.Inner = `<bpmn:messageEventDefinition id="p1d" messageRef="pay"/>`
		c = p.Node("catch", "P2")
		c.Inner = `<bpmn:messageEventDefinition id="p2d" messageRef="pay"/>`
		c = p.Node("catch", "S2")
		c.Inner = `<bpmn:signalEventDefinition id="s2d" signalRef="stop"/>`
		p.Flow("start", "G1", "")
		p.Flow("G1", "R1", "")
		p.Flow("G1", "P1", "")
		p.Flow("P1", "endPaid1", "")
		p.Flow("R1", "G2", "")
		p.Flow("G2", "P2", "")
		p.Flow("G2", "S2", "")
		p.Flow("P2", "endPaid2", "")
		p.Flow("S2", "endStop", "")
		defs, err := ParseDefs(p.XML(`<bpmn:signal id="remind" name="remind"/><bpmn:signal id="stop" name="stop"/><bpmn:message id="pay" name="pay"/>`))
		must(err)
		instances := 300
		if env.Thorough() {
			instances = 3000
		}
		cs := fmt.Sprintf("two event-based gateways waiting for the same message one after the other, %d instances: remind, then pay", instances)
		env.Current(cs)
		bad, firstBad := 0, ""
		for i := 0; i < instances && bad < 3; i++ {
			in, err := StartInst(defs, InstOpt{})
			must(err)
			ok := in.WaitUntil(tmoStep, func(l []Ev) bool { return countEv(l, "listening", "R1") >= 1 && countEv(l, "listening", "P1") >= 1 })
			in.Signal("remind")
			ok = ok && in.WaitUntil(tmoStep, func(l []Ev) bool { return countEv(l, "listening", "P2") >= 1 && countEv(l, "listening", "S2") >= 1 })
			in.P.ConsumeEvent(event.NewMessageEvent("pay", nil))
			done := ok && in.WaitUntil(2*time.Second, func(l []Ev) bool { return countEv(l, "cease", "*") >= 1 })
			l := in.Log()
			if !done || countEv(l, "visit", "endPaid2") != 1 || countEv(l, "visit", "endPaid1") != 0 || countEv(l, "visit", "endStop") != 0 {
				bad++
				if firstBad == "" {
					firstBad = fmt.Sprintf("instance %d: completed %v, endPaid2 %d, endPaid1 %d, endStop %d; log: %s", i, done, countEv(l, "visit", "endPaid2"), countEv(l, "visit", "endPaid1"), countEv(l, "visit", "endStop"), logString(l))
				}
			}
			in.Close()
		}
		rep.Evaluations++
		rep.Nontrivial++
		rep.Count("two_gateways_same_message")
		if bad > 0 {
			rep.Violate("C06-late-event", cs, fmt.Sprintf("%d instances went wrong, e.g. %s", bad, firstBad))
		}
	}
	// the gateway in a loop: the winning alternative's branch leads back to the gateway, which must run a fresh
	// race every time the token comes round
	for _, rounds := range []int{2, 3} {
		if rep.Saturated() {
			break
		}
		cs := fmt.Sprintf("event-based gateway in a loop: alternative 0 wins %d times and returns to the gateway, then alternative 1 wins", rounds-1)
		env.Current(cs)
		p := &Prog{}
		p.Node("start", "start")
		p.Node("ebg", "EG")
		p.Node("end", "end")
		p.Flow("start", "EG", "")
		for i := 0; i < 2; i++ {
			c := p.Node("catch", fmt.Sprintf("C%d", i))
			c.Inner = fmt.Sprintf(`<bpmn:signalEventDefinition id="sd%d" signalRef="sig%d"/>`, i, i)
			p.Node("task", fmt.Sprintf("B%d", i))
			p.Flow("EG", fmt.Sprintf("C%d", i), "")
			p.Flow(fmt.Sprintf("C%d", i), fmt.Sprintf("B%d", i), "")
		}
		p.Flow("B0", "EG", "")
		p.Flow("B1", "end", "")
		defs, err := ParseDefs(p.XML(`<bpmn:signal id="sig0" name="sig0"/><bpmn:signal id="sig1" name="sig1"/>`))
		must(err)
		in, err := StartInst(defs, InstOpt{})
		must(err)
		rep.Evaluations++
		rep.Nontrivial++
		rep.Count("gateway_in_loop")
		okAll := true
		for r := 0; r < rounds && okAll; r++ {
			win := 0
			if r == rounds-1 {
				win = 1
			}
			wantL := r + 1
			// a catch event whose token was withdrawn stays "listening" (no new ActiveListeningTrace when the next
			// token arrives): wait for the tokens' arrival, then a moment for their requests to be queued
			if !in.WaitUntil(tmoStep, func(l []Ev) bool { return countEv(l, "visit", "C0") >= wantL && countEv(l, "visit", "C1") >= wantL }) {
				rep.Violate("C06-one-winner", cs, fmt.Sprintf("round %d: the alternatives' tokens did not arrive at their catch events; log: %s", r+1, logString(in.Log())))
				okAll = false
				break
			}
			time.Sleep(6 * time.Millisecond)
			in.Signal(fmt.Sprintf("sig%d", win))
			b := fmt.Sprintf("B%d", win)
			wantB := countEv(in.Log(), "task", b) + 1
			if !in.WaitUntil(tmoStep, func(l []Ev) bool { return countEv(l, "task", b) >= wantB }) {
				rep.Violate("C06-one-winner", cs, fmt.Sprintf("round %d: the winning alternative %d did not continue; log: %s", r+1, win, logString(in.Log())))
				okAll = false
				break
			}
			in.Answer(b, tmoStep)
		}
		if okAll {
			if !in.WaitCease(tmoStep) {
				rep.Violate("C06-completes", cs, "the instance did not complete; log: "+logString(in.Log()))
			}
			l := in.Log()
			if countEv(l, "task", "B0") != rounds-1 || countEv(l, "task", "B1") != 1 {
				rep.Violate("C06-one-winner", cs, fmt.Sprintf("B0 requested %d times (expected %d), B1 %d times (expected 1); log: %s", countEv(l, "task", "B0"), rounds-1, countEv(l, "task", "B1"), logString(l)))
			}
		}
		in.Close()
	}
	// several tokens behind one gateway at the same time (k start events lead into it): every token's arrival is an
	// activation of its own with its own winner; one event decides all of them, two events at once decide each of
	// them one way or the other, and nothing is left waiting
	for v := 0; v < 6 && !rep.Saturated(); v++ {
		k, both := 2+v%2, v >= 2 && v < 4
		first := v / 4
		cs := fmt.Sprintf("%d start events lead into one event-based gateway with 2 alternatives: %d activations undecided at once, then event %d", k, k, first)
		if both {
			cs = fmt.Sprintf("%d start events lead into one event-based gateway with 2 alternatives: %d activations undecided at once, then both events at the same moment", k, k)
		}
		env.Current(cs)
		p := &Prog{}
		for i := 0; i < k; i++ {
			p.Node("start", fmt.Sprintf("start%d", i))
		}
		p.Node("ebg", "EG")
		p.Node("end", "end")
		for i := 0; i < k; i++ {
			p.Flow(fmt.Sprintf("start%d", i), "EG", "")
		}
		for i := 0; i < 2; i++ {
			c := p.Node("catch", fmt.Sprintf("C%d", i))
			c.Inner = fmt.Sprintf(`<bpmn:signalEventDefinition id="sd%d" signalRef="sig%d"/>`, i, i)
			p.Node("task", fmt.Sprintf("B%d", i))
			p.Flow("EG", fmt.Sprintf("C%d", i), "")
			p.Flow(fmt.Sprintf("C%d", i), fmt.Sprintf("B%d", i), "")
			p.Flow(fmt.Sprintf("B%d", i), "end", "")
		}
		defs, err := ParseDefs(p.XML(`<bpmn:signal id="sig0" name="sig0"/><bpmn:signal id="sig1" name="sig1"/>`))
		must(err)
		in, err := StartInst(defs, InstOpt{})
		must(err)
		rep.Evaluations++
		rep.Nontrivial++
		rep.Count("several_tokens_one_gateway")
		if !in.WaitUntil(tmoStep, func(l []Ev) bool { return countEv(l, "visit", "C0") >= k && countEv(l, "visit", "C1") >= k }) {
			rep.Violate("C06-one-winner", cs, "the alternatives' tokens did not arrive at their catch events; log: "+logString(in.Log()))
			in.Close()
			continue
		}
		time.Sleep(6 * time.Millisecond)
		if both {
			var wg sync.WaitGroup
			for i := 0; i < 2; i++ {
				wg.Add(1)
				go func(i int) { defer wg.Done(); in.Signal(fmt.Sprintf("sig%d", i)) }(i)
			}
			wg.Wait()
		} else {
			in.Signal(fmt.Sprintf("sig%d", first))
		}
		in.WaitUntil(tmoStep, func(l []Ev) bool { return countEv(l, "task", "B0")+countEv(l, "task", "B1") >= k })
		time.Sleep(settle)
		l := in.Log()
		b := [2]int{countEv(l, "task", "B0"), countEv(l, "task", "B1")}
		switch {
		case b[0]+b[1] != k:
			rep.Violate("C06-one-winner", cs, fmt.Sprintf("%d activations, %d alternatives continued (B0 %d, B1 %d); log: %s", k, b[0]+b[1], b[0], b[1], logString(l)))
		case !both && b[first] != k:
			rep.Violate("C06-one-winner", cs, fmt.Sprintf("only event %d was delivered: B0 requested %d times, B1 %d times; log: %s", first, b[0], b[1], logString(l)))
		case countEv(l, "determination", "EG") != k:
			rep.Violate("C06-one-winner", cs, fmt.Sprintf("%d activations, %d determinations; log: %s", k, countEv(l, "determination", "EG"), logString(l)))
		default:
			for i := 0; i < 2; i++ {
				for in.Answer(fmt.Sprintf("B%d", i), 30*time.Millisecond) {
				}
			}
			if !in.WaitCease(tmoStep) {
				rep.Violate("C06-completes", cs, "every winner answered, the instance did not complete (an alternative was left waiting); log: "+logString(in.Log()))
			}
		}
		in.Close()
	}
	// two gateways share an alternative: G1 {C0, C1}, G2 {C2, C1} (the catch event C1 has a token of either gateway
	// waiting). Event 0 decides G1 and withdraws G1's token at C1 -- G2's token there goes on waiting; event 1 then
	// decides G2 for C1.
	for rnd := 0; rnd < 3 && !rep.Saturated(); rnd++ {
		cs := fmt.Sprintf("two event-based gateways share one alternative: G1 {sig0, sig1}, G2 {sig2, sig1}; sig0 then sig1 (round %d)", rnd)
		env.Current(cs)
		p := &Prog{}
		p.Node("start", "start")
		p.Node("par", "F")
		p.Node("ebg", "G1")
		p.Node("ebg", "G2")
		for i := 0; i < 3; i++ {
			c := p.Node("catch", fmt.Sprintf("C%d", i))
			c.Inner = fmt.Sprintf(`<bpmn:signalEventDefinition id="sd%d" signalRef="sig%d"/>`, i, i)
			p.Node("task", fmt.Sprintf("B%d", i))
			p.Node("end", fmt.Sprintf("end%d", i))
			p.Flow(fmt.Sprintf("C%d", i), fmt.Sprintf("B%d", i), "")
			p.Flow(fmt.Sprintf("B%d", i), fmt.Sprintf("end%d", i), "")
		}
		p.Flow("start", "F", "")
		p.Flow("F", "G1", "")
		p.Flow("F", "G2", "")
		p.Flow("G1", "C0", "")
		p.Flow("G1", "C1", "")
		p.Flow("G2", "C2", "")
		p.Flow("G2", "C1", "")
		defs, err := ParseDefs(p.XML(`<bpmn:signal id="sig0" name="sig0"/><bpmn:signal id="sig1" name="sig1"/><bpmn:signal id="sig2" name="sig2"/>`))
		must(err)
		in, err := StartInst(defs, InstOpt{})
		must(err)
		rep.Evaluations++
		rep.Nontrivial++
		rep.Count("shared_alternative")
		problem := ""
		if !in.WaitUntil(tmoStep, func(l []Ev) bool {
			return countEv(l, "visit", "C0") >= 1 && countEv(l, "visit", "C1") >= 2 && countEv(l, "visit", "C2") >= 1
		}) {
			problem = "the alternatives' tokens did not arrive at their catch events"
		}
		if problem == "" {
			time.Sleep(6 * time.Millisecond)
			in.Signal("sig0")
			if !in.Answer("B0", tmoStep) {
				problem = "sig0 delivered: G1's alternative C0 did not continue"
			}
		}
		if problem == "" {
			time.Sleep(3 * settle)
			l := in.Log()
			if d := countEv(l, "determination", "G2"); d != 0 {
				problem = fmt.Sprintf("G2 was decided (%d determinations) although none of its events has been delivered", d)
			} else if countEv(l, "task", "B1")+countEv(l, "task", "B2") != 0 {
				problem = "an alternative of G2 continued although none of its events has been delivered"
			}
		}
		if problem == "" {
			in.Signal("sig1")
			if !in.Answer("B1", tmoStep) {
				problem = "sig1 delivered: G2's alternative C1 did not continue"
			} else if !in.WaitCease(tmoStep) {
				problem = "both winners answered, the instance did not complete"
			} else if l := in.Log(); countEv(l, "task", "B0") != 1 || countEv(l, "task", "B1") != 1 || countEv(l, "task", "B2") != 0 {
				problem = fmt.Sprintf("requests B0 %d, B1 %d, B2 %d (expected 1, 1, 0)", countEv(l, "task", "B0"), countEv(l, "task", "B1"), countEv(l, "task", "B2"))
			}
		}
		if problem != "" {
			rep.Violate("C06-one-winner", cs, problem+"; log: "+logString(in.Log()))
		}
		in.Close()
	}
	// a host that delivers first and reads its traces afterwards: G1 {sig0, sig1}; the branch of sig0 leads to G2
	// {sig2, sig3}. sig0 decides G1. Then, while the host's subscriber pauses (the tracer, and with it every node that
	// reports an event, stands still), a goroutine delivers many late copies of sig1 (every event is offered to every
	// catch event) and then sig2. When the host reads again the outcome is that of the same deliveries made one by
	// one: sig2 wins G2, the instance completes.
	for rnd := 0; rnd < 3 && !rep.Saturated(); rnd++ {
		cs := fmt.Sprintf("two event-based gateways in a row; after sig0, 60 late copies of sig1 and then sig2 are delivered while the host does not read its traces for 150 ms (round %d)", rnd)
		env.Current(cs)
		p := &Prog{}
		p.Node("start", "start")
		p.Node("ebg", "G1")
		p.Node("ebg", "G2")
		for i := 0; i < 4; i++ {
			c := p.Node("catch", fmt.Sprintf("C%d", i))
			c.Inner = fmt.Sprintf(`<bpmn:signalEventDefinition id="sd%d" signalRef="sig%d"/>`, i, i)
		}
		p.Node("task", "B1")
		p.Node("task", "B2")
		p.Node("task", "B3")
		p.Node("end", "end")
		p.Flow("start", "G1", "")
		p.Flow("G1", "C0", "")
		p.Flow("G1", "C1", "")
		p.Flow("C0", "G2", "")
		p.Flow("C1", "B1", "")
		p.Flow("G2", "C2", "")
		p.Flow("G2", "C3", "")
		p.Flow("C2", "B2", "")
		p.Flow("C3", "B3", "")
		p.Flow("B1", "end", "")
		p.Flow("B2", "end", "")
		p.Flow("B3", "end", "")
		defs, err := ParseDefs(p.XML(`<bpmn:signal id="sig0" name="sig0"/><bpmn:signal id="sig1" name="sig1"/><bpmn:signal id="sig2" name="sig2"/><bpmn:signal id="sig3" name="sig3"/>`))
		must(err)
		var paused atomic.Bool
		resume := make(chan struct{})
		in, err := StartInst(defs, InstOpt{Raw: func(tracing.ITrace) {
			if paused.Load() {
				<-resume
			}
		}})
		must(err)
		rep.Evaluations++
		rep.Nontrivial++
		rep.Count("deliver_then_read")
		problem := ""
		if !in.WaitUntil(tmoStep, func(l []Ev) bool { return countEv(l, "visit", "C0") >= 1 && countEv(l, "visit", "C1") >= 1 }) {
			problem = "the alternatives' tokens did not arrive at their catch events"
		}
		if problem == "" {
			time.Sleep(6 * time.Millisecond)
			in.Signal("sig0")
			if !in.WaitUntil(tmoStep, func(l []Ev) bool { return countEv(l, "visit", "C2") >= 1 && countEv(l, "visit", "C3") >= 1 }) {
				problem = "sig0 delivered: G1's alternative C0 did not lead to G2"
			}
		}
		if problem == "" {
			time.Sleep(6 * time.Millisecond)
			paused.Store(true)
			delivered := make(chan struct{})
			go func() {
				defer close(delivered)
				for i := 0; i < 60; i++ {
					in.Signal("sig1")
					time.Sleep(time.Millisecond)
				}
				in.Signal("sig2")
			}()
			time.Sleep(150 * time.Millisecond)
			paused.Store(false)
			close(resume)
			select {
			case <-delivered:
			case <-time.After(tmoStep):
				problem = "the deliveries did not return after the host had resumed reading"
			}
		}
		if problem == "" {
			if !in.Answer("B2", tmoStep) {
				problem = "sig0 then sig2 were delivered: the branch of G2's alternative C2 did not continue"
			} else if !in.WaitCease(tmoStep) {
				problem = "the winner was answered, the instance did not complete"
			} else if l := in.Log(); countEv(l, "task", "B1")+countEv(l, "task", "B3") != 0 || countEv(l, "task", "B2") != 1 {
				problem = fmt.Sprintf("requests B1 %d, B2 %d, B3 %d (expected 0, 1, 0)", countEv(l, "task", "B1"), countEv(l, "task", "B2"), countEv(l, "task", "B3"))
			}
		}
		if problem != "" {
			rep.Violate("C06-one-winner", cs, problem+"; log (tail): "+tailStr(logString(in.Log()), 1500))
		}
		in.Close()
	}
	// simultaneous delivery: every alternative's token runs the gateway's action transformer at the same
	// moment (hook VerifEventGatewayRace, build tag verif): exactly one may continue, round after round
	for _, n := range []int{2, 3} {
		rounds := 4000
		if env.Thorough() {
			rounds = 60000
		}
		cs := fmt.Sprintf("%d alternatives triggered at the same moment, %d rounds", n, rounds)
		env.Current(cs)
		p, extra := c06Prog(n)
		defs, err := ParseDefs(p.XML(extra))
		must(err)
		in, err := StartInst(defs, InstOpt{NoStart: true})
		must(err)
		var gw schema.FlowNodeInterface
		if el, found := defs.FindBy(schema.ExactId("EG")); found {
			gw, _ = el.(schema.FlowNodeInterface)
		}
		node, found := in.P.FlowNodeMapping().ResolveElementToFlowNode(gw)
		if !found {
			rep.Violate("C06-one-winner", cs, "event-based gateway node not found")
			in.Close()
			continue
		}
		bad, err := bpmn.VerifEventGatewayRace(in.Ctx, node, rounds)
		rep.Evaluations++
		rep.Nontrivial++
		rep.Count("simultaneous")
		if err != nil {
			rep.Violate("C06-one-winner", cs, "hook: "+err.Error())
		} else if bad > 0 {
			rep.Violate("C06-one-winner", cs, fmt.Sprintf("in %d of %d rounds the number of alternatives that continued was not one", bad, rounds))
		}
		in.Close()
	}
	// a token the scheduler ran late: every alternative takes its termination channel either before the winner is
	// determined or only afterwards (hook VerifEventGatewayLookups) — each of them must find its withdrawal notice
	var litems []string
	for _, n := range []int{2, 3, 4} {
		for mask := 0; mask < 1<<(n-1); mask++ {
			early := make([]bool, n)
			en := make([]int, n)
			for j := 1; j < n; j++ {
				early[j] = mask&(1<<(j-1)) != 0
				en[j] = b2i(early[j])
			}
			cs := fmt.Sprintf("%d alternatives, alternative 0 wins, the others reach their select before the determination: %v", n, early[1:])
			env.Current(cs)
			p, extra := c06Prog(n)
			defs, err := ParseDefs(p.XML(extra))
			must(err)
			in, err := StartInst(defs, InstOpt{NoStart: true})
			must(err)
			var gw schema.FlowNodeInterface
			if el, found := defs.FindBy(schema.ExactId("EG")); found {
				gw, _ = el.(schema.FlowNodeInterface)
			}
			node, found := in.P.FlowNodeMapping().ResolveElementToFlowNode(gw)
			if !found {
				rep.Violate("C06-withdrawal", cs, "event-based gateway node not found")
				in.Close()
				continue
			}
			got, err := bpmn.VerifEventGatewayLookups(in.Ctx, node, early)
			rep.Evaluations++
			rep.Nontrivial++
			rep.Count("late_lookup")
			if err != nil {
				rep.Violate("C06-withdrawal", cs, "hook: "+err.Error())
				in.Close()
				continue
			}
			gn := make([]int, n)
			for j := 1; j < n; j++ {
				gn[j] = b2i(got[j])
				if !got[j] {
					rep.Violate("C06-withdrawal", cs, fmt.Sprintf("alternative %d took its termination channel %s the determination and found no withdrawal notice: it stays in its select until its own event arrives",
						j, map[bool]string{true: "before", false: "after"}[early[j]]))
				}
			}
			litems = append(litems, fmt.Sprintf("(%s,%s)", natList(en), natList(gn)))
			in.Close()
		}
	}
	env.WriteCases(rep, "_lookup", "Corr.C06corr", "list nat * list nat", litems, "c06_lookup_mismatches")
	env.WriteCases(rep, "", "Corr.C06corr", "nat * list nat * nat * list nat * list nat", items, "c06_mismatches")
	env.WriteReport(rep)
}
