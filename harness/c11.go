package main

import (
	"sync"
	"fmt"
	bpmn "github.com/olive-io/bpmn/v2"
	"math/rand"
	"strings"
	"time"

	"github.com/olive-io/bpmn/v2/pkg/event"
)

func init() { commands["c11"] = runC11 }

type c11Listener struct {
	node    string // catch event id
	pat     int    // event index it matches
	after   string // downstream task id
	message bool   // message (true) or signal definition
}

type c11Shape struct {
	name      string
	prog      *Prog
	extra     string
	vars      map[string]any
	listeners []c11Listener
	// armedBy[task] = listener armed once that task is answered ("" key: armed at start)
	armedBy map[string][]int
	tasks   []string // all answerable tasks
	loopN   int      // loop shape: B0's answers send the token round again loopN-1 times
}

func c11Catch(p *Prog, id string, ev int, msg bool) {
	c := p.Node("catch", id)
	if msg {
		c.Inner = fmt.Sprintf(`<bpmn:messageEventDefinition id="d_%s" messageRef="e%d"/>`, id, ev)
	} else {
		c.Inner = fmt.Sprintf(`<bpmn:signalEventDefinition id="d_%s" signalRef="e%d"/>`, id, ev)
	}
}

func c11Shapes() []c11Shape {
	extra := `<bpmn:signal id="e0" name="e0"/><bpmn:signal id="e1" name="e1"/><bpmn:message id="e1m" name="e1"/><bpmn:signal id="e2" name="e2"/>`
	var out []c11Shape
	{ // sequence: start -> A -> C0(sig e0) -> B0 -> C1(msg e1) -> B1 -> end
		p := &Prog{}
		p.Node("start", "start")
		p.Node("task", "A")
		c11Catch(p, "C0", 0, false)
		p.Node("task", "B0")
		c11Catch(p, "C1", 1, true)
		p.Node("task", "B1")
		p.Node("end", "end")
		for _, f := range [][2]string{{"start", "A"}, {"A", "C0"}, {"C0", "B0"}, {"B0", "C1"}, {"C1", "B1"}, {"B1", "end"}} {
			p.Flow(f[0], f[1], "")
		}
		out = append(out, c11Shape{"sequence", p, extra, nil,
			[]c11Listener{{"C0", 0, "B0", false}, {"C1", 1, "B1", true}},
			map[string][]int{"A": {0}, "B0": {1}}, []string{"A", "B0", "B1"}, 0})
	}
	{ // parallel: start -> F -> {C0(e0)->B0, C1(e1)->B1, C2(e0)->B2} -> J -> end
		p := &Prog{}
		p.Node("start", "start")
		p.Node("par", "F")
		c11Catch(p, "C0", 0, false)
		c11Catch(p, "C1", 1, false)
		c11Catch(p, "C2", 0, false)
		p.Node("task", "B0")
		p.Node("task", "B1")
		p.Node("task", "B2")
		p.Node("par", "J")
		p.Node("end", "end")
		p.Flow("start", "F", "")
		for i := 0; i < 3; i++ {
			p.Flow("F", fmt.Sprintf("C%d", i), "")
			p.Flow(fmt.Sprintf("C%d", i), fmt.Sprintf("B%d", i), "")
			p.Flow(fmt.Sprintf("B%d", i), "J", "")
		}
		p.Flow("J", "end", "")
		out = append(out, c11Shape{"parallel", p, extra, nil,
			[]c11Listener{{"C0", 0, "B0", false}, {"C1", 1, "B1", false}, {"C2", 0, "B2", false}},
			map[string][]int{"": {0, 1, 2}}, []string{"B0", "B1", "B2"}, 0})
	}
	{ // parallel, two listeners for the same MESSAGE: start -> F -> {C0(msg e1)->B0, C1(msg e1)->B1, C2(sig e0)->B2} -> J -> end
		p := &Prog{}
		p.Node("start", "start")
		p.Node("par", "F")
		c11Catch(p, "C0", 1, true)
		c11Catch(p, "C1", 1, true)
		c11Catch(p, "C2", 0, false)
		p.Node("task", "B0")
		p.Node("task", "B1")
		p.Node("task", "B2")
		p.Node("par", "J")
		p.Node("end", "end")
		p.Flow("start", "F", "")
		for i := 0; i < 3; i++ {
			p.Flow("F", fmt.Sprintf("C%d", i), "")
			p.Flow(fmt.Sprintf("C%d", i), fmt.Sprintf("B%d", i), "")
			p.Flow(fmt.Sprintf("B%d", i), "J", "")
		}
		p.Flow("J", "end", "")
		out = append(out, c11Shape{"parallel-messages", p, extra, nil,
			[]c11Listener{{"C0", 1, "B0", true}, {"C1", 1, "B1", true}, {"C2", 0, "B2", false}},
			map[string][]int{"": {0, 1, 2}}, []string{"B0", "B1", "B2"}, 0})
	}
	{ // untaken branch: start -> X -[c0]-> C0(e0) -> B0 -> end | default -> A -> C1(e1) -> B1 -> end
		p := &Prog{}
		p.Node("start", "start")
		x := p.Node("xor", "X")
		c11Catch(p, "C0", 0, false)
		p.Node("task", "B0")
		p.Node("task", "A")
		c11Catch(p, "C1", 1, false)
		p.Node("task", "B1")
		p.Node("end", "end")
		p.Flow("start", "X", "")
		p.Flow("X", "C0", "c0")
		x.Default = p.Flow("X", "A", "").ID
		p.Flow("C0", "B0", "")
		p.Flow("B0", "end", "")
		p.Flow("A", "C1", "")
		p.Flow("C1", "B1", "")
		p.Flow("B1", "end", "")
		out = append(out, c11Shape{"untaken-branch", p, extra, map[string]any{"c0": false},
			[]c11Listener{{"C0", 0, "B0", false}, {"C1", 1, "B1", false}},
			map[string][]int{"A": {1}}, []string{"A", "B0", "B1"}, 0})
	}
	{ // loop: start -> M -> C0(e0) -> B0 -> X -[again]-> M | default -> end : one catch event reached again and again by the same token
		p := &Prog{}
		p.Node("start", "start")
		p.Node("xor", "M")
		c11Catch(p, "C0", 0, false)
		b := p.Node("task", "B0")
		b.Results = []string{"again"}
		x := p.Node("xor", "X")
		p.Node("end", "end")
		p.Flow("start", "M", "")
		p.Flow("M", "C0", "")
		p.Flow("C0", "B0", "")
		p.Flow("B0", "X", "")
		p.Flow("X", "M", "again")
		x.Default = p.Flow("X", "end", "").ID
		out = append(out, c11Shape{"loop", p, extra, map[string]any{"again": true},
			[]c11Listener{{"C0", 0, "B0", false}},
			map[string][]int{"": {0}, "B0": {0}}, []string{"B0", "B0"}, 5})
	}
	{ // re-armed: start -> F -> {C0(e0) ; A -> C0} ; C0 -> B0 -> end : two tokens reach the same catch event, together or one after the other
		p := &Prog{}
		p.Node("start", "start")
		p.Node("par", "F")
		p.Node("task", "A")
		c11Catch(p, "C0", 0, false)
		p.Node("task", "B0")
		p.Node("end", "end")
		p.Flow("start", "F", "")
		p.Flow("F", "C0", "")
		p.Flow("F", "A", "")
		p.Flow("A", "C0", "")
		p.Flow("C0", "B0", "")
		p.Flow("B0", "end", "")
		out = append(out, c11Shape{"re-armed", p, extra, nil,
			[]c11Listener{{"C0", 0, "B0", false}},
			map[string][]int{"": {0}, "A": {0}}, []string{"A", "B0", "B0"}, 0})
	}
	for _, depth := range []int{1, 2} { // the sequence shape with C0 and B0 inside an embedded sub-process (nested once or twice)
		p := &Prog{}
		p.Node("start", "start")
		p.Node("task", "A")
		sn := p.Node("sub", "S")
		sn.Sub = &Prog{nflow: 300}
		inner := sn.Sub
		if depth == 2 {
			inner.Node("start", "s1")
			s2 := inner.Node("sub", "S2")
			s2.Sub = &Prog{nflow: 400}
			inner.Node("end", "e1")
			inner.Flow("s1", "S2", "")
			inner.Flow("S2", "e1", "")
			inner = s2.Sub
		}
		inner.Node("start", "ss")
		c11Catch(inner, "C0", 0, false)
		inner.Node("task", "B0")
		inner.Node("end", "se")
		inner.Flow("ss", "C0", "")
		inner.Flow("C0", "B0", "")
		inner.Flow("B0", "se", "")
		c11Catch(p, "C1", 1, true)
		p.Node("task", "B1")
		p.Node("end", "end")
		for _, f := range [][2]string{{"start", "A"}, {"A", "S"}, {"S", "C1"}, {"C1", "B1"}, {"B1", "end"}} {
			p.Flow(f[0], f[1], "")
		}
		out = append(out, c11Shape{fmt.Sprintf("in-sub-process-%d", depth), p, extra, nil,
			[]c11Listener{{"C0", 0, "B0", false}, {"C1", 1, "B1", true}},
			map[string][]int{"A": {0}, "B0": {1}}, []string{"A", "B0", "B1"}, 0})
	}
	return out
}

type c11Obs struct {
	msgs    [][]int // per listener
	conts   []int
	waiting []int
	blocked string
	stuck   string
	log     []Ev
}

// ops: "t:<task>" answer a task if pending (skipped otherwise), "e:<i>" deliver event i (signal and, for i==1, also the message form)
func c11Run(sh c11Shape, ops []string) c11Obs {
	o := c11Obs{msgs: make([][]int, len(sh.listeners)), conts: make([]int, len(sh.listeners)), waiting: make([]int, len(sh.listeners))}
	defs, err := ParseDefs(sh.prog.XML(sh.extra))
	must(err)
	in, err := StartInst(defs, InstOpt{Vars: sh.vars})
	must(err)
	defer in.Close()
	armedSeen := make([]int, len(sh.listeners)) // tokens that have arrived at the listener so far
	acts := make([]int, len(sh.listeners))      // times the listener went from idle to listening
	waitArm := func(ls []int) {
		for _, li := range ls {
			want := armedSeen[li] + 1
			node := sh.listeners[li].node
			wasWaiting := armedSeen[li] - countEv(in.Log(), "task", sh.listeners[li].after)
			if !in.WaitUntil(tmoStep, func(l []Ev) bool { return countEv(l, "visit", node) >= want }) {
				o.stuck = "no token arrived at listener " + node
				return
			}
			if wasWaiting <= 0 {
				// the node announces that it listens (again); a token joining one that already waits is not announced
				acts[li]++
				wantL := acts[li]
				if !in.WaitUntil(tmoStep, func(l []Ev) bool { return countEv(l, "listening", node) >= wantL }) {
					o.stuck = "listener " + node + " never started listening"
					return
				}
			} else {
				time.Sleep(5 * time.Millisecond) // the token's request is queued right after its visit trace
			}
			armedSeen[li] = want
			o.msgs[li] = append(o.msgs[li], 0)
		}
	}
	// quiescence at start: first task requested or listeners armed
	if ls, ok := sh.armedBy[""]; ok {
		waitArm(ls)
	} else {
		in.WaitUntil(tmoStep, func(l []Ev) bool { return countEv(l, "task", "*") > 0 })
	}
	answered := map[string]int{}
	listening := func(li int) bool { // model-free: armed more often than released
		return armedSeen[li] > countEv(in.Log(), "task", sh.listeners[li].after)
	}
	for _, op := range ops {
		if o.stuck != "" {
			break
		}
		switch {
		case strings.HasPrefix(op, "t:"):
			task := op[2:]
			var opts []bpmn.DoOption
			again := true
			if sh.loopN > 0 {
				again = answered[task]+1 < sh.loopN
				opts = append(opts, bpmn.DoWithResults(map[string]any{"again": again}))
			}
			if !in.Answer(task, time.Millisecond, opts...) {
				continue // not pending: the driver skips it
			}
			answered[task]++
			if ls, ok := sh.armedBy[task]; ok && again {
				waitArm(ls)
			}
		case strings.HasPrefix(op, "e:"):
			var e int
			fmt.Sscanf(op, "e:%d", &e)
			// which listeners are listening for it right now (to know what to wait for)
			expect := map[string]int{}
			for li, l := range sh.listeners {
				if l.pat == e && listening(li) {
					expect[l.after] = countEv(in.Log(), "task", l.after) + 1
				}
			}
			done := make(chan struct{})
			go func() {
				name := fmt.Sprintf("e%d", e)
				in.P.ConsumeEvent(event.NewSignalEvent(name))
				in.P.ConsumeEvent(event.NewMessageEvent(name, nil))
				close(done)
			}()
			select {
			case <-done:
			case <-time.After(2 * time.Second):
				o.blocked = fmt.Sprintf("ConsumeEvent(e%d) did not return", e)
				o.log = in.Log()
				return o
			}
			for li := range sh.listeners {
				// the signal form and the message form are two deliveries; a listener reacts to the form its
				// definition names, the other form is a non-matching event for it (code e+1+10)
				if sh.listeners[li].message {
					o.msgs[li] = append(o.msgs[li], e+1+10, e+1)
				} else {
					o.msgs[li] = append(o.msgs[li], e+1, e+1+10)
				}
			}
			for task, want := range expect {
				t := task
				w := want
				if !in.WaitUntil(tmoStep, func(l []Ev) bool { return countEv(l, "task", t) >= w }) {
					o.stuck = fmt.Sprintf("listener before %s did not continue on its event", t)
				}
			}
		}
	}
	time.Sleep(settle)
	o.log = in.Log()
	for li, l := range sh.listeners {
		o.conts[li] = countEv(o.log, "task", l.after)
		o.waiting[li] = countEv(o.log, "visit", l.node) - o.conts[li]
	}
	return o
}

func runC11(env *Env) {
	rep := &Report{Property: "C11",
		Rule: "processes with 2-3 catch events (signal and message definitions) in sequence, in parallel (two listeners for the same event) and on a branch that is never taken; seeded histories of up to 10 operations over {deliver e0, e1, non-matching e2 (each as signal and as message), answer a task}, so that events arrive before, while and after listeners are armed, repeated events included; plus bursts of 12 deliveries right after start; every ConsumeEvent must return; non-trivial = at least one event delivered while a listener was armed; distinct by (shape, history)"}
	rng := rand.New(rand.NewSource(env.Seed))
	nHist := 40
	if env.Thorough() {
		nHist = 500
	}
	var items []string
	for _, sh := range c11Shapes() {
		var hists [][]string
		burst := []string{}
		for i := 0; i < 12; i++ {
			burst = append(burst, fmt.Sprintf("e:%d", i%3))
		}
		hists = append(hists, burst)
		if sh.loopN > 0 { // the catch event reached again and again, a matching event every time
			var again []string
			for i := 0; i < sh.loopN; i++ {
				again = append(again, "e:0", "t:B0")
			}
			hists = append(hists, again, append([]string{"e:1", "e:0", "e:0"}, again...))
		}
		for h := 0; h < nHist; h++ {
			n := 3 + rng.Intn(8)
			var ops []string
			for i := 0; i < n; i++ {
				if rng.Intn(3) == 0 {
					ops = append(ops, "t:"+sh.tasks[rng.Intn(len(sh.tasks))])
				} else {
					ops = append(ops, fmt.Sprintf("e:%d", rng.Intn(3)))
				}
			}
			hists = append(hists, ops)
		}
		seen := map[string]bool{}
		for _, ops := range hists {
			key := strings.Join(ops, ",")
			if seen[key] || rep.Saturated() {
				continue
			}
			seen[key] = true
			cs := fmt.Sprintf("shape=%s history=%v", sh.name, ops)
			env.Current(cs)
			o := c11Run(sh, ops)
			rep.Evaluations++
			rep.Count("shape_" + sh.name)
			if o.blocked != "" {
				rep.Violate("C11-delivery-blocks", cs, o.blocked+"; log: "+logString(o.log))
				continue
			}
			if o.stuck != "" {
				rep.Violate("C11-listener", cs, o.stuck+"; log: "+logString(o.log))
			}
			// direct oracle: per listener, replay its message sequence
			ls := []string{}
			nontriv := false
			for li, l := range sh.listeners {
				armed, waiting, conts := false, 0, 0
				for _, m := range o.msgs[li] {
					switch {
					case m == 0:
						armed, waiting = true, waiting+1
					case m == l.pat+1 && armed:
						conts += waiting
						waiting, armed = 0, false
						nontriv = true
					}
				}
				if conts != o.conts[li] || waiting != o.waiting[li] {
					rep.Violate("C11-exactly-once", cs, fmt.Sprintf("listener %s: continued %d times (still waiting %d), expected %d (%d) for its message sequence %v; log: %s",
						l.node, o.conts[li], o.waiting[li], conts, waiting, o.msgs[li], logString(o.log)))
				}
				ls = append(ls, fmt.Sprintf("(%d,%s,%d,%d)", l.pat, natList(o.msgs[li]), o.conts[li], o.waiting[li]))
			}
			if nontriv {
				rep.Nontrivial++
			}
			items = append(items, "["+strings.Join(ls, ";")+"]")
			if nontriv && len(rep.Samples) < 5 {
				rep.Sample(fmt.Sprintf("%s -> continuations per listener %v, still waiting %v", cs, o.conts, o.waiting))
			}
		}
	}
	// boundary events are listeners too: an event delivered the moment one of them announces that it listens
	boundaryPromptDelivery(env, rep, "C11-exactly-once", 12)
	boundaryStaleEvents(env, rep, "C11-exactly-once", 8)
	deliveryDuringCancellation(env, rep, "C11-delivery-blocks", 24)
	env.WriteCases(rep, "", "Corr.C11corr", "list (nat * list nat * nat * nat)", items, "c11_mismatches")
	env.WriteReport(rep)
}

// deliveryDuringCancellation: events are handed to an instance in a tight loop by 1..4 goroutines while the instance is
// cancelled: every delivery returns (an event that finds nobody any more is dropped, its sender is not left waiting at
// the inbox of a node whose goroutine has just ended).
func deliveryDuringCancellation(env *Env, rep *Report, key string, rounds int) {
	p := &Prog{}
	p.Node("start", "start")
	c := p.Node("catch", "C0")
	c.Inner = `<bpmn:signalEventDefinition id="sd0" signalRef="s0"/>`
	th := p.Node("throw", "H0")
	th.Inner = `<bpmn:signalEventDefinition id="hd0" signalRef="s2"/>`
	p.Node("end", "end")
	p.Flow("start", "C0", "")
	p.Flow("C0", "H0", "")
	p.Flow("H0", "end", "")
	xmlText := p.XML(`<bpmn:signal id="s0" name="s0"/><bpmn:signal id="s1" name="s1"/><bpmn:signal id="s2" name="s2"/>`)
	for r := 0; r < rounds && !rep.Saturated(); r++ {
		deliverers := 1 + r%4
		cs := fmt.Sprintf("%d goroutine(s) deliver non-matching events in a tight loop while the instance is cancelled (round %d)", deliverers, r)
		env.Current(cs)
		defs, err := ParseDefs(xmlText)
		must(err)
		in, err := StartInst(defs, InstOpt{})
		must(err)
		in.WaitUntil(tmoStep, func(l []Ev) bool { return countEv(l, "listening", "C0") >= 1 })
		var wg sync.WaitGroup
		stop := make(chan struct{})
		for g := 0; g < deliverers; g++ {
			wg.Add(1)
			go func() {
				defer wg.Done()
				for {
					select {
					case <-stop:
						return
					default:
					}
					in.Signal("s1")
				}
			}()
		}
		time.Sleep(time.Duration(r%5) * 200 * time.Microsecond)
		in.Cancel()
		time.Sleep(2 * time.Millisecond)
		close(stop)
		done := make(chan struct{})
		go func() { wg.Wait(); close(done) }()
		rep.Evaluations++
		rep.Nontrivial++
		rep.Count("delivery_during_cancellation")
		select {
		case <-done:
		case <-time.After(3 * time.Second):
			rep.Violate(key, cs, "a delivery had not returned 3 s after the cancellation")
		}
		in.Close()
	}
}
