package main

import (
	"encoding/xml"
	"fmt"
	"math"
	"math/rand"
	"reflect"
	"strings"
	"time"

	"github.com/olive-io/bpmn/schema"
)

func init() { commands["c19"] = runC19 }

var c19Kinds = []string{"Task", "BusinessRuleTask", "UserTask", "CallActivity", "ManualTask", "SendTask", "ScriptTask", "ServiceTask", "ReceiveTask", "SubProcess"}

func c19NewAct(kind int, preset string) schema.ActivityInterface {
	var a schema.ActivityInterface
	switch kind {
	case 0:
		a = &schema.Task{}
	case 1:
		a = &schema.BusinessRuleTask{}
	case 2:
		a = &schema.UserTask{}
	case 3:
		a = &schema.CallActivity{}
	case 4:
		a = &schema.ManualTask{}
	case 5:
		a = &schema.SendTask{}
	case 6:
		a = &schema.ScriptTask{}
	case 7:
		a = &schema.ServiceTask{}
	case 8:
		a = &schema.ReceiveTask{}
	default:
		a = &schema.SubProcess{}
	}
	if preset != "" {
		a.SetId(schema.NewStringP(preset))
	}
	return a
}

type c19Struct struct {
	ids    []string   // node ids in insertion order: start, activities, end
	nin    [][]string // per node
	nout   [][]string
	flows  [][3]string // id, src, tgt in SequenceFlowField order
	bad    string
}

// extract the structure of a built process: insertion order is reconstructed by following the chain
// from the start event (the oracle below checks that this walk covers every node exactly once)
func c19Extract(p *schema.Process, order []string) c19Struct {
	s := c19Struct{}
	for i := range p.SequenceFlowField {
		f := &p.SequenceFlowField[i]
		id := ""
		if v, ok := f.Id(); ok && v != nil {
			id = *v
		}
		s.flows = append(s.flows, [3]string{id, string(f.SourceRefField), string(f.TargetRefField)})
	}
	for _, id := range order {
		e, found := p.FindBy(schema.ExactId(id).And(schema.ElementInterface((*schema.FlowNodeInterface)(nil))))
		if !found {
			s.bad = "node " + id + " not retrievable by id"
			return s
		}
		fn := e.(schema.FlowNodeInterface)
		s.ids = append(s.ids, id)
		in, out := []string{}, []string{}
		for _, q := range *fn.Incomings() {
			in = append(in, string(q))
		}
		for _, q := range *fn.Outgoings() {
			out = append(out, string(q))
		}
		s.nin = append(s.nin, in)
		s.nout = append(s.nout, out)
	}
	return s
}

func c19AllNodeIds(p *schema.Process) []string {
	out := []string{}
	for _, fe := range p.FlowElements() {
		if fn, ok := fe.(schema.FlowNodeInterface); ok {
			if id, ok := fn.Id(); ok && id != nil {
				out = append(out, *id)
			}
		}
	}
	return out
}

// property oracle on the structure
func c19WF(p *schema.Process, s c19Struct) string {
	if s.bad != "" {
		return s.bad
	}
	seen := map[string]bool{}
	for _, id := range append(append([]string{}, c19AllNodeIds(p)...), func() []string {
		r := []string{}
		for _, f := range s.flows {
			r = append(r, f[0])
		}
		return r
	}()...) {
		if seen[id] {
			return "duplicate id " + id
		}
		seen[id] = true
	}
	idx := map[string]int{}
	for i, id := range s.ids {
		idx[id] = i
	}
	has := func(l []string, x string) bool {
		for _, y := range l {
			if y == x {
				return true
			}
		}
		return false
	}
	for _, f := range s.flows {
		si, ok1 := idx[f[1]]
		ti, ok2 := idx[f[2]]
		if !ok1 || !ok2 {
			return fmt.Sprintf("flow %s: end %s or %s does not exist", f[0], f[1], f[2])
		}
		if !has(s.nout[si], f[0]) {
			return fmt.Sprintf("flow %s not listed as outgoing of its source %s", f[0], f[1])
		}
		if !has(s.nin[ti], f[0]) {
			return fmt.Sprintf("flow %s not listed as incoming of its target %s", f[0], f[2])
		}
	}
	for i := range p.StartEventField {
		if len(p.StartEventField[i].IncomingField) != 0 {
			return "start event has an incoming flow"
		}
	}
	for i := range p.EndEventField {
		if len(p.EndEventField[i].OutgoingField) != 0 {
			return "end event has an outgoing flow"
		}
	}
	return ""
}

type numbering struct {
	m    map[string]int
	next int
}

func (n *numbering) of(s string) int {
	if v, ok := n.m[s]; ok {
		return v
	}
	n.m[s] = n.next
	n.next++
	return n.m[s]
}

// every other process is built with a builder that has already handed out a process (Out() leaves the builder
// ready for the next one): reuse must give the same well-formed result as a fresh builder
var c19Reused *schema.ProcessBuilder
var c19Builds int
var c19Layouts int

func c19BuildProcess(acts []int, presets []string) (*schema.Process, []string) {
	c19Builds++
	pb := schema.NewProcessBuilder()
	if c19Builds%2 == 0 && c19Reused != nil {
		pb = c19Reused
	}
	defer func() { c19Reused = pb }()
	order := []string{*pb.StartEventField[0].IdField}
	for i, k := range acts {
		a := c19NewAct(k, presets[i])
		pb.AddActivity(a)
		id, _ := a.Id()
		order = append(order, *id)
	}
	p := pb.Out()
	order = append(order, *p.EndEventField[len(p.EndEventField)-1].IdField)
	return p, order
}

func (s c19Struct) coq(start int, nm *numbering) (steps, nodes, flows string) {
	// steps: (flow id, target node id) in flow order
	st, nd, fl := []string{}, []string{}, []string{}
	for _, f := range s.flows {
		st = append(st, fmt.Sprintf("(%d,%d)", nm.of("F:"+f[0]), nm.of("N:"+f[2])))
		fl = append(fl, fmt.Sprintf("(%d,%d,%d)", nm.of("F:"+f[0]), nm.of("N:"+f[1]), nm.of("N:"+f[2])))
	}
	for i, id := range s.ids {
		in, out := []int{}, []int{}
		for _, x := range s.nin[i] {
			in = append(in, nm.of("F:"+x))
		}
		for _, x := range s.nout[i] {
			out = append(out, nm.of("F:"+x))
		}
		nd = append(nd, fmt.Sprintf("(%d,%s,%s)", nm.of("N:"+id), natList(in), natList(out)))
	}
	return "[" + strings.Join(st, ";") + "]", "[" + strings.Join(nd, ";") + "]", "[" + strings.Join(fl, ";") + "]"
}

// run the engine on definitions; answer every task request as it comes; return the request order
func c19Run(defs *schema.Definitions, expect int) (order []string, completed bool, log []Ev) {
	in, err := StartInst(defs, InstOpt{})
	if err != nil {
		return nil, false, []Ev{{"error", "", err.Error()}}
	}
	defer in.Close()
	for i := 0; i < expect; i++ {
		ok := in.WaitUntil(tmoStep, func(l []Ev) bool { return countEv(l, "task", "*") > i })
		if !ok {
			break
		}
		var node string
		c := 0
		for _, e := range in.Log() {
			if e.K == "task" {
				if c == i {
					node = e.N
				}
				c++
			}
		}
		in.Answer(node, tmoStep)
	}
	completed = in.WaitCease(tmoStep)
	time.Sleep(2 * time.Millisecond)
	for _, e := range in.Log() {
		if e.K == "task" {
			order = append(order, e.N)
		}
	}
	return order, completed, in.Log()
}

type c19Rect struct{ x, y, w, h float64 }

func q2(v float64) (int64, bool) { // value * 2 as an exact integer
	r := v * 2
	return int64(r), r == math.Trunc(r) && !math.IsInf(r, 0) && !math.IsNaN(r)
}
func q4(v float64) (int64, bool) {
	r := v * 4
	return int64(r), r == math.Trunc(r) && !math.IsInf(r, 0) && !math.IsNaN(r)
}

func c19Layout(rep *Report, procs []*schema.Process, cfg *schema.AutoLayoutConfig, label string) (item string) {
	db := schema.NewDefinitionsBuilder()
	for _, p := range procs {
		db.AddProcess(*p)
	}
	// every third layout is a re-layout: the builder is first laid out with another configuration (trying one,
	// then settling on `cfg`); the result must be the layout of `cfg` alone
	c19Layouts++
	relayout := c19Layouts%3 == 0
	if relayout && c19Layouts%2 == 0 {
		other := *cfg
		other.StartX, other.StartY = other.StartX+37, other.StartY+53
		db.AutoLayout(&other)
	} else if relayout {
		// the same configuration object, adjusted between the two calls
		settled := *cfg
		cfg.StartX, cfg.ColumnGap, cfg.RowGap = cfg.StartX+37, cfg.ColumnGap+80, cfg.RowGap+60
		db.AutoLayout(cfg)
		*cfg = settled
	}
	db.AutoLayout(cfg)
	defs := db.Out()
	cs := fmt.Sprintf("layout %s cfg=%+v laid-out-twice=%v", label, *cfg, relayout)
	if defs.DiagramField == nil || defs.DiagramField.BPMNPlane() == nil {
		rep.Violate("C19-layout", cs, "no diagram produced")
		return ""
	}
	plane := defs.DiagramField.BPMNPlane()
	shapeOf := map[string][]c19Rect{}
	for i := range plane.BPMNShapeFields {
		sh := &plane.BPMNShapeFields[i]
		el, _ := sh.BpmnElement()
		b := sh.Bounds()
		shapeOf[string(*el)] = append(shapeOf[string(*el)], c19Rect{float64(b.X()), float64(b.Y()), float64(b.Width()), float64(b.Height())})
	}
	edgeOf := map[string][][][2]float64{}
	for i := range plane.BPMNEdgeFields {
		ed := &plane.BPMNEdgeFields[i]
		el, _ := ed.BpmnElement()
		pts := [][2]float64{}
		for j := range ed.WaypointField {
			pts = append(pts, [2]float64{float64(ed.WaypointField[j].X()), float64(ed.WaypointField[j].Y())})
		}
		edgeOf[string(*el)] = append(edgeOf[string(*el)], pts)
	}
	psC, shC, edC := []string{}, []string{}, []string{}
	var all []c19Rect
	gapsOK := cfg.ColumnGap >= 120 && cfg.RowGap >= 100 && cfg.ProcessGap >= 100
	nShapes, nEdges := 0, 0
	for pi := range defs.ProcessField {
		p := &defs.ProcessField[pi]
		ids := c19AllNodeIds(p)
		idx := map[string]int{}
		types := []string{}
		rects := []string{}
		for i, id := range ids {
			idx[id] = i
			e, _ := p.FindBy(schema.ExactId(id).And(schema.ElementInterface((*schema.FlowNodeInterface)(nil))))
			types = append(types, fmt.Sprintf("\"%s\"%%string", reflect.TypeOf(e).Elem().Name()))
			rs := shapeOf[id]
			nShapes += len(rs)
			if len(rs) != 1 {
				rep.Violate("C19-layout", cs, fmt.Sprintf("node %s has %d shapes", id, len(rs)))
				return ""
			}
			r := rs[0]
			for _, v := range []float64{r.x, r.y, r.w, r.h} {
				if math.IsNaN(v) || math.IsInf(v, 0) {
					rep.Violate("C19-layout", cs, "non-finite coordinate")
					return ""
				}
			}
			all = append(all, r)
			x, o1 := q2(r.x)
			y, o2 := q2(r.y)
			w, o3 := q2(r.w)
			h, o4 := q2(r.h)
			if !(o1 && o2 && o3 && o4) {
				rep.Violate("C19-layout", cs, fmt.Sprintf("coordinate of %s not a multiple of 0.5: %+v", id, r))
				return ""
			}
			rects = append(rects, fmt.Sprintf("(%d,%d,%d,%d)%%Z", x, y, w, h))
		}
		edges := []string{}
		ways := []string{}
		for i := range p.SequenceFlowField {
			f := &p.SequenceFlowField[i]
			fid, _ := f.Id()
			s, t := idx[string(f.SourceRefField)], idx[string(f.TargetRefField)]
			edges = append(edges, fmt.Sprintf("(%d,%d)", s, t))
			es := edgeOf[*fid]
			nEdges += len(es)
			if len(es) != 1 {
				rep.Violate("C19-layout", cs, fmt.Sprintf("flow %s has %d edges", *fid, len(es)))
				return ""
			}
			pts := es[0]
			ps := []string{}
			for _, pt := range pts {
				a, o1 := q4(pt[0])
				b, o2 := q4(pt[1])
				if !o1 || !o2 {
					rep.Violate("C19-layout", cs, "waypoint not a multiple of 0.25")
					return ""
				}
				ps = append(ps, fmt.Sprintf("(%d,%d)%%Z", a, b))
			}
			ways = append(ways, "["+strings.Join(ps, ";")+"]")
			// oracle: first point on the source shape, last on the target shape
			sr, tr := shapeOf[string(f.SourceRefField)][0], shapeOf[string(f.TargetRefField)][0]
			on := func(r c19Rect, pt [2]float64) bool {
				return pt[0] >= r.x && pt[0] <= r.x+r.w && pt[1] >= r.y && pt[1] <= r.y+r.h
			}
			if len(pts) < 2 || !on(sr, pts[0]) || !on(tr, pts[len(pts)-1]) {
				rep.Violate("C19-layout", cs, fmt.Sprintf("edge %s does not start on its source shape / end on its target shape: %v", *fid, pts))
			}
		}
		psC = append(psC, fmt.Sprintf("(%d,[%s],[%s])", len(ids), strings.Join(edges, ";"), strings.Join(types, ";")))
		shC = append(shC, "["+strings.Join(rects, ";")+"]")
		edC = append(edC, "["+strings.Join(ways, ";")+"]")
	}
	if nShapes != len(plane.BPMNShapeFields) || nEdges != len(plane.BPMNEdgeFields) {
		rep.Violate("C19-layout", cs, fmt.Sprintf("%d shapes for %d nodes / %d edges for %d flows", len(plane.BPMNShapeFields), nShapes, len(plane.BPMNEdgeFields), nEdges))
	}
	if gapsOK {
		for i := range all {
			for j := i + 1; j < len(all); j++ {
				a, b := all[i], all[j]
				if a.x < b.x+b.w && b.x < a.x+a.w && a.y < b.y+b.h && b.y < a.y+a.h {
					rep.Violate("C19-overlap", cs, fmt.Sprintf("shapes %+v and %+v overlap although the gaps are at least the node sizes", a, b))
				}
			}
		}
	}
	z := func(v float64) int64 { r, _ := q2(v); return r }
	for _, v := range []float64{cfg.StartX, cfg.StartY, cfg.ColumnGap, cfg.RowGap, cfg.ProcessGap} {
		if _, ok := q2(v); !ok {
			return ""
		}
	}
	return fmt.Sprintf("((%d,%d,%d,%d,%d)%%Z,[%s],[%s],[%s])", z(cfg.StartX), z(cfg.StartY), z(cfg.ColumnGap), z(cfg.RowGap), z(cfg.ProcessGap),
		strings.Join(psC, ";"), strings.Join(shC, ";"), strings.Join(edC, ";"))
}

func runC19(env *Env) {
	rep := &Report{Property: "C19",
		Rule: "builder: sequences of 0..12 AddActivity calls over the 10 activity types with/without preset ids (exhaustive for length<=1, seeded beyond): structure extracted and compared with the model's chain, re-extracted after xml.Marshal+schema.Parse, engine run on the re-parsed definitions; layout: 1..3 built processes plus hand-written acyclic gateway graphs under a grid of configurations (defaults, gaps equal to the node sizes, dyadic values, too-small gaps); non-trivial = at least 2 activities or 2 processes or a gateway graph; distinct by inputs"}
	rng := rand.New(rand.NewSource(env.Seed))
	nSeq, nLay := 60, 60
	if env.Thorough() {
		nSeq, nLay = 600, 600
	}
	var seqs [][]int
	seqs = append(seqs, []int{})
	for k := 0; k < 10; k++ {
		seqs = append(seqs, []int{k})
	}
	for i := 0; i < nSeq; i++ {
		n := 2 + rng.Intn(11)
		s := make([]int, n)
		for j := range s {
			s[j] = rng.Intn(10)
		}
		seqs = append(seqs, s)
	}
	// long runs of one activity type (element slices growing past any reserved capacity), and long mixed chains
	for k := 0; k < 10; k++ {
		n := 9 + (k*3)%12 // 9..20
		s := make([]int, n)
		for j := range s {
			s[j] = k
		}
		seqs = append(seqs, s)
	}
	for i := 0; i < 4; i++ {
		n := 17 + rng.Intn(16)
		s := make([]int, n)
		k := rng.Intn(10)
		for j := range s {
			if rng.Intn(4) == 0 {
				k = rng.Intn(10)
			}
			s[j] = k // runs of equal types of random length
		}
		seqs = append(seqs, s)
	}
	var bitems []string
	for si, acts := range seqs {
		presets := make([]string, len(acts))
		for j := range presets {
			if (si+j)%3 == 0 {
				presets[j] = fmt.Sprintf("my_%d_%d", si, j)
			}
		}
		cs := fmt.Sprintf("AddActivity sequence kinds=%v presets=%v", acts, presets)
		env.Current(cs)
		p, order := c19BuildProcess(acts, presets)
		st := c19Extract(p, order)
		rep.Evaluations++
		rep.Count(fmt.Sprintf("builder_len%d", len(acts)))
		if len(acts) >= 2 {
			rep.Nontrivial++
		}
		if msg := c19WF(p, st); msg != "" {
			rep.Violate("C19-wellformed", cs, msg)
			continue
		}
		if len(c19AllNodeIds(p)) != len(order) {
			rep.Violate("C19-wellformed", cs, fmt.Sprintf("%d flow nodes in the process, %d were added", len(c19AllNodeIds(p)), len(order)))
		}
		nm := &numbering{m: map[string]int{}}
		start := nm.of("N:" + order[0])
		steps, nodes, flows := st.coq(start, nm)
		bitems = append(bitems, fmt.Sprintf("(%d,%s,%s,%s)", start, steps, nodes, flows))
		// XML round trip, structure again, engine run
		db := schema.NewDefinitionsBuilder()
		db.AddProcess(*p)
		defs := db.Out()
		data, err := xml.Marshal(defs)
		if err != nil {
			rep.Violate("C19-roundtrip", cs, "marshal: "+err.Error())
			continue
		}
		defs2, err := schema.Parse(data)
		if err != nil {
			rep.Violate("C19-roundtrip", cs, "parse: "+err.Error())
			continue
		}
		p2 := &(*defs2.Processes())[0]
		st2 := c19Extract(p2, order)
		if fmt.Sprint(st2) != fmt.Sprint(st) {
			rep.Violate("C19-roundtrip", cs, fmt.Sprintf("structure changed by marshal+parse: %v vs %v", st, st2))
		}
		hasSub := false
		for _, k := range acts {
			if k == 9 {
				hasSub = true
			}
		}
		if !hasSub {
			got, done, log := c19Run(defs2, len(acts))
			want := order[1 : len(order)-1]
			if fmt.Sprint(got) != fmt.Sprint(want) || !done {
				rep.Violate("C19-run", cs, fmt.Sprintf("requested %v, expected %v once each in insertion order; completed=%v; log: %s", got, want, done, logString(log)))
			}
			rep.Count("engine_runs")
		}
		if len(acts) >= 3 && len(rep.Samples) < 3 {
			rep.Sample(cs + " -> chain of " + fmt.Sprint(len(order)) + " nodes, " + fmt.Sprint(len(st.flows)) + " flows")
		}
	}
	env.WriteCases(rep, "_builder", "Corr.C19corr", "nat * list (nat * nat) * list (nat * list nat * list nat) * list (nat * nat * nat)", bitems, "c19_builder_mismatches")

	// ---- layout
	cfgs := []*schema.AutoLayoutConfig{
		schema.DefaultAutoLayoutConfig(),
		{StartX: 0, StartY: 0, ColumnGap: 120, RowGap: 100, ProcessGap: 100},
		{StartX: 10.5, StartY: 300.5, ColumnGap: 200.5, RowGap: 150.5, ProcessGap: 120},
		{StartX: 96, StartY: 96, ColumnGap: 50, RowGap: 40, ProcessGap: 0},
		{StartX: -40, StartY: -1000, ColumnGap: 1000, RowGap: 100, ProcessGap: 5000},
	}
	var litems []string
	// graphs with gateways, three of them with a flow back to an earlier node (loops)
	gw := []*Prog{c04Prog([]int{1, 0, 1}, 1, 2, ""), c04Prog([]int{1, 1}, -1, 3, ""), c04Prog([]int{0, 0, 0, 1}, 3, 1, ""),
		c03Prog(2, 1), c03Prog(3, 2), c19LoopProg(), c19NestedSplitProg(), c19NestedSplitProg()}
	// every gateway graph once on its own, with the documented defaults and with one other configuration
	for gi, g := range gw {
		for ci := 0; ci < 2; ci++ {
			defs, err := ParseDefs(g.XML(""))
			must(err)
			pp := (*defs.Processes())[0]
			pp.IdField = schema.NewStringP(fmt.Sprintf("PG%d_%d", gi, ci))
			lb := fmt.Sprintf("gateway-graph %d alone", gi)
			env.Current("layout of " + lb)
			it := c19Layout(rep, []*schema.Process{&pp}, cfgs[ci], lb)
			rep.Evaluations++
			rep.Nontrivial++
			rep.Count("layout_gateway_graph_alone")
			if it != "" {
				litems = append(litems, it)
			}
		}
	}
	for i := 0; i < nLay; i++ {
		np := 1 + rng.Intn(3)
		procs := []*schema.Process{}
		label := []string{}
		usedGw := false
		for k := 0; k < np; k++ {
			if !usedGw && rng.Intn(3) == 0 { // at most one gateway graph per definitions (its node ids are fixed)
				usedGw = true
				g := gw[rng.Intn(len(gw))]
				defs, err := ParseDefs(g.XML(""))
				must(err)
				pp := (*defs.Processes())[0]
				pp.IdField = schema.NewStringP(fmt.Sprintf("P%d_%d", i, k))
				procs = append(procs, &pp)
				label = append(label, "gateway-graph")
				continue
			}
			n := rng.Intn(7)
			acts := make([]int, n)
			pre := make([]string, n)
			for j := range acts {
				acts[j] = rng.Intn(10)
			}
			p, _ := c19BuildProcess(acts, pre)
			procs = append(procs, p)
			label = append(label, fmt.Sprint(acts))
		}
		cfg := cfgs[i%len(cfgs)]
		lb := strings.Join(label, " | ")
		env.Current("layout of processes " + lb + fmt.Sprintf(" cfg=%+v", *cfg))
		it := c19Layout(rep, procs, cfg, lb)
		rep.Evaluations++
		rep.Count(fmt.Sprintf("layout_procs%d_cfg%d", np, i%len(cfgs)))
		if np >= 2 || strings.Contains(lb, "gateway") {
			rep.Nontrivial++
		}
		if it != "" {
			litems = append(litems, it)
		}
		if i < 3 {
			rep.Sample(fmt.Sprintf("layout of [%s] with cfg %+v", lb, *cfg))
		}
	}
	env.WriteCases(rep, "_layout", "Corr.C19corr", "(Z * Z * Z * Z * Z) * list (nat * list (nat * nat) * list string) * list (list (Z * Z * Z * Z)) * list (list (list (Z * Z)))", litems, "c19_layout_mismatches")
	env.WriteReport(rep)
}

// c19LoopProg: start -> M -> T -> X, X -> M (back) and X -> fork -> A, B -> two end events: a loop followed by a split
func c19LoopProg() *Prog {
	p := &Prog{}
	p.Node("start", "start")
	p.Node("xor", "M")
	p.Node("task", "T")
	x := p.Node("xor", "X")
	p.Node("par", "F")
	p.Node("task", "A")
	p.Node("task", "B")
	p.Node("end", "endA")
	p.Node("end", "endB")
	p.Flow("start", "M", "")
	p.Flow("M", "T", "")
	p.Flow("T", "X", "")
	p.Flow("X", "M", "again")
	x.Default = p.Flow("X", "F", "").ID
	p.Flow("F", "A", "")
	p.Flow("F", "B", "")
	p.Flow("A", "endA", "")
	p.Flow("B", "endB", "")
	return p
}

// c19NestedSplitProg: a split whose third branch is a split again (the inner split sits on a lower row, its branches
// are alone in their column): start -> G1 -> {A, B, G2}, G2 -> {D, E}, every branch with an end event of its own
func c19NestedSplitProg() *Prog {
	p := &Prog{}
	p.Node("start", "start")
	g1 := p.Node("xor", "G1")
	p.Node("end", "endA")
	p.Node("end", "endB")
	g2 := p.Node("xor", "G2")
	p.Node("task", "D")
	p.Node("task", "E")
	p.Node("end", "endD")
	p.Node("end", "endE")
	p.Flow("start", "G1", "")
	p.Flow("G1", "endA", "c0")
	p.Flow("G1", "endB", "c1")
	g1.Default = p.Flow("G1", "G2", "").ID
	p.Flow("G2", "D", "c2")
	g2.Default = p.Flow("G2", "E", "").ID
	p.Flow("D", "endD", "")
	p.Flow("E", "endE", "")
	return p
}
