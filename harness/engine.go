package main

// Engine driver: builds process definitions as XML, runs instances of /repo's engine through its
// public API, records the trace stream as a canonical event log, answers task requests on demand.

import (
	"hash/fnv"
	"reflect"
	"context"
	"fmt"
	"strings"
	"sync"
	"sync/atomic"
	"time"

	"github.com/olive-io/bpmn/schema"
	bpmn "github.com/olive-io/bpmn/v2"
	"github.com/olive-io/bpmn/v2/pkg/event"
	"github.com/olive-io/bpmn/v2/pkg/id"
	"github.com/olive-io/bpmn/v2/pkg/tracing"
)

// ---------- program builder ----------

type PNode struct {
	Kind    string // start end task xor par incl ebg catch throw sub boundary
	ID      string
	Default string   // default flow id (xor/incl/task)
	Results []string // declared result names (tasks)
	Inner   string   // extra inner XML (event definitions, extension elements ...)
	Ext     string   // extra XML inside this node's own <extensionElements> (next to the declared results)
	Attrs   string   // extra attributes
	Sub     *Prog    // sub-process body
}

type PFlow struct {
	ID, Src, Dst, Cond string
	Lang               string // "" = definitions default (expr); "xpath"
	Informal           bool
}

type Prog struct {
	Nodes []*PNode
	Flows []*PFlow
	nflow int
	Raw   string // further children of the process / sub-process element (data objects ...)
}

func (p *Prog) Node(kind, id string) *PNode {
	n := &PNode{Kind: kind, ID: id}
	p.Nodes = append(p.Nodes, n)
	return n
}

func (p *Prog) Flow(src, dst, cond string) *PFlow {
	p.nflow++
	f := &PFlow{ID: fmt.Sprintf("f_%s_%s_%d", src, dst, p.nflow), Src: src, Dst: dst, Cond: cond}
	p.Flows = append(p.Flows, f)
	return f
}

var kindElem = map[string]string{
	"start": "startEvent", "end": "endEvent", "task": "serviceTask", "xor": "exclusiveGateway",
	"par": "parallelGateway", "incl": "inclusiveGateway", "ebg": "eventBasedGateway",
	"catch": "intermediateCatchEvent", "throw": "intermediateThrowEvent", "sub": "subProcess",
	"boundary": "boundaryEvent", "plaintask": "task", "usertask": "userTask",
	"complex": "complexGateway", // an element the engine does not execute
}

const xpathLang = "http://www.w3.org/1999/XPath"

func xmlEsc(s string) string {
	r := strings.NewReplacer("&", "&amp;", "<", "&lt;", ">", "&gt;", "\"", "&quot;")
	return r.Replace(s)
}

// taskKinds: the element kinds the engine runs as tasks; a Prog node of kind "task" is written as one of them, chosen by
// its id (the same node is the same kind in every rendering of its program)
var taskKinds = []string{"serviceTask", "userTask", "scriptTask", "manualTask", "businessRuleTask", "callActivity", "receiveTask", "sendTask", "task"}

func taskKindOf(id string) string {
	h := fnv.New32a()
	h.Write([]byte(id))
	return taskKinds[h.Sum32()%uint32(len(taskKinds))]
}

func (p *Prog) body(sb *strings.Builder) {
	sb.WriteString(p.Raw)
	for _, n := range p.Nodes {
		el := kindElem[n.Kind]
		if n.Kind == "task" {
			el = taskKindOf(n.ID)
		}
		fmt.Fprintf(sb, "<bpmn:%s id=\"%s\"", el, n.ID)
		if n.Default != "" {
			fmt.Fprintf(sb, " default=\"%s\"", n.Default)
		}
		if n.Attrs != "" {
			sb.WriteString(" " + n.Attrs)
		}
		sb.WriteString(">")
		if len(n.Results) > 0 || n.Ext != "" {
			sb.WriteString("<bpmn:extensionElements>" + n.Ext)
			if len(n.Results) > 0 {
				sb.WriteString("<olive:results>")
				for _, r := range n.Results {
					fmt.Fprintf(sb, "<olive:field name=\"%s\" type=\"boolean\"/>", r)
				}
				sb.WriteString("</olive:results>")
			}
			sb.WriteString("</bpmn:extensionElements>")
		}
		for _, f := range p.Flows {
			if f.Dst == n.ID {
				fmt.Fprintf(sb, "<bpmn:incoming>%s</bpmn:incoming>", f.ID)
			}
		}
		for _, f := range p.Flows {
			if f.Src == n.ID {
				fmt.Fprintf(sb, "<bpmn:outgoing>%s</bpmn:outgoing>", f.ID)
			}
		}
		sb.WriteString(n.Inner)
		if n.Sub != nil {
			n.Sub.body(sb)
		}
		fmt.Fprintf(sb, "</bpmn:%s>\n", el)
	}
	// the <sequenceFlow> elements are declared in the order of p.Flows or (about every other program, decided by its node ids) in the
	// reverse order: what counts is the order in which a node lists its <outgoing> references, written above
	decl := append([]*PFlow{}, p.Flows...)
	hsh := fnv.New32a()
	for _, n := range p.Nodes {
		hsh.Write([]byte(n.ID))
	}
	if (hsh.Sum32()>>3)%2 == 1 {
		for i, j := 0, len(decl)-1; i < j; i, j = i+1, j-1 {
			decl[i], decl[j] = decl[j], decl[i]
		}
	}
	for _, f := range decl {
		fmt.Fprintf(sb, "<bpmn:sequenceFlow id=\"%s\" sourceRef=\"%s\" targetRef=\"%s\"", f.ID, f.Src, f.Dst)
		if f.Cond == "" {
			sb.WriteString("/>\n")
			continue
		}
		sb.WriteString(">")
		if f.Informal {
			fmt.Fprintf(sb, "<bpmn:conditionExpression>%s</bpmn:conditionExpression>", xmlEsc(f.Cond))
		} else if f.Lang == "xpath" {
			fmt.Fprintf(sb, "<bpmn:conditionExpression xsi:type=\"bpmn:tFormalExpression\" language=\"%s\">%s</bpmn:conditionExpression>", xpathLang, xmlEsc(f.Cond))
		} else {
			fmt.Fprintf(sb, "<bpmn:conditionExpression xsi:type=\"bpmn:tFormalExpression\">%s</bpmn:conditionExpression>", xmlEsc(f.Cond))
		}
		sb.WriteString("</bpmn:sequenceFlow>\n")
	}
}

const defsHead = `<?xml version="1.0" encoding="UTF-8"?>
<bpmn:definitions xmlns:bpmn="http://www.omg.org/spec/BPMN/20100524/MODEL" xmlns:xsi="http://www.w3.org/2001/XMLSchema-instance" xmlns:olive="http://olive.io/spec/BPMN/MODEL" id="defs" targetNamespace="http://bpmn.io/schema/bpmn" expressionLanguage="https://github.com/expr-lang/expr">
`

// XML renders the program as one executable process. `extra` is root-level XML (signals, messages).
func (p *Prog) XML(extra string) string {
	var sb strings.Builder
	sb.WriteString(defsHead)
	sb.WriteString(extra)
	sb.WriteString("<bpmn:process id=\"proc\" isExecutable=\"true\">\n")
	p.body(&sb)
	sb.WriteString("</bpmn:process>\n</bpmn:definitions>\n")
	return sb.String()
}

// ParseDefs remembers the text a document was parsed from: when an instance made from it is closed, the document is
// compared with a fresh parse of the same text (running instances only read the definitions they share)
var defsText sync.Map // *schema.Definitions -> string

// Every other document the harness writes itself is parsed with another prefix for the BPMN namespace (the prefix is
// the document's choice).
var parseCount uint64

func ParseDefs(xmlText string) (*schema.Definitions, error) {
	if strings.HasPrefix(xmlText, defsHead) && atomic.AddUint64(&parseCount, 1)%2 == 0 {
		xmlText = strings.NewReplacer("<bpmn:", "<bpmn2:", "</bpmn:", "</bpmn2:", "xmlns:bpmn=", "xmlns:bpmn2=", "\"bpmn:tFormalExpression\"", "\"bpmn2:tFormalExpression\"").Replace(xmlText)
	}
	d, err := schema.Parse([]byte(xmlText))
	if err == nil {
		defsText.Store(d, xmlText)
	}
	return d, err
}

// ParseDefsShared parses a text once: every later caller gets the same parsed document (several instances of one
// document, one after the other and side by side, as an application would use it)
var defsByText sync.Map // string -> *schema.Definitions

func ParseDefsShared(xmlText string) (*schema.Definitions, error) {
	if d, ok := defsByText.Load(xmlText); ok {
		return d.(*schema.Definitions), nil
	}
	d, err := ParseDefs(xmlText)
	if err == nil {
		defsByText.Store(xmlText, d)
	}
	return d, err
}

// sharedFindings: findings of oracles that watch every instance of every scenario (merged into the report of the
// running command by WriteReport)
var sharedFindings struct {
	sync.Mutex
	list []Violation
	seen map[string]bool
}

func sharedFinding(key, c, detail string) {
	sharedFindings.Lock()
	defer sharedFindings.Unlock()
	if sharedFindings.seen == nil {
		sharedFindings.seen = map[string]bool{}
	}
	if sharedFindings.seen[key+c] || len(sharedFindings.list) >= 6 {
		return
	}
	sharedFindings.seen[key+c] = true
	sharedFindings.list = append(sharedFindings.list, Violation{key, c, detail})
}

// checkDefsUntouched compares the definitions an instance was made from with a fresh parse of their text
func checkDefsUntouched(defs *schema.Definitions) {
	t, ok := defsText.Load(defs)
	if !ok {
		return
	}
	fresh, err := schema.Parse([]byte(t.(string)))
	if err != nil {
		return
	}
	if !reflect.DeepEqual(defs, fresh) {
		txt := t.(string)
		if len(txt) > 1500 {
			txt = txt[:1500] + "..."
		}
		sharedFinding("shared-definitions", "document "+txt, "an instance made from this parsed document changed it: after the run it differs from a fresh parse of the same text (other instances of the document see the change)")
		defsText.Delete(defs) // reported once
	}
}

// ---------- id generator shared by all instances of a harness process ----------

type ctrId struct{ v string }

func (i ctrId) Bytes() []byte  { return []byte(i.v) }
func (i ctrId) String() string { return i.v }

type ctrGen struct{ n uint64 }

func (g *ctrGen) Snapshot() ([]byte, error) { return []byte(fmt.Sprint(atomic.LoadUint64(&g.n))), nil }
func (g *ctrGen) New() id.Id                { return ctrId{fmt.Sprintf("h%d", atomic.AddUint64(&g.n, 1))} }

var sharedGen = &ctrGen{}

type startKey struct{}
var instCount, engineCount uint64

func executables(defs *schema.Definitions) (n int) {
	for i := range *defs.Processes() {
		if ex, ok := (*defs.Processes())[i].IsExecutable(); ok && ex {
			n++
		}
	}
	return
}

// SetXML renders several processes (executable flags given) plus a collaboration with message flows (source throw/… id, target id).
func SetXML(procs []*Prog, executable []bool, flows [][2]string, extra string) string {
	var sb strings.Builder
	sb.WriteString(defsHead)
	sb.WriteString(extra)
	sb.WriteString(`<bpmn:collaboration id="collab">`)
	for i := range procs {
		fmt.Fprintf(&sb, `<bpmn:participant id="part%d" processRef="proc%d"/>`, i, i)
	}
	for i, f := range flows {
		fmt.Fprintf(&sb, `<bpmn:messageFlow id="mf%d" sourceRef="%s" targetRef="%s"/>`, i, f[0], f[1])
	}
	sb.WriteString("</bpmn:collaboration>\n")
	for i, p := range procs {
		fmt.Fprintf(&sb, "<bpmn:process id=\"proc%d\" isExecutable=\"%v\">\n", i, executable[i])
		p.body(&sb)
		sb.WriteString("</bpmn:process>\n")
	}
	sb.WriteString("</bpmn:definitions>\n")
	return sb.String()
}

// NewCollector attaches the event log / task bookkeeping of Inst to any tracer (used for process sets).
func NewCollector(tr tracing.ITracer) *Inst {
	ctx, cancel := context.WithCancel(context.Background())
	in := &Inst{Ctx: ctx, Cancel: cancel, pending: map[string][]bpmn.TaskTrace{}, ntask: map[string]int{}}
	in.cond = sync.NewCond(&in.mu)
	ch := tr.SubscribeChannel(make(chan tracing.ITrace, 64))
	go in.pump(ch)
	return in
}

// ---------- instance runner ----------

type Ev struct {
	K string // task visit leave flow complete term error cease newflow incoming cancel ... or harness marks (answer, mark)
	N string // node id ("" if none)
	X string // extra
}

func (e Ev) String() string {
	if e.X != "" {
		return e.K + ":" + e.N + ":" + e.X
	}
	return e.K + ":" + e.N
}

type Inst struct {
	valued  bool // started by StartInst with a context that carries startKey
	P       *bpmn.Process
	Ctx     context.Context
	Cancel  context.CancelFunc
	mu      sync.Mutex
	cond    *sync.Cond
	defs    *schema.Definitions
	gram    *traceGrammar
	watched bool
	foreign bool
	log     []Ev
	pending map[string][]bpmn.TaskTrace
	ntask   map[string]int
	closed  bool
	raw     func(tracing.ITrace) // optional raw hook
}

func nodeId(n any) string {
	if fn, ok := n.(schema.FlowNodeInterface); ok && fn != nil {
		if p, ok := fn.Id(); ok {
			return *p
		}
	}
	if be, ok := n.(schema.BaseElementInterface); ok && be != nil {
		if p, ok := be.Id(); ok {
			return *p
		}
	}
	return ""
}

type InstOpt struct {
	Vars    map[string]any
	Opts    []bpmn.Option
	Raw     func(tracing.ITrace)
	NoStart bool
	Buf     int
	// ForeignTracer: the instance runs on a tracer or context that the scenario owns (the instance's cancellation does
	// not end it): the shutdown watch of Close does not apply
	ForeignTracer bool
}

// StartInst parses nothing: takes parsed definitions, creates a process instance with a subscriber
// attached BEFORE start, and starts all start events.
func StartInst(defs *schema.Definitions, o InstOpt) (*Inst, error) {
	ctx, cancel := context.WithCancel(context.Background())
	in := &Inst{Ctx: ctx, Cancel: cancel, pending: map[string][]bpmn.TaskTrace{}, ntask: map[string]int{}, raw: o.Raw, defs: defs, foreign: o.ForeignTracer, gram: newTraceGrammar()}
	in.cond = sync.NewCond(&in.mu)
	// every other instance draws its ids from the engine's own default generator, the others from the harness's
	// counter shared by all instances (both are legitimate configurations; a scenario's own option comes last)
	opts := []bpmn.Option{bpmn.WithContext(ctx)}
	if atomic.AddUint64(&instCount, 1)%2 == 0 {
		opts = append(opts, bpmn.WithIdGenerator(sharedGen))
	}
	if o.Vars != nil {
		opts = append(opts, bpmn.WithVariables(o.Vars))
	}
	opts = append(opts, o.Opts...)
	var procElem *schema.Process
	for i := range *defs.Processes() {
		pe := &(*defs.Processes())[i]
		if ex, ok := pe.IsExecutable(); ok && ex {
			procElem = pe
			break
		}
	}
	if procElem == nil {
		cancel()
		return nil, fmt.Errorf("no executable process")
	}
	// every third instance is made through an engine (which finds the executable process itself and supplies its own
	// defaults), the others directly
	var p *bpmn.Process
	var err error
	if n := atomic.AddUint64(&engineCount, 1); n%3 == 0 && executables(defs) == 1 {
		p, err = bpmn.NewEngine().NewProcess(defs, opts...)
	} else {
		p, err = bpmn.NewProcess(procElem, defs, opts...)
	}
	if err != nil {
		cancel()
		return nil, err
	}
	in.P = p
	buf := o.Buf
	if buf == 0 {
		buf = 64
	}
	ch := p.Tracer().SubscribeChannel(make(chan tracing.ITrace, buf))
	go in.pump(ch)
	if !o.NoStart {
		// the instance is started with a context derived from its own that carries a value: every task request, at
		// whatever depth of sub-processes, carries it (checked by the pump)
		in.valued = true
		if err := p.StartAll(context.WithValue(ctx, startKey{}, true)); err != nil {
			cancel()
			return nil, err
		}
	}
	return in, nil
}

func (in *Inst) pump(ch chan tracing.ITrace) {
	for tr := range ch {
		tr = tracing.Unwrap(tr)
		if in.raw != nil {
			in.raw(tr)
		}
		if in.gram != nil && !in.foreign {
			in.gram.step(tr)
		}
		var ev Ev
		switch t := tr.(type) {
		case bpmn.TaskTrace:
			n := nodeId(t.GetActivity().Element())
			if in.valued && (t.Context() == nil || t.Context().Value(startKey{}) == nil) {
				sharedFinding("task-context", "instance of "+in.describe(), "the request of task "+n+" does not carry the context the instance was started with (a value of that context is missing)")
			}
			in.mu.Lock()
			in.pending[n] = append(in.pending[n], t)
			in.ntask[n]++
			in.mu.Unlock()
			ev = Ev{"task", n, ""}
		case bpmn.VisitTrace:
			ev = Ev{"visit", nodeId(t.Node), ""}
		case bpmn.LeaveTrace:
			ev = Ev{"leave", nodeId(t.Node), ""}
		case bpmn.FlowTrace:
			fl := []string{}
			for _, s := range t.Flows {
				if s.SequenceFlow() != nil {
					if p, ok := s.SequenceFlow().Id(); ok {
						fl = append(fl, *p)
					}
				}
			}
			ev = Ev{"flow", nodeId(t.Source), strings.Join(fl, ",")}
		case bpmn.CompletionTrace:
			ev = Ev{"complete", nodeId(t.Node), ""}
		case bpmn.TerminationTrace:
			ev = Ev{"term", nodeId(t.Source), ""}
		case bpmn.ErrorTrace:
			ev = Ev{"error", "", fmt.Sprintf("%T|%v", t.Error, t.Error)}
		case bpmn.CeaseFlowTrace:
			ev = Ev{"cease", "", ""}
			ev.N = nodeId(t.Process)
		case bpmn.CeaseProcessSetTrace:
			ev = Ev{"ceaseset", "", ""}
		case bpmn.NewFlowTrace:
			ev = Ev{"newflow", "", t.FlowId.String()}
		case bpmn.IncomingFlowProcessedTrace:
			ev = Ev{"incoming", nodeId(t.Node), ""}
		case bpmn.CancellationFlowTrace:
			ev = Ev{"cancelflow", nodeId(t.Node), ""}
		case bpmn.CancellationFlowNodeTrace:
			ev = Ev{"cancelnode", nodeId(t.Node), ""}
		case bpmn.InstantiationTrace:
			ev = Ev{"inst", "", ""}
		case bpmn.ActiveBoundaryTrace:
			ev = Ev{"boundary", nodeId(t.Node), fmt.Sprint(t.Start)}
		case bpmn.ActiveListeningTrace:
			ev = Ev{"listening", nodeId(t.Node), ""}
		case bpmn.EventObservedTrace:
			ev = Ev{"observed", nodeId(t.Node), ""}
		case bpmn.DeterminationMadeTrace:
			ev = Ev{"determination", nodeId(t.Node), ""}
		default:
			ev = Ev{"other", "", fmt.Sprintf("%T", tr)}
		}
		in.mu.Lock()
		in.log = append(in.log, ev)
		in.cond.Broadcast()
		in.mu.Unlock()
	}
	in.mu.Lock()
	in.closed = true
	in.cond.Broadcast()
	in.mu.Unlock()
}

// Mark appends a harness-side event to the log (same total order as the observed traces).
func (in *Inst) Mark(k, n, x string) {
	in.mu.Lock()
	in.log = append(in.log, Ev{k, n, x})
	in.cond.Broadcast()
	in.mu.Unlock()
}

func (in *Inst) Log() []Ev {
	in.mu.Lock()
	defer in.mu.Unlock()
	return append([]Ev{}, in.log...)
}

// WaitUntil blocks until pred(log) holds (true) or the timeout expires (false).
func (in *Inst) WaitUntil(timeout time.Duration, pred func(log []Ev) bool) bool {
	deadline := time.Now().Add(timeout)
	stop := time.AfterFunc(timeout, func() { in.mu.Lock(); in.cond.Broadcast(); in.mu.Unlock() })
	defer stop.Stop()
	in.mu.Lock()
	defer in.mu.Unlock()
	for {
		if pred(in.log) {
			return true
		}
		if time.Now().After(deadline) {
			return false
		}
		in.cond.Wait()
	}
}

func countEv(log []Ev, k, n string) int {
	c := 0
	for _, e := range log {
		if e.K == k && (n == "*" || e.N == n) {
			c++
		}
	}
	return c
}

// WaitTask waits until a request for node is pending, removes and returns it (nil on timeout).
func (in *Inst) WaitTask(node string, timeout time.Duration) bpmn.TaskTrace {
	var got bpmn.TaskTrace
	deadline := time.Now().Add(timeout)
	stop := time.AfterFunc(timeout, func() { in.mu.Lock(); in.cond.Broadcast(); in.mu.Unlock() })
	defer stop.Stop()
	in.mu.Lock()
	defer in.mu.Unlock()
	for {
		if q := in.pending[node]; len(q) > 0 {
			got = q[0]
			in.pending[node] = q[1:]
			return got
		}
		if time.Now().After(deadline) {
			return nil
		}
		in.cond.Wait()
	}
}

// PendingNodes lists the nodes with an unanswered request (sorted by first appearance order is not
// needed: callers choose by name).
func (in *Inst) PendingNodes() []string {
	in.mu.Lock()
	defer in.mu.Unlock()
	out := []string{}
	for n, q := range in.pending {
		for range q {
			out = append(out, n)
		}
	}
	return out
}

// Answer answers the oldest pending request of node and logs the mark "answer:node".
func (in *Inst) Answer(node string, timeout time.Duration, opts ...bpmn.DoOption) bool {
	t := in.WaitTask(node, timeout)
	if t == nil {
		return false
	}
	in.Mark("answer", node, "")
	t.Do(opts...)
	return true
}

// Completed waits for the cease-flow trace.
func (in *Inst) WaitCease(timeout time.Duration) bool {
	return in.WaitUntil(timeout, func(l []Ev) bool { return countEv(l, "cease", "*") > 0 })
}

var closeWatch sync.WaitGroup

func (in *Inst) Close() {
	in.Cancel()
	if in.defs != nil {
		checkDefsUntouched(in.defs)
	}
	if in.gram != nil && in.gram.bad != "" {
		sharedFinding("trace-grammar", in.describe(), "the instance's trace stream breaks the causality grammar: "+in.gram.bad)
	}
	// after the cancellation the instance's tracer must come to its end (every sender released, every node gone)
	if in.P != nil && !in.watched && !in.foreign {
		in.watched = true
		tr := in.P.Tracer()
		desc := in.describe()
		closeWatch.Add(1)
		go func() {
			defer closeWatch.Done()
			select {
			case <-tr.Done():
			case <-time.After(3 * time.Second):
				sharedFinding("shutdown", desc, "3 s after the instance was cancelled its tracer has not terminated (a sender was never released or a goroutine of the instance is stuck)")
			}
		}()
	}
}

// describe: what identifies the instance in a finding (the head of its log)
func (in *Inst) describe() string {
	l := in.Log()
	if len(l) > 40 {
		l = l[:40]
	}
	return "instance with log " + logString(l)
}

func (in *Inst) Signal(name string) (event.ConsumptionResult, error) {
	return in.P.ConsumeEvent(event.NewSignalEvent(name))
}

func logString(l []Ev) string {
	s := make([]string, len(l))
	for i, e := range l {
		s[i] = e.String()
	}
	return strings.Join(s, " ")
}

const (
	tmoStep = 12 * time.Second       // generous bound for "must appear" (a loaded machine stalled a run for more than 5 s once)
	settle  = 30 * time.Millisecond // settle delay where absence is asserted
)

// traceGrammar: the causality grammar of Model/TraceGrammar.v (C09), applied to the stream of every instance of every
// scenario as it is received: no new flow with the id of a terminated one; a node is left at most as often as it was
// visited; no flow trace of a terminated flow; an announced flow has not started before its announcement; a flow
// terminates once. The first violation of an instance is reported (finding key <property>-trace-grammar).
type traceGrammar struct {
	started, dead map[string]bool
	visits, leave map[string]int
	n             int
	bad           string
}

func newTraceGrammar() *traceGrammar {
	return &traceGrammar{started: map[string]bool{}, dead: map[string]bool{}, visits: map[string]int{}, leave: map[string]int{}}
}

func (g *traceGrammar) step(tr tracing.ITrace) {
	g.n++
	if g.bad != "" {
		return
	}
	fail := func(msg string) { g.bad = fmt.Sprintf("trace %d: %s", g.n, msg) }
	switch t := tr.(type) {
	case bpmn.NewFlowTrace:
		f := t.FlowId.String()
		if g.dead[f] {
			fail("a new flow carries the id of a terminated one (" + f + ")")
		}
		g.started[f] = true
	case bpmn.VisitTrace:
		g.visits[nodeId(t.Node)]++
	case bpmn.LeaveTrace:
		n := nodeId(t.Node)
		if g.leave[n] >= g.visits[n] {
			fail("node " + n + " is left more often than it was visited")
		}
		g.leave[n]++
	case bpmn.FlowTrace:
		cont := false
		for _, s := range t.Flows {
			f := s.Id().String()
			if g.started[f] && !cont {
				cont = true // the continuing token
				if g.dead[f] {
					fail("flow trace of the terminated flow " + f)
				}
			} else if g.started[f] {
				fail("the flow trace at " + nodeId(t.Source) + " announces flow " + f + ", which has already started")
			}
		}
	case bpmn.TerminationTrace:
		f := t.FlowId.String()
		if g.dead[f] {
			fail("flow " + f + " terminated twice")
		}
		g.dead[f] = true
	case bpmn.CancellationFlowTrace:
		f := t.FlowId.String()
		if g.dead[f] {
			fail("flow " + f + " terminated twice")
		}
		g.dead[f] = true
	}
}
